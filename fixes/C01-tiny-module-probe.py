"""Reproducer (real code, no harness) for the lead recorded in DESIGN.md section 12, sixth round, `C01-16`:
a VALID die description is rejected ("Some rectangles overlap") on the unchanged tree when the attached netlist, loaded
first, also holds a soft module about 1e-4 of the die side and the coordinates are large and inexact in binary
(step 1234567.8, the `mega` embedding).  Run: /venv/bin/python fixes/C01-tiny-module-probe.py   (prints one line per
module size; exit 0 always: this is a probe, not a check)."""
import sys
sys.path.insert(0, "/repo")
from frame.geometry.geometry import Rectangle
from frame.die.die import Die
from frame.netlist.netlist import Netlist

S = 1234567.8


def run(W, H, fixed, regions, tiny):
    Rectangle.undefine_epsilon()
    mods = {f"F{i}": {"fixed": True, "rectangles": [[(x + w / 2) * S, (y + h / 2) * S, w * S, h * S]]}
            for i, (x, y, w, h) in enumerate(fixed)}
    if tiny:
        mods["S"] = {"area": (S * tiny) ** 2}
    n = Netlist({"Modules": mods, "Nets": []})
    dd = {"width": W * S, "height": H * S}
    if regions:
        dd["regions"] = [[(x + w / 2) * S, (y + h / 2) * S, w * S, h * S, t] for x, y, w, h, t in regions]
    try:
        Die(dd, n)
        return "accepted"
    except AssertionError as e:
        return "REJECTED: " + str(e)


for tiny in (None, 1.0, 1e-2, 1e-3, 1e-4):
    print(tiny, run(96, 96, [(32, 32, 32, 32)], [], tiny), "|", run(96, 96, [(32, 0, 32, 96)], [(0, 0, 32, 32, "#")], tiny))
