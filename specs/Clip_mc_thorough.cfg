\* exhaustive: every segment with end points on 0..7 x 0..7 (4096) in 6 windows
SPECIFICATION Spec
CONSTANTS
  N = 7
  WINDOWS <- ThoroughWindows
  DEFECTS = {}
  EMIT = FALSE
INVARIANT TypeOK
INVARIANT MachineIsFunction
INVARIANT ClipIsIntersection
INVARIANT RejectedIffMisses
INVARIANT OrderIndependent
INVARIANT Within4
INVARIANT StaysOnLine
CHECK_DEADLOCK FALSE
