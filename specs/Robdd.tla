------------------------------- MODULE Robdd -------------------------------
(***************************************************************************)
(* C07 (detail level) -- how the SAT layer turns one pseudo-Boolean        *)
(* inequality into clauses.                                                *)
(*                                                                         *)
(* Subject: tools/rect/pseudobool.py  Ineq.isclause, Ineq.getrobdd,        *)
(*          constructrobdd and the process-wide store memory / mmap;       *)
(*          tools/rect/satmanager.py  _codifyrobdd, quadraticencoding,     *)
(*          heuleencoding.                                                 *)
(*                                                                         *)
(*  * ClauseForm   the isclause shortcut: an inequality that is a plain    *)
(*                 disjunction (or a tautology) is posted as one clause.   *)
(*  * Build        constructrobdd specialised by getrobdd (both variants:  *)
(*                 plain, and "coefficient decomposition" where the top    *)
(*                 coefficient is peeled one power of two at a time, so a  *)
(*                 variable may be decided several times along a path).    *)
(*                 It threads the GLOBAL store exactly like the code:      *)
(*                 if-branch first, then else-branch, look the triple up   *)
(*                 before appending; the per-call memo table is modelled   *)
(*                 too.  store[i] is the node with id i+1 (ids 0 and 1 are *)
(*                 the terminals, pseudobool.memory = [0, 1, node2, ...]). *)
(*  * Codify       the one-directional Tseitin translation of a diagram:   *)
(*                 node -> (var -> hi), node -> (~var -> lo), ~node0,      *)
(*                 node1; a manager codifies every node at most once.      *)
(*  * Quadratic / Heule   the two at-most-one encodings.                   *)
(*  * Satisfiable  a small DPLL over sets of clauses, so that TLC itself   *)
(*                 can project a modelled CNF onto the user's variables.   *)
(*  * UnitProp     unit propagation on a CNF, and what it means for it to  *)
(*                 be COMPLETE for a constraint (arc consistency): under   *)
(*                 every partial assignment of the user's variables it     *)
(*                 finds the conflict if no solution is left, and derives  *)
(*                 every literal all remaining solutions agree on.         *)
(*                 getrobdd's docstring says the plain construction has    *)
(*                 this and the coefficient decomposition has not; TLC     *)
(*                 checks both statements (UnitPropagationDetects /        *)
(*                 UnitPropagationComplete, cfgs Robdd_up_*.cfg).          *)
(*                                                                         *)
(* CNF variables are integers: user variable v -> UVar(v) in 1..NV, the    *)
(* Tseitin variable of node n -> 100+n, Heule's fresh variable j -> 200+j; *)
(* a literal is +-variable, a clause a set of literals, a CNF a set of     *)
(* clauses.                                                                *)
(*                                                                         *)
(* The module has its own little state machine (BuildOne): inequalities of *)
(* a bounded universe are built one after the other into the same store;   *)
(* invariants Canonical, NodeSem, TseitinExact.  SatLayer.tla uses the     *)
(* operators for the design-level check of the whole layer.                *)
(***************************************************************************)
EXTENDS PBExpr

(***************************************************************************)
(* Sorted term lists                                                       *)
(***************************************************************************)
MaxSum(ts) == SumSeq([i \in DOMAIN ts |-> ts[i][3]])
\* place x behind every element whose coefficient is >= x's (the list is sorted by decreasing
\* coefficient, so those form a prefix): the position both of Python's stable sort(key=-c) and of
\* pseudobool.insert (which bubbles the new term up only past strictly smaller coefficients)
InsertStable(ts, x) ==
  LET n == Cardinality({i \in DOMAIN ts : ts[i][3] >= x[3]})
  IN SubSeq(ts, 1, n) \o <<x>> \o SubSeq(ts, n + 1, Len(ts))
RECURSIVE SortDesc(_)
SortDesc(ts) == IF ts = <<>> THEN <<>> ELSE InsertStable(SortDesc(SubSeq(ts, 1, Len(ts) - 1)), ts[Len(ts)])
Insert(ts, x) == IF x[3] = 0 THEN ts ELSE InsertStable(ts, x)

RECURSIVE LargeBitFrom(_, _)
LargeBitFrom(i, n) == IF 2 * i <= n THEN LargeBitFrom(2 * i, n) ELSE i
LargeBit(n) == LargeBitFrom(1, n)      \* largest power of two <= n (n >= 1)

(***************************************************************************)
(* isclause: is the normalised inequality  terms (>=|>) rhs  a disjunction?*)
(* A term whose coefficient alone reaches the bound is a disjunct; the     *)
(* remaining terms together must not reach it.  kind: "taut" (nothing to   *)
(* post), "clause" (post `lits`, possibly the empty clause), "no".         *)
(* Tautology: rhs <= 0 for >=, but rhs < 0 for > (a sum of non-negative    *)
(* terms is >= 0 always, > 0 only if some literal is true).                *)
(***************************************************************************)
ClauseForm(q) ==
  LET no == [kind |-> "no", lits |-> <<>>] IN
  IF q.op \notin {">=", ">"} THEN no
  ELSE IF (q.op = ">=" /\ q.rhs <= 0) \/ (q.op = ">" /\ q.rhs < 0) THEN [kind |-> "taut", lits |-> <<>>]
  ELSE LET ts == SortDesc(q.lhs.t)
           Big(i) == ts[i][3] > q.rhs \/ (ts[i][3] >= q.rhs /\ q.op = ">=")
           n == Cardinality({i \in DOMAIN ts : Big(i)})
           rest == SumSeq([i \in 1..(Len(ts) - n) |-> ts[n + i][3]])
       IN IF rest > q.rhs \/ (rest >= q.rhs /\ q.op = ">=") THEN no
          ELSE [kind |-> "clause", lits |-> [i \in 1..n |-> <<ts[i][1], ts[i][2]>>]]

(***************************************************************************)
(* constructrobdd for  ts >= b                                             *)
(***************************************************************************)
PosOf(store, obj) == IF \E i \in DOMAIN store : store[i] = obj THEN CHOOSE i \in DOMAIN store : store[i] = obj ELSE 0

RECURSIVE Build(_, _, _, _, _)
Build(ts, b, dec, store, memo) ==
  LET key == <<ts, b>> IN
  IF key \in DOMAIN memo THEN [id |-> memo[key], store |-> store, memo |-> memo]
  ELSE IF MaxSum(ts) < b \/ b <= 0 THEN [id |-> IF b <= 0 THEN 1 ELSE 0, store |-> store, memo |-> memo]
  ELSE LET h == ts[1]
           w == IF dec THEN LargeBit(h[3]) ELSE h[3]                     \* weight decided at this node
           rest == IF dec THEN Insert(Tail(ts), <<h[1], h[2], h[3] - w>>) ELSE Tail(ts)
           bi == IF h[2] = 1 THEN b - w ELSE b                           \* variable true
           be == IF h[2] = 1 THEN b ELSE b - w                           \* variable false
           I == Build(rest, bi, dec, store, memo)
           E == Build(rest, be, dec, I.store, I.memo)
       IN IF I.id = E.id THEN [id |-> I.id, store |-> E.store, memo |-> E.memo]
          ELSE LET obj == <<h[1], I.id, E.id>>
                   pos == PosOf(E.store, obj)
                   st2 == IF pos = 0 THEN Append(E.store, obj) ELSE E.store
                   nid == IF pos = 0 THEN Len(st2) + 1 ELSE pos + 1
               IN [id |-> nid, store |-> st2, memo |-> (key :> nid) @@ E.memo]

NoMemo == [x \in {} |-> 0]
\* getrobdd of a normalised inequality (only >= is implemented)
GetRobdd(q, dec, store) == Build(SortDesc(q.lhs.t), q.rhs, dec, store, NoMemo)

\* the Boolean function of a node: follow the ACTUAL assignment (so, with decomposition, only
\* consistent paths are ever followed)
RECURSIVE NodeFun(_, _, _)
NodeFun(store, id, a) ==
  IF id <= 1 THEN id
  ELSE LET n == store[id - 1] IN NodeFun(store, IF BitOf(n[1], a) = 1 THEN n[2] ELSE n[3], a)

(***************************************************************************)
(* Clauses                                                                 *)
(***************************************************************************)
UVar(v) == CHOOSE i \in 1..NV : VarList[i] = v
NodeVar(n) == 100 + n
AuxVar(j) == 200 + j
ULit(l) == IF l[2] = 1 THEN UVar(l[1]) ELSE -UVar(l[1])          \* l = <<v, s>>
LitSeq(ls) == [i \in DOMAIN ls |-> ULit(ls[i])]                    \* sequence of <<v,s>> -> CNF literals

\* _codifyrobdd(id) for a manager that has already codified the nodes in `cod`
RECURSIVE Codify(_, _, _)
Codify(store, id, cod) ==
  IF id \in cod THEN [cls |-> {}, cod |-> cod]
  ELSE IF id = 0 THEN [cls |-> {{-NodeVar(0)}}, cod |-> cod \cup {0}]
  ELSE IF id = 1 THEN [cls |-> {{NodeVar(1)}}, cod |-> cod \cup {1}]
  ELSE LET n == store[id - 1]
           H == Codify(store, n[2], cod \cup {id})
           G == Codify(store, n[3], H.cod)
       IN [cls |-> H.cls \cup G.cls \cup {{-NodeVar(id), -UVar(n[1]), NodeVar(n[2])},
                                          {-NodeVar(id), UVar(n[1]), NodeVar(n[3])}},
           cod |-> G.cod]

\* at most one of a SEQUENCE of CNF literals (a literal listed twice counts twice)
Quadratic(ls) == { {-ls[p[1]], -ls[p[2]]} : p \in { q \in (DOMAIN ls) \X (DOMAIN ls) : q[1] < q[2] } }
RECURSIVE Heule(_, _, _)
Heule(ls, k, aux) ==                       \* -> [cls, aux]; aux = number of fresh variables used so far
  IF Len(ls) <= k THEN [cls |-> Quadratic(ls), aux |-> aux]
  ELSE LET f == AuxVar(aux + 1)
           h1 == Append(SubSeq(ls, 1, k - 1), f)
           h2 == <<-f>> \o SubSeq(ls, k, Len(ls))
           R == Heule(h2, k, aux + 1)
       IN [cls |-> Quadratic(h1) \cup R.cls, aux |-> R.aux]

(***************************************************************************)
(* A small DPLL, so that TLC can decide modelled CNFs                      *)
(***************************************************************************)
Assign(cs, lit) == { c \ {-lit} : c \in { d \in cs : lit \notin d } }
RECURSIVE Satisfiable(_)
Satisfiable(cs) ==
  IF {} \in cs THEN FALSE
  ELSE IF cs = {} THEN TRUE
  ELSE LET units == { c \in cs : Cardinality(c) = 1 } IN
       IF units # {} THEN Satisfiable(Assign(cs, CHOOSE x \in UNION units : TRUE))
       ELSE LET x == CHOOSE y \in UNION cs : TRUE IN Satisfiable(Assign(cs, x)) \/ Satisfiable(Assign(cs, -x))
\* the user's assignment a as unit clauses
UnitsOf(a) == { {IF BitOf(v, a) = 1 THEN UVar(v) ELSE -UVar(v)} : v \in Vars }
Proj(cnf) == { a \in Assigns : Satisfiable(cnf \cup UnitsOf(a)) }

(***************************************************************************)
(* Unit propagation and arc consistency                                    *)
(* A partial assignment is a sequence rs of <<variable, value>> pairs,     *)
(* value 0 / 1, or 2 = unassigned; variables not listed are unassigned.    *)
(***************************************************************************)
AssignAll(cs, L) == { c \ { -x : x \in L } : c \in { d \in cs : d \cap L = {} } }
RECURSIVE UnitProp(_, _)
UnitProp(cs, lits) ==          \* -> [conflict, lits]: all literals derived (the given units included)
  IF {} \in cs THEN [conflict |-> TRUE, lits |-> lits]
  ELSE LET L == UNION { c \in cs : Cardinality(c) = 1 } IN
       IF L = {} THEN [conflict |-> FALSE, lits |-> lits]
       ELSE IF \E x \in L : -x \in L THEN [conflict |-> TRUE, lits |-> lits \cup L]
       ELSE UnitProp(AssignAll(cs, L), lits \cup L)

RhoVal(rs, v) == IF \E i \in DOMAIN rs : rs[i][1] = v THEN rs[CHOOSE i \in DOMAIN rs : rs[i][1] = v][2] ELSE 2
RhoLits(rs) == { IF RhoVal(rs, v) = 1 THEN UVar(v) ELSE -UVar(v) : v \in { w \in Vars : RhoVal(rs, w) # 2 } }
Extends(a, rs) == \A v \in Vars : RhoVal(rs, v) = 2 \/ BitOf(v, a) = RhoVal(rs, v)
\* every partial assignment of the user variables, as such a sequence
PartialAssigns == { [i \in 1..NV |-> <<VarList[i], f[i]>>] : f \in [1..NV -> {0, 1, 2}] }

\* what unit propagation yields on the USER variables: conflict?, and the literals newly implied
UPOn(cnf, rs) ==
  LET R == UnitProp(cnf \cup { {x} : x \in RhoLits(rs) }, {})
  IN [conflict |-> R.conflict,
      implied |-> IF R.conflict THEN {} ELSE { x \in R.lits : x >= -NV /\ x <= NV } \ RhoLits(rs)]
\* the literals on unassigned variables that every solution in S compatible with rs agrees on
Entailed(S, rs) ==
  LET Sr == { a \in S : Extends(a, rs) } IN
  { x \in { UVar(v) : v \in Vars } \cup { -UVar(v) : v \in Vars } :
      LET v == VarList[IF x > 0 THEN x ELSE -x] IN
      RhoVal(rs, v) = 2 /\ \A a \in Sr : BitOf(v, a) = (IF x > 0 THEN 1 ELSE 0) }
\* propagation never claims more than is true (a consequence of the CNF being exact)
UPSoundOn(cnf, S, rs) ==
  LET Sr == { a \in S : Extends(a, rs) }  U == UPOn(cnf, rs) IN
  (U.conflict => Sr = {}) /\ (Sr # {} => U.implied \subseteq Entailed(S, rs))
\* weak form: an assignment that cannot be completed is refuted by propagation alone
UPDetectsOn(cnf, S, rs) == ({ a \in S : Extends(a, rs) } = {}) => UPOn(cnf, rs).conflict
\* arc consistency: refutes, and derives every entailed literal
UPCompleteOn(cnf, S, rs) ==
  LET Sr == { a \in S : Extends(a, rs) }  U == UPOn(cnf, rs) IN
  IF Sr = {} THEN U.conflict ELSE Entailed(S, rs) \subseteq U.implied

(***************************************************************************)
(* State machine of this module: build inequalities into one store         *)
(***************************************************************************)
CONSTANTS RTerms,    \* max number of terms of a generated inequality
          RCoef,     \* coefficients 1..RCoef
          RBound,    \* bounds 1..RBound
          RBuilds,   \* how many inequalities are built into the same store
          RDecs      \* constructions tried: subset of BOOLEAN (TRUE = coefficient decomposition)

VARIABLES store, root, lastq, lastdec, nb
rvars == <<store, root, lastq, lastdec, nb>>
\* (the registers of PBExpr, which this module extends for its operators, stay idle here)

\* sorted term lists over distinct variables, either polarity
TermLists == UNION { { SortDesc(f) : f \in { g \in [1..n -> Vars \X {0, 1} \X (1..RCoef)] :
                                            \A i, j \in 1..n : g[i][1] = g[j][1] => i = j } } : n \in 1..RTerms }
RInit == Init /\ store = <<>> /\ root = 1 /\ lastq = [lhs |-> Empty, rhs |-> 0, op |-> ">="] /\ lastdec = FALSE /\ nb = 0
BuildOne == /\ nb < RBuilds
            /\ \E ts \in TermLists, b \in 1..RBound, dec \in RDecs :
                 LET q == [lhs |-> [c |-> 0, t |-> ts], rhs |-> b, op |-> ">="]
                     B == GetRobdd(q, dec, store)
                 IN store' = B.store /\ root' = B.id /\ lastq' = q /\ lastdec' = dec
            /\ nb' = nb + 1 /\ UNCHANGED vars
RSpec == RInit /\ [][BuildOne]_<<vars, rvars>>

\* no triple twice, no node with equal children, children exist
Canonical == /\ \A i, j \in DOMAIN store : store[i] = store[j] => i = j
             /\ \A i \in DOMAIN store : store[i][2] # store[i][3] /\ store[i][2] <= i /\ store[i][3] <= i
\* the diagram computes the threshold function it was built from
NodeSem == \A a \in Assigns : (NodeFun(store, root, a) = 1) <=> Holds(lastq, a)
\* asserting the root of the codified diagram leaves exactly the satisfying assignments
TseitinExact == LET C == Codify(store, root, {}) IN
                Proj(C.cls \cup {{NodeVar(root)}}) = { a \in Assigns : Holds(lastq, a) }
\* Propagation strength of the codified diagram (one inequality, root asserted).  Checked separately for
\* RDecs = {FALSE} and RDecs = {TRUE} (Robdd_up_*.cfg); see the report in the C07 evidence for which hold.
DiagramCnf == Codify(store, root, {}).cls \cup {{NodeVar(root)}}
DiagramSols == { a \in Assigns : Holds(lastq, a) }
UnitPropagationSound == \A rs \in PartialAssigns : UPSoundOn(DiagramCnf, DiagramSols, rs)
UnitPropagationDetects == \A rs \in PartialAssigns : UPDetectsOn(DiagramCnf, DiagramSols, rs)
UnitPropagationComplete == \A rs \in PartialAssigns : UPCompleteOn(DiagramCnf, DiagramSols, rs)
\* a manager that has codified other diagrams before (shared nodes are skipped) is still exact:
\* checked in SatLayer.tla, where several constraints are posted to one manager.
=============================================================================
