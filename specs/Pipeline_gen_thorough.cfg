SPECIFICATION Spec
CONSTANTS
  TYPES = {"chain", "ring", "star", "ring-star", "one-net"}
  SIZES = {4, 5, 6, 7, 8}
  GRIDS = {202, 203, 302, 204, 402}
  HLEVELS = {2}
  DIESEL = {404, 603, 305}
  EDITS = {"none", "fpin", "block", "fpin+block", "pin"}
  GCELLS = {1}
  POSSEL = {0}
  TOL = 0
  COMTOL = 0
  EMIT = TRUE
CHECK_DEADLOCK FALSE
