-------------------------------- MODULE Die --------------------------------
(***************************************************************************)
(* C01 -- Die decomposition is an exact tiling of the die                  *)
(* C11 -- Die refinement keeps the tiling, reaches the count, bounds AR    *)
(*                                                                         *)
(* Model of frame/die/die.py.  A *description* is a die of DW x DH lattice *)
(* cells plus a set of tagged rectangles: blockages ("#"), specialised     *)
(* regions ("R1", "R2") and rectangles of fixed modules ("F").  The        *)
(* description universe deliberately contains INVALID descriptions         *)
(* (overlapping regions, regions leaving the die by the margin OUT).       *)
(*                                                                         *)
(* Actions (one per step of Die.__init__):                                 *)
(*   AddRegion     build the description (each set generated once)         *)
(*   Build         gather_boundaries + occupancy matrix                    *)
(*   Pick          one greedy step: any free rectangle of maximal area     *)
(*   Finish        no free cell is left                                    *)
(*   Check         _check_rectangles: accept / reject                      *)
(*   SplitStart / SplitStep / SplitEnd   split_refinable_regions(p/q, n)   *)
(*   Grid(nr,nc)   initial_grid(nr, nc)             (C11)                  *)
(* Non-uniform metrics: lattice line i lies at coordinate MX(i) / MY(i)    *)
(* (constants XS, YS), so slivers and 1000:1 rows are modelled exactly.    *)
(***************************************************************************)
EXTENDS DieOps, TLC, Json

CONSTANTS DW, DH,     \* the die spans lattice lines 0..DW x 0..DH
          OUT,        \* regions may use lines -OUT..DW+OUT (leave the die)
          MAXR,       \* maximal number of regions in a description
          TAGS,       \* tags used in descriptions
          XS, YS,     \* XS[i + OUT + 1] = coordinate of lattice line i  (strictly increasing)
          SPLITS,     \* set of <<p, q, n>>: aspect-ratio limit p/q and requested count n (C11)
          GRIDS,      \* set of <<nrows, ncols>> (C11)
          EMIT

VARIABLES pc,       \* "build" | "cover" | "check" | "done" | "splitting" | "split" | "emitted"
          regs,     \* the description: set of <<x1,y1,x2,y2,tag>> in lattice lines
          occ,      \* occupied lattice cells <<i,j>> (cell between lines i..i+1, j..j+1)
          ground,   \* ground regions found so far (set of rectangles in lattice lines)
          verdict,  \* "none" | "accept" | "reject"
          goal,     \* C11: the request <<p, q, n>> being served
          refin     \* C11: refinable regions after Split/Grid: set of <<x1,y1,x2,y2,tag>> in METRIC coordinates
vars == <<pc, regs, occ, ground, verdict, refin, goal>>

MX(i) == XS[i + OUT + 1]
MY(j) == YS[j + OUT + 1]
\* metric image of a rectangle given in lattice lines
Metric(r) == Rect(MX(r.x1), MY(r.y1), MX(r.x2), MY(r.y2))
DieRect == Rect(0, 0, DW, DH)
DieMetric == Metric(DieRect)

RegRect(t) == RectOf(t)
RegTag(t) == t[5]
AllRegRects == RectsOn(-OUT, DW + OUT, -OUT, DH + OUT)

(***************************************************************************)
(* Validity of a description, defined independently of the algorithm.      *)
(* Position-wise: two regions with identical rectangle and tag cannot be   *)
(* told apart in a set, so descriptions are sets of DISTINCT tagged        *)
(* rectangles; the same rectangle with two tags overlaps itself.           *)
(***************************************************************************)
Valid(d) == ValidIn(d, DieRect)

(***************************************************************************)
(* Cells and free rectangles                                               *)
(***************************************************************************)
Cells == { <<i, j>> : i \in 0..(DW - 1), j \in 0..(DH - 1) }
CellsOf(r) == { <<i, j>> \in Cells : r.x1 <= i /\ i < r.x2 /\ r.y1 <= j /\ j < r.y2 }
Covered(d) == UNION { CellsOf(RegRect(t)) : t \in d }
DieRects == RectsOn(0, DW, 0, DH)
Free(r, o) == CellsOf(r) \cap o = {}
MArea(r) == Area(Metric(r))
\* greedy criterion of _find_best_rectangle: a free rectangle of maximal (metric) area
IsBest(r, o) == /\ Free(r, o)
                /\ \A s \in DieRects : Free(s, o) => MArea(s) <= MArea(r)

(***************************************************************************)
(* Key used to generate every description (a set) exactly once             *)
(***************************************************************************)
TagIdx(tag) == CHOOSE k \in 1..Len(TAGS) : TAGS[k] = tag
Key(t) == ((((t[1] + OUT) * 16 + (t[2] + OUT)) * 16 + (t[3] + OUT)) * 16 + (t[4] + OUT)) * 8 + TagIdx(t[5])
MaxKey(d) == IF d = {} THEN -1 ELSE Max({ Key(t) : t \in d })

Init == /\ pc = "build" /\ regs = {} /\ occ = {} /\ ground = {} /\ verdict = "none" /\ refin = {} /\ goal = <<0, 0, 0>>

AddRegion == /\ pc = "build" /\ Cardinality(regs) < MAXR
             /\ \E r \in AllRegRects : \E k \in 1..Len(TAGS) :
                  LET t == <<r.x1, r.y1, r.x2, r.y2, TAGS[k]>> IN
                  /\ Key(t) > MaxKey(regs)
                  /\ regs' = regs \cup {t}
             /\ UNCHANGED <<pc, occ, ground, verdict, refin, goal>>

\* invalid descriptions are not decomposed: whatever the cover does, Check must reject them
Build == /\ pc = "build" /\ ~EMIT
         /\ IF Valid(regs) THEN pc' = "cover" /\ occ' = Covered(regs)
                           ELSE pc' = "check" /\ occ' = occ
         /\ UNCHANGED <<regs, ground, verdict, refin, goal>>

Pick == /\ pc = "cover" /\ occ # Cells
        /\ \E r \in DieRects : /\ IsBest(r, occ)
                               /\ ground' = ground \cup {r}
                               /\ occ' = occ \cup CellsOf(r)
        /\ UNCHANGED <<pc, regs, verdict, refin, goal>>

Finish == /\ pc = "cover" /\ occ = Cells /\ pc' = "check"
          /\ UNCHANGED <<regs, occ, ground, verdict, refin, goal>>

Check == /\ pc = "check"
         /\ verdict' = IF Valid(regs) THEN "accept" ELSE "reject"
         /\ pc' = "done"
         /\ UNCHANGED <<regs, occ, ground, refin, goal>>

(***************************************************************************)
(* The reported regions of an accepted die                                 *)
(***************************************************************************)
Reported == { RegRect(t) : t \in regs } \cup ground
Refinable0 == { <<Metric(g).x1, Metric(g).y1, Metric(g).x2, Metric(g).y2, "_">> : g \in ground } \cup
              { <<Metric(RegRect(t)).x1, Metric(RegRect(t)).y1, Metric(RegRect(t)).x2, Metric(RegRect(t)).y2, RegTag(t)>> :
                  t \in { u \in regs : RegTag(u) \notin {"#", "F"} } }

\* split_refinable_regions(p/q, n): phase 1 in one step, then one action per iteration of the phase-2 loop
\* (ties between equally large regions are explored as separate successors; TLC merges equal states)
SplitStart == /\ pc = "done" /\ verdict = "accept" /\ Refinable0 # {}
              /\ \E s \in SPLITS : /\ refin' = Phase1(Refinable0, s[1], s[2])
                                    /\ goal' = s
              /\ pc' = "splitting"
              /\ UNCHANGED <<regs, occ, ground, verdict>>

SplitStep == /\ pc = "splitting" /\ Cardinality(refin) < goal[3]
             /\ \E t \in Largest(refin) : refin' = (refin \ {t}) \cup FixAR2(t, goal[1], goal[2])
             /\ UNCHANGED <<pc, regs, occ, ground, verdict, goal>>

SplitEnd == /\ pc = "splitting" /\ Cardinality(refin) >= goal[3]
            /\ pc' = "split"
            /\ UNCHANGED <<regs, occ, ground, verdict, refin, goal>>

Grid == /\ pc = "done" /\ verdict = "accept" /\ regs = {}
        /\ \E g \in GRIDS : /\ CanGrid(DieMetric, g[1], g[2])
                            /\ refin' = { <<c.x1, c.y1, c.x2, c.y2, "_">> : c \in GridSet(DieMetric, g[1], g[2]) }
        /\ pc' = "split" /\ goal' = <<0, 0, 0>>
        /\ UNCHANGED <<regs, occ, ground, verdict>>

\* behaviour generation: one line per description
Emit == /\ EMIT /\ pc = "build" /\ pc' = "emitted"
        /\ PrintT(ToJson([regs |-> SetToSeq(regs), valid |-> IF Valid(regs) THEN 1 ELSE 0,
                           dw |-> DW, dh |-> DH, out |-> OUT, xs |-> XS, ys |-> YS]))
        /\ UNCHANGED <<regs, occ, ground, verdict, refin, goal>>

Next == AddRegion \/ Build \/ Pick \/ Finish \/ Check \/ SplitStart \/ SplitStep \/ SplitEnd \/ Grid \/ Emit
Spec == Init /\ [][Next]_vars

(***************************************************************************)
(* Invariants (C01)                                                        *)
(***************************************************************************)
Accepted == pc \in {"done", "split"} /\ verdict = "accept"
VerdictIffValid == pc \in {"done", "split"} => (verdict = "accept" <=> Valid(regs))
AllInside == Accepted => \A r \in Reported : Inside(r, DieRect)
NoOverlap == Accepted => PairwiseDisjoint(Reported)
AreaSum == Accepted => SumArea({ Metric(r) : r \in Reported }) = Area(DieMetric)
CoverExact == Accepted => UNION { CellsOf(r) : r \in Reported } = Cells
\* the cover never touches occupied cells and only grows
GroundFree == \A g \in ground : CellsOf(g) \cap Covered(regs) = {}
(***************************************************************************)
(* Invariants (C11)                                                        *)
(***************************************************************************)
SplitMeetsPost == pc = "split" /\ goal[3] > 0 => SplitPost(Refinable0, refin, goal[1], goal[2], goal[3])
GridMeetsPost == pc = "split" /\ goal[3] = 0 => \E g \in GRIDS : GridPost(DieMetric, refin, g[1], g[2])
\* the phase-2 loop keeps the aspect-ratio limit and the tiling at every iteration
SplitLoopInv == pc = "splitting" =>
                   /\ \A u \in refin : ARLeq(TRect(u), goal[1], goal[2])
                   /\ SameRegion({ TRect(u) : u \in refin }, { TRect(u) : u \in Refinable0 })
                   /\ PairwiseDisjoint({ TRect(u) : u \in refin })
=============================================================================
