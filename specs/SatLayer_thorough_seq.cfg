SPECIFICATION SSpec
CONSTANTS
  Vars = {"a", "b", "c"}
  Fams = {"clause", "amo", "pb"}
  ClauseMax = 1
  AmoSeq = 0
  AmoMax = 3
  AmoPols = {0, 1}
  HeuleKs = {3}
  PbShape = "ordered"
  PbTerms = 3
  PbPols = {1}
  PbNeg = 0
  PbPos = 2
  PbBound = 3
  PbOps = {">=", ">"}
  MaxMgrs = 2
  MaxPosts = 2
  EMIT = TRUE
  PROBE = FALSE
  ACKinds = {}
  RDecs = {TRUE, FALSE}
  RTerms = 0
  RCoef = 0
  RBound = 0
  RBuilds = 0
  CoefNeg = 0
  CoefPos = 0
  ConstMax = 0
  MulNeg = 0
  MulPos = 0
  CMax = 0
  KMax = 0
  CMax2 = 0
  KMax2 = 0
CHECK_DEADLOCK FALSE
INVARIANT AllowedIsConjunction
INVARIANT Exact
INVARIANT NeverDropped
INVARIANT StoreCanonical
INVARIANT LastDiagram
