---------------------------- MODULE CanvasTrace ----------------------------
(***************************************************************************)
(* CANVAS, code -> spec: batch validation of observations of               *)
(* tools/rect/canvas.py (and rect_io.getfile).  One TLC initial state per  *)
(* trace; a trace is a sequence of independent events, each one call of    *)
(* the real code with its observed result pulled back to integers /        *)
(* rationals <<num, den>>:                                                 *)
(*   clip    Canvas.line(seg, line_type="dashed") on a canvas whose        *)
(*           _draw_simple_line is recorded, thickness so large that the    *)
(*           dash pattern is one dash: r = <<>> (nothing drawn) or the two *)
(*           end points of the dash = the clipped segment; calls = -1:     *)
(*           the call did not return within its CPU budget; offl = 1: it   *)
(*           drew at coordinates that are not small rationals              *)
(*   solid   Canvas.line(seg, line_type="solid") on a recording ImageDraw  *)
(*           stub: the image-space end points handed to ImageDraw.line     *)
(*   interp  Canvas.interpolate on the two corners and a set of points     *)
(*   rgb / mix / hex   rgb(), color_mix(), Canvas.hex_breakdown()          *)
(*   getfile rect_io.getfile(input_problem, ifile, f) parsed back          *)
(* Each event is judged by the clause records of Clip.tla / CanvasOps.tla  *)
(* (fails); drift = the result differs from the specified VALUE although   *)
(* the clauses hold (colour mix ties).  For a failing clip event `info`    *)
(* says which of the two known departures of the code (Clip!DEFECTS)       *)
(* reproduces the observation exactly -- used only by the known-finding    *)
(* matcher.  Verdicts are total.                                           *)
(***************************************************************************)
EXTENDS Clip, CanvasOps, IOUtils

Batch == JsonDeserialize(IOEnv.TRACE_FILE)

VARIABLES tid, l, fails, drift, info
tvars == <<vars, cvars, tid, l, fails, drift, info>>
T == Batch[tid]

TraceInit == /\ tid \in 1..Len(Batch) /\ l = 1 /\ fails = {} /\ drift = {} /\ info = <<>>
             /\ pc = "trace" /\ window = <<0, 0, 1, 1>> /\ seg = <<0, 0, 0, 0>>
             /\ p1 = Nowhere /\ p2 = Nowhere /\ c1 = {} /\ c2 = {} /\ steps = 0
             /\ ck = "" /\ carg = <<>> /\ cres = <<>>

Failed(cl) == { <<l, f>> : f \in { g \in DOMAIN cl : ~cl[g] } }
QPt(p) == << Q(p[1][1], p[1][2]), Q(p[2][1], p[2][2]) >>          \* [[n,d],[n,d]] -> point
QPts(s) == [ i \in DOMAIN s |-> QPt(s[i]) ]

\* Which known departure of the code reproduces the observation exactly.  abn = 1: the call did not return
\* (calls = -1) or drew at coordinates that are no small rationals (offl = 1); this is what a variant that
\* "diverges" (leaves the four-step / small-denominator regime: the loop as coded never ends in exact arithmetic)
\* looks like from outside, and the only thing such a variant is allowed to explain besides its own result.
Same(r, abn, v) == v = <<"diverged">> \/ (abn = 0 /\ r = v)
ExplainedBy(s, w, r, abn) ==
  IF abn = 0 /\ r = Drawn(s, w, {}) THEN "spec"
  ELSE IF Same(r, abn, Drawn(s, w, {"y2x"})) THEN "y2x"
  ELSE IF Same(r, abn, Drawn(s, w, {"pointtest"})) THEN "pointtest"
  ELSE IF Same(r, abn, Drawn(s, w, {"y2x", "pointtest"})) THEN "y2x+pointtest"
  ELSE "none"

\* getfile: "W H n", "f", then one line "x1 y1 x2 y2 p" per cell (numbers pulled back by the harness)
GetfileClauses(e) ==
  [ getfile_header |-> e.header = <<e.w, e.h, Len(e.cells)>> /\ e.f = e.fout,
    getfile_rows   |-> e.rows = e.cells ]

\* a dash whose two end points coincide on the lattice is nothing visible (under an inexact embedding the code's
\* test `magnitude == 0` may see two floats that differ in the last bit)
Visible(r) == IF r # <<>> /\ r[1] = r[2] THEN <<>> ELSE r
Judge(e) ==
  CASE e.kind = "clip"   -> LET abn == IF e.calls < 0 \/ e.offl = 1 THEN 1 ELSE 0 IN
                            [ cl |-> (IF abn = 1 THEN [ clip_drawn_iff_meets |-> TRUE ] ELSE ClipClauses(e.seg, e.window, Visible(QPts(e.r))))
                                     @@ [ clip_terminates |-> e.calls >= 0,      \* the call returns
                                          clip_on_lattice |-> e.offl = 0,        \* the end points are small rationals of the lattice
                                          clip_single_dash |-> e.calls <= 1 ],
                              dr |-> [ clip_value |-> TRUE ],
                              nf |-> ExplainedBy(e.seg, e.window, Visible(QPts(e.r)), abn) ]
    [] e.kind = "solid"  -> [ cl |-> [ solid_endpoints |-> Len(e.obs) = 2 /\ \A i \in 1..2 :
                                          QPt(e.obs[i]) = Interp(e.window, e.size, QPt(e.pts[i])) ],
                              dr |-> [ solid_value |-> TRUE ], nf |-> "" ]
    [] e.kind = "interp" -> [ cl |-> InterpClauses(e.window, e.size, QPts(e.pts), QPts(e.obs)),
                              dr |-> [ interp_value |-> TRUE ], nf |-> "" ]
    [] e.kind = "rgb"    -> [ cl |-> RgbClauses(e.c, e.hash, e.d, e.back),
                              dr |-> [ rgb_digits |-> e.d = RgbDigits(e.c) ], nf |-> "" ]
    [] e.kind = "mix"    -> [ cl |-> MixClauses(e.c1, e.c2, e.p, e.hash, e.d),
                              dr |-> [ mix_digits |-> e.d = RgbDigits(MixSpec(e.c1, e.c2, e.p)) ], nf |-> "" ]
    [] e.kind = "hex"    -> [ cl |-> HexClauses(e.d, e.out),
                              dr |-> [ hex_short_form |-> e.out = Breakdown(e.d) ], nf |-> "" ]
    [] e.kind = "getfile" -> [ cl |-> GetfileClauses(e), dr |-> [ getfile_value |-> TRUE ], nf |-> "" ]

Step == /\ l <= Len(T.events)
        /\ LET v == Judge(T.events[l]) IN
             /\ fails' = fails \cup Failed(v.cl)
             /\ drift' = drift \cup Failed(v.dr)
             /\ info' = IF v.nf \notin {"", "spec"} THEN Append(info, [l |-> l, explained_by |-> v.nf]) ELSE info
        /\ l' = l + 1
        /\ UNCHANGED <<vars, cvars, tid>>
Done == /\ l = Len(T.events) + 1 /\ l' = l + 1
        /\ PrintT(ToJson([tag |-> "VERDICT", id |-> T.id, fails |-> fails, drift |-> drift, info |-> info]))
        /\ UNCHANGED <<vars, cvars, tid, fails, drift, info>>
TraceNext == Step \/ Done
TraceSpec == TraceInit /\ [][TraceNext]_tvars
=============================================================================
