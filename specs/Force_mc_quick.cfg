SPECIFICATION Spec
CONSTANTS
  NM = 2
  DW = 10
  DH = 10
  PTC = {0, 505, 1005, 304}
  KINDS = {"soft", "hard", "term", "fixed", "fterm"}
  NITS = {0, 1, 2}
  NK = 12
  COSTS = {0, 1}
  EMIT = FALSE
INVARIANT TypeOK
INVARIANT FixedUnmoved
INVARIANT CentresInDie
INVARIANT OnlyCentresChange
INVARIANT FinishedAfterAllIterations
INVARIANT Cooling
INVARIANT ScanKeepsFirstMin
INVARIANT SelectedIsMin
PROPERTY StepContract
CHECK_DEADLOCK FALSE
