-------------------------- MODULE InitAllocTrace --------------------------
(***************************************************************************)
(* C03, code -> spec: batch validation of observed initial allocations.    *)
(* A trace holds what one real run saw: the cells the real Die reported    *)
(* (refinable and fixed, possibly after split_refinable_regions /          *)
(* initial_grid), the netlist (module shapes on the lattice; every fixed   *)
(* rectangle is its own fixed module) and the allocation returned by       *)
(* create_initial_allocation(die, include_area_zero).  One event           *)
(* (Allocate); the clauses are evaluated with the operators of AllocOps /  *)
(* Geometry on the OBSERVED cells, so any exact cover is accepted.         *)
(*   mods[i]   = <<kind, rects>>, kind in soft | softsq | hard | fixed     *)
(*   obs cell  = <<x1,y1,x2,y2, fixedflag, entries>>, entries = tuple of   *)
(*               <<module index, k>> with k = ratio * cell area (integer)  *)
(***************************************************************************)
EXTENDS AllocOps, TLC, Json, IOUtils

Batch == JsonDeserialize(IOEnv.TRACE_FILE)
VARIABLES tid, l, fails
tvars == <<tid, l, fails>>
T == Batch[tid]
SeqToSet(s) == { s[k] : k \in DOMAIN s }
Bad(cl) == { k \in DOMAIN cl : ~cl[k] }

ShapeOf(m) == { RectOf(m[2][k]) : k \in DOMAIN m[2] }
IsFixedMod(m) == m[1] = "fixed"
RefCells == { RectOf(c) : c \in SeqToSet(T.refinable) }
FixCells == { RectOf(c) : c \in SeqToSet(T.fixedcells) }
ObsOf(r) == { o \in SeqToSet(T.obs) : RectOf(o) = r }
EntrySet(o) == SeqToSet(o[6])
EntryOf(o, i) == { e \in EntrySet(o) : e[1] = i }
\* the fixed module owning a fixed cell: the one whose (single) rectangle is the cell
Owners(r) == { i \in DOMAIN T.mods : IsFixedMod(T.mods[i]) /\ r \in ShapeOf(T.mods[i]) }

Clauses ==
  LET ok == T.ok = 1 IN
  [ returns |-> ok,
    \* the allocation has exactly the die's cells, each once
    cells_kept |-> (ok => /\ { RectOf(o) : o \in SeqToSet(T.obs) } = RefCells \cup FixCells
                          /\ Len(T.obs) = Cardinality(RefCells \cup FixCells)),
    \* refinable cell, any module: the listed ratio is covered area / cell area
    ratio_exact |-> (ok => \A r \in RefCells : \A o \in ObsOf(r) : \A e \in EntrySet(o) :
                          e[1] \in DOMAIN T.mods /\ e[2] = CoveredArea(r, ShapeOf(T.mods[e[1]]))),
    listed_iff_covering |-> (ok => \A r \in RefCells : \A o \in ObsOf(r) : \A i \in DOMAIN T.mods :
                          /\ Cardinality(EntryOf(o, i)) <= 1
                          /\ (CoveredArea(r, ShapeOf(T.mods[i])) > 0 => EntryOf(o, i) # {})
                          /\ (T.zero = 1 => EntryOf(o, i) # {})
                          \* listed without covering: only on request, or -- with inexact coordinates -- when the module
                          \* shares an edge with the cell and the last bit makes the float overlap positive (ratio 0)
                          /\ (EntryOf(o, i) # {} /\ CoveredArea(r, ShapeOf(T.mods[i])) = 0 =>
                                 \/ T.zero = 1
                                 \/ T.exact = 0 /\ \E s \in ShapeOf(T.mods[i]) : Touch(r, s))),
    refinable_not_fixed |-> (ok => \A r \in RefCells : \A o \in ObsOf(r) : o[5] = 0),
    \* fixed cell: flagged fixed, owned completely by exactly its module
    fixed_owns |-> (ok => \A r \in FixCells : \A o \in ObsOf(r) :
                          /\ o[5] = 1 /\ Cardinality(Owners(r)) = 1
                          /\ EntrySet(o) = { <<i, Area(r)>> : i \in Owners(r) }),
    \* every fixed module owns exactly its own rectangles
    fixed_cells_are_module_rects |-> (ok => \A i \in DOMAIN T.mods : IsFixedMod(T.mods[i]) => ShapeOf(T.mods[i]) \subseteq FixCells) ]

TraceInit == tid \in 1..Len(Batch) /\ l = 1 /\ fails = {}
Step == /\ l = 1 /\ fails' = { <<1, k>> : k \in Bad(Clauses) } /\ l' = 2 /\ UNCHANGED tid
Done == /\ l = 2 /\ l' = 3
        /\ PrintT(ToJson([tag |-> "VERDICT", id |-> T.id, fails |-> fails, drift |-> {}]))
        /\ UNCHANGED <<tid, fails>>
TraceNext == Step \/ Done
TraceSpec == TraceInit /\ [][TraceNext]_tvars
=============================================================================
