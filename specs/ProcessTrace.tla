--------------------------- MODULE ProcessTrace ---------------------------
(***************************************************************************)
(* C20, code -> spec.  A trace is one forked interpreter: the history      *)
(* operations (each with the process-wide registers observed after it:     *)
(* was Rectangle's tolerance (re)written by this step, size of the ROBDD   *)
(* store), then the probed operation with the canonical digest of its      *)
(* observable result, and the digest of the same probe executed alone in   *)
(* a fresh interpreter.  Property clause: the two digests are equal.       *)
(* Model conformance: the registers evolve as Process!Op says.             *)
(***************************************************************************)
EXTENDS Process, IOUtils

Batch == JsonDeserialize(IOEnv.TRACE_FILE)
VARIABLES tid, l, fails, drift
tvars == <<vars, tid, l, fails, drift>>
T == Batch[tid]

TraceInit == /\ tid \in 1..Len(Batch) /\ l = 1 /\ fails = {} /\ drift = {}
             /\ pc = "hist" /\ hist = <<>> /\ eps = <<0, 0>> /\ store = 0 /\ legal = 0 /\ probe = "" /\ result = <<>>

\* e = <<kind, scale, eps_written, store_size, refused>>
\* A history operation that the library REFUSED (an ill-formed design, a request it rejects half-way) may or may not have
\* got as far as deriving the tolerances: the model follows the observation there (OpRefused) instead of predicting it.
OpRefused(k, s, written) ==
            /\ hist' = Append(hist, <<k, s>>)
            /\ eps' = IF written = 1 /\ eps[1] = 0 THEN <<Len(hist) + 1, s>> ELSE eps
            /\ store' = IF k = "encode" THEN store + 1 ELSE store
            /\ legal' = IF k = "legal" THEN legal + 1 ELSE legal
HistEvent == /\ l <= Len(T.hist)
             /\ LET e == T.hist[l] IN
                  /\ IF e[5] = 1 /\ e[1] \in Loaders THEN OpRefused(e[1], e[2], e[3]) ELSE Op(e[1], e[2])
                  /\ drift' = drift
                       \cup (IF (e[3] = 1) # ((eps[1] = 0 /\ eps'[1] # 0) \/ (eps[1] # 0 /\ eps'[1] = 0))
                             THEN {<<l, "eps_written_by_unexpected_step">>} ELSE {})
                       \cup (IF l > 1 /\ e[4] < T.hist[l - 1][4] THEN {<<l, "store_shrank">>} ELSE {})
                       \cup (IF e[1] # "encode" /\ l > 1 /\ e[4] # T.hist[l - 1][4] THEN {<<l, "store_changed_without_encode">>} ELSE {})
             /\ l' = l + 1 /\ UNCHANGED <<pc, probe, result, tid, fails>>

ProbeEvent == /\ l = Len(T.hist) + 1
              /\ probe' = T.probe /\ result' = ResultOf(T.probe, eps, store, legal) /\ Op(T.probe, MID)
              /\ pc' = "probed"
              /\ fails' = IF T.after = T.fresh THEN fails ELSE fails \cup {<<l, "same_result">>}
              \* the model predicts equality (NoLeak); anything else means the generated history left the band
              /\ drift' = IF ResultOf(T.probe, eps, store, legal) = Fresh(T.probe) THEN drift ELSE drift \cup {<<l, "history_outside_assumption">>}
              /\ l' = l + 1 /\ UNCHANGED tid

Done == /\ l = Len(T.hist) + 2 /\ l' = l + 1
        /\ PrintT(ToJson([tag |-> "VERDICT", id |-> T.id, fails |-> fails, drift |-> drift]))
        /\ UNCHANGED <<vars, tid, fails, drift>>

TraceNext == HistEvent \/ ProbeEvent \/ Done
TraceSpec == TraceInit /\ [][TraceNext]_tvars
=============================================================================
