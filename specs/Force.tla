------------------------------- MODULE Force -------------------------------
(***************************************************************************)
(* C13 -- Force-directed relocation: fixed modules stay, centres stay in   *)
(* the die, nothing but centres changes, determinism, best-of selection.   *)
(*                                                                         *)
(* Code under test (tools/force/fruchterman_reingold.py):                  *)
(*                                                                         *)
(*   fruchterman_reingold_layout(die, kappa, .., max_iter):                *)
(*       t = 0.1 * max(W, H);  dt = t / (max_iter + 1)                     *)
(*       pos = centres - (W, H) / 2                                        *)
(*       for i in range(max_iter):                                         *)
(*           disp[v] = repulsion + die walls - attraction along the nets   *)
(*           for every module v that is NOT fixed:                         *)
(*               pos[v] += disp[v] / |disp[v]| * min(|disp[v]|, t)         *)
(*               pos[v] clamped to [-W/2, W/2] x [-H/2, H/2]               *)
(*           t -= dt                                                       *)
(*       centres = pos + (W, H) / 2                                        *)
(*   force_algorithm(die, .., max_iter):                                   *)
(*       best_cost = inf                                                   *)
(*       for kappa in 0.4, 0.5, .., 1.5:                                   *)
(*           layout on a deep copy; cost = overlap area + wire length / 2  *)
(*           if cost < best_cost: best_cost, best_kappa = cost, kappa      *)
(*       return layout(die, best_kappa)                                    *)
(*                                                                         *)
(* The specification is a CONTRACT model: TLC cannot predict the forces    *)
(* (square roots of sums over all pairs), and the property does not speak  *)
(* about them.  What the property needs is what one iteration MAY do:      *)
(* a module that is not fixed moves by a vector no longer than the current *)
(* temperature and is then clamped to the die; a fixed module does not     *)
(* move; nothing else is written.  Iterate offers exactly these successors *)
(* (a superset of the real behaviours) and TLC shows that every behaviour  *)
(* of the contract has the property.  ForceTrace.tla then checks that the  *)
(* real function's observed iterations ARE behaviours of this contract     *)
(* (model conformance) and that what it returns satisfies the property     *)
(* clauses (JudgeRun, JudgeSel).                                           *)
(*                                                                         *)
(* Two machines share the module:                                          *)
(*   run:    Setup -> Iterate^n -> Finish          (one layout call)       *)
(*   select: Try^NK -> Return                      (the scan over kappa)   *)
(*                                                                         *)
(* Lattice: the die is W x H lattice units with its lower-left corner at   *)
(* (0, 0); a layout is a tuple of points <<x, y>>, one per module.  In the *)
(* model-checked instances W, H are small (20); in ForceTrace the unit is  *)
(* 1e-4 of the larger die side for the step contract (S = 10000).          *)
(***************************************************************************)
EXTENDS Integers, Sequences, FiniteSets, TLC, Json, SequencesExt, FiniteSetsExt

CONSTANTS NM,     \* number of modules in the model-checked instances
          DW, DH, \* die width and height (lattice units) in the model-checked instances
          PTC,    \* start points offered to Setup, coded 100 * x + y (a cfg file cannot hold tuples): corners,
                  \* border, interior; the same point may be taken by several modules (coincident centres)
          KINDS,  \* module kinds offered to Setup, subset of {"soft", "hard", "term", "fixed", "fterm"}
          NITS,   \* values of max_iter
          NK,     \* number of spring constants scanned by the selection (12 in the code)
          COSTS,  \* abstract cost values offered to Try
          EMIT    \* TRUE: print the cases (behaviour generation)

VARIABLES pc,                        \* "setup" | "run" | "finished" | "scan" | "selected" | "emitted"
          W, H, n, kind, pos0, pos, it, sig0, sig,     \* the run machine
          costs, bestc, bestk                           \* the select machine
vars == <<pc, W, H, n, kind, pos0, pos, it, sig0, sig, costs, bestc, bestk>>
runvars == <<W, H, n, kind, pos0, pos, it, sig0, sig>>
selvars == <<costs, bestc, bestk>>

Sq(x) == x * x
Mn(a, b) == IF a <= b THEN a ELSE b
Mx(a, b) == IF a >= b THEN a ELSE b
Abs(x) == IF x >= 0 THEN x ELSE -x

(***************************************************************************)
(* 1. Value-level operators of the run machine                             *)
(***************************************************************************)
IsFixed(k) == k \in {"fixed", "fterm"}          \* Module.is_fixed: `fixed: true` (with rectangles, or a fixed terminal)
InDie(p, w, h) == 0 <= p[1] /\ p[1] <= w /\ 0 <= p[2] /\ p[2] <= h
Dist2(p, q) == Sq(p[1] - q[1]) + Sq(p[2] - q[2])

\* temperature at the start of iteration i (0-based) of a run with max_iter = m, rounded up to lattice units:
\* t_i = 0.1 * max(w, h) * (m + 1 - i) / (m + 1).  (max intermediate 10000 * 101 in ForceTrace)
TempCeil(w, h, m, i) == (Mx(w, h) * (m + 1 - i) + 10 * (m + 1) - 1) \div (10 * (m + 1))

\* what iteration i may do to ONE module: stay if fixed; else move by at most the temperature (+ slk lattice units
\* of rounding allowance, 0 in the model) and end inside the die.  Clamping to the die is the projection onto a
\* convex set that contains the old position, so it never lengthens the step.
StepOK(k, p, q, w, h, m, i, slk) ==
  IF IsFixed(k) THEN q = p
  ELSE InDie(q, w, h) /\ Dist2(p, q) <= Sq(TempCeil(w, h, m, i) + slk)

\* all points one module may reach in iteration i
Reach(k, p, w, h, m, i) ==
  IF IsFixed(k) THEN {p}
  ELSE LET r == TempCeil(w, h, m, i) IN
       { q \in (Mx(0, p[1] - r)..Mn(w, p[1] + r)) \X (Mx(0, p[2] - r)..Mn(h, p[2] + r)) : Dist2(p, q) <= Sq(r) }

RECURSIVE Prod(_)
Prod(ss) == IF ss = <<>> THEN {<<>>} ELSE { <<x>> \o t : x \in Head(ss), t \in Prod(Tail(ss)) }

(***************************************************************************)
(* 2. The run machine                                                      *)
(***************************************************************************)
PTS == { <<c \div 100, c % 100>> : c \in PTC }
Interior(p) == 2 <= p[1] /\ p[1] <= DW - 2 /\ 2 <= p[2] /\ p[2] <= DH - 2

InitRun == /\ pc = "setup" /\ W = DW /\ H = DH /\ n = 0 /\ kind = <<>> /\ pos0 = <<>> /\ pos = <<>> /\ it = 0
           /\ sig0 = "S" /\ sig = "S" /\ costs = <<>> /\ bestc = 0 /\ bestk = 0

\* an input inside the quantifier: every module has a centre inside the closed die; a fixed module with rectangles
\* (kind "fixed") lies inside the die with its rectangles, so its centre is an interior point; terminals and soft
\* modules may sit on the border or in a corner; any number of centres may coincide
Setup == /\ pc = "setup"
         /\ \E m \in NITS, ks \in [1..NM -> KINDS], ps \in [1..NM -> PTS] :
               /\ \A j \in 1..NM : ks[j] \in {"fixed", "hard"} => Interior(ps[j])
               /\ \E j \in 1..NM : ks[j] \notin {"term", "fterm"}      \* something has an area (FRAME derives its tolerances from it)
               /\ \A i \in 1..NM, j \in 1..NM :       \* rectangles of fixed modules (half-size 1) must not overlap
                     (i < j /\ ks[i] = "fixed" /\ ks[j] = "fixed") =>
                        (Abs(ps[i][1] - ps[j][1]) >= 2 \/ Abs(ps[i][2] - ps[j][2]) >= 2)
               /\ n' = m /\ kind' = ks /\ pos0' = ps /\ pos' = ps
         /\ it' = 0 /\ pc' = "run" /\ UNCHANGED <<W, H, sig0, sig, selvars>>

\* one iteration of the main loop; `sig` (everything of the netlist that is not a centre) is not written
IterateTo(q) == /\ pc = "run" /\ it < n
                /\ pos' = q /\ it' = it + 1
                /\ UNCHANGED <<pc, W, H, n, kind, pos0, sig0, sig, selvars>>
Iterate == /\ ~EMIT /\ pc = "run" /\ it < n
           /\ \E q \in Prod([ j \in 1..NM |-> Reach(kind[j], pos[j], W, H, n, it) ]) : IterateTo(q)

Finish == /\ ~EMIT /\ pc = "run" /\ it = n
          /\ pc' = "finished" /\ UNCHANGED <<runvars, selvars>>

EmitRun == /\ EMIT /\ pc = "run" /\ it = 0
           /\ pc' = "emitted" /\ UNCHANGED <<runvars, selvars>>
           /\ PrintT(ToJson([ W |-> W, H |-> H, n |-> n, kind |-> kind, pos0 |-> pos0 ]))

(***************************************************************************)
(* 3. The select machine: the scan of force_algorithm, as written          *)
(***************************************************************************)
INF == 1000000000
InitSel == /\ pc = "scan" /\ costs = <<>> /\ bestc = INF /\ bestk = 0
           /\ W = DW /\ H = DH /\ n = 0 /\ kind = <<>> /\ pos0 = <<>> /\ pos = <<>> /\ it = 0 /\ sig0 = "S" /\ sig = "S"

Try(c) == /\ pc = "scan" /\ Len(costs) < NK
          /\ costs' = Append(costs, c)
          /\ IF c < bestc THEN bestc' = c /\ bestk' = Len(costs) + 1 ELSE UNCHANGED <<bestc, bestk>>
          /\ UNCHANGED <<pc, runvars>>
Return == /\ ~EMIT /\ pc = "scan" /\ Len(costs) = NK
          /\ pc' = "selected" /\ UNCHANGED <<runvars, selvars>>

MinCost(cs) == Min({ cs[j] : j \in DOMAIN cs })
FirstArgMin(cs) == Min({ j \in DOMAIN cs : cs[j] = MinCost(cs) })

Init == InitRun \/ InitSel
Scan == ~EMIT /\ \E c \in COSTS : Try(c)
Next == Setup \/ Iterate \/ Finish \/ EmitRun \/ Scan \/ Return
Spec == Init /\ [][Next]_vars

(***************************************************************************)
(* 4. Invariants of the contract                                           *)
(***************************************************************************)
InRun == pc \in {"run", "finished"}
TypeOK == /\ pc \in {"setup", "run", "finished", "scan", "selected", "emitted"}
          /\ it \in 0..n /\ bestk \in 0..NK /\ Len(costs) <= NK
FixedUnmoved == InRun => \A j \in 1..NM : IsFixed(kind[j]) => pos[j] = pos0[j]
CentresInDie == InRun => \A j \in 1..NM : InDie(pos[j], W, H)
OnlyCentresChange == sig = sig0
FinishedAfterAllIterations == pc = "finished" => it = n
\* the temperature is positive in every iteration that is executed and never increases
Cooling == (pc = "run" /\ it < n) => /\ TempCeil(W, H, n, it) >= 1
                                     /\ (it > 0 => TempCeil(W, H, n, it) <= TempCeil(W, H, n, it - 1))
                                     /\ TempCeil(W, H, n, 0) = (Mx(W, H) + 9) \div 10
\* each iteration obeys the one-module contract (ties Reach to StepOK, which ForceTrace uses)
StepContract == [][(pc = "run" /\ pc' = "run" /\ it' = it + 1) =>
                     \A j \in 1..NM : StepOK(kind[j], pos[j], pos'[j], W, H, n, it, 0)]_vars
\* the scan keeps the FIRST minimal cost, at every point of the scan and when it returns
ScanKeepsFirstMin == (pc \in {"scan", "selected"} /\ costs # <<>>) =>
                        /\ bestk = FirstArgMin(costs) /\ bestc = MinCost(costs)
                        /\ \A j \in DOMAIN costs : costs[bestk] <= costs[j]
SelectedIsMin == pc = "selected" => /\ Len(costs) = NK /\ bestk \in 1..NK
                                    /\ costs[bestk] = MinCost(costs)

(***************************************************************************)
(* 5. Property clauses on OBSERVATIONS (used by ForceTrace)                *)
(*                                                                         *)
(* A run observation `o` (one call of fruchterman_reingold_layout or       *)
(* force_algorithm; coordinates in units of 1e-9 * max(W, H)):             *)
(*   ret   1 iff the call returned (0: it raised)                          *)
(*   W, H  die sides;  fx[j] 1 iff module j is fixed                       *)
(*   p0[j], fin[j]  centre of module j before / after, <<x, y>>            *)
(*   ok[j] 1 iff the returned centre exists and is finite                  *)
(*   sig0, sig1  everything else, before / after: records with fields      *)
(*         mods  <<name, flags>> per module        areas  per module       *)
(*         rects per module, list of 4 numbers     nets   <<names.., w>>   *)
(*         (numbers as the strings of their exact decimal representation)  *)
(*   bitsA[j], bitsB[j]  bit patterns (hex) of the returned centre of      *)
(*         module j in two independent executions on equal inputs          *)
(*   bitsV the same for the call with visualize = a name (stub plot)       *)
(*   bitsX the same for an execution in a separate, freshly forked process *)
(*         (empty if the observation was not repeated there)               *)
(* "Not moved" is judged to 1e-9 of the die size (1 unit): the code        *)
(* recentres by -W/2 and +W/2, which may change the last bit.              *)
(***************************************************************************)
TOLFIX == 1
Idx(o) == 1..Len(o.fx)
JudgeRun(o) ==
  IF o.ret = 0 THEN [ returns |-> FALSE ] ELSE
  [ returns       |-> TRUE,
    finite        |-> \A j \in Idx(o) : o.ok[j] = 1,                                           \* "a finite point"
    in_die        |-> \A j \in Idx(o) : o.ok[j] = 1 =>                                          \* "inside the die"
                          /\ -TOLFIX <= o.fin[j][1] /\ o.fin[j][1] <= o.W + TOLFIX
                          /\ -TOLFIX <= o.fin[j][2] /\ o.fin[j][2] <= o.H + TOLFIX,
    fixed_unmoved |-> \A j \in Idx(o) : (o.fx[j] = 1 /\ o.ok[j] = 1) =>                         \* "fixed modules have not moved"
                          /\ Abs(o.fin[j][1] - o.p0[j][1]) <= TOLFIX
                          /\ Abs(o.fin[j][2] - o.p0[j][2]) <= TOLFIX,
    same_modules    |-> o.sig1.mods = o.sig0.mods,                                              \* "nothing but centres has changed:
    same_areas      |-> o.sig1.areas = o.sig0.areas,                                            \*  same modules, areas,
    same_rectangles |-> o.sig1.rects = o.sig0.rects,                                            \*  rectangles
    same_nets       |-> o.sig1.nets = o.sig0.nets,                                              \*  and nets"
    deterministic   |-> o.bitsA = o.bitsB,                                                      \* "it is deterministic":
    \* ... also across processes (bitsX = <<>>: this observation was not repeated in another process)
    deterministic_across_processes |-> o.bitsX = <<>> \/ o.bitsX = o.bitsA,
    \* `visualize` ("if not None, saves the intermediate layouts as a GIF") is an output option: the layout returned is the
    \* one computed from die, kappa and max_iter, with or without it (bitsV = <<>>: no visualize variant was run)
    visualize_returns_the_same_layout |-> o.bitsV = <<>> \/ o.bitsV = o.bitsA ]

\* A selection observation `s` (one call of force_algorithm seen through a wrapper of the layout function):
\*   tried  <<kappa * 1000, cost, layout, rank, iterations>> for every spring constant it tried, in order; cost = the library's
\*          own total_intersection_area + wire_length / 2 of that layout, scaled so that the largest is 1e8; rank =
\*          position of the unscaled cost in the exact order of the costs (used for conformance only); iterations = the max_iter
\*          the try was run with (conformance only; n = the max_iter the caller asked for)
\* A try that is run with another iteration count than the caller asked for yields another layout than the final run
\* with the winning constant: the returned layout then equals no try and best_of fails -- no extra clause is needed.
\*   lay    layout (bit patterns) of the die it finally returned
\* "the layout finally returned is the one whose cost is smallest among the spring constants it tries"
TOLCOST == 1
JudgeSel(s) ==
  [ best_of |-> /\ Len(s.tried) > 0
                /\ \E j \in DOMAIN s.tried :
                      /\ s.tried[j][3] = s.lay
                      /\ \A i \in DOMAIN s.tried : s.tried[j][2] <= s.tried[i][2] + TOLCOST ]
\* model conformance of the selection: the first minimal cost is kept, and the twelve constants are 0.4 .. 1.5
SelDrift(s) ==
  LET cs == [ j \in DOMAIN s.tried |-> s.tried[j][4] ] IN      \* exact ranks of the costs (1 = smallest)
  (IF Len(s.tried) > 0 /\ s.tried[FirstArgMin(cs)][3] # s.lay THEN {"first_minimum"} ELSE {})
  \cup (IF [ j \in DOMAIN s.tried |-> s.tried[j][1] ] # [ j \in 1..12 |-> 300 + 100 * j ] THEN {"kappas"} ELSE {})
  \cup (IF \E j \in DOMAIN s.tried : s.tried[j][5] # s.n THEN {"try_not_run_with_the_requested_iterations"} ELSE {})

Failing(rec) == { c \in DOMAIN rec : ~rec[c] }
=============================================================================
