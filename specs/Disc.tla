------------------------------- MODULE Disc -------------------------------
(***************************************************************************)
(* C17 -- Disc-overlap area is total, symmetric, bounded and accurate.     *)
(*                                                                         *)
(* Code under test: circle_circle_intersection_area(c1, r1, c2, r2) in     *)
(* tools/force/fruchterman_reingold.py:                                    *)
(*                                                                         *)
(*     d = |c1 - c2|                                                       *)
(*     if d > r1 + r2:        return 0                       ("zero")      *)
(*     if d <= |r1 - r2|:     return pi * min(r1, r2)**2      ("min")       *)
(*     alpha = acos((r1^2 + d^2 - r2^2) / (2 r1 d))           ("lens")      *)
(*     beta  = acos((r2^2 + d^2 - r1^2) / (2 r2 d))                        *)
(*     return r1^2 alpha + r2^2 beta - d r1 sin(alpha)                     *)
(*                                                                         *)
(* TLC has neither reals nor acos, so the specification lives on the       *)
(* integers (r1, r2, D2) where D2 = |c1 - c2|^2 is the SQUARED centre      *)
(* distance of two lattice points.  Everything the property says that can  *)
(* be decided on integers is decided here:                                 *)
(*                                                                         *)
(*   * the six-way case analysis (exact comparison of D2 with (r1+-r2)^2), *)
(*     shown to be a partition, symmetric, and monotone along a sweep;     *)
(*   * the implementation's three branches and the exact condition under   *)
(*     which its acos arguments lie in [-1, 1]: Heron's 16 T^2 >= 0, which *)
(*     is ZERO exactly at the two tangencies -- the states where floating  *)
(*     point rounding can push the argument outside the domain;            *)
(*   * the exact value k * pi of the area in every non-lens case and the   *)
(*     closed forms of the lens area for equal discs at D2 = 2 r^2 and     *)
(*     D2 = r^2 (the only lattice configurations whose half-angles are     *)
(*     rational multiples of pi, by Niven's theorem);                      *)
(*   * for the lens case an integer ENCLOSURE [LensLo, LensHi] that comes  *)
(*     from dA/dd = -(chord length), 0 <= chord <= 2 min(r1, r2): the      *)
(*     lattice form of "continuous at the case boundaries" and of          *)
(*     "monotone in the distance".                                         *)
(*                                                                         *)
(* What is NOT decided here (no acos in TLC): the 1e-5 accuracy of the     *)
(* lens formula at generic interior points; there the enclosure only has   *)
(* the width of the Lipschitz bound.                                       *)
(*                                                                         *)
(* Areas are integers in units of  1e-8 * rmax^2  (rmax = larger radius):  *)
(* the harness sends n = round(area / rmax^2 * 1e8).  So pi is 314159265,  *)
(* the statement's accuracy 1e-5 * rmax^2 is 1000 units and the symmetry / *)
(* bound tolerance 1e-6 * rmax^2 is 100 units.                             *)
(*                                                                         *)
(* State machine = a SWEEP: fix the radii, start with coincident centres   *)
(* (D2 = 0) and move the second centre to lattice points of non-decreasing *)
(* distance.  DiscTrace.tla replays observed sweeps of the real function   *)
(* through the same MoveTo action and judges them with Judge.              *)
(*                                                                         *)
(* 32-bit bounds: radii <= 40, D2 <= 200000 (cfgs use <= 12 and <= 1152;   *)
(* the random driver <= 40 and <= 20000).  Largest intermediates are       *)
(* stated next to the operators.                                           *)
(***************************************************************************)
EXTENDS Integers, Sequences, FiniteSets, TLC, Json, SequencesExt

CONSTANTS RMAX,   \* radii are 1..RMAX
          NC,     \* second centre at offset (dx, dy), dx, dy \in 0..NC from the first
          JUMP,   \* a Move increases D2 by at most JUMP (bounds the number of (D2, D2') pairs of the sweep properties)
          EMIT    \* TRUE: print the cases (behaviour generation)

VARIABLES pc, r1, r2, d2,
          enc     \* <<lo, hi>>: integer enclosure of the true overlap area at the current configuration (section 4)
vars == <<pc, r1, r2, d2, enc>>

Sq(x) == x * x
Mn(a, b) == IF a <= b THEN a ELSE b
Mx(a, b) == IF a >= b THEN a ELSE b
Abs(x) == IF x >= 0 THEN x ELSE -x
B2I(x) == IF x THEN 1 ELSE 0

(***************************************************************************)
(* 1. Case analysis on (a, b, D) = (r1, r2, squared distance)              *)
(***************************************************************************)
Concentric(a, b, D) == D = 0
Nested(a, b, D)     == 0 < D /\ D < Sq(a - b)          \* one disc strictly inside the other
IntTangent(a, b, D) == 0 < D /\ D = Sq(a - b)          \* internally tangent
Lens(a, b, D)       == Sq(a - b) < D /\ D < Sq(a + b)  \* proper lens (for a = b: every 0 < D < 4 a^2)
ExtTangent(a, b, D) == D = Sq(a + b)                   \* externally tangent
Apart(a, b, D)      == D > Sq(a + b)

Case(a, b, D) == CASE Concentric(a, b, D) -> "concentric"
                   [] Nested(a, b, D)     -> "nested"
                   [] IntTangent(a, b, D) -> "intTangent"
                   [] Lens(a, b, D)       -> "lens"
                   [] ExtTangent(a, b, D) -> "extTangent"
                   [] Apart(a, b, D)      -> "apart"

\* how many of the six defining predicates hold (must be exactly one: CasePartition)
HowMany(a, b, D) == B2I(Concentric(a, b, D)) + B2I(Nested(a, b, D)) + B2I(IntTangent(a, b, D))
                    + B2I(Lens(a, b, D)) + B2I(ExtTangent(a, b, D)) + B2I(Apart(a, b, D))

\* position of the case along an outward sweep
Rank(c) == CASE c = "concentric" -> 0 [] c = "nested" -> 1 [] c = "intTangent" -> 2
             [] c = "lens" -> 3 [] c = "extTangent" -> 4 [] c = "apart" -> 5

(***************************************************************************)
(* 2. The implementation's branches, in exact arithmetic (d > r1 + r2 iff  *)
(*    D > (r1 + r2)^2 for non-negative numbers), and the acos domain.      *)
(*    arg1 = (a^2 + D - b^2) / (2 a d); |arg1| <= 1 iff                    *)
(*    (a^2 + D - b^2)^2 <= 4 a^2 D iff Heron16 >= 0, where                 *)
(*    Heron16 = 16 T^2 = (D - (a-b)^2) ((a+b)^2 - D), T the area of the    *)
(*    triangle with sides a, b, d.  It is symmetric in a, b, so the same   *)
(*    margin governs arg2.  max intermediate: (a^2 + D)^2 <= 4.7e8.        *)
(***************************************************************************)
ImplBranch(a, b, D) == IF D > Sq(a + b) THEN "zero" ELSE IF D <= Sq(a - b) THEN "min" ELSE "lens"
Heron16(a, b, D) == 4 * Sq(a) * D - Sq(Sq(a) + D - Sq(b))
HeronFactored(a, b, D) == (D - Sq(a - b)) * (Sq(a + b) - D)

(***************************************************************************)
(* 3. Exact values.  Unit = 1e-8 * rmax^2.                                 *)
(***************************************************************************)
U == 100000000
PI8 == 314159265                   \* pi * 1e8, rounded (error 0.36 unit)
HALFPI_M1 == 57079633              \* (pi/2 - 1) * 1e8            equal discs, D2 = 2 r^2 (half-angle pi/4)
TWOTHIRDPI_MS == 122836970         \* (2 pi/3 - sqrt(3)/2) * 1e8  equal discs, D2 = r^2   (half-angle pi/3)

\* floor(x * y / z) for x, y >= 0 < z without overflow when (z - 1) * y and the result fit in 31 bits
MulDiv(x, y, z) == (x \div z) * y + ((x % z) * y) \div z

\* area of the smaller disc, pi * min^2 / max^2 * 1e8 (floor; (PI8 % max^2) * min^2 < 40^4 = 2.56e6)
NormMin(a, b) == MulDiv(PI8, Sq(Mn(a, b)), Sq(Mx(a, b)))

\* coefficient k of the exact area k * pi in the non-lens cases, -1 in the lens case
PiCoef(a, b, D) == LET c == Case(a, b, D) IN
                   IF c \in {"apart", "extTangent"} THEN 0
                   ELSE IF c = "lens" THEN -1 ELSE Sq(Mn(a, b))
\* (the exact area is then PiCoef * pi, i.e. 0 or NormMin(a, b) in area units)

\* closed forms of the lens area for equal discs (normalised by r^2 they do not depend on r); -1 = none
ClosedN(a, b, D) == IF a = b /\ D = 2 * Sq(a) THEN HALFPI_M1
                    ELSE IF a = b /\ D = Sq(a) THEN TWOTHIRDPI_MS ELSE -1

(***************************************************************************)
(* 4. Integer square root and the Lipschitz enclosure of the lens area.    *)
(*    A(d) is non-increasing in d with -dA/dd = chord length in            *)
(*    [0, 2 rmin], A = pi rmin^2 at d = |a - b| and A = 0 at d = a + b, so *)
(*       pi rmin^2 - 2 rmin (d - |a-b|)  <=  A  <=  2 rmin (a + b - d).    *)
(*    Distances are handled in 1/S units, S chosen so that D * S^2 and the *)
(*    products in MulDiv stay below 2^31.                                  *)
(***************************************************************************)
RECURSIVE Bis(_, _, _)
Bis(n, lo, hi) == IF hi - lo <= 1 THEN lo
                  ELSE LET m == (lo + hi) \div 2 IN IF m * m <= n THEN Bis(n, m, hi) ELSE Bis(n, lo, m)
ISqrt(n) == Bis(n, 0, Mn(46341, n + 1))   \* floor(sqrt(n)) for 0 <= n < 2^31  (46340^2 < 2^31)

SOf(rmax, D) == IF D <= 2000 /\ rmax <= 20 THEN 1000 ELSE IF D <= 200000 /\ rmax <= 40 THEN 100 ELSE 10
DLo(D, S) == ISqrt(D * S * S)                                   \* floor(S * sqrt(D))
DHi(D, S) == LET q == DLo(D, S) IN IF q * q = D * S * S THEN q ELSE q + 1   \* ceiling

\* an upper bound, in area units, of 2 * rmin * (t / S) / rmax^2 * 1e8   (t >= 0 in 1/S units);
\* (U \div S) % rmax^2 < rmax^2 and 2 rmin t <= 4 rmin^2 S, so the product is < 4 rmax^4 S <= 1.1e9
LipN(rmin, rmax, t, S) == MulDiv(U \div S, 2 * rmin * t, Sq(rmax)) + 1

\* A second, sharper pair of bounds.  The chord c(t) = sqrt(Heron16(t^2)) / t is CONCAVE on [|a-b|, a+b]
\* (c^2 = (a+b)^2 + (a-b)^2 - t^2 - ((a+b)(a-b)/t)^2 is concave and positive, so is its square root), it vanishes at
\* t = a + b and is >= 0 at t = |a - b|.  Integrating -dA/dt = c(t) under the chord line gives the triangles
\*       A(d) >= (a + b - d) c(d) / 2      and      pi rmin^2 - A(d) >= (d - |a-b|) c(d) / 2.
\* Unlike the Lipschitz bound, the first one is strictly positive just inside external tangency (it grows like
\* gap^1.5), so a result of 0 there is outside the enclosure.  All roundings go in the safe direction.
\* distances for the triangles are taken in 1/TS units, TS as fine as 32-bit arithmetic allows (D * TS^2 < 2^31)
TS(D) == IF D <= 500 THEN 2000 ELSE IF D <= 2000 THEN 1000 ELSE IF D <= 8000 THEN 500 ELSE IF D <= 50000 THEN 200 ELSE 100
\* floor( (U / 2) * gap * c(d) / rmax^2 ) with gap = gapS / TS and c(d) >= ISqrt(Heron16) / (DHi / TS);
\* evaluated only while the products fit in 31 bits (i.e. near the tangencies, where it matters), else 0
TriN(gapS, a, b, D) == LET h == ISqrt(HeronFactored(a, b, D))
                           y == gapS * h
                           dhi == DHi(D, TS(D))
                       IN IF y < 40 * dhi /\ y < 2147483647 \div dhi
                          THEN MulDiv(U \div 2, y, dhi) \div Sq(Mx(a, b)) ELSE 0
LensHi(a, b, D) == LET rmin == Mn(a, b)  rmax == Mx(a, b)  S == SOf(rmax, D) IN
                   Mn(Mn(NormMin(a, b), LipN(rmin, rmax, Mx(0, (a + b) * S - DLo(D, S)), S)),
                      NormMin(a, b) + 1 - TriN(Mx(0, DLo(D, TS(D)) - Abs(a - b) * TS(D)), a, b, D))
LensLo(a, b, D) == LET rmin == Mn(a, b)  rmax == Mx(a, b)  S == SOf(rmax, D) IN
                   Mx(Mx(0, NormMin(a, b) - LipN(rmin, rmax, Mx(0, DHi(D, S) - Abs(a - b) * S), S)),
                      TriN(Mx(0, (a + b) * TS(D) - DHi(D, TS(D))), a, b, D))

\* The enclosure <<lo, hi>> of the true area in every case: a point (+-1 for the rounding of the constants) where
\* the value is known exactly, the Lipschitz interval otherwise.
Enc(a, b, D) == LET k == PiCoef(a, b, D)  cf == ClosedN(a, b, D) IN
                IF k # -1 THEN LET x == IF k = 0 THEN 0 ELSE NormMin(a, b) IN <<Mx(0, x - 1), x + 1>>
                ELSE IF cf # -1 THEN <<cf - 1, cf + 1>>
                ELSE <<LensLo(a, b, D), LensHi(a, b, D)>>

\* how much the area can drop between squared distances D <= E: 2 rmin (sqrt(E) - sqrt(D)), rounded up; the area
\* only changes while |a - b| <= d <= a + b, an interval of length 2 rmin, and never by more than pi rmin^2
DropMax(a, b, D, E) == LET rmin == Mn(a, b)  rmax == Mx(a, b)  S == SOf(rmax, E) IN
                       Mn(NormMin(a, b) + 1, LipN(rmin, rmax, Mn(2 * rmin * S, Mx(0, DHi(E, S) - DLo(D, S))), S))

(***************************************************************************)
(* 5. Property clauses on an OBSERVATION (used by DiscTrace).              *)
(*    An event is the JSON array                                           *)
(*      <<D2, k, s12, n12, s21, n21, z12, z21>>                            *)
(*    D2  squared lattice distance; k in -3..3: the second centre was      *)
(*        moved k units in the last place along the line of centres        *)
(*        (k > 0 = away; |k| for coincident centres); observations at the  *)
(*        same D2 that are identical for several k are sent once, with     *)
(*        k = 0 if 0 is among them;                                        *)
(*    s12 status of area(c1, r1, c2, r2): 0 = a finite number was          *)
(*        returned, 1 = an exception was raised, 2 = NaN / infinite /      *)
(*        not a number;  n12 the value in units 1e-8 rmax^2 (0 if s # 0);  *)
(*    s21, n21: the same with the arguments swapped;                       *)
(*    z12, z21: 1 iff the value is the int 0 of the `return 0` branch      *)
(*        (model conformance only).                                        *)
(*    Moving a centre by <= 3 ulp changes the true area by at most         *)
(*    2 rmin * 3 ulp(|coordinate|), i.e. < 1e-12 rmax^2 for the embeddings *)
(*    used; the rounding of n, of PI8 and of the floors adds < 2 units.    *)
(*    SLACK = 3 units covers both, so every clause below is IMPLIED by the *)
(*    statement (no false alarm) for all k.                                *)
(***************************************************************************)
TOLACC == 1000      \* 1e-5 * rmax^2: "agrees with the exact lens area to within 1e-5 of the larger squared radius"
TOLSYM == 100       \* 1e-6 * rmax^2: symmetry and the two bounds (floating point noise near tangency is < 1e-8)
SLACK  == 3

EvD2(e) == e[1]
EvK(e) == e[2]
Vals(e) == (IF e[3] = 0 THEN {e[4]} ELSE {}) \cup (IF e[5] = 0 THEN {e[6]} ELSE {})

\* clauses about one observation
\* (en = Enc(a, b, EvD2(e)), the enclosure held by the state machine after MoveTo)
Judge(a, b, e, en) ==
  LET D == EvD2(e)  V == Vals(e)  k == PiCoef(a, b, D)  cf == ClosedN(a, b, D)  nm == NormMin(a, b)
      x == IF k = 0 THEN 0 ELSE nm IN
  [ total       |-> e[3] = 0 /\ e[5] = 0,                                      \* "defined for every pair ... never fails"
    symmetric   |-> (e[3] = 0 /\ e[5] = 0) => Abs(e[4] - e[6]) <= TOLSYM,      \* "symmetric in its arguments"
    lower_bound |-> \A v \in V : v >= -TOLSYM,                                 \* "between zero ..."
    upper_bound |-> \A v \in V : v <= nm + TOLSYM + SLACK,                     \* "... and the area of the smaller disc"
    \* "agrees with the exact lens area to within 1e-5 rmax^2":
    accuracy_exact       |-> k # -1 => \A v \in V : Abs(v - x) <= TOLACC + SLACK,
    accuracy_closed_form |-> cf # -1 => \A v \in V : Abs(v - cf) <= TOLACC + SLACK,
    accuracy_enclosure   |-> \A v \in V : en[1] - TOLACC - SLACK <= v /\ v <= en[2] + TOLACC + SLACK ]

\* clauses about two consecutive observations of a sweep (squared distances D <= E), same argument order.
\* Two values that are both within TOLACC of a non-increasing function cannot increase by more than 2 TOLACC,
\* nor drop by more than the function can drop plus 2 TOLACC.
Chain1(a, b, D, E, vp, ve) ==
  [ accuracy_monotone  |-> ve <= vp + 2 * TOLACC + SLACK,
    accuracy_lipschitz |-> \/ vp - ve <= 2 * TOLACC + SLACK
                           \/ vp - ve <= DropMax(a, b, D, E) + 2 * TOLACC + SLACK ]
\* p = <<p12, p21>>, each <<has, D, n>>: the last observation with a value in that argument order
JudgeChain(a, b, p, e) ==
  LET ok == Chain1(a, b, 0, 0, 0, 0)
      c12 == IF p[1][1] = 1 /\ e[3] = 0 THEN Chain1(a, b, p[1][2], EvD2(e), p[1][3], e[4]) ELSE ok
      c21 == IF p[2][1] = 1 /\ e[5] = 0 THEN Chain1(a, b, p[2][2], EvD2(e), p[2][3], e[6]) ELSE ok
  IN [ accuracy_monotone  |-> c12.accuracy_monotone /\ c21.accuracy_monotone,
       accuracy_lipschitz |-> c12.accuracy_lipschitz /\ c21.accuracy_lipschitz ]
NoPrev == <<<<0, 0, 0>>, <<0, 0, 0>>>>
NextPrev(p, e) == << IF e[3] = 0 THEN <<1, EvD2(e), e[4]>> ELSE p[1], IF e[5] = 0 THEN <<1, EvD2(e), e[6]>> ELSE p[2] >>

Failing(rec) == { c \in DOMAIN rec : ~rec[c] }

(***************************************************************************)
(* 6. State machine: the sweep                                             *)
(***************************************************************************)
Offsets == (0..NC) \X (0..NC)
D2S == { Sq(o[1]) + Sq(o[2]) : o \in Offsets }

Init == pc = "start" /\ r1 = 1 /\ r2 = 1 /\ d2 = 0 /\ enc = <<0, 0>>

Start == /\ pc = "start"
         /\ \E a \in 1..RMAX, b \in 1..RMAX : r1' = a /\ r2' = b
         /\ d2' = 0 /\ enc' = Enc(r1', r2', 0) /\ pc' = "sweep"

\* move the second centre to squared distance d (never closer than before)
MoveTo(d) == /\ pc = "sweep" /\ d >= d2
             /\ d2' = d /\ enc' = Enc(r1, r2, d) /\ UNCHANGED <<pc, r1, r2>>

Move == ~EMIT /\ \E d \in D2S : d > d2 /\ d - d2 <= JUMP /\ MoveTo(d)

\* behaviour generation: one line per pair of radii with every lattice offset, its squared distance and case
Emit == /\ EMIT /\ pc = "sweep" /\ d2 = 0
        /\ pc' = "emitted" /\ UNCHANGED <<r1, r2, d2, enc>>
        /\ PrintT(ToJson([ r1 |-> r1, r2 |-> r2,
                           pts |-> SetToSeq({ <<o[1], o[2], Sq(o[1]) + Sq(o[2]), Case(r1, r2, Sq(o[1]) + Sq(o[2]))>> :
                                              o \in Offsets }) ]))

Next == Start \/ Move \/ Emit
Spec == Init /\ [][Next]_vars

(***************************************************************************)
(* 7. Invariants (every state = one (r1, r2, D2)) and sweep properties     *)
(***************************************************************************)
InSweep == pc = "sweep"
TypeOK == /\ pc \in {"start", "sweep", "emitted"} /\ r1 \in 1..RMAX /\ r2 \in 1..RMAX /\ d2 \in D2S
          /\ enc \in Int \X Int /\ (InSweep => enc = Enc(r1, r2, d2))

\* the six cases are a partition of all configurations
CasePartition == InSweep => HowMany(r1, r2, d2) = 1
\* nothing depends on the order of the arguments
SpecSymmetric == InSweep => /\ Case(r1, r2, d2) = Case(r2, r1, d2)
                            /\ PiCoef(r1, r2, d2) = PiCoef(r2, r1, d2)
                            /\ Heron16(r1, r2, d2) = Heron16(r2, r1, d2)
                            /\ enc = Enc(r2, r1, d2)
\* the implementation's branches compute the case analysis: "zero" exactly when apart, "min" exactly when one disc
\* is inside the other (nested / internally tangent / concentric), the acos formula otherwise
BranchAgrees == InSweep => LET c == Case(r1, r2, d2)  br == ImplBranch(r1, r2, d2) IN
                           /\ (br = "zero") = (c = "apart")
                           /\ (br = "min") = (c \in {"concentric", "nested", "intTangent"})
                           /\ (br = "lens") = (c \in {"lens", "extTangent"})
\* In exact arithmetic the acos arguments of the "lens" branch are inside [-1, 1] (totality), the margin is
\* 16 T^2, and it vanishes exactly at the tangencies: at external tangency inside the lens branch (alpha = beta =
\* 0, area 0 = the exact value), at internal tangency on the border of the "min" branch.
AcosDomain == InSweep => LET h == Heron16(r1, r2, d2)  c == Case(r1, r2, d2) IN
                         /\ h = HeronFactored(r1, r2, d2)
                         /\ (ImplBranch(r1, r2, d2) = "lens" => h >= 0)
                         /\ (h = 0) = (c \in {"extTangent", "intTangent"} \/ (c = "concentric" /\ r1 = r2))
                         /\ (h > 0) = (c = "lens")
\* the exact values and the enclosure respect the two bounds of the statement, and the enclosure is not empty
Bounded == InSweep => /\ 0 <= enc[1] /\ enc[1] <= enc[2]
                      /\ enc[2] <= NormMin(r1, r2) + 1
                      /\ NormMin(r1, r2) <= PI8
\* the Lipschitz enclosure contains the closed forms (cross-check of the integer arithmetic of section 4)
ClosedInsideLipschitz == (InSweep /\ ClosedN(r1, r2, d2) # -1) =>
                            /\ Lens(r1, r2, d2)
                            /\ LensLo(r1, r2, d2) <= ClosedN(r1, r2, d2) /\ ClosedN(r1, r2, d2) <= LensHi(r1, r2, d2)
\* the specified value satisfies the property clauses (the model is an instance of the property): an observation
\* that returns any value of the enclosure in both argument orders passes Judge
ModelMeetsProperty == InSweep => \A v \in {enc[1], enc[2]} :
                                    Failing(Judge(r1, r2, <<d2, 0, 0, v, 0, v, 0, 0>>, enc)) = {}

\* Sweep (action) properties.  Moving away never goes back in the case order.  The enclosures of two points of a
\* sweep are consistent with a non-increasing area (the farther point's lower end is not above the nearer point's
\* upper end) and with -dA/dd <= 2 rmin (they do not force a drop larger than the chord bound).  Both also
\* cross-check the closed-form constants against the Lipschitz intervals on either side of them, and the exact
\* boundary values against the lens points next to them: this is "continuity at the case boundaries" on a lattice.
InStep == pc = "sweep" /\ pc' = "sweep"
SweepRankMonotone == [][InStep => Rank(Case(r1, r2, d2)) <= Rank(Case(r1, r2, d2'))]_vars
SweepEnclosureMonotone == [][InStep => enc'[1] <= enc[2]]_vars
SweepEnclosureLipschitz == [][InStep => LET g == enc[1] - enc'[2] IN
                                         g <= 0 \/ g <= DropMax(r1, r2, d2, d2')]_vars
=============================================================================
