SPECIFICATION Spec
CONSTANTS
  NM = 2
  DW = 10
  DH = 10
  PTC = {0, 505, 1005, 304, 510}
  KINDS = {"soft", "hard", "term", "fixed", "fterm"}
  NITS = {100, 101, 150, 250}
  NK = 12
  COSTS = {0}
  EMIT = TRUE
CHECK_DEADLOCK FALSE
