SPECIFICATION VSpec
\* Universe S (thorough): ONE module, trunk 4x4 / 4x2 / 2x4 in the middle of an 8x8 die, up to two branches (1x1, 2x1; at offset 0, 1 or flush with the far end), all kinds, soft with slack 0 and 2, ratio limit 2; multi-violation neighbours included (WILD).
CONSTANTS
  DW = 8
  DH = 8
  RP = 2
  RQ = 1
  TXS = {2}
  TYS = {2}
  TrunkSizes <- TrunkSizesA
  BranchSizes <- BranchSizesS
  BranchOffs = {0, 1, 99}
  Kinds = {"soft", "hard", "fixed"}
  Slacks = {0, 2}
  MaxMods = 1
  MaxBr = 2
  MaxRects = 3
  Deltas <- DeltasV
  Slides <- SlidesV
  EdgeDs <- EdgeDsA
  CHAIN = FALSE
  WILD = FALSE
  FIXMODEL = "intended"
  ANYRATIO = FALSE
  BASEMOD = 4
  CODED = FALSE
  EMIT = FALSE
INVARIANT InvVShape
INVARIANT InvVExact
INVARIANT InvLegalAccepted
INVARIANT InvVOne
CHECK_DEADLOCK FALSE
