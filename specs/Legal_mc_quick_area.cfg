\* Universe A: ONE soft module whose DRAWN area differs from its declared area (4x4 trunk, at most one 1x1 / 2x1 branch, 8x8 die):
\* slack +2 (configurations with less than the drawn but at least the declared area are legal) and deficit -1, -2 (the given
\* configuration violates exactly `area`; so does everything below the declared area, also above the drawn one).
SPECIFICATION Spec
CONSTANTS
  DW = 8
  DH = 8
  RP = 2
  RQ = 1
  TXS = {2}
  TYS = {2}
  TrunkSizes <- TrunkSizes1
  BranchSizes <- BranchSizesS
  BranchOffs = {0, 99}
  Kinds = {"soft"}
  Slacks <- SlacksN
  MaxMods = 1
  MaxBr = 1
  MaxRects = 2
  Deltas <- DeltasA
  Slides <- SlidesA
  EdgeDs <- EdgeDsA
  CHAIN = FALSE
  WILD = FALSE
  FIXMODEL = "intended"
  ANYRATIO = FALSE
  BASEMOD = 2
  EMIT = FALSE
INVARIANT InvShape
INVARIANT InvBuiltLegal
INVARIANT InvSystemExact
INVARIANT InvGroups
INVARIANT InvPerturbOne
INVARIANT InvWild
CHECK_DEADLOCK FALSE
