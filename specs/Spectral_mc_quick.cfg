\* C14 design-level check, universe A (quick): 4 movable modules (soft r=2, soft r=3, hard 4x2 bar r=2, soft r=3)
\* + 1 fixed square on an 8x8 die, cycle of nets, one trial, one power-iteration step per dimension, all choices
\* on the even grid.  Largest intermediate value: WL <= 30 * 5 edges * 16 < 10^4.
SPECIFICATION Spec
CONSTANTS
  HalfSet <- HalfA
  Profiles <- ProfA
  AreaProfiles <- AreaAQ
  Graphs = {"cycle"}
  FixSet <- FixA
  TrialSet = {1}
  MaxIter = 1
  GS = 4
  G = 2
  Rounds = 1
  TOL = 0
  EMIT = FALSE
INVARIANT TemplatesOnLattice
INVARIANT NormalizeMeetsContract
INVARIANT InSpanInv
INVARIANT SeedInv
INVARIANT TrialInv
INVARIANT BestInv
INVARIANT AreasNetsUnchanged
INVARIANT FixedRectsUntouched
INVARIANT CommitInv
INVARIANT HardCentroid
CHECK_DEADLOCK FALSE
