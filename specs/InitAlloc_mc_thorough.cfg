SPECIFICATION Spec
CONSTANTS
  DW = 2
  DH = 2
  KU = 32
  OUT = 1
  MAXR = 1
  MAXM = 2
  SIDES = {32, 64}
  EMIT = FALSE
INVARIANT RatiosInRange
INVARIANT AreaOnCells
INVARIANT ListedOnlyIfCovering
INVARIANT ListedAllIfZero
INVARIANT FixedOwnCells
INVARIANT CoverIsExact
CHECK_DEADLOCK FALSE
