------------------------------- MODULE DrawMC -------------------------------
(* Constant values for the TLC configurations of Draw.tla (cfg files cannot hold tuples or records). *)
EXTENDS Draw

\* die shapes: square, wide, tall, very flat, odd
DiesQ == { <<4, 4>>, <<6, 2>>, <<40, 1>> }
DiesT == { <<4, 4>>, <<6, 2>>, <<2, 6>>, <<40, 1>>, <<3, 7>> }
CatQ == << "centre", "border", "rect", "two", "tcorner", "tout", "nocentre" >>

\* allocation scenes on the 4x4 die; ratios are numerators over RD = 4
Circle(nm, x, y) == << nm, "circle", x, y, 1, <<>> >>
Scene1 == [ mods |-> << Circle("A", 1, 2), Circle("B", 3, 2) >>, nets |-> << <<1, 2>> >>,
            cells |-> << <<0, 0, 2, 4, <<4, 0>>>>, <<2, 0, 4, 4, <<2, 2>>>> >> ]
Scene2 == [ mods |-> << Circle("A", 1, 1), Circle("B", 3, 1), Circle("C", 2, 3) >>, nets |-> << <<1, 2>>, <<1, 2, 3>> >>,
            cells |-> << <<0, 0, 2, 2, <<4, 0, 0>>>>, <<2, 0, 4, 2, <<0, 3, 1>>>>, <<0, 2, 4, 3, <<1, 1, 2>>>>, <<0, 3, 4, 4, <<0, 0, 4>>>> >> ]
ScenesAll == { Scene1, Scene2 }
=============================================================================
