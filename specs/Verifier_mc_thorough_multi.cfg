SPECIFICATION VSpec
\* Universe M (thorough): up to THREE modules on the quadrants of a 9x8 die (trunks 4x4 / 4x2 at x, y in {0, 4}: neighbours touch), at most one 2x1 branch in all, all kinds at every position, ratio limit 2; WILD.
CONSTANTS
  DW = 9
  DH = 8
  RP = 2
  RQ = 1
  TXS = {0, 4}
  TYS = {0, 4}
  TrunkSizes <- TrunkSizesS
  BranchSizes <- BranchSizes1
  BranchOffs = {0, 99}
  Kinds = {"soft", "hard", "fixed"}
  Slacks = {0}
  MaxMods = 3
  MaxBr = 1
  MaxRects = 3
  Deltas <- DeltasV
  Slides <- SlidesV
  EdgeDs <- EdgeDsA
  CHAIN = FALSE
  WILD = FALSE
  FIXMODEL = "intended"
  ANYRATIO = FALSE
  BASEMOD = 4
  CODED = FALSE
  EMIT = FALSE
INVARIANT InvVShape
INVARIANT InvVExact
INVARIANT InvLegalAccepted
INVARIANT InvVOne
CHECK_DEADLOCK FALSE
