\* Universe L: ONE soft module, trunk 6x6 in the middle of a 10x10 die, up to two branches of very unequal length (1x1 and 4x2, at offset 0 or 1: a short branch directly followed by a long one), ratio limit 2.
SPECIFICATION Spec
CONSTANTS
  DW = 10
  DH = 10
  RP = 2
  RQ = 1
  TXS = {2}
  TYS = {2}
  TrunkSizes <- TrunkSizes6
  BranchSizes <- BranchSizesL
  BranchOffs = {0, 1}
  Kinds = {"soft"}
  Slacks = {0}
  MaxMods = 1
  MaxBr = 2
  MaxRects = 3
  Deltas <- DeltasA
  Slides <- SlidesA
  EdgeDs <- EdgeDsA
  CHAIN = FALSE
  WILD = FALSE
  FIXMODEL = "intended"
  ANYRATIO = FALSE
  BASEMOD = 2
  EMIT = TRUE
CHECK_DEADLOCK FALSE
