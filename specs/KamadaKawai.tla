---------------------------- MODULE KamadaKawai ----------------------------
(***************************************************************************)
(* KK -- the Kamada-Kawai relocation stage of `frame force`                *)
(* (tools/force/kamada_kawai.py with tools/force/gekko_common.py; run      *)
(* between add_noise and force_algorithm by tools/force/force.py main).    *)
(*                                                                         *)
(*   kamada_kawai_layout(die, verbose, visualize, max_iter):               *)
(*       graph    = netlist_to_matrix(netlist)      every hyperedge of k   *)
(*                  pins and weight w becomes a clique of edges 2w/k; no   *)
(*                  edge = infinity                                        *)
(*       dist_mat = get_all_shortest_path_lengths(graph)   Floyd-Warshall  *)
(*       diameter = largest finite entry of dist_mat                       *)
(*       spring_length   = ((W + H) / 2) / diameter * dist_mat             *)
(*       spring_strength = 1 / dist_mat^2                                  *)
(*       m = Model(die)   a GEKKO variable per coordinate of every module  *)
(*                  that is not fixed, bounded by the die; fixed modules   *)
(*                  enter as constants                                     *)
(*       objective: springs between the pairs of non-terminal modules that *)
(*                  are not both fixed, pairwise repulsion by area,        *)
(*                  repulsion from the die walls                           *)
(*       solve_and_extract_solution: GEKKO local solver; the centre of     *)
(*                  every module that is not fixed := the solution         *)
(*                                                                         *)
(* The stage is a numeric optimiser, so the specification has two parts:   *)
(*                                                                         *)
(* GRAPH MACHINE (exact).  The ideal distances ARE deterministic integer   *)
(*   arithmetic once lengths are counted in 1/Q units: Setup draws a       *)
(*   netlist (AddNet), Clique builds the adjacency matrix as the code does *)
(*   (later nets overwrite earlier ones), Paths runs Floyd-Warshall in     *)
(*   place, in the code's loop order.  TLC proves on every netlist of the  *)
(*   bounded universe that, with a node at distance 0 from itself, the     *)
(*   result is the shortest-path metric (checked against the definition    *)
(*   by induction on the number of edges): symmetric, zero diagonal,       *)
(*   finite exactly between connected modules; and it proves what the      *)
(*   result is when the diagonal is left at infinity, as the code leaves   *)
(*   it: the same off the diagonal, and on the diagonal twice the distance *)
(*   to the nearest neighbour (LemmaCodedDiagonal).                        *)
(*                                                                         *)
(* LAYOUT MACHINE (contract).  TLC cannot predict what the solver returns, *)
(*   and no property speaks about it.  Place draws kinds and centres,      *)
(*   Declare is Model(die) (which coordinates are variables, their bounds  *)
(*   and start values), Optimize offers EVERY assignment within the        *)
(*   declared bounds (a superset of what any solver can return), Commit is *)
(*   extract_solution.  TLC shows that every behaviour of the contract     *)
(*   keeps fixed modules where they were, every centre inside the die and  *)
(*   everything else untouched.                                            *)
(*                                                                         *)
(* KamadaKawaiTrace.tla checks observed executions of the real functions   *)
(* against both parts (JudgeSetup, JudgeRun = property clauses).           *)
(*                                                                         *)
(* Lengths: an edge of a net with k pins and weight wn/wd has length       *)
(* 2 * wn * Q / (wd * k) units (Q = 60, exact for k <= 6, wd <= 2).        *)
(* Largest intermediate value: a path of 7 edges of length 300.            *)
(***************************************************************************)
EXTENDS Integers, Sequences, FiniteSets, TLC, Json, SequencesExt, FiniteSetsExt

CONSTANTS NMAX,    \* graph machine: netlists of 2..NMAX modules
          MAXNETS, \* graph machine: at most MAXNETS nets
          NM,      \* layout machine: number of modules
          DW, DH,  \* layout machine: die width and height (lattice units)
          PTC,     \* layout machine: centres offered, coded 100 * x + y
          KINDS,   \* layout machine: module kinds offered, subset of {"soft", "hard", "term", "fixed", "fterm"}
          EMIT     \* TRUE: print the cases (behaviour generation)

VARIABLES pc,                 \* graph: "nets" | "clique" | "paths" ; layout: "place" | "placed" | "declared" | "optimized" | "done" ; "emitted"
          n, nets, graph, dist,                     \* the graph machine
          W, H, kind, pos0, decl, pos, sig0, sig    \* the layout machine
gvars == <<n, nets, graph, dist>>
lvars == <<W, H, kind, pos0, decl, pos, sig0, sig>>
vars == <<pc, gvars, lvars>>

Mn(a, b) == IF a <= b THEN a ELSE b
Mx(a, b) == IF a >= b THEN a ELSE b
Abs(x) == IF x >= 0 THEN x ELSE -x

(***************************************************************************)
(* 1. Ideal distances                                                      *)
(***************************************************************************)
Q == 60
INF == 100000000                              \* numpy's inf
Add(a, b) == IF a = INF \/ b = INF THEN INF ELSE a + b
Idx(m) == 1..m
Pairs(m) == Idx(m) \X Idx(m)
Net(p, w) == [pins |-> p, w |-> w]           \* pins: distinct module indices; w = <<num, den>>
\* 2 * weight / number of pins
EdgeLen(e) == (2 * e.w[1] * Q) \div (e.w[2] * Len(e.pins))
Exact(e) == (2 * e.w[1] * Q) % (e.w[2] * Len(e.pins)) = 0
Joins(e, i, j) == i # j /\ i \in Range(e.pins) /\ j \in Range(e.pins)

\* netlist_to_matrix: infinity everywhere (the diagonal included), then every net writes its clique, in order
Clique(m, es) ==
  FoldLeft(LAMBDA g, e : [p \in Pairs(m) |-> IF Joins(e, p[1], p[2]) THEN EdgeLen(e) ELSE g[p]],
           [p \in Pairs(m) |-> INF], es)
ZeroDiagonal(g) == [p \in DOMAIN g |-> IF p[1] = p[2] THEN 0 ELSE g[p]]

\* get_all_shortest_path_lengths: for k, for i, for j: d[i][j] = min(d[i][j], d[i][k] + d[k][j]), IN PLACE
Triple(m, t) == <<((t - 1) \div (m * m)) + 1, (((t - 1) \div m) % m) + 1, ((t - 1) % m) + 1>>
FloydWarshall(m, g) ==
  FoldLeft(LAMBDA d, t : LET k == Triple(m, t)[1]  i == Triple(m, t)[2]  j == Triple(m, t)[3] IN
                         [d EXCEPT ![<<i, j>>] = Mn(d[<<i, j>>], Add(d[<<i, k>>], d[<<k, j>>]))],
           g, [t \in 1..(m * m * m) |-> t])
\* the ideal distances: a module is at distance 0 from itself
IdealDistances(m, es) == FloydWarshall(m, ZeroDiagonal(Clique(m, es)))
\* what the code computes: the diagonal starts at infinity
CodedDistances(m, es) == FloydWarshall(m, Clique(m, es))

\* THE DEFINITION: length of a shortest path, by induction on the number of edges allowed
MoreEdges(m, g, d) == [p \in Pairs(m) |-> Min({d[p]} \cup { Add(d[<<p[1], k>>], g[<<k, p[2]>>]) : k \in Idx(m) \ {p[2]} })]
NoEdges(m) == [p \in Pairs(m) |-> IF p[1] = p[2] THEN 0 ELSE INF]
\* a shortest path visits no module twice: m - 1 edges suffice
ShortestPaths(m, es) == LET g == Clique(m, es) IN
                        FoldLeft(LAMBDA d, e : MoreEdges(m, g, d), NoEdges(m), [e \in 1..(m - 1) |-> e])
\* modules joined by a chain of nets
Connected(m, es, i, j) == ShortestPaths(m, es)[<<i, j>>] < INF
\* the largest finite distance between two different modules (0 when nothing is connected)
Diameter(m, d) == Max({0} \cup { d[p] : p \in { q \in Pairs(m) : q[1] # q[2] /\ d[q] < INF } })
\* "max value not infinity" over the WHOLE matrix, as the code takes it
LargestFinite(m, d) == Max({0} \cup { d[p] : p \in { q \in Pairs(m) : d[q] < INF } })

(***************************************************************************)
(* 2. The graph machine                                                    *)
(***************************************************************************)
Weights == { <<1, 1>>, <<5, 2>> }
PinSets(m) == { S \in SUBSET Idx(m) : Cardinality(S) >= 2 }
NoMatrix == <<>>
InitGraph == /\ pc = "nets" /\ n \in 2..NMAX /\ nets = <<>> /\ graph = NoMatrix /\ dist = NoMatrix
             /\ W = 0 /\ H = 0 /\ kind = <<>> /\ pos0 = <<>> /\ decl = <<>> /\ pos = <<>> /\ sig0 = "S" /\ sig = "S"

\* one more net: any set of at least two modules, weight 1 or 5/2 (the order of the nets matters: the last one
\* that joins two modules decides the length of their edge)
AddNet == /\ pc = "nets" /\ Len(nets) < MAXNETS
          /\ \E S \in PinSets(n), w \in Weights : nets' = Append(nets, Net(SetToSortSeq(S, <), w))
          /\ UNCHANGED <<pc, n, graph, dist, lvars>>
CliqueStep == /\ ~EMIT /\ pc = "nets"
              /\ graph' = Clique(n, nets)
              /\ pc' = "clique" /\ UNCHANGED <<n, nets, dist, lvars>>
PathsStep == /\ pc = "clique"
             /\ dist' = FloydWarshall(n, ZeroDiagonal(graph))
             /\ pc' = "paths" /\ UNCHANGED <<n, nets, graph, lvars>>
EmitGraph == /\ EMIT /\ pc = "nets"
             /\ PrintT(ToJson([kind |-> "graph", n |-> n, nets |-> nets]))
             /\ pc' = "emitted" /\ UNCHANGED <<gvars, lvars>>

(***************************************************************************)
(* 3. The layout machine                                                   *)
(***************************************************************************)
IsFixed(k) == k \in {"fixed", "fterm"}          \* Module.is_fixed
InDie(p, w, h) == 0 <= p[1] /\ p[1] <= w /\ 0 <= p[2] /\ p[2] <= h
PTS == { <<c \div 100, c % 100>> : c \in PTC }
Interior(p) == 2 <= p[1] /\ p[1] <= DW - 2 /\ 2 <= p[2] /\ p[2] <= DH - 2
\* Model(die): a fixed module enters as the constants of its centre; every other module gets two variables,
\* bounded by the die, starting at its centre.  <<isVariable, lower x, upper x, lower y, upper y, start>>
Declared(k, p, w, h) == IF IsFixed(k) THEN <<0, p[1], p[1], p[2], p[2], p>> ELSE <<1, 0, w, 0, h, p>>
Within(d, q) == d[2] <= q[1] /\ q[1] <= d[3] /\ d[4] <= q[2] /\ q[2] <= d[5]

RECURSIVE Prod(_)
Prod(ss) == IF ss = <<>> THEN {<<>>} ELSE { <<x>> \o t : x \in Head(ss), t \in Prod(Tail(ss)) }

InitLayout == /\ pc = "place" /\ W = DW /\ H = DH /\ kind = <<>> /\ pos0 = <<>> /\ decl = <<>> /\ pos = <<>> /\ sig0 = "S" /\ sig = "S"
              /\ n = 0 /\ nets = <<>> /\ graph = NoMatrix /\ dist = NoMatrix

\* an input inside the quantifier (as in Force.tla): every centre inside the closed die; modules with rectangles
\* (hard, fixed; half-size 1) lie inside the die and the rectangles of fixed modules do not overlap; soft modules and
\* terminals may sit on the border or in a corner; any number of centres may coincide
Place == /\ pc = "place"
         /\ \E ks \in [1..NM -> KINDS], ps \in [1..NM -> PTS] :
               /\ \A j \in 1..NM : ks[j] \in {"fixed", "hard"} => Interior(ps[j])
               /\ \E j \in 1..NM : ks[j] \notin {"term", "fterm"}
               /\ \A i \in 1..NM, j \in 1..NM : (i < j /\ ks[i] = "fixed" /\ ks[j] = "fixed") =>
                        (Abs(ps[i][1] - ps[j][1]) >= 2 \/ Abs(ps[i][2] - ps[j][2]) >= 2)
               /\ kind' = ks /\ pos0' = ps /\ pos' = ps
         /\ pc' = "placed" /\ UNCHANGED <<W, H, decl, sig0, sig, gvars>>
Declare == /\ ~EMIT /\ pc = "placed"
           /\ decl' = [j \in DOMAIN kind |-> Declared(kind[j], pos0[j], W, H)]
           /\ pc' = "declared" /\ UNCHANGED <<W, H, kind, pos0, pos, sig0, sig, gvars>>
\* the solver: ANY values within the declared bounds (only the lattice points offered, to keep the model finite)
OptimizeTo(q) == /\ pc = "declared"
                 /\ \A j \in DOMAIN q : Within(decl[j], q[j])
                 /\ pos' = q
                 /\ pc' = "optimized" /\ UNCHANGED <<W, H, kind, pos0, decl, sig0, sig, gvars>>
Optimize == ~EMIT /\ pc = "declared" /\ \E q \in Prod([j \in DOMAIN kind |-> { p \in PTS \cup {pos0[j]} : Within(decl[j], p) }]) : OptimizeTo(q)
\* extract_solution writes the centres of the modules that are not fixed and nothing else (`sig` is not written)
Commit == /\ pc = "optimized"
          /\ pc' = "done" /\ UNCHANGED <<lvars, gvars>>
EmitLayout == /\ EMIT /\ pc = "placed"
              /\ PrintT(ToJson([kind |-> "layout", W |-> W, H |-> H, kinds |-> kind, pos0 |-> pos0]))
              /\ pc' = "emitted" /\ UNCHANGED <<gvars, lvars>>

Init == InitGraph \/ InitLayout
Next == AddNet \/ CliqueStep \/ PathsStep \/ EmitGraph \/ Place \/ Declare \/ Optimize \/ Commit \/ EmitLayout
Spec == Init /\ [][Next]_vars

(***************************************************************************)
(* 4. Invariants                                                           *)
(***************************************************************************)
TypeOK == /\ pc \in {"nets", "clique", "paths", "place", "placed", "declared", "optimized", "done", "emitted"}
          /\ \A k \in DOMAIN nets : Exact(nets[k])
InGraph == pc \in {"clique", "paths"}
\* the adjacency matrix: symmetric, an edge exactly between modules that share a net, infinity on the diagonal
GraphSymmetric == InGraph => \A p \in Pairs(n) : graph[p] = graph[<<p[2], p[1]>>]
GraphEdges == InGraph => \A p \in Pairs(n) :
                 /\ (graph[p] < INF <=> \E k \in DOMAIN nets : Joins(nets[k], p[1], p[2]))
                 /\ (graph[p] < INF => \E k \in DOMAIN nets : Joins(nets[k], p[1], p[2]) /\ graph[p] = EdgeLen(nets[k]))
\* the ideal distances are the shortest-path metric
DistIsShortestPath == pc = "paths" => dist = ShortestPaths(n, nets)
DistSymmetric == pc = "paths" => \A p \in Pairs(n) : dist[p] = dist[<<p[2], p[1]>>]
DistZeroDiagonal == pc = "paths" => \A i \in Idx(n) : dist[<<i, i>>] = 0
DistFiniteIffConnected == pc = "paths" => \A p \in Pairs(n) : (dist[p] < INF <=> Connected(n, nets, p[1], p[2]))
DistTriangle == pc = "paths" => \A p \in Pairs(n) : \A k \in Idx(n) : dist[p] <= Add(dist[<<p[1], k>>], dist[<<k, p[2]>>])
\* with the diagonal left at infinity (the code): the same distances between different modules, and on the
\* diagonal twice the distance to the nearest neighbour (infinity for an isolated module) -- so the largest finite
\* entry can exceed the diameter (a single net: twice the diameter)
LemmaCodedDiagonal == pc = "paths" =>
   LET c == CodedDistances(n, nets) IN
   /\ \A p \in Pairs(n) : p[1] # p[2] => c[p] = dist[p]
   /\ \A i \in Idx(n) : c[<<i, i>>] = Min({INF} \cup { Add(dist[<<i, k>>], dist[<<i, k>>]) : k \in Idx(n) \ {i} })
   /\ LargestFinite(n, c) >= Diameter(n, dist) /\ LargestFinite(n, dist) = Diameter(n, dist)

InLayout == pc \in {"declared", "optimized", "done"}
FixedUnmoved == InLayout => \A j \in DOMAIN kind : IsFixed(kind[j]) => pos[j] = pos0[j]
CentresInDie == InLayout => \A j \in DOMAIN kind : InDie(pos[j], W, H)
OnlyCentresChange == sig = sig0
DeclaredBounds == InLayout => \A j \in DOMAIN kind : Within(decl[j], pos0[j]) /\ decl[j][6] = pos0[j]

(***************************************************************************)
(* 5. Property clauses on OBSERVATIONS (used by KamadaKawaiTrace)          *)
(*                                                                         *)
(* A setup observation `o` (netlist_to_matrix and                          *)
(* get_all_shortest_path_lengths called on a real Netlist, directly or as  *)
(* seen by harness-side wrappers inside kamada_kawai_layout):              *)
(*   n, nets   the netlist (module indices, weights <<num, den>>)          *)
(*   graph, dist   the matrices returned, row by row, in 1/Q units,        *)
(*                 -1 = infinity, -2 = not a number / not on the 1/Q grid  *)
(***************************************************************************)
Obs(v) == IF v = -1 THEN INF ELSE v
ObsMatrix(m, rows) == [p \in Pairs(m) |-> Obs(rows[p[1]][p[2]])]
WellFormed(m, rows) == Len(rows) = m /\ \A i \in Idx(m) : Len(rows[i]) = m /\ \A j \in Idx(m) : rows[i][j] >= -1
\* `sp` = the shortest-path distances of the observed netlist.  KamadaKawaiTrace passes the value of the
\* variable `dist` after CliqueStep ; PathsStep on that netlist (= ShortestPaths by the invariant DistIsShortestPath).
JudgeSetup(o, sp) ==
  IF ~(WellFormed(o.n, o.graph) /\ WellFormed(o.n, o.dist)) THEN [ matrices_are_numbers |-> FALSE ] ELSE
  [ matrices_are_numbers |-> TRUE,
    \* netlist_to_matrix: "graph[i][j] contains the weight of edge (i, j), or infinity if there is no such edge"
    graph_symmetric   |-> \A p \in Pairs(o.n) : o.graph[p[1]][p[2]] = o.graph[p[2]][p[1]],
    graph_edges       |-> \A p \in Pairs(o.n) : p[1] # p[2] =>
                             LET v == Obs(o.graph[p[1]][p[2]]) IN
                             /\ (v < INF <=> \E k \in DOMAIN o.nets : Joins(o.nets[k], p[1], p[2]))
                             /\ (v < INF => \E k \in DOMAIN o.nets : Joins(o.nets[k], p[1], p[2]) /\ v = EdgeLen(o.nets[k])),
    \* get_all_shortest_path_lengths: "dist_mat[i][j] contains the distance of the shortest path between nodes
    \* i and j, or infinity if there is no path"
    dist_symmetric    |-> \A p \in Pairs(o.n) : o.dist[p[1]][p[2]] = o.dist[p[2]][p[1]],
    dist_shortest     |-> \A p \in Pairs(o.n) : p[1] # p[2] => Obs(o.dist[p[1]][p[2]]) = sp[p],
    dist_zero_diagonal |-> \A i \in Idx(o.n) : o.dist[i][i] = 0,
    dist_finite_iff_connected |-> \A p \in Pairs(o.n) : p[1] # p[2] => (o.dist[p[1]][p[2]] # -1 <=> sp[p] < INF),
    \* "graph_diameter ... max value not infinity": the number the ideal edge length is derived from
    diameter          |-> Max({0} \cup { o.dist[p[1]][p[2]] : p \in Pairs(o.n) }) = Diameter(o.n, sp) ]
\* model conformance: the matrices are exactly what the specification computes for the code as written
SetupDrift(o) ==
  IF ~(WellFormed(o.n, o.graph) /\ WellFormed(o.n, o.dist)) THEN {} ELSE
  (IF \A p \in Pairs(o.n) : p[1] # p[2] => ObsMatrix(o.n, o.graph)[p] = Clique(o.n, o.nets)[p] THEN {} ELSE {"later_net_overwrites"})
  \cup (IF ObsMatrix(o.n, o.dist) = CodedDistances(o.n, o.nets) \/ ObsMatrix(o.n, o.dist) = IdealDistances(o.n, o.nets)
        THEN {} ELSE {"distances_differ_from_both_models"})

(***************************************************************************)
(* A run observation `o` (one call of kamada_kawai_layout; coordinates in  *)
(* units of 1e-6 * max(W, H)):                                             *)
(*   ret    1 the call returned, 0 GEKKO reported "Solution Not Found"     *)
(*          (counted, not judged), -1 it raised something else             *)
(*   W, H   die sides;  fx[j] 1 iff module j is fixed                      *)
(*   p0[j], fin[j]  centre of module j before / after;  ok[j] 1 iff the    *)
(*          returned centre exists and is finite                           *)
(*   sig0, sig1  everything else before / after (as in Force.tla)          *)
(*   bitsA, bitsB  bit patterns of the returned centres in two             *)
(*          independent executions on equal inputs                         *)
(*   decl[j]  what Model declared for module j:                            *)
(*          <<isVariable, lower x, upper x, lower y, upper y, <<start>>>>  *)
(***************************************************************************)
TOL == 1
Mods(o) == 1..Len(o.fx)
JudgeRun(o) ==
  IF o.ret = 0 THEN [ no_solution |-> TRUE ]
  ELSE IF o.ret # 1 THEN [ returns |-> FALSE ] ELSE
  [ returns       |-> TRUE,
    finite        |-> \A j \in Mods(o) : o.ok[j] = 1,
    in_die        |-> \A j \in Mods(o) : o.ok[j] = 1 =>
                          /\ -TOL <= o.fin[j][1] /\ o.fin[j][1] <= o.W + TOL
                          /\ -TOL <= o.fin[j][2] /\ o.fin[j][2] <= o.H + TOL,
    fixed_unmoved |-> \A j \in Mods(o) : (o.fx[j] = 1 /\ o.ok[j] = 1) => o.fin[j] = o.p0[j],
    same_modules    |-> o.sig1.mods = o.sig0.mods,
    same_areas      |-> o.sig1.areas = o.sig0.areas,
    same_rectangles |-> o.sig1.rects = o.sig0.rects,
    same_nets       |-> o.sig1.nets = o.sig0.nets,
    deterministic   |-> o.bitsA = o.bitsB ]
\* model conformance: Model declares what the specification says, and the result is within the declared bounds
RunDrift(o) ==
  IF Len(o.decl) # Len(o.fx)          \* no Model was built: expected only when nothing is movable
  THEN (IF \A j \in Mods(o) : o.fx[j] = 1 THEN {} ELSE {"no_model_declared"}) ELSE
  (IF \A j \in Mods(o) : o.decl[j] = Declared(IF o.fx[j] = 1 THEN "fixed" ELSE "soft", o.p0[j], o.W, o.H) THEN {} ELSE {"declaration"})
  \cup (IF o.ret = 1 /\ ~(\A j \in Mods(o) : o.ok[j] = 1 => Within(<<0, o.decl[j][2] - TOL, o.decl[j][3] + TOL, o.decl[j][4] - TOL, o.decl[j][5] + TOL>>, o.fin[j]))
        THEN {"outside_declared_bounds"} ELSE {})
Failing(rec) == { c \in DOMAIN rec : ~rec[c] }
=============================================================================
