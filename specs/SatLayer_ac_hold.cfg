SPECIFICATION SSpec
CONSTANTS
  Vars = {"a", "b", "c"}
  Fams = {"clause", "imply", "amo", "pb"}
  ClauseMax = 2
  AmoSeq = 2
  AmoMax = 3
  AmoPols = {0, 1}
  HeuleKs = {3}
  PbShape = "ordered"
  PbTerms = 3
  PbPols = {0, 1}
  PbNeg = 0
  PbPos = 3
  PbBound = 8
  PbOps = {">="}
  MaxMgrs = 1
  MaxPosts = 1
  EMIT = TRUE
  PROBE = TRUE
  ACKinds = {"clause", "imply", "amo_quadratic", "amo_heule", "pb_clause"}
  RDecs = {TRUE, FALSE}
  RTerms = 0
  RCoef = 0
  RBound = 0
  RBuilds = 0
  CoefNeg = 0
  CoefPos = 0
  ConstMax = 0
  MulNeg = 0
  MulPos = 0
  CMax = 0
  KMax = 0
  CMax2 = 0
  KMax2 = 0
CHECK_DEADLOCK FALSE
INVARIANT ProbeSound
INVARIANT ProbeDetectsInconsistency
INVARIANT ProbeArcConsistent
