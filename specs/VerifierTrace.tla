---------------------------- MODULE VerifierTrace ----------------------------
(***************************************************************************)
(* VERIFIER, code -> spec: batch validation of what the real               *)
(* tools/verifier/verifier.py answered.                                    *)
(*                                                                         *)
(* One trace = one input netlist + die, and a list of events; each event   *)
(* is one output floorplan for which the harness wrote the three YAML      *)
(* files and ran `main`: `acc` = 1 when it printed "No errors were         *)
(* found!", `tags` = the checks that complained (parsed from its           *)
(* messages).  Every step evaluates the specification's `VClauses`         *)
(* (contract) and `VChecks` (the transcribed verifier, CODED = FALSE) on   *)
(* the event's output.                                                     *)
(*                                                                         *)
(* Property clauses (only these produce VIOLATION), for well-formed pairs  *)
(* with at most one false contract clause:                                 *)
(*    refuses_acceptable     every contract clause holds, yet not accepted *)
(*    admits_unacceptable    one contract clause is false, yet accepted    *)
(* Model conformance (MODEL-DRIFT): the complaining checks differ from the *)
(* ones the transcribed verifier predicts.  Pairs with several false       *)
(* clauses are listed in `outq` and not judged.  Total verdicts.           *)
(***************************************************************************)
EXTENDS Verifier, IOUtils

Batch == JsonDeserialize(IOEnv.TRACE_FILE)

VARIABLES tid, l, fails, drift, outq
tvars == <<vvars, tid, l, fails, drift, outq>>

T == Batch[tid]
SetOf(s) == { s[k] : k \in DOMAIN s }

TraceInit == /\ tid \in 1..Len(Batch) /\ l = 1 /\ fails = {} /\ drift = {} /\ outq = {}
             /\ pc = "trace" /\ net = Batch[tid].net /\ cfg = Orig(Batch[tid].net) /\ broken = "none"
             /\ out = <<>> /\ pcv = "trace" /\ vbroken = "none"

Step == /\ l <= Len(T.events)
        /\ LET e == T.events[l]
               ok == NetOK(net) /\ OutOK(net, e.out)
               F == IF ok THEN VFalse(T.w, net, e.out) ELSE {}
               inq == ok /\ Cardinality(F) <= 1
               which == IF F = {} THEN "none" ELSE CHOOSE k \in F : TRUE
           IN /\ out' = e.out
              /\ vbroken' = which
              /\ fails' = IF ~inq THEN fails
                          ELSE IF F = {} /\ e.acc = 0 THEN fails \cup {<<l, "refuses_acceptable", "none">>}
                          ELSE IF F # {} /\ e.acc = 1 THEN fails \cup {<<l, "admits_unacceptable", which>>}
                          ELSE fails
              /\ drift' = IF inq /\ SetOf(e.tags) # VTags(T.w, net, e.out)
                          THEN drift \cup {<<l, "checks", which>>} ELSE drift
              /\ outq' = IF inq THEN outq ELSE outq \cup {l}
        /\ l' = l + 1 /\ UNCHANGED <<vars, pcv, tid>>

Done == /\ l = Len(T.events) + 1
        /\ l' = l + 1
        /\ PrintT(ToJson([tag |-> "VERDICT", id |-> T.id, fails |-> fails, drift |-> drift, outq |-> outq]))
        /\ UNCHANGED <<vvars, tid, fails, drift, outq>>

TraceNext == Step \/ Done
TraceSpec == TraceInit /\ [][TraceNext]_tvars
=============================================================================
