SPECIFICATION Spec
CONSTANTS
  MAXROWS = 4
  MAXCOLS = 4
  MAXCELLS = 12
  DECLCELLS = 12
  EMIT = FALSE
INVARIANT TypeOK
INVARIANT InvExists
INVARIANT InvPartition
INVARIANT InvAbut
INVARIANT InvShadowIsDecl
INVARIANT InvTrunksSuffice
INVARIANT InvTrunksFull
INVARIANT LemmaTrunksValid
CHECK_DEADLOCK FALSE
