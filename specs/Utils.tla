------------------------------- MODULE Utils -------------------------------
(***************************************************************************)
(* UTILS -- frame/utils/utils.py and frame/utils/keywords.py:              *)
(*   valid_identifier, is_number, string_is_number, almost_eq, read_yaml,  *)
(*   write_yaml, and how the netlist reader uses valid_identifier.         *)
(*                                                                         *)
(* STRINGS.  A string is a sequence of SYMBOLS.  A symbol stands for a     *)
(* class of characters with one or two concrete representatives chosen by  *)
(* the driver (its "embedding"); letters that occur in the words float()   *)
(* knows (nan, inf, infinity) and the exponent letter are their own        *)
(* symbols.  Sym lists all symbols, Class their character class:           *)
(*   lower  a n i f t y e x(any other a-z)     upper  A N I F T Y E X      *)
(*   digit  0 7            udigit  udig (non-ASCII decimal digit)          *)
(*   us _    dot .    sign + -    space sp    ws tab (tab, form feed), nl   *)
(*   uletter uni (non-ASCII letter)   quote q   colon :   other br ({ # ..)*)
(*                                                                         *)
(* Three recognisers run side by side, ONE ACTION (Consume) PER CHARACTER: *)
(*   idst   valid_identifier's grammar (docstring: "The first character    *)
(*          must be a letter or '_'. The remaining characters can also be  *)
(*          digits"; letters = A-Z a-z, as the function's pattern spells)  *)
(*   numst  the strings float() converts (string_is_number's docstring:    *)
(*          "represents a number"; its body: float(s) succeeds): optional  *)
(*          surrounding whitespace, optional sign, then nan / inf /        *)
(*          infinity in any case, or a decimal with optional fraction and  *)
(*          exponent, single underscores between digits, any Unicode digit *)
(*   csst   read_yaml's documented rule: "The distinction between a YAML   *)
(*          contents and a file name is done by checking that ': ' exists" *)
(* TLC enumerates every string over Alpha up to MaxLen and checks, in      *)
(* every state, that each machine agrees with an independent declarative   *)
(* definition of its language, and the lemmas:                             *)
(*   BothLanguages   a string is an identifier AND a number exactly when   *)
(*                   it is nan / inf / infinity in some capitalisation     *)
(*   PlainIsNumber   every plain decimal literal is accepted               *)
(*   TextNeverFile   a text containing ': ' is never taken for a file name *)
(* Value-level operators (IsIdentifier, IsFloatLiteral, Route, IsNumberKind*)
(* AlmostEq, HasColonSpace ..) are shared with UtilsTrace.tla.             *)
(***************************************************************************)
EXTENDS Integers, Sequences, FiniteSets, TLC, Json

CONSTANTS NEWLINE_TEXT,  \* FALSE: read_yaml's documented rule (': ' decides); TRUE: the rule of the proposed repair
                     \*   fixes/UTILS-read-yaml-newline-is-text.patch (a string with a newline is YAML text too)
          Alpha,     \* symbols used for the enumeration (subset of Sym)
          MaxLen,    \* strings up to this length
          EMIT       \* TRUE: print the strings (behaviour generation)

VARIABLES s, idst, numst, csst, pc
vars == <<s, idst, numst, csst, pc>>

Lower == {"a", "n", "i", "f", "t", "y", "e", "x"}
Upper == {"A", "N", "I", "F", "T", "Y", "E", "X"}
Sym == Lower \cup Upper \cup {"0", "7", "udig", "_", ".", "+", "-", "sp", "tab", "nl", "uni", "q", ":", "br"}
Class(c) == CASE c \in Lower -> "lower" [] c \in Upper -> "upper" [] c \in {"0", "7"} -> "digit"
              [] c = "udig" -> "udigit" [] c = "_" -> "us" [] c = "." -> "dot" [] c \in {"+", "-"} -> "sign"
              [] c = "sp" -> "space" [] c \in {"tab", "nl"} -> "ws" [] c = "uni" -> "uletter" [] c = "q" -> "quote"
              [] c = ":" -> "colon" [] OTHER -> "other"
\* lower-case letter of a letter symbol ("" for anything else)
Low(c) == CASE c \in Lower -> c [] c = "A" -> "a" [] c = "N" -> "n" [] c = "I" -> "i" [] c = "F" -> "f"
            [] c = "T" -> "t" [] c = "Y" -> "y" [] c = "E" -> "e" [] c = "X" -> "x" [] OTHER -> ""
IsLetter(c) == Class(c) \in {"lower", "upper"}
IsDigit(c) == Class(c) \in {"digit", "udigit"}          \* float() takes every Unicode decimal digit
IsWs(c) == Class(c) \in {"space", "ws"}

(***************************************************************************)
(* valid_identifier                                                        *)
(***************************************************************************)
IdStep(st, c) ==
  CASE st = "start" -> IF IsLetter(c) \/ c = "_" THEN "id" ELSE "dead"
    [] st = "id"    -> IF IsLetter(c) \/ c = "_" \/ Class(c) = "digit" THEN "id" ELSE "dead"
    [] OTHER        -> "dead"
IdAccept(st) == st = "id"
\* declaratively
IdDecl(w) == /\ Len(w) >= 1 /\ (IsLetter(w[1]) \/ w[1] = "_")
             /\ \A i \in 2..Len(w) : IsLetter(w[i]) \/ w[i] = "_" \/ Class(w[i]) = "digit"

(***************************************************************************)
(* float(): the number machine                                             *)
(***************************************************************************)
Word(st, l) ==        \* inside nan / inf / infinity; l = lower-case letter
  CASE st = "Wn" /\ l = "a" -> "Wna" [] st = "Wna" /\ l = "n" -> "Wnan"
    [] st = "Wi" /\ l = "n" -> "Win" [] st = "Win" /\ l = "f" -> "Winf" [] st = "Winf" /\ l = "i" -> "Winfi"
    [] st = "Winfi" /\ l = "n" -> "Winfin" [] st = "Winfin" /\ l = "i" -> "Winfini"
    [] st = "Winfini" /\ l = "t" -> "Winfinit" [] st = "Winfinit" /\ l = "y" -> "Winfinity"
    [] OTHER -> "dead"
NumStep(st, c) ==
  LET d == IsDigit(c)  l == Low(c)  w == IsWs(c) IN
  CASE st \in {"S", "G"} ->
         IF st = "S" /\ w THEN "S"
         ELSE IF st = "S" /\ Class(c) = "sign" THEN "G"
         ELSE IF d THEN "I" ELSE IF c = "." THEN "P0" ELSE IF l = "n" THEN "Wn" ELSE IF l = "i" THEN "Wi" ELSE "dead"
    [] st = "I"  -> IF d THEN "I" ELSE IF c = "_" THEN "IU" ELSE IF c = "." THEN "P" ELSE IF l = "e" THEN "E0" ELSE IF w THEN "T" ELSE "dead"
    [] st = "IU" -> IF d THEN "I" ELSE "dead"
    [] st = "P0" -> IF d THEN "F" ELSE "dead"
    [] st = "P"  -> IF d THEN "F" ELSE IF l = "e" THEN "E0" ELSE IF w THEN "T" ELSE "dead"
    [] st = "F"  -> IF d THEN "F" ELSE IF c = "_" THEN "FU" ELSE IF l = "e" THEN "E0" ELSE IF w THEN "T" ELSE "dead"
    [] st = "FU" -> IF d THEN "F" ELSE "dead"
    [] st = "E0" -> IF Class(c) = "sign" THEN "E1" ELSE IF d THEN "X" ELSE "dead"
    [] st = "E1" -> IF d THEN "X" ELSE "dead"
    [] st = "X"  -> IF d THEN "X" ELSE IF c = "_" THEN "XU" ELSE IF w THEN "T" ELSE "dead"
    [] st = "XU" -> IF d THEN "X" ELSE "dead"
    [] st \in {"Wnan", "Winfinity"} -> IF w THEN "T" ELSE "dead"
    [] st = "Winf" -> IF w THEN "T" ELSE Word(st, l)
    [] st = "T"  -> IF w THEN "T" ELSE "dead"
    [] st = "dead" -> "dead"
    [] OTHER -> IF l = "" THEN "dead" ELSE Word(st, l)
NumAccept(st) == st \in {"I", "P", "F", "X", "Wnan", "Winf", "Winfinity", "T"}

\* declaratively: strip whitespace, optional sign, then a word or a decimal
Sub(w, i, j) == SubSeq(w, i, j)
DigitPart(w) == /\ Len(w) >= 1 /\ IsDigit(w[1]) /\ IsDigit(w[Len(w)])
                /\ \A i \in 1..Len(w) : IsDigit(w[i]) \/ w[i] = "_"
                /\ \A i \in 1..(Len(w) - 1) : ~(w[i] = "_" /\ w[i + 1] = "_")
Mantissa(w) == \/ DigitPart(w)
               \/ \E k \in 1..Len(w) : /\ w[k] = "."
                    /\ LET a == Sub(w, 1, k - 1)  b == Sub(w, k + 1, Len(w)) IN
                       \/ DigitPart(a) /\ (b = <<>> \/ DigitPart(b))
                       \/ a = <<>> /\ DigitPart(b)
Exponent(w) == Len(w) >= 1 /\ (IF Class(w[1]) = "sign" THEN DigitPart(Sub(w, 2, Len(w))) ELSE DigitPart(w))
Decimal(w) == \/ Mantissa(w)
              \/ \E k \in 1..Len(w) : Low(w[k]) = "e" /\ Mantissa(Sub(w, 1, k - 1)) /\ Exponent(Sub(w, k + 1, Len(w)))
Lowered(w) == [i \in 1..Len(w) |-> Low(w[i])]
SpecialWords == {<<"n", "a", "n">>, <<"i", "n", "f">>, <<"i", "n", "f", "i", "n", "i", "t", "y">>}
IsWord(w) == Len(w) >= 1 /\ Lowered(w) \in SpecialWords
NumDecl(w) ==
  \E i \in 1..(Len(w) + 1), j \in 0..Len(w) :
     /\ \A k \in 1..(i - 1) : IsWs(w[k])
     /\ \A k \in (j + 1)..Len(w) : IsWs(w[k])
     /\ i <= j
     /\ LET body == Sub(w, i, j)
            core == IF Class(body[1]) = "sign" THEN Sub(body, 2, Len(body)) ELSE body
        IN IsWord(core) \/ Decimal(core)
\* the literal a person would call a number: ASCII digits, no blanks, no underscores, no words
PlainDecl(w) == NumDecl(w) /\ \A i \in 1..Len(w) : Class(w[i]) \in {"digit", "dot", "sign"} \/ Low(w[i]) = "e"

(***************************************************************************)
(* read_yaml: text or file name?                                           *)
(***************************************************************************)
CsStep(st, c) == IF st = "yes" THEN "yes" ELSE IF st = "colon" /\ c = "sp" THEN "yes" ELSE IF c = ":" THEN "colon" ELSE "no"
CsAccept(st) == st = "yes"
CsDecl(w) == \E i \in 1..(Len(w) - 1) : w[i] = ":" /\ w[i + 1] = "sp"

RECURSIVE RunId(_, _, _), RunNum(_, _, _), RunCs(_, _, _)
RunId(st, w, i) == IF i > Len(w) THEN st ELSE RunId(IdStep(st, w[i]), w, i + 1)
RunNum(st, w, i) == IF i > Len(w) THEN st ELSE RunNum(NumStep(st, w[i]), w, i + 1)
RunCs(st, w, i) == IF i > Len(w) THEN st ELSE RunCs(CsStep(st, w[i]), w, i + 1)
IsIdentifier(w) == IdAccept(RunId("start", w, 1))
IsFloatLiteral(w) == NumAccept(RunNum("S", w, 1))
LooksLikeText(w) == CsAccept(RunCs("no", w, 1))

\* what read_yaml(string) does; present = a file of that name exists in the working directory
Route(w, present) ==
  IF LooksLikeText(w) \/ (NEWLINE_TEXT /\ \E i \in DOMAIN w : w[i] = "nl") THEN "text"
  ELSE IF w = <<>> THEN "nofile"
  ELSE IF Len(w) <= 2 /\ \A i \in 1..Len(w) : w[i] = "." THEN "isdir"       \* "." and ".."
  ELSE IF present THEN "file" ELSE "nofile"

(***************************************************************************)
(* is_number on values that are not strings.  Docstring: "Checks whether a *)
(* value is a number (int or float)".  "yes"/"no" are what docstring and   *)
(* the repository's own test demand; "open" = not decided by either, the   *)
(* observed answer is recorded and compared with AsCoded (drift only).     *)
(***************************************************************************)
Kinds == {"int", "negint", "float", "inf", "nan", "bool", "str", "numstr", "none", "list", "tuple", "complex",
          "decimal", "fraction", "np_float64", "np_int32", "np_bool", "np_array0d", "np_array1"}
KindVerdict(k) == IF k \in {"int", "negint", "float", "inf", "nan"} THEN "yes"
                  ELSE IF k \in {"str", "numstr", "none", "list", "tuple"} THEN "no" ELSE "open"
AsCoded(k) == k \in {"int", "negint", "float", "inf", "nan", "bool", "fraction", "np_float64", "np_int32"}   \* numbers.Real

(***************************************************************************)
(* almost_eq on a lattice: values a, b in lattice units, epsilon = num/den *)
(* units.  Docstring: "Compares two float numbers for equality with a      *)
(* margin of tolerance".  Clauses: symmetric; inside the margin => equal,  *)
(* outside => different; |a-b| = epsilon exactly is left open (as coded:   *)
(* strict, so epsilon = 0 makes even identical values different).          *)
(***************************************************************************)
Abs(x) == IF x >= 0 THEN x ELSE -x
AlmostEqCoded(a, b, num, den) == Abs(a - b) * den < num
Inside(a, b, num, den) == Abs(a - b) * den < num
Outside(a, b, num, den) == Abs(a - b) * den > num
ASSUME \A a \in -3..3, b \in -3..3, e \in 0..4 : AlmostEqCoded(a, b, e, 1) = AlmostEqCoded(b, a, e, 1)
ASSUME \A a \in -3..3, e \in 1..4 : AlmostEqCoded(a, a, e, 1)
ASSUME \A a \in -3..3, b \in -3..3, e \in 0..3 : AlmostEqCoded(a, b, e, 1) => AlmostEqCoded(a, b, e + 1, 1)   \* monotone

(***************************************************************************)
(* write_yaml / read_yaml round trip on abstract YAML trees.               *)
(* tree = [k |-> "num"|"str"|"bool"|"null"|"list"|"map", items |-> seq]    *)
(* (items = the elements of a list / the values of a map with keys k1, k2  *)
(* in order; <<>> for scalars).  HasColonSpace: does the block-style dump  *)
(* contain ': '?  A map entry whose value is a non-null scalar or an EMPTY *)
(* collection prints "key: value" on one line; everything else goes to the *)
(* following lines.                                                        *)
(***************************************************************************)
Tree(kind, items) == [k |-> kind, items |-> items]
IsScalar(t) == t.k \in {"num", "str", "bool", "null"}
IsEmptyColl(t) == t.k \in {"list", "map"} /\ t.items = <<>>
RECURSIVE HasColonSpace(_)
HasColonSpace(t) ==
  CASE t.k = "list" -> \E i \in DOMAIN t.items : HasColonSpace(t.items[i])
    [] t.k = "map"  -> \E i \in DOMAIN t.items : LET v == t.items[i] IN
                          (IsScalar(v) /\ v.k # "null") \/ IsEmptyColl(v) \/ HasColonSpace(v)
    [] OTHER -> FALSE
\* as coded, reading back what write_yaml returned works exactly for those trees
RoundTripAsCoded(t) == NEWLINE_TEXT \/ HasColonSpace(t)
\* the trees handed to the driver: every tree of depth <= 2 with at most two children per node
Scalars == { Tree(x, <<>>) : x \in {"num", "str", "bool", "null"} }
UpTo2(S) == {<<>>} \cup { <<x>> : x \in S } \cup { <<x, y>> : x \in S, y \in S }
Level1 == Scalars \cup { Tree(kk, q) : kk \in {"list", "map"}, q \in UpTo2(Scalars) }
Level2 == Level1 \cup { Tree(kk, q) : kk \in {"list", "map"}, q \in UpTo2(Level1) }
\* lemma: a tree FRAME would call a netlist or a die (a map with some scalar attribute somewhere) survives
ASSUME \A t \in Level2 : (t.k = "map" /\ \E i \in DOMAIN t.items : t.items[i].k \in {"num", "str", "bool"}) => HasColonSpace(t)

(***************************************************************************)
(* State machine: build every string, one character per step               *)
(***************************************************************************)
Init == s = <<>> /\ idst = "start" /\ numst = "S" /\ csst = "no" /\ pc = "build"
Consume == /\ pc = "build" /\ Len(s) < MaxLen
           /\ \E c \in Alpha : /\ s' = Append(s, c) /\ idst' = IdStep(idst, c)
                               /\ numst' = NumStep(numst, c) /\ csst' = CsStep(csst, c)
           /\ UNCHANGED pc
\* generation: strings shorter than MaxLen - 1 one by one; a string of length MaxLen - 1 stands for itself and
\* all its one-character extensions (the driver expands `ext`)
Emit == /\ EMIT /\ pc = "build" /\ Len(s) <= MaxLen - 1
        /\ PrintT(ToJson([s |-> s, ext |-> IF Len(s) = MaxLen - 1 THEN Alpha ELSE {}]))
        /\ pc' = "emitted" /\ UNCHANGED <<s, idst, numst, csst>>
EmitTrees == /\ EMIT /\ pc = "build" /\ s = <<>>
             /\ PrintT(ToJson([trees |-> Level2]))
             /\ pc' = "emitted_trees" /\ UNCHANGED <<s, idst, numst, csst>>
Next == Consume \/ Emit \/ EmitTrees
Spec == Init /\ [][Next]_vars

(***************************************************************************)
(* Invariants                                                              *)
(***************************************************************************)
IdMachineIsGrammar == IdAccept(idst) <=> IdDecl(s)
NumMachineIsGrammar == NumAccept(numst) <=> NumDecl(s)
CsMachineIsRule == CsAccept(csst) <=> CsDecl(s)
RunAgrees == IsIdentifier(s) = IdAccept(idst) /\ IsFloatLiteral(s) = NumAccept(numst) /\ LooksLikeText(s) = CsAccept(csst)
BothLanguages == (IdAccept(idst) /\ NumAccept(numst)) <=> IsWord(s)
PlainIsNumber == PlainDecl(s) => NumAccept(numst)
\* numbers that are not plain: blanks around, underscores, non-ASCII digits, or a word
OddNumber == NumAccept(numst) /\ ~PlainDecl(s)
OddNumberShape == OddNumber => \/ \E i \in 1..Len(s) : IsWs(s[i]) \/ s[i] = "_" \/ s[i] = "udig"
                               \/ \E i \in 1..Len(s) : Low(s[i]) \in {"n", "i"}
TextNeverFile == CsAccept(csst) => Route(s, TRUE) = "text" /\ Route(s, FALSE) = "text"
IdentifierIsFileName == IdAccept(idst) => Route(s, TRUE) = "file" /\ Route(s, FALSE) = "nofile"
=============================================================================
