\* C14 design-level check, universe A (thorough): 4 movable modules (soft r=2, soft r=1, hard 4x2 bar r=2, soft r=3)
\* + 1 fixed square, 8x8 die, cycle of nets, one trial, two power-iteration steps per dimension, seeds and
\* iteration results on the even grid.  Largest intermediate value: WL < 10^4.
SPECIFICATION Spec
CONSTANTS
  HalfSet <- HalfA
  Profiles <- ProfA
  AreaProfiles <- AreaA
  Graphs = {"cycle"}
  FixSet <- FixA
  TrialSet = {1}
  MaxIter = 2
  GS = 2
  G = 2
  Rounds = 1
  TOL = 0
  EMIT = FALSE
INVARIANT TemplatesOnLattice
INVARIANT NormalizeMeetsContract
INVARIANT InSpanInv
INVARIANT SeedInv
INVARIANT TrialInv
INVARIANT BestInv
INVARIANT AreasNetsUnchanged
INVARIANT FixedRectsUntouched
INVARIANT CommitInv
INVARIANT HardCentroid
CHECK_DEADLOCK FALSE
