------------------------------ MODULE Verifier ------------------------------
(***************************************************************************)
(* VERIFIER -- the stand-alone floorplan verifier accepts exactly the      *)
(* acceptable results.                                                     *)
(*                                                                         *)
(* Subject: tools/verifier/verifier.py.  `main(ini_netlist, die,           *)
(* out_netlist)` prints "No errors were found!" when the output netlist is *)
(* an acceptable result for the input netlist on that die, and "Some       *)
(* errors were found" otherwise.  This module grows Legal.tla (C09): the   *)
(* input netlist is a netlist `net` of Legal, the output is a sequence of  *)
(* OUTPUT MODULES                                                          *)
(*     [id |-> index of the input module it claims to be (0 = a module     *)
(*             that does not exist in the input),                          *)
(*      kind |-> "soft" | "hard" | "fixed",                                *)
(*      rects |-> <<rectangle, ...>>]                                      *)
(* and the contract is stated with Legal's `Clauses`:                      *)
(*                                                                         *)
(*   the verifier accepts  <=>  sameModules /\ sameKinds /\ hardCongruent  *)
(*        /\ fixedInPlace /\ area /\ inDie /\ interDisjoint /\ intraDisjoint*)
(*                                                                         *)
(* (`VClauses`).  ratio / attached / withinExtent / sideOrder are NOT      *)
(* claimed by the verifier: outputs that violate only those are            *)
(* acceptable to it.                                                       *)
(*                                                                         *)
(* Two halves again, and the state machine of Legal extended by one step:  *)
(*  1. `VClauses(w, n, o)`   the contract, from Legal's Clauses;           *)
(*  2. `VChecks(w, n, o)`    the verifier transcribed from the code: the   *)
(*     set of checks of `main` that fail (area_check, shape_check, ...);   *)
(*     CODED = TRUE transcribes the four places where the code deviates    *)
(*     today (the fixed-position test of shape_check is unreachable and    *)
(*     its rectangles are compared index by index, area_check compares the *)
(*     DECLARED areas only, self_overlap_check skips rectangles that       *)
(*     compare equal); Verifier_mc_coded.cfg must FAIL;                    *)
(*  3. `Produce` an output from the netlist: the configuration itself or a *)
(*     single geometric edit of it (Legal's `Edits`), or one structural    *)
(*     edit (a module dropped, a foreign module added, a kind changed);    *)
(*     `pcv` records whether no, one or several contract clauses are       *)
(*     false.                                                              *)
(* Invariants: InvVExact (checks pass <=> contract), InvLegalAccepted      *)
(* (every legal floorplan of C09 is an acceptable result), InvVOne.        *)
(***************************************************************************)
EXTENDS Legal

CONSTANTS CODED      \* TRUE: transcribe shape_check / area_check as coded today

VARIABLES out,       \* the output floorplan
          pcv,       \* "none" | "ok" | "one" | "many"  (how many contract clauses are false)
          vbroken    \* the false contract clause when pcv = "one"
vvars == <<vars, out, pcv, vbroken>>

(***************************************************************************)
(* Outputs                                                                 *)
(***************************************************************************)
\* the output that repeats the netlist with configuration c
OutOf(n, c) == [m \in Mods(n) |-> [id |-> m, kind |-> n[m].kind, rects |-> c[m]]]
OIdx(o) == 1..Len(o)
Known(o) == { k \in OIdx(o) : o[k].id # 0 }
OCfg(o) == [k \in OIdx(o) |-> o[k].rects]
\* well formed with respect to n: ids in range, same number of rectangles, proper rectangles
OutOK(n, o) == /\ Len(o) >= 1
               /\ \A k \in OIdx(o) : /\ o[k].id \in 0..Len(n)
                                     /\ o[k].kind \in {"soft", "hard", "fixed"}
                                     /\ Len(o[k].rects) >= 1
                                     /\ \A i \in 1..Len(o[k].rects) : Proper(o[k].rects[i])
                                     /\ (o[k].id # 0 => Len(o[k].rects) = Len(n[o[k].id].rects))
\* the declared area of an output module, as the harness writes it (and as the legaliser does): a soft module
\* repeats the area attribute of the input module; hard/fixed modules have the area of their rectangles
DeclArea(n, ok) == IF ok.kind = "soft" /\ ok.id # 0 /\ n[ok.id].kind = "soft" THEN n[ok.id].area
                   ELSE SumArea4(ok.rects)

(***************************************************************************)
(* 1. The contract                                                         *)
(***************************************************************************)
VClauseNames == {"sameModules", "sameKinds", "hardCongruent", "fixedInPlace", "area", "inDie",
                 "interDisjoint", "intraDisjoint"}
\* the input modules that appear exactly once in the output, aligned: sub-netlist and its configuration
AlignedKs(n, o) == SetToSortSeq({ k \in Known(o) : \A j \in Known(o) : o[j].id = o[k].id => j = k }, <)
AlignedNet(n, o) == [j \in 1..Len(AlignedKs(n, o)) |-> n[o[AlignedKs(n, o)[j]].id]]
AlignedCfg(n, o) == [j \in 1..Len(AlignedKs(n, o)) |-> o[AlignedKs(n, o)[j]].rects]
\* The shape of a hard module: the set of <<width, height, offset of the centre from the trunk's centre>> of its
\* rectangles (doubled offsets).  Legal's hardCongruent compares rectangle i with rectangle i (the legaliser has one
\* variable per rectangle); for the verifier two branches of the same size may have exchanged their places: the
\* module occupies the same region.  The trunk is rectangle 1 on both sides.
ShapeOf(rs) == { <<TW(rs[i]), TH(rs[i]), TCx2(rs[i]) - TCx2(rs[1]), TCy2(rs[i]) - TCy2(rs[1])>> : i \in 1..Len(rs) }
SameShape(r1, r2) == Len(r1) = Len(r2) /\ ShapeOf(r1) = ShapeOf(r2) /\ Cardinality(ShapeOf(r2)) = Len(r2)
VClauses(w, n, o) ==
  LET n2 == AlignedNet(n, o)  c2 == AlignedCfg(n, o)  cl == Clauses(w, n2, c2)  all == OCfg(o) IN
  [ sameModules |-> /\ \A m \in Mods(n) : \E k \in OIdx(o) : o[k].id = m
                    /\ \A k \in OIdx(o) : o[k].id # 0
                    /\ \A k \in OIdx(o) : \A j \in OIdx(o) : o[k].id = o[j].id => k = j,
    sameKinds |-> \A k \in Known(o) : o[k].kind = n[o[k].id].kind,
    hardCongruent |-> \A j \in 1..Len(n2) : n2[j].kind \in {"hard", "fixed"} => SameShape(n2[j].rects, c2[j]),
    fixedInPlace |-> cl.fixedInPlace,
    area |-> cl.area,
    intraDisjoint |-> cl.intraDisjoint,
    \* the die and the other modules concern every module of the output, known or not
    inDie |-> \A p \in RectIds(all) : 0 <= At(all, p)[1] /\ 0 <= At(all, p)[2] /\ At(all, p)[3] <= w.dw /\ At(all, p)[4] <= w.dh,
    interDisjoint |-> \A pq \in CrossIds(all) : ~TOverlaps(At(all, pq[1]), At(all, pq[2])) ]
VFalse(w, n, o) == LET cl == VClauses(w, n, o) IN { k \in VClauseNames : ~cl[k] }
Acceptable(w, n, o) == VFalse(w, n, o) = {}
VInQuantifier(w, n, o) == Cardinality(VFalse(w, n, o)) <= 1

(***************************************************************************)
(* 2. The verifier, transcribed from main() and its check functions.       *)
(* Result: the set of <<check, output module>> that fail.  Exact           *)
(* arithmetic: the tolerance epsilon (1e-10) is far below a lattice unit.  *)
(***************************************************************************)
\* rect_overlap: the open rectangles intersect
ROverlap(a, b) == ~(b[3] <= a[1]) /\ ~(a[3] <= b[1]) /\ ~(b[4] <= a[2]) /\ ~(a[4] <= b[2])
\* FRAME's netlist reader asserts that the four numbers of a rectangle are >= 0: an output with a rectangle whose
\* CENTRE has a negative coordinate makes main() die with an AssertionError before any check ("crash": not accepted)
ReaderRefuses(o) == \E p \in RectIds(OCfg(o)) : TCx2(At(OCfg(o), p)) < 0 \/ TCy2(At(OCfg(o), p)) < 0
VChecks(w, n, o) ==
  IF ReaderRefuses(o) THEN {<<"crash", 0>>} ELSE
  LET first(k) == \A j \in 1..(k - 1) : o[j].id # o[k].id          \* "found twice on the output" otherwise
      checked == { k \in Known(o) : first(k) }
      perModule(k) ==
        LET ok == o[k]  im == n[ok.id]  r1 == im.rects  r2 == ok.rects IN
        \* area_check: abs(m1.area() - m2.area()) <= epsilon on the DECLARED areas;
        \* the contract needs the rectangles of a soft module to provide the required area (not coded today)
        (IF DeclArea(n, ok) # im.area THEN {<<"area", k>>} ELSE {})
        \cup (IF ~CODED /\ im.kind = "soft" /\ SumArea4(r2) < im.area THEN {<<"area", k>>} ELSE {})
        \* shape_check: same hardness; hard and fixed: every rectangle keeps its size and its offset from rectangle 0
        \cup (IF ok.kind # im.kind THEN {<<"kind", k>>}
              ELSE IF im.kind \in {"hard", "fixed"} /\
                      (IF CODED   \* as coded: rectangle i of the input against rectangle i of the output
                       THEN \E i \in 1..Len(r1) : \/ TCx2(r1[i]) - TCx2(r1[1]) # TCx2(r2[i]) - TCx2(r2[1])
                                                   \/ TCy2(r1[i]) - TCy2(r1[1]) # TCy2(r2[i]) - TCy2(r2[1])
                                                   \/ TW(r1[i]) # TW(r2[i]) \/ TH(r1[i]) # TH(r2[i])
                       ELSE ~SameShape(r1, r2))
                   THEN {<<"shape", k>>}
              \* ... fixed: rectangle 0 keeps its centre.  As coded the function has returned before this test.
              ELSE IF ~CODED /\ im.kind = "fixed" /\ (TCx2(r1[1]) # TCx2(r2[1]) \/ TCy2(r1[1]) # TCy2(r2[1]))
                   THEN {<<"fixedpos", k>>}
              ELSE {})
        \* die_check
        \cup (IF \E i \in 1..Len(r2) : r2[i][1] < 0 \/ r2[i][2] < 0 \/ r2[i][3] > w.dw \/ r2[i][4] > w.dh
              THEN {<<"die", k>>} ELSE {})
        \* self_overlap_check: every rectangle against every OTHER rectangle of the module.  As coded "other" is
        \* decided by value (r1 == r2), so two rectangles that coincide are never compared.
        \cup (IF \E i \in 1..Len(r2) : \E j \in 1..Len(r2) :
                    (IF CODED THEN r2[i] # r2[j] ELSE i # j) /\ ROverlap(r2[i], r2[j])
              THEN {<<"self", k>>} ELSE {})
        \* overlap_check against every other module of the output
        \cup (IF \E j \in OIdx(o) : j # k /\ ~(o[j].id = ok.id) /\
                    \E a \in 1..Len(r2) : \E b \in 1..Len(o[j].rects) : ROverlap(r2[a], o[j].rects[b])
              THEN {<<"overlap", k>>} ELSE {})
  IN UNION { perModule(k) : k \in checked }
     \cup { <<"unknown", k>> : k \in { kk \in OIdx(o) : o[kk].id = 0 } }
     \cup { <<"twice", k>> : k \in { kk \in Known(o) : ~first(kk) } }
     \cup { <<"missing", m>> : m \in { mm \in Mods(n) : \A k \in OIdx(o) : o[k].id # mm } }
VAccepts(w, n, o) == VChecks(w, n, o) = {}
VTags(w, n, o) == { x[1] : x \in VChecks(w, n, o) }

(***************************************************************************)
(* 3. Producing outputs                                                    *)
(***************************************************************************)
\* a module that is not in the input: a small square from the trunk catalogue's corner positions
Foreign == { <<0, 0, 1, 1>>, <<DW - 1, DH - 1, DW, DH>> }
OtherKinds(k) == {"soft", "hard", "fixed"} \ {k}
Structural(n, o) ==
  LET dropped == { SubSeq(o, 1, k - 1) \o SubSeq(o, k + 1, Len(o)) : k \in { kk \in OIdx(o) : Len(o) > 1 } }
      foreign == { Append(o, [id |-> 0, kind |-> "soft", rects |-> <<t>>]) : t \in Foreign }
      rekinded == { [o EXCEPT ![k].kind = kd] : k \in OIdx(o), kd \in {"soft", "hard", "fixed"} }
  IN (dropped \cup foreign \cup rekinded) \ {o}
\* the outputs around configuration c of netlist n
OutputsAround(n, c) == { OutOf(n, e) : e \in {c} \cup Edits(n, c) } \cup Structural(n, OutOf(n, c))

VInit == Init /\ out = <<>> /\ pcv = "none" /\ vbroken = "none"
Build == /\ pcv = "none"
         /\ (\E k \in Kinds, t \in Trunks, sl \in Slacks : PlaceModule(k, t, sl)) \/ AttachAny
         /\ UNCHANGED <<out, pcv, vbroken>>
\* a legal move of C09 first (the netlist's own configuration is then not the only base)
MoveFirst == /\ CHAIN /\ pcv = "none" /\ Move /\ UNCHANGED <<out, pcv, vbroken>>
Produce == /\ ~EMIT /\ pcv = "none" /\ Len(net) > 0 /\ pc \in {"build", "moved"}
           /\ \E o \in OutputsAround(net, cfg) :
                LET F == VFalse(World, net, o) IN
                /\ out' = o
                /\ pcv' = IF F = {} THEN "ok" ELSE IF Cardinality(F) = 1 THEN "one" ELSE "many"
                /\ vbroken' = IF Cardinality(F) = 1 THEN CHOOSE k \in F : TRUE ELSE "none"
           /\ UNCHANGED vars

\* behaviour generation: one case per netlist; events = the in-quantifier outputs around the original
\* configuration and around one legal neighbour (Legal!BaseOf), tagged for the harness's bookkeeping
VTagOf(w, n, o) == LET F == VFalse(w, n, o) IN IF F = {} THEN "ok" ELSE CHOOSE k \in F : TRUE
VEventsOf(w, n) ==
  LET b == BaseOf(w, n)
      os == OutputsAround(n, Orig(n)) \cup (IF b = Orig(n) \/ Hash(n) % BASEMOD # 0 THEN {} ELSE OutputsAround(n, b))
  IN SetToSeq({ [out |-> o, tag |-> VTagOf(w, n, o)] : o \in { x \in os : VInQuantifier(w, n, x) } })
VEmit == /\ EMIT /\ pcv = "none" /\ pc = "build" /\ Len(net) > 0
         /\ pcv' = "emitted" /\ UNCHANGED <<vars, out, vbroken>>
         /\ PrintT(ToJson([w |-> World, net |-> net, events |-> VEventsOf(World, net)]))

VNext == Build \/ MoveFirst \/ Produce \/ VEmit
VSpec == VInit /\ [][VNext]_vvars

(***************************************************************************)
(* Invariants                                                              *)
(***************************************************************************)
Produced == pcv \in {"ok", "one", "many"}
InvVShape == Produced => NetOK(net) /\ OutOK(net, out)
\* THE PROPERTY at design level: the transcribed checks pass <=> the contract holds (every produced output,
\* also those with several false clauses)
InvVExact == Produced => (VAccepts(World, net, out) <=> Acceptable(World, net, out))
\* growing C09: every legal floorplan of the legaliser's constraint system is an acceptable result
InvLegalAccepted == (Len(net) > 0 /\ pc \in {"build", "moved"}) => Acceptable(World, net, OutOf(net, cfg))
\* bookkeeping of Produce: when one clause is false it is the recorded one
InvVOne == (pcv = "one") => VFalse(World, net, out) = {vbroken}
=============================================================================
