\* probes outside the input language (thorough)
SPECIFICATION Spec
CONSTANTS
  MaxBlocks = 2
  MaxTerms = 2
  MaxNets = 1
  SoftChoices <- SoftT
  HardChoices <- HardT
  PlChoices <- PlT
  Styles <- Probes
  EMIT = TRUE
CHECK_DEADLOCK FALSE
