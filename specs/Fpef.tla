-------------------------------- MODULE Fpef --------------------------------
(***************************************************************************)
(* FPEF netlists: the exchange document, the reader, the derived           *)
(* quantities and the writer.  Serves                                      *)
(*   C04  write -> read round trip preserves the design; writing repeats   *)
(*   C05  a loaded netlist matches its definition on the source document;  *)
(*        ill-formed designs are rejected                                  *)
(* (and later C19: every netlist FRAME produces is accepted back).         *)
(*                                                                         *)
(* Code modelled: frame/netlist/{yaml_read_netlist,module,netlist,         *)
(* netlist_types,yaml_write_netlist}.py, parse_yaml_rectangle and          *)
(* create_stog of frame/geometry/geometry.py, frame/utils/utils.py.        *)
(*                                                                         *)
(* THREE LAYERS, all JSON-shaped values (records, tuples, ints, strings):  *)
(*                                                                         *)
(*  doc   the abstract YAML tree.  It can spell everything the reader      *)
(*        looks at, INCLUDING ill-formed things (unknown keys, bad names,  *)
(*        zero areas, one-pin nets, ...):                                  *)
(*          [mods  |-> << [name, area, center, aspect, flags, rects,       *)
(*                         extra], ... >>,        (order = YAML order)     *)
(*           nets  |-> << [pins |-> <<names>>, w |-> <<>> | <<num,den>>] >>,*)
(*           extra |-> << unknown top-level keys >>]                       *)
(*        area   = [form |-> "none" | "s" | "d", ent |-> <<<<region,a>>>>] *)
(*                 ("s": `area: a`, "d": `area: {region: a, ...}`)         *)
(*        center = <<>> | <<xn, xd, yn, yd>>  (rationals, reduced, d > 0)  *)
(*        aspect = [form |-> "none" | "s" | "p", v |-> <<n,d>> |           *)
(*                 <<ln,ld,hn,hd>>]   (`aspect_ratio: x` / `[lo, hi]`)     *)
(*        flags  = [fixed, hard, flip, terminal], each -1 (key absent),    *)
(*                 0 (`false`) or 1 (`true`)                               *)
(*        rects  = [form |-> "none" | "flat" | "list",                     *)
(*                  rs |-> << <<x1,y1,x2,y2,region>> >>]                   *)
(*                 corner coordinates on the integer lattice (module       *)
(*                 Geometry); the harness renders them as FRAME's          *)
(*                 [cx, cy, w, h(, region)] under a float embedding.       *)
(*                 region "g" = ground = no fifth element ("_" in FRAME).  *)
(*                 x2 <= x1 spells a non-positive width.                   *)
(*                                                                         *)
(*  n     the abstract netlist (what `Netlist(doc)` is, seen through its   *)
(*        public accessors):                                               *)
(*          [mods |-> << [name, kind, areas, center, aspect, rects] >>,    *)
(*           nets |-> << [pins, w |-> <<num,den>>] >>]                     *)
(*        kind  = <<hard, fixed, terminal, flip>> (0/1) -- the six kinds   *)
(*                of the property are the patterns of KindFlags below      *)
(*        areas = << <<region, a>> >>  (Module.area_regions)               *)
(*                                                                         *)
(*  Read(doc)  = [ok, why, n]   implementation-shaped: the assertions of   *)
(*               the reader in the order the code makes them               *)
(*  WellFormed(doc)             declarative: the rules of the property     *)
(*  Write(n)   = doc            the INTENDED writer (round-trip exact)     *)
(*  Derive(n)                   areas, all/fixed rectangles, wire length   *)
(*  Inject(doc)                 every single defect of every listed class  *)
(*                                                                         *)
(* State machine: a construction machine (AddModule / AddNet enumerate     *)
(* every document of the bounded universe), then Load, Save, Reload,       *)
(* Resave (C04) or Defect (C05).  Invariants at the bottom.                *)
(***************************************************************************)
EXTENDS Geometry, TLC, Json

CONSTANTS UNIVERSE,   \* "quick" | "thorough": size of the enumerated universe
          EMIT,       \* TRUE: behaviour generation (print every document of the universe) instead of model checking
          DEFECTS     \* which half of the machine runs after the construction (model checking):
                      \*   FALSE (C04): Load, Save, Reload, Resave
                      \*   TRUE  (C05): Load, Defect (every injection of every document)

VARIABLES phase,      \* "build" | "loaded" | "saved" | "reloaded" | "resaved" | "defect" | "emitted"
          lvl,        \* which sub-universe this behaviour builds ("wide" | "deep")
          doc,        \* the source document
          n,          \* Read(doc).n
          y,          \* Write(n)
          n2,         \* Read(y).n
          y2,         \* Write(n2)
          inj         \* the defect injected (phase "defect"), else NoPatch
vars == <<phase, lvl, doc, n, y, n2, y2, inj>>

(***************************************************************************)
(* Small arithmetic: fractions, integer square root                        *)
(***************************************************************************)
RECURSIVE GCD(_, _)
GCD(a, b) == IF b = 0 THEN a ELSE GCD(b, a % b)          \* a, b >= 0
\* reduced fraction <<num, den>> of n/d (d > 0)
Frac(num, den) == LET g == GCD(Abs(num), den) IN IF g = 0 THEN <<0, 1>> ELSE <<num \div g, den \div g>>
FloorDiv(a, b) == a \div b                                  \* TLA+ \div floors (b > 0)
CeilDiv(a, b) == -((-a) \div b)

\* ISqrt(v)^2 <= v < (ISqrt(v)+1)^2 for 0 <= v < 2^31, by bisection (46341^2 > 2^31)
RECURSIVE ISqrtB(_, _, _)
ISqrtB(v, lo, hi) == IF hi - lo <= 1 THEN lo
                     ELSE LET mid == (lo + hi) \div 2
                          IN IF mid * mid <= v THEN ISqrtB(v, mid, hi) ELSE ISqrtB(v, lo, mid)
ISqrt(v) == ISqrtB(v, 0, 46341)

\* sequences
SeqSum(s) == FoldLeft(LAMBDA acc, x : acc + x, 0, s)
Swap(s, i, j) == [k \in DOMAIN s |-> IF k = i THEN s[j] ELSE IF k = j THEN s[i] ELSE s[k]]
Count(s, x) == Cardinality({j \in DOMAIN s : s[j] = x})
\* same elements with the same multiplicities (uses equality only)
SameBag(s, t) == Len(s) = Len(t) /\ \A i \in DOMAIN s : Count(s, s[i]) = Count(t, s[i])
Concat(ss) == FoldLeft(LAMBDA acc, x : acc \o x, <<>>, ss)
Distinct(s) == \A i, j \in DOMAIN s : i # j => s[i] # s[j]

(***************************************************************************)
(* Names.  TLA+ strings are atomic, so "is a valid identifier" cannot be   *)
(* computed; the model fixes the finite list of INVALID spellings it uses  *)
(* (each breaks the rule `[A-Za-z_][A-Za-z0-9_]*` in a different way) and  *)
(* the harness only ever uses other names that match the rule.             *)
(***************************************************************************)
Ground == "g"
\* Control and blank characters are written as tokens (<LF> = line feed, <TAB>, <SP> = a trailing space) that the
\* harness turns into the real characters when it renders a document: a name followed by a line feed, with a line
\* feed inside, or with trailing blank space is NOT an identifier (the rule must hold for the whole string).
BadNames == {"3x", "a-b", "x y", "", "B1<LF>", "a<LF>b", "B1<SP>", "B1<TAB>"}
BadRegions == {"a-b", "dsp<LF>", "3x", "r<SP>"}
ValidName(s) == s \notin BadNames
ValidRegion(s) == s = Ground \/ (ValidName(s) /\ s \notin BadRegions)     \* "_" itself is a valid identifier

(***************************************************************************)
(* Kinds.  The observable kind of a module is its four flags               *)
(* <<is_hard, is_fixed, is_terminal, flip>>.                               *)
(***************************************************************************)
KindFlags == [soft |-> <<0, 0, 0, 0>>, hard |-> <<1, 0, 0, 0>>, flip |-> <<1, 0, 0, 1>>,
              fixed |-> <<1, 1, 0, 0>>, terminal |-> <<1, 0, 1, 0>>, fixedTerminal |-> <<1, 1, 1, 0>>]
KHard(k) == k[1] = 1
KFixed(k) == k[2] = 1
KTerminal(k) == k[3] = 1
KFlip(k) == k[4] = 1
B(x) == IF x THEN 1 ELSE 0

NoFlags == [fixed |-> -1, hard |-> -1, flip |-> -1, terminal |-> -1]
NoArea == [form |-> "none", ent |-> <<>>]
NoAspect == [form |-> "none", v |-> <<>>]
NoRects == [form |-> "none", rs |-> <<>>]
NoMod == [name |-> "", kind |-> <<0, 0, 0, 0>>, areas |-> <<>>, center |-> <<>>, aspect |-> <<>>, rects |-> <<>>]
NoNetlist == [mods |-> <<>>, nets |-> <<>>]
NoDoc == [mods |-> <<>>, nets |-> <<>>, extra |-> <<>>]

\* What the Module constructor makes of the flag keys.  It handles the keys in document order; the
\* modelled language (InLanguage) has no `terminal: false`, and `fixed`/`hard` never both, so the
\* order is immaterial: a terminal key forces hard, else the hard key, else the value of fixed.
DFixed(md) == md.flags.fixed = 1
DTerminal(md) == md.flags.terminal = 1
DFlip(md) == md.flags.flip = 1
DHard(md) == IF md.flags.terminal # -1 THEN TRUE
             ELSE IF md.flags.hard # -1 THEN md.flags.hard = 1
             ELSE DFixed(md)
DKind(md) == <<B(DHard(md)), B(DFixed(md)), B(DTerminal(md)), B(DFlip(md))>>

(***************************************************************************)
(* Rectangles of a module (5-tuples) -- geometry comes from module Geometry*)
(***************************************************************************)
RArea(t) == Area(RectOf(t))
RectsArea(rs) == SeqSum([i \in DOMAIN rs |-> RArea(rs[i])])
\* area-weighted centroid as reduced fractions <<xn, xd, yn, yd>> (Module.calculate_center_from_rectangles)
Centroid(rs) ==
  LET sa == RectsArea(rs)
      sx == SeqSum([i \in DOMAIN rs |-> RArea(rs[i]) * Cx2(RectOf(rs[i]))])
      sy == SeqSum([i \in DOMAIN rs |-> RArea(rs[i]) * Cy2(RectOf(rs[i]))])
      fx == Frac(sx, 2 * sa)
      fy == Frac(sy, 2 * sa)
  IN <<fx[1], fx[2], fy[1], fy[2]>>
NoOverlapIn(rs) == \A i, j \in DOMAIN rs : i < j => ~Overlaps(RectOf(rs[i]), RectOf(rs[j]))

(***************************************************************************)
(* Single-trunk orthogons, as far as the reader needs them: loading        *)
(* relabels every module with rectangles (create_stog), which moves the    *)
(* chosen trunk to the front of the module's list, and a flippable module  *)
(* must be a STOG.  (Stog.tla is the full treatment, property C06.)        *)
(***************************************************************************)
\* Rectangle.find_location: where b lies with respect to the trunk t
Loc(tt, bb) ==
  LET t == RectOf(tt)  b == RectOf(bb) IN
  IF Overlaps(t, b) THEN "no"
  ELSE IF t.y2 = b.y1 THEN (IF b.x1 >= t.x1 /\ b.x2 <= t.x2 THEN "N" ELSE "no")
  ELSE IF t.y1 = b.y2 THEN (IF b.x1 >= t.x1 /\ b.x2 <= t.x2 THEN "S" ELSE "no")
  ELSE IF t.x2 = b.x1 THEN (IF b.y1 >= t.y1 /\ b.y2 <= t.y2 THEN "E" ELSE "no")
  ELSE IF t.x1 = b.x2 THEN (IF b.y1 >= t.y1 /\ b.y2 <= t.y2 THEN "W" ELSE "no")
  ELSE "no"
\* rs[i] can be the trunk: every OTHER rectangle of the list, by position, is a branch of it (a copy of the
\* trunk is another rectangle and overlaps it -- the definition property C06 fixes)
ValidTrunk(rs, i) == \A j \in DOMAIN rs : j = i \/ Loc(rs[i], rs[j]) # "no"
\* the candidate loop of create_stog: scan in list order, stop at the first rectangle that is not
\* larger than the best trunk found so far
RECURSIVE BestTrunk(_, _, _)
BestTrunk(rs, i, best) ==
  IF i > Len(rs) THEN best
  ELSE IF best > 0 /\ RArea(rs[i]) <= RArea(rs[best]) THEN best
  ELSE BestTrunk(rs, i + 1, IF ValidTrunk(rs, i) THEN i ELSE best)
HasStog(rs) == Len(rs) = 1 \/ (Len(rs) > 1 /\ BestTrunk(rs, 1, 0) > 0)
StogOrder(rs) == IF Len(rs) <= 1 THEN rs
                 ELSE LET bt == BestTrunk(rs, 1, 0) IN IF bt = 0 THEN rs ELSE Swap(rs, 1, bt)
\* declarative counterpart (used by WellFormed)
IsStog(rs) == Len(rs) >= 1 /\ \E i \in DOMAIN rs : ValidTrunk(rs, i)

(***************************************************************************)
(* The language of documents the model covers (a typing assumption on the  *)
(* generators, checked as an invariant and by the trace specification).    *)
(***************************************************************************)
CMAX == 64            \* largest lattice coordinate (keeps all arithmetic below 2^31, see Derive)
FlagPatterns == {NoFlags,
                 [NoFlags EXCEPT !.fixed = 0], [NoFlags EXCEPT !.hard = 0],
                 [NoFlags EXCEPT !.hard = 1], [NoFlags EXCEPT !.hard = 1, !.flip = 1],
                 [NoFlags EXCEPT !.fixed = 1], [NoFlags EXCEPT !.terminal = 1],
                 [NoFlags EXCEPT !.fixed = 1, !.terminal = 1]}
ModInLanguage(md) ==
  /\ md.flags \in FlagPatterns
  /\ md.area.form \in {"none", "s", "d"} /\ (md.area.form = "none" => md.area.ent = <<>>)
  /\ (md.area.form = "s" => Len(md.area.ent) = 1 /\ md.area.ent[1][1] = Ground)
  /\ Distinct([i \in DOMAIN md.area.ent |-> md.area.ent[i][1]])
  /\ md.aspect.form \in {"none", "s", "p"}
  /\ (md.aspect.form = "s" => md.aspect.v[2] > 0)
  /\ (md.aspect.form = "p" => md.aspect.v[2] > 0 /\ md.aspect.v[4] > 0)
  /\ (md.center # <<>> => md.center[2] > 0 /\ md.center[4] > 0 /\ md.center[1] >= 0 /\ md.center[3] >= 0
                          /\ md.center[1] <= CMAX * md.center[2] /\ md.center[3] <= CMAX * md.center[4])
  /\ md.rects.form \in {"none", "flat", "list"} /\ (md.rects.form = "none" => md.rects.rs = <<>>)
  /\ (md.rects.form = "flat" => Len(md.rects.rs) = 1)
  /\ \A i \in DOMAIN md.rects.rs :
        LET r == md.rects.rs[i] IN \A c \in 1..4 : r[c] >= 0 /\ r[c] <= CMAX
  \* (a terminal may carry rectangles: the reader accepts them -- without regions, as for every hard module -- and
  \*  derives a centre and an area from them.  Such documents belong to C04's quantifier, "all netlists the reader
  \*  accepts", and are judged there on the round trip only.  For C05 a terminal is a point: its statement gives every
  \*  terminal area zero, so a terminal with rectangles is OUTSIDE C05's well-formed universe -- see PointTerminals)
\* C05's FORMAT rule "a terminal is a point": no terminal of the document has rectangles.  Documents that break it are
\* neither well-formed documents of C05's quantifier nor one of its eleven listed defects: C05 neither generates nor
\* judges them (Read / WellFormed describe what the reader does with them, which is C04's business).
TerminalWithRects(md) == md.flags.terminal = 1 /\ md.rects.rs # <<>>
PointTerminals(d) == \A i \in DOMAIN d.mods : ~TerminalWithRects(d.mods[i])
InLanguage(d) ==
  /\ \A i \in DOMAIN d.mods : ModInLanguage(d.mods[i])
  /\ Distinct([i \in DOMAIN d.mods |-> d.mods[i].name])      \* YAML mapping keys are unique
  /\ \A k \in DOMAIN d.nets : d.nets[k].w = <<>> \/ d.nets[k].w[2] > 0

Names(d) == {d.mods[i].name : i \in DOMAIN d.mods}

(***************************************************************************)
(* WellFormed: the declarative side.  LISTED rules are the defect classes  *)
(* of the property statement; FORMAT rules are the remaining conditions of *)
(* the exchange format a document must meet to be a netlist at all (they   *)
(* delimit the quantifier "all well-formed netlist documents"; no defect   *)
(* is injected against them).                                              *)
(***************************************************************************)
AspectOK(a) == CASE a.form = "none" -> TRUE
                 [] a.form = "s" -> a.v[1] > 0
                 [] a.form = "p" -> a.v[1] >= 0 /\ a.v[1] <= a.v[2] /\ a.v[3] >= a.v[4]   \* 0 <= lo <= 1 <= hi
ModuleWF(md) ==
  LET hard == DHard(md)  term == DTerminal(md)  rs == md.rects.rs IN
  \* ---- listed
  /\ ValidName(md.name)                                                            \* invalid name
  /\ md.extra = <<>>                                                               \* unknown attribute
  /\ \A i \in DOMAIN md.area.ent : ValidRegion(md.area.ent[i][1]) /\ md.area.ent[i][2] > 0   \* invalid name, non-positive area
  /\ (~hard => Len(md.area.ent) > 0)                                               \* soft module without area
  /\ (hard => Len(md.area.ent) = 0) /\ (md.flags.terminal # -1 => md.area.form = "none")   \* hard module with an area
  /\ (hard /\ ~term => Len(rs) >= 1)                                               \* hard module without rectangles
  /\ (hard /\ ~term => NoOverlapIn(rs))                                            \* ... with overlapping rectangles
  /\ \A i \in DOMAIN rs : W(RectOf(rs[i])) > 0 /\ H(RectOf(rs[i])) > 0 /\ ValidRegion(rs[i][5])   \* non-positive size, invalid name
  \* ---- format
  /\ (md.rects.form = "list" => Len(rs) >= 1)
  /\ \A i \in DOMAIN rs : Cx2(RectOf(rs[i])) >= 0 /\ Cy2(RectOf(rs[i])) >= 0       \* the reader refuses negative numbers
  /\ (hard => \A i \in DOMAIN rs : rs[i][5] = Ground)                              \* hard rectangles have no region
  /\ AspectOK(md.aspect)
  /\ (hard => md.aspect.form = "none")
  /\ (hard /\ ~term => md.center = <<>>)
  /\ (term /\ DFixed(md) => md.center # <<>>)
  /\ (md.flags.terminal # -1 => md.flags.flip = -1)
  /\ ~(md.flags.fixed # -1 /\ md.flags.hard # -1)
  /\ (DFlip(md) => hard /\ ~DFixed(md) /\ IsStog(rs))
NetWF(d, nd) ==
  /\ Len(nd.pins) >= 2                                                             \* one-pin net
  /\ \A p \in DOMAIN nd.pins : nd.pins[p] \in Names(d)                             \* unknown module in a net
  /\ (nd.w # <<>> => nd.w[1] > 0)                                                  \* non-positive weight
WellFormed(d) ==
  /\ d.extra = <<>>                                                                \* unknown attribute (top level)
  /\ \A i \in DOMAIN d.mods : ModuleWF(d.mods[i])
  /\ \A k \in DOMAIN d.nets : NetWF(d, d.nets[k])

(***************************************************************************)
(* Read: the reader, assertion by assertion.                               *)
(*   parse_yaml_netlist -> parse_yaml_module -> Module(...) ->             *)
(*   parse_yaml_rectangles -> Module.setup -> Netlist._create_rectangles   *)
(*   -> edge resolution in Netlist.__init__                                *)
(***************************************************************************)
RejM(why) == [ok |-> FALSE, why |-> why, m |-> NoMod]
\* aspect_ratio: x  ->  [min(x, 1/x), max(x, 1/x)];  [lo, hi] kept
AspectOf(a) == CASE a.form = "none" -> <<>>
                 [] a.form = "s" -> LET f == Frac(a.v[1], a.v[2]) IN
                                    IF f[1] <= f[2] THEN <<f[1], f[2], f[2], f[1]>> ELSE <<f[2], f[1], f[1], f[2]>>
                 [] a.form = "p" -> LET lo == Frac(a.v[1], a.v[2])  hi == Frac(a.v[3], a.v[4]) IN <<lo[1], lo[2], hi[1], hi[2]>>
\* parse_yaml_rectangle + Rectangle(): four numbers >= 0, optional region identifier, none for hard, w,h > 0
RectOK(r, fixedOrHard) ==
  LET q == RectOf(r) IN
  /\ Cx2(q) >= 0 /\ Cy2(q) >= 0 /\ W(q) >= 0 /\ H(q) >= 0
  /\ ValidRegion(r[5])
  /\ (fixedOrHard => r[5] = Ground)
  /\ W(q) > 0 /\ H(q) > 0
ParseModule(md) ==
  LET f == md.flags
      keyArea == md.area.form # "none"
      keyAspect == md.aspect.form # "none"
      fixed == DFixed(md)
      term == DTerminal(md)
      hard == DHard(md)
      flip == DFlip(md)
      areaDefined == Len(md.area.ent) > 0
      rs == md.rects.rs
  IN
  \* parse_yaml_modules / parse_yaml_module
  IF ~ValidName(md.name) THEN RejM("invalid module name")
  ELSE IF md.extra # <<>> THEN RejM("unknown module attribute")
  ELSE IF ~AspectOK(md.aspect) THEN RejM("incorrect aspect ratio")
  \* Module.__init__
  ELSE IF \E i \in DOMAIN md.area.ent : ~ValidRegion(md.area.ent[i][1]) THEN RejM("invalid region identifier")
  ELSE IF \E i \in DOMAIN md.area.ent : md.area.ent[i][2] <= 0 THEN RejM("area must be positive")
  ELSE IF f.hard # -1 /\ f.fixed # -1 THEN RejM("fixed and hard are mutually exclusive")
  ELSE IF f.terminal # -1 /\ (keyArea \/ keyAspect \/ f.flip # -1) THEN RejM("terminal cannot have area / aspect ratio / flip")
  ELSE IF hard /\ keyAspect THEN RejM("aspect ratio incompatible with hard or fixed module")
  ELSE IF term /\ fixed /\ md.center = <<>> THEN RejM("a fixed terminal must have a center")
  \* parse_yaml_rectangles
  ELSE IF md.rects.form = "list" /\ rs = <<>> THEN RejM("incorrect specification of rectangles")
  ELSE IF \E i \in DOMAIN rs : ~RectOK(rs[i], fixed \/ hard) THEN RejM("incorrect rectangle")
  \* Module.setup
  ELSE IF flip /\ fixed THEN RejM("fixed module cannot be flipped")
  ELSE IF flip /\ ~hard THEN RejM("soft module cannot be flipped")
  ELSE IF ~hard /\ ~areaDefined THEN RejM("no area defined for a soft module")
  ELSE IF hard /\ areaDefined THEN RejM("hard module cannot specify area")
  ELSE IF hard /\ md.center # <<>> /\ ~term THEN RejM("hard module cannot specify center")
  ELSE IF hard /\ ~term /\ rs = <<>> THEN RejM("hard module must have at least one rectangle")
  ELSE [ok |-> TRUE, why |-> "",
        m |-> [name |-> md.name, kind |-> DKind(md),
               \* hard modules (terminals included) get {ground: total rectangle area}
               areas |-> IF hard THEN << <<Ground, RectsArea(rs)>> >> ELSE md.area.ent,
               center |-> md.center, aspect |-> AspectOf(md.aspect), rects |-> rs]]

\* Netlist._create_rectangles for one parsed module
RejN(why) == [ok |-> FALSE, why |-> why, n |-> NoNetlist]
PlaceModule(m) ==
  IF KHard(m.kind) /\ ~KTerminal(m.kind) /\ ~NoOverlapIn(m.rects) THEN RejM("hard module with overlapping rectangles")
  ELSE IF KFlip(m.kind) /\ ~HasStog(m.rects) THEN RejM("not all flip modules have a STOG")
  ELSE [ok |-> TRUE, why |-> "",
        m |-> [m EXCEPT !.center = IF m.rects # <<>> THEN Centroid(m.rects) ELSE m.center,
                        !.rects = StogOrder(m.rects)]]
ReadNet(names, nd) ==
  \* PROPERTY: a net needs two pins.  (parse_yaml_edges checks `len(e) >= 2` on the raw list, weight
  \* included -- DESIGN section 9 row 6; the specification states what the property demands.)
  IF Len(nd.pins) < 2 THEN [ok |-> FALSE, why |-> "incorrect specification of edge", e |-> [pins |-> <<>>, w |-> <<1, 1>>]]
  ELSE IF \E p \in DOMAIN nd.pins : nd.pins[p] \notin names THEN [ok |-> FALSE, why |-> "unknown module in edge", e |-> [pins |-> <<>>, w |-> <<1, 1>>]]
  ELSE IF nd.w # <<>> /\ nd.w[1] <= 0 THEN [ok |-> FALSE, why |-> "incorrect edge weight", e |-> [pins |-> <<>>, w |-> <<1, 1>>]]
  ELSE [ok |-> TRUE, why |-> "", e |-> [pins |-> nd.pins, w |-> IF nd.w = <<>> THEN <<1, 1>> ELSE Frac(nd.w[1], nd.w[2])]]
Read(d) ==
  IF d.extra # <<>> THEN RejN("unknown key")
  ELSE LET pm == [i \in DOMAIN d.mods |-> ParseModule(d.mods[i])] IN
  IF \E i \in DOMAIN pm : ~pm[i].ok THEN RejN(pm[CHOOSE i \in DOMAIN pm : ~pm[i].ok /\ \A j \in 1..(i - 1) : pm[j].ok].why)
  ELSE LET pl == [i \in DOMAIN pm |-> PlaceModule(pm[i].m)] IN
  IF \E i \in DOMAIN pl : ~pl[i].ok THEN RejN(pl[CHOOSE i \in DOMAIN pl : ~pl[i].ok /\ \A j \in 1..(i - 1) : pl[j].ok].why)
  ELSE LET nm == Names(d)
           pe == [k \in DOMAIN d.nets |-> ReadNet(nm, d.nets[k])] IN
  IF \E k \in DOMAIN pe : ~pe[k].ok THEN RejN(pe[CHOOSE k \in DOMAIN pe : ~pe[k].ok /\ \A j \in 1..(k - 1) : pe[j].ok].why)
  ELSE [ok |-> TRUE, why |-> "", n |-> [mods |-> [i \in DOMAIN pl |-> pl[i].m], nets |-> [k \in DOMAIN pe |-> pe[k].e]]]

(***************************************************************************)
(* Write: the document the writer is meant to produce -- the smallest      *)
(* spelling from which Read restores every attribute the property names.   *)
(* (dump_yaml_module today writes `area: <sum>` for a region map and never *)
(* writes `flip` -- DESIGN section 9 row 5; whether the real text has this *)
(* very tree is model conformance only, C04 compares netlists.)            *)
(***************************************************************************)
WriteModule(m) ==
  LET soft == ~KHard(m.kind) IN
  [name |-> m.name,
   area |-> IF ~soft THEN NoArea
            ELSE IF Len(m.areas) = 1 /\ m.areas[1][1] = Ground THEN [form |-> "s", ent |-> m.areas]
            ELSE [form |-> "d", ent |-> m.areas],
   center |-> IF soft \/ KTerminal(m.kind) THEN m.center ELSE <<>>,
   aspect |-> IF soft /\ m.aspect # <<>> THEN [form |-> "p", v |-> m.aspect] ELSE NoAspect,
   flags |-> [fixed |-> IF KFixed(m.kind) THEN 1 ELSE -1,
              hard |-> IF KHard(m.kind) /\ ~KFixed(m.kind) /\ ~KTerminal(m.kind) THEN 1 ELSE -1,
              flip |-> IF KFlip(m.kind) THEN 1 ELSE -1,
              terminal |-> IF KTerminal(m.kind) THEN 1 ELSE -1],
   rects |-> IF m.rects = <<>> THEN NoRects ELSE [form |-> "list", rs |-> m.rects],
   extra |-> <<>>]
Write(nl) == [mods |-> [i \in DOMAIN nl.mods |-> WriteModule(nl.mods[i])],
              nets |-> [k \in DOMAIN nl.nets |-> [pins |-> nl.nets[k].pins,
                                                  w |-> IF nl.nets[k].w = <<1, 1>> THEN <<>> ELSE nl.nets[k].w]],
              extra |-> <<>>]

(***************************************************************************)
(* Derive: the quantities C05 names, defined on the SOURCE DOCUMENT.       *)
(***************************************************************************)
\* module area: sum of region areas; of rectangle areas for hard modules; zero for terminals
DefArea(md) == IF DTerminal(md) THEN 0
               ELSE IF DHard(md) THEN RectsArea(md.rects.rs)
               ELSE SeqSum([i \in DOMAIN md.area.ent |-> md.area.ent[i][2]])
\* centre: centroid of the rectangles when there are any, else the stated centre (or none)
DefCenter(md) == IF md.rects.rs # <<>> THEN Centroid(md.rects.rs) ELSE md.center
DefAllRects(d) == Concat([i \in DOMAIN d.mods |-> d.mods[i].rects.rs])
DefFixedRects(d) == Concat([i \in DOMAIN d.mods |-> IF DFixed(d.mods[i]) THEN d.mods[i].rects.rs ELSE <<>>])

(***************************************************************************)
(* Wire length.  Per net: weight * sum over members of the distance from   *)
(* the member's centre to the (unweighted) mean of the members' centres.   *)
(* Square roots are irrational, so the specification yields an INTERVAL:   *)
(* centres are rationals; each is enclosed in a fixed-point interval at    *)
(* resolution 1/RES lattice units, the mean and the differences are        *)
(* computed in interval arithmetic, and every distance is bracketed by     *)
(* integer square roots:  ISqrt(dxmin^2+dymin^2) <= RES*dist <=            *)
(* ISqrt(dxmax^2+dymax^2)+1.  With coordinates <= CMAX = 64 and RES = 128  *)
(* all intermediates stay below 2*(64*128)^2 < 2^31; the bracket is a few  *)
(* units of 1/RES wide per pin (about 0.03 lattice units).                 *)
(***************************************************************************)
RES == 128
FixLo(num, den) == FloorDiv(num * RES, den)
FixHi(num, den) == CeilDiv(num * RES, den)
AbsMin(lo, hi) == IF lo <= 0 /\ hi >= 0 THEN 0 ELSE Mn(Abs(lo), Abs(hi))
AbsMax(lo, hi) == Mx(Abs(lo), Abs(hi))
\* cs: sequence of centres <<xn,xd,yn,yd>> of the members.  Result <<lo, hi>> in units of 1/RES, weight not applied
NetBracket(cs) ==
  LET k == Len(cs)
      xl == [i \in 1..k |-> FixLo(cs[i][1], cs[i][2])]   xh == [i \in 1..k |-> FixHi(cs[i][1], cs[i][2])]
      yl == [i \in 1..k |-> FixLo(cs[i][3], cs[i][4])]   yh == [i \in 1..k |-> FixHi(cs[i][3], cs[i][4])]
      mxl == FloorDiv(SeqSum(xl), k)   mxh == CeilDiv(SeqSum(xh), k)
      myl == FloorDiv(SeqSum(yl), k)   myh == CeilDiv(SeqSum(yh), k)
      dlo == [i \in 1..k |-> LET ax == AbsMin(xl[i] - mxh, xh[i] - mxl)  ay == AbsMin(yl[i] - myh, yh[i] - myl)
                             IN ISqrt(ax * ax + ay * ay)]
      dhi == [i \in 1..k |-> LET ax == AbsMax(xl[i] - mxh, xh[i] - mxl)  ay == AbsMax(yl[i] - myh, yh[i] - myl)
                             IN ISqrt(ax * ax + ay * ay) + 1]
  IN <<SeqSum(dlo), SeqSum(dhi)>>
\* centre of the module called nm in a sequence of [name, center] records (<<>> if it has none / is absent)
CenterOf(ms, nm) == IF \E i \in DOMAIN ms : ms[i].name = nm
                    THEN ms[CHOOSE i \in DOMAIN ms : ms[i].name = nm].center ELSE <<>>
\* the wire length of a net is defined only when every member has a centre (the code asserts it)
NetDefined(ms, net) == \A p \in DOMAIN net.pins : CenterOf(ms, net.pins[p]) # <<>>
NetWL(ms, net) == NetBracket([p \in DOMAIN net.pins |-> CenterOf(ms, net.pins[p])])
WD == 4   \* common denominator of the weights the model uses (1, 2, 4)
WeightOK(w) == WD % w[2] = 0
\* total: sum over nets of weight * bracket, in units of 1/(RES*WD)
TotalWL(ms, nets) ==
  LET part == [k \in DOMAIN nets |-> LET b == NetWL(ms, nets[k])  f == nets[k].w[1] * (WD \div nets[k].w[2])
                                     IN <<f * b[1], f * b[2]>>]
  IN <<SeqSum([k \in DOMAIN nets |-> part[k][1]]), SeqSum([k \in DOMAIN nets |-> part[k][2]])>>
\* an observed length, given as obs = round(100 * length in lattice units), lies in weight * bracket
\* (half a unit of rounding on the observation is granted: RES*den)
InBracket(obs, num, den, b) ==
  /\ obs * RES * den >= 100 * num * b[1] - RES * den
  /\ obs * RES * den <= 100 * num * b[2] + RES * den
\* a static bound that keeps the left-hand sides above below 2^31
WLBounded(nets) == SeqSum([k \in DOMAIN nets |-> nets[k].w[1] * (WD \div nets[k].w[2]) * Len(nets[k].pins)]) <= 600

Derive(d, nl) ==
  [area |-> [i \in DOMAIN d.mods |-> DefArea(d.mods[i])],
   center |-> [i \in DOMAIN d.mods |-> DefCenter(d.mods[i])],
   allrects |-> DefAllRects(d),
   fixedrects |-> DefFixedRects(d),
   wldefined |-> \A k \in DOMAIN nl.nets : NetDefined(nl.mods, nl.nets[k]),
   wl |-> IF \A k \in DOMAIN nl.nets : NetDefined(nl.mods, nl.nets[k]) THEN TotalWL(nl.mods, nl.nets) ELSE <<0, 0>>]

(***************************************************************************)
(* Inject: every single defect of every class the property lists, at every *)
(* position of a (well-formed) document.  A defect is a PATCH              *)
(*   [cls, variant, at, i, val]                                            *)
(*   at = "name"  : rename module i to val (its pins in the nets follow,   *)
(*                  so that the defect stays single)                       *)
(*        "area" | "rects" | "mextra" : replace that field of module i     *)
(*        "net"   : replace net i        "addnet" : append net val         *)
(*        "extra" : replace the top-level extra keys                       *)
(* so that the harness applies it generically and TLC (ApplyPatch) and the *)
(* real reader see the same ill-formed document.                           *)
(***************************************************************************)
Patch(cls, variant, at, i, val) == [cls |-> cls, variant |-> variant, at |-> at, i |-> i, val |-> val]
NoPatch == Patch("", "", "", 0, <<>>)
ApplyPatch(d, p) ==
  CASE p.at = "name" ->
         LET old == d.mods[p.i].name IN
         [d EXCEPT !.mods[p.i].name = p.val,
                   !.nets = [k \in DOMAIN d.nets |->
                               [d.nets[k] EXCEPT !.pins = [q \in DOMAIN d.nets[k].pins |->
                                   IF d.nets[k].pins[q] = old THEN p.val ELSE d.nets[k].pins[q]]]]]
    [] p.at = "area" -> [d EXCEPT !.mods[p.i].area = p.val]
    [] p.at = "rects" -> [d EXCEPT !.mods[p.i].rects = p.val]
    [] p.at = "mextra" -> [d EXCEPT !.mods[p.i].extra = p.val]
    [] p.at = "net" -> [d EXCEPT !.nets[p.i] = p.val]
    [] p.at = "addnet" -> [d EXCEPT !.nets = Append(d.nets, p.val)]
    [] p.at = "extra" -> [d EXCEPT !.extra = p.val]

UnknownName == "Zq"          \* a valid identifier that no generator uses for a module
SetEnt(area, j, e) == [area EXCEPT !.ent[j] = e]
SetRect(rects, j, r) == [rects EXCEPT !.rs[j] = r]
Shifted(r) == <<r[1] + 1, r[2] + 1, r[3] + 1, r[4] + 1, r[5]>>

ModulePatches(md, i) ==
  LET hard == DHard(md)  term == DTerminal(md)  rs == md.rects.rs  ent == md.area.ent IN
  \* invalid name: the module's own name, a region of its area map, a region of one of its rectangles
  { Patch("invalid_name", "module", "name", i, b) : b \in BadNames }
  \cup { Patch("invalid_name", "area_region", "area", i, SetEnt(md.area, j, <<b, ent[j][2]>>)) :
           j \in (IF hard \/ md.area.form # "d" THEN {} ELSE DOMAIN ent), b \in {"a-b", "dsp<LF>"} }
  \cup { Patch("invalid_name", "rect_region", "rects", i, SetRect(md.rects, j, <<rs[j][1], rs[j][2], rs[j][3], rs[j][4], b>>)) :
           j \in (IF hard THEN {} ELSE DOMAIN rs), b \in {"3x", "dsp<LF>", "r<SP>"} }
  \* unknown attribute
  \cup { Patch("unknown_attr", "module", "mextra", i, <<k>>) : k \in {"colour", "Area"} }
  \* non-positive area (soft modules: every entry, zero and negative)
  \cup { Patch("bad_area", "zero", "area", i, SetEnt(md.area, j, <<ent[j][1], 0>>)) : j \in IF hard THEN {} ELSE DOMAIN ent }
  \cup { Patch("bad_area", "negative", "area", i, SetEnt(md.area, j, <<ent[j][1], -ent[j][2]>>)) : j \in IF hard THEN {} ELSE DOMAIN ent }
  \* soft module without area: key dropped, or an empty map
  \cup (IF hard THEN {} ELSE { Patch("soft_no_area", "absent", "area", i, NoArea),
                               Patch("soft_no_area", "empty_map", "area", i, [form |-> "d", ent |-> <<>>]) })
  \* hard (hard, flippable, fixed, terminal) module with an area
  \cup (IF ~hard THEN {} ELSE { Patch("hard_with_area", "scalar", "area", i, [form |-> "s", ent |-> << <<Ground, 4>> >>]),
                                Patch("hard_with_area", "map", "area", i, [form |-> "d", ent |-> << <<"dsp", 3>> >>]) })
  \* hard module without rectangles: key dropped, or an empty list
  \cup (IF ~hard \/ term THEN {} ELSE { Patch("hard_no_rects", "absent", "rects", i, NoRects),
                                        Patch("hard_no_rects", "empty_list", "rects", i, [form |-> "list", rs |-> <<>>]) })
  \* hard module with overlapping rectangles: a copy of its last rectangle, or its first one shifted by (1,1)
  \cup (IF ~hard \/ term THEN {} ELSE
          { Patch("hard_overlap", "duplicate", "rects", i, [form |-> "list", rs |-> Append(rs, rs[Len(rs)])]) }
          \cup (IF W(RectOf(rs[1])) >= 2 /\ H(RectOf(rs[1])) >= 2
                THEN { Patch("hard_overlap", "shifted", "rects", i, [form |-> "list", rs |-> Append(rs, Shifted(rs[1]))]) }
                ELSE {}))
  \* non-positive rectangle size: zero / negative width / height of every rectangle
  \cup UNION { { Patch("bad_rect_size", "w_zero", "rects", i, SetRect(md.rects, j, <<rs[j][1], rs[j][2], rs[j][1], rs[j][4], rs[j][5]>>)),
                 Patch("bad_rect_size", "w_negative", "rects", i, SetRect(md.rects, j, <<rs[j][3], rs[j][2], rs[j][1], rs[j][4], rs[j][5]>>)),
                 Patch("bad_rect_size", "h_zero", "rects", i, SetRect(md.rects, j, <<rs[j][1], rs[j][2], rs[j][3], rs[j][2], rs[j][5]>>)),
                 Patch("bad_rect_size", "h_negative", "rects", i, SetRect(md.rects, j, <<rs[j][1], rs[j][4], rs[j][3], rs[j][2], rs[j][5]>>)) }
               : j \in DOMAIN rs }

NetPatches(nd, k) ==
  \* unknown module in a net: every pin position
  { Patch("unknown_module", "pin", "net", k, [nd EXCEPT !.pins[q] = UnknownName]) : q \in DOMAIN nd.pins }
  \* non-positive weight
  \cup { Patch("bad_weight", "zero", "net", k, [nd EXCEPT !.w = <<0, 1>>]),
         Patch("bad_weight", "negative", "net", k, [nd EXCEPT !.w = <<-1, 1>>]),
         Patch("bad_weight", "negative_fraction", "net", k, [nd EXCEPT !.w = <<-3, 2>>]) }
  \* one-pin net: `[A]`, and `[A, w]` (one pin followed by a weight)
  \cup { Patch("one_pin", "bare", "net", k, [pins |-> <<nd.pins[1]>>, w |-> <<>>]),
         Patch("one_pin", "weighted", "net", k, [pins |-> <<nd.pins[Len(nd.pins)]>>, w |-> IF nd.w = <<>> THEN <<2, 1>> ELSE nd.w]) }

Inject(d) ==
  UNION { ModulePatches(d.mods[i], i) : i \in DOMAIN d.mods }
  \cup UNION { NetPatches(d.nets[k], k) : k \in DOMAIN d.nets }
  \cup { Patch("unknown_attr", "top_level", "extra", 0, <<"Blocks">>) }
  \cup (IF d.mods = <<>> THEN {} ELSE
          { Patch("one_pin", "bare", "addnet", 0, [pins |-> <<d.mods[1].name>>, w |-> <<>>]),
            Patch("one_pin", "weighted", "addnet", 0, [pins |-> <<d.mods[Len(d.mods)].name>>, w |-> <<5, 2>>]),
            Patch("unknown_module", "new_net", "addnet", 0, [pins |-> <<d.mods[1].name, UnknownName>>, w |-> <<>>]) })
DefectClasses == {"unknown_module", "bad_weight", "bad_area", "soft_no_area", "hard_with_area", "hard_no_rects",
                  "hard_overlap", "unknown_attr", "invalid_name", "one_pin", "bad_rect_size"}

(***************************************************************************)
(* The bounded universe of documents (construction state machine).         *)
(* Two sub-universes:                                                      *)
(*  wide : up to 2 modules drawn from many attribute combinations          *)
(*  deep : up to 3 (quick) / 4 (thorough) modules drawn from a few         *)
(*         "centre carriers" in general position, nets of arity 2..4       *)
(***************************************************************************)
Thorough == UNIVERSE = "thorough"
\* listing order is deliberately NOT the sorted order of the names (a writer that sorts its mapping keys must show)
\* The deep universe uses legal identifiers that a YAML 1.1 reader takes for booleans when they are written plain
\* (y, N, on, No; regions yes, OFF): they must load (given quoted or in a tree) and survive the round trip.
ModNames == IF lvl = "deep" THEN <<"y", "N", "on", "No">> ELSE <<"b_2", "A", "_c", "D4">>
C2(x, yy) == <<x, 1, yy, 1>>                          \* a centre on the lattice

\* rectangle pool (w, h >= 2 for the trunks so that the shifted overlap exists)
R1 == <<0, 0, 4, 2, Ground>>       \* trunk
R2 == <<4, 0, 6, 2, Ground>>       \* east branch of R1 (full height: either can be the trunk, R1 is larger)
R3 == <<1, 2, 3, 5, Ground>>       \* north branch of R1
R4 == <<6, 3, 9, 6, Ground>>       \* far away: {R1, R4} is no STOG
R5 == <<2, 1, 5, 4, Ground>>       \* overlaps R1
InRegion(r, reg) == <<r[1], r[2], r[3], r[4], reg>>
List(rs) == [form |-> "list", rs |-> rs]

SoftAreas == << [form |-> "s", ent |-> << <<Ground, 4>> >>],
                [form |-> "d", ent |-> << <<Ground, 4>>, <<"dsp", 3>> >>],
                [form |-> "d", ent |-> << <<"dsp", 5>> >>],
                [form |-> "d", ent |-> << <<Ground, 9>> >>] >>
SoftCenters == << <<>>, C2(3, 5), C2(7, 1) >>
SoftAspects == << NoAspect, [form |-> "s", v |-> <<2, 1>>], [form |-> "p", v |-> <<1, 2, 3, 1>>],
                  [form |-> "s", v |-> <<1, 3>>], [form |-> "p", v |-> <<0, 1, 1, 1>>] >>
SoftRects == << NoRects,
                [form |-> "flat", rs |-> <<R1>>],
                List(<<InRegion(R4, "dsp")>>),
                List(<<R1, InRegion(R2, "dsp")>>),
                List(<<InRegion(R2, "dsp"), R1>>),
                List(<<R1, R5>>),
                List(<<R3, InRegion(R2, "bram"), R1>>) >>     \* the trunk is last: loading moves it to the front
Soft(a, c, s, r) == [area |-> SoftAreas[a], center |-> SoftCenters[c], aspect |-> SoftAspects[s],
                     flags |-> NoFlags, rects |-> SoftRects[r], extra |-> <<>>]
\* a diagonal through the product (4 x 3 x 5 x 7 combinations): every value of every attribute occurs
\* from i = 9 on; quick takes 10 combinations, thorough 40
SoftDiag(i) == Soft((i % 4) + 1, (i % 3) + 1, ((i \div 2) % 5) + 1, (i % 7) + 1)
SoftDocs == { SoftDiag(i) : i \in 0..(IF Thorough THEN 39 ELSE 9) }
            \cup { [Soft(1, 2, 1, 1) EXCEPT !.flags = [NoFlags EXCEPT !.fixed = 0]] }      \* `fixed: false` spelled out
            \cup (IF Thorough THEN { [Soft(2, 1, 2, 4) EXCEPT !.flags = [NoFlags EXCEPT !.hard = 0]] } ELSE {})
Hardish(flags, c, rects) == [area |-> NoArea, center |-> c, aspect |-> NoAspect, flags |-> flags, rects |-> rects, extra |-> <<>>]
FHard == [NoFlags EXCEPT !.hard = 1]
FFlip == [NoFlags EXCEPT !.hard = 1, !.flip = 1]
FFixed == [NoFlags EXCEPT !.fixed = 1]
FTerm == [NoFlags EXCEPT !.terminal = 1]
FFixedTerm == [NoFlags EXCEPT !.fixed = 1, !.terminal = 1]
HardDocs == { Hardish(FHard, <<>>, r) : r \in { [form |-> "flat", rs |-> <<R4>>], List(<<R2, R1>>), List(<<R3, R2, R1>>), List(<<R1, R4>>) }
                                               \cup (IF Thorough THEN { List(<<R1>>), List(<<R1, R2>>) } ELSE {}) }
FlipDocs == { Hardish(FFlip, <<>>, r) : r \in { List(<<R1>>), List(<<R3, R1, R2>>) } \cup (IF Thorough THEN { List(<<R2, R1>>) } ELSE {}) }
FixedDocs == { Hardish(FFixed, <<>>, r) : r \in { List(<<R4>>), List(<<R1, R3>>) } \cup (IF Thorough THEN { List(<<R1, R4>>) } ELSE {}) }
TermDocs == { Hardish(FTerm, c, NoRects) : c \in {<<>>, C2(7, 1)} } \cup { Hardish(FFixedTerm, C2(2, 9), NoRects) }
\* SPECIAL variants, combined only with a few partners (and alone) so that the universe does not square with them:
\*  twin trunks -- two rectangles of exactly equal area, each a valid trunk for the other (two 2x2 squares side by
\*    side), in both listing orders, soft with / without region tags, hard, flippable: whichever trunk create_stog
\*    prefers, the choice must be stable from one load to the next;
\*  terminals with rectangles -- one / two rectangles, fixed or not, with / without a stated centre.
T1 == <<0, 0, 2, 2, Ground>>
T2 == <<2, 0, 4, 2, Ground>>
Body(m) == [area |-> m.area, center |-> m.center, aspect |-> m.aspect, flags |-> m.flags, rects |-> m.rects, extra |-> m.extra]
TwinDocs == { [Soft(1, 1, 1, 1) EXCEPT !.rects = List(<<T1, T2>>)],
              [Soft(2, 1, 1, 1) EXCEPT !.rects = List(<<InRegion(T2, "dsp"), InRegion(T1, "bram")>>)],
              Hardish(FHard, <<>>, List(<<T1, T2>>)), Hardish(FHard, <<>>, List(<<T2, T1>>)),
              Hardish(FFlip, <<>>, List(<<T2, T1>>)), Hardish(FFixed, <<>>, List(<<T1, T2>>)) }
TermRectDocs == { Hardish(FTerm, <<>>, [form |-> "flat", rs |-> <<R4>>]),
                  Hardish(FTerm, C2(7, 1), List(<<R4>>)),                      \* the stated centre gives way to the rectangle's
                  Hardish(FFixedTerm, C2(2, 9), List(<<R1, R3>>)) }
SpecialDocs == TwinDocs \cup TermRectDocs
Partners == { SoftDiag(0), Hardish(FHard, <<>>, [form |-> "flat", rs |-> <<R4>>]), Hardish(FTerm, C2(7, 1), NoRects),
              Hardish(FFixed, <<>>, List(<<R4>>)), Hardish(FFlip, <<>>, List(<<R1>>)) }
PairOK(first, md) == \/ (first \notin SpecialDocs /\ md \notin SpecialDocs)
                     \/ (first \in SpecialDocs /\ md \in Partners) \/ (first \in Partners /\ md \in SpecialDocs)
WideDocs == SoftDocs \cup HardDocs \cup FlipDocs \cup FixedDocs \cup TermDocs \cup SpecialDocs

\* centre carriers in general position ((0,0)-(3,4) is a 3-4-5 triangle; the others are irrational distances)
DeepDocs == { [Soft(1, 1, 1, 1) EXCEPT !.center = C2(0, 0)],
              [Soft(2, 1, 1, 1) EXCEPT !.center = C2(3, 4), !.area = [form |-> "d", ent |-> << <<Ground, 4>>, <<"yes", 3>> >>]],
              Hardish(FTerm, C2(7, 1), NoRects),
              Hardish(FFixed, <<>>, List(<<R4>>)),                                  \* centre (7.5, 4.5) from its rectangle
              [Soft(1, 1, 1, 1) EXCEPT !.rects = List(<<R1, InRegion(R3, "OFF")>>)] } \* centroid with denominator 7

\* wide: 2 modules, at most one net.  deep: nets once 3 modules are there; quick stops at 3 modules and one net,
\* thorough goes on to 4 modules (one net) or stays at 3 modules with two nets
MaxMods == IF lvl = "wide" THEN 2 ELSE IF Thorough THEN 4 ELSE 3
MaxNets == IF lvl = "wide" THEN 1 ELSE IF Thorough /\ Len(doc.mods) = 3 THEN 2 ELSE 1
\* the terminals with rectangles are part of C04's universe only (DEFECTS = FALSE)
ModulePool == IF lvl = "wide" THEN (IF DEFECTS THEN WideDocs \ TermRectDocs ELSE WideDocs) ELSE DeepDocs
\* pin lists over the modules present (by position) with the weights they are combined with
W0 == <<>>
PinWeights(k) ==
  IF lvl = "wide"
  THEN { <<<<1, 2>>, W0>>, <<<<2, 1>>, <<5, 2>>>>,
         \* nets whose pins are all the same module: the reader accepts them (two list entries), so they must survive
         <<<<1, 1>>, <<1, 4>>>>, <<<<2, 2>>, W0>> }
       \cup (IF Thorough THEN { <<<<1, 2>>, <<1, 1>>>>, <<<<2, 1>>, <<1, 2>>>>, <<<<2, 1>>, W0>>, <<<<1, 2>>, <<5, 2>>>> } ELSE {})
  ELSE { <<pl, w>> : pl \in {<<1, 2, 3>>, <<3, 1, 2>>, <<2, 3>>}, w \in {W0, <<2, 1>>} }
       \cup (IF k >= 4 THEN { <<pl, w>> : pl \in {<<1, 2, 3, 4>>, <<4, 2, 3, 1>>, <<4, 1>>, <<2, 4, 3>>}, w \in {W0, <<2, 1>>} } ELSE {})
       \cup (IF Thorough THEN { <<<<1, 2>>, <<1, 2>>>>, <<<<2, 1>>, <<4, 1>>>>, <<<<1, 2, 1>>, W0>>, <<<<3, 3, 2>>, <<2, 1>>>> } ELSE {})
NetDocs(d) == { [pins |-> [q \in DOMAIN pw[1] |-> d.mods[pw[1][q]].name], w |-> pw[2]] : pw \in PinWeights(Len(d.mods)) }

(***************************************************************************)
(* State machine                                                           *)
(***************************************************************************)
Init == /\ phase = "build" /\ lvl \in {"wide", "deep"} /\ doc = NoDoc
        /\ n = NoNetlist /\ y = NoDoc /\ n2 = NoNetlist /\ y2 = NoDoc /\ inj = NoPatch

AddModule == /\ phase = "build" /\ doc.nets = <<>> /\ Len(doc.mods) < MaxMods
             /\ \E md \in ModulePool :
                   /\ (lvl = "wide" /\ doc.mods # <<>> => PairOK(Body(doc.mods[1]), md))
                   /\ doc' = [doc EXCEPT !.mods = Append(doc.mods, [name |-> ModNames[Len(doc.mods) + 1]] @@ md)]
             /\ UNCHANGED <<phase, lvl, n, y, n2, y2, inj>>
AddNet == /\ phase = "build" /\ Len(doc.mods) >= 2 /\ Len(doc.nets) < MaxNets
          /\ (lvl = "deep" => Len(doc.mods) >= 3)
          /\ \E nd \in NetDocs(doc) : doc' = [doc EXCEPT !.nets = Append(doc.nets, nd)]
          /\ UNCHANGED <<phase, lvl, n, y, n2, y2, inj>>
Complete == phase = "build" /\ doc.mods # <<>>

\* C04 / C05 (derived quantities): load, save, reload, save again
Load == /\ Complete /\ ~EMIT /\ phase' = "loaded" /\ n' = Read(doc).n /\ UNCHANGED <<lvl, doc, y, n2, y2, inj>>
Save == /\ ~DEFECTS /\ phase = "loaded" /\ phase' = "saved" /\ y' = Write(n) /\ UNCHANGED <<lvl, doc, n, n2, y2, inj>>
Reload == /\ phase = "saved" /\ phase' = "reloaded" /\ n2' = Read(y).n /\ UNCHANGED <<lvl, doc, n, y, y2, inj>>
Resave == /\ phase = "reloaded" /\ phase' = "resaved" /\ y2' = Write(n2) /\ UNCHANGED <<lvl, doc, n, y, n2, inj>>
\* C05 (rejection): one defect anywhere
Defect == /\ DEFECTS /\ Complete /\ ~EMIT /\ phase' = "defect"
          /\ \E p \in Inject(doc) : inj' = p /\ doc' = ApplyPatch(doc, p)
          /\ UNCHANGED <<lvl, n, y, n2, y2>>
\* behaviour generation: the documents; their injections are printed by FpefTrace!InjectSpec (same Inject)
Emit == /\ Complete /\ EMIT /\ phase' = "emitted" /\ UNCHANGED <<lvl, doc, n, y, n2, y2, inj>>
        /\ PrintT(ToJson([lvl |-> lvl, doc |-> doc, c05 |-> B(PointTerminals(doc))]))     \* c05 = 1: also in C05's universe

Next == AddModule \/ AddNet \/ Load \/ Save \/ Reload \/ Resave \/ Defect \/ Emit
Spec == Init /\ [][Next]_vars

(***************************************************************************)
(* Invariants                                                              *)
(***************************************************************************)
\* the generators stay inside the modelled language, and every constructed document is well-formed
InvLanguage == InLanguage(doc)
InvPointTerminals == DEFECTS => PointTerminals(doc)
InvBuildWellFormed == phase = "build" => WellFormed(doc)
\* the two sides of the reader agree: accepted iff well-formed (on every document reached, defects included)
InvReadIffWellFormed == phase \in {"build", "defect"} => (Read(doc).ok <=> WellFormed(doc))
\* the writer's output is itself a well-formed document of the language
InvWriteWellFormed == phase \in {"saved", "reloaded", "resaved"} => InLanguage(y) /\ WellFormed(y) /\ Read(y).ok

\* ---- C04
\* reading back what was written yields the same design: modules in order with kind, per-region areas,
\* centre, aspect ratio, rectangles with regions; nets with members and weights
InvRoundTrip == phase \in {"reloaded", "resaved"} => n2 = n
\* writing is repeatable: writing the reloaded design gives the identical document
InvRepeatable == phase = "resaved" => y2 = y
\* nothing is lost on the way doc -> n: every attribute the property names can be recovered from n
\* (guards the round-trip invariants against a vacuous Read)
InvReadKeeps == phase = "loaded" =>
   /\ Len(n.mods) = Len(doc.mods) /\ Len(n.nets) = Len(doc.nets)
   /\ \A i \in DOMAIN doc.mods :
        /\ n.mods[i].name = doc.mods[i].name /\ n.mods[i].kind = DKind(doc.mods[i])
        /\ (~DHard(doc.mods[i]) => n.mods[i].areas = doc.mods[i].area.ent)
        /\ SameBag(n.mods[i].rects, doc.mods[i].rects.rs)
        /\ n.mods[i].kind \in {KindFlags[k] : k \in DOMAIN KindFlags}
   /\ \A k \in DOMAIN doc.nets : n.nets[k].pins = doc.nets[k].pins

\* ---- C05
\* the loaded netlist carries the derived quantities of the definition
InvDerived == phase = "loaded" =>
   LET dv == Derive(doc, n) IN
   /\ \A i \in DOMAIN n.mods :
        /\ SeqSum([j \in DOMAIN n.mods[i].areas |-> n.mods[i].areas[j][2]]) = dv.area[i]
        /\ n.mods[i].center = dv.center[i]
        /\ (KTerminal(n.mods[i].kind) => dv.area[i] = 0)
   /\ SameBag(Concat([i \in DOMAIN n.mods |-> n.mods[i].rects]), dv.allrects)
   /\ SameBag(Concat([i \in DOMAIN n.mods |-> IF KFixed(n.mods[i].kind) THEN n.mods[i].rects ELSE <<>>]), dv.fixedrects)
\* the centroid lies in the bounding box of the rectangles; one rectangle: its own centre
InvCentroid == phase = "loaded" => \A i \in DOMAIN n.mods :
   LET rs == n.mods[i].rects  c == n.mods[i].center IN
   rs # <<>> =>
     LET bb == BBox({RectOf(rs[j]) : j \in DOMAIN rs}) IN
     /\ bb.x1 * c[2] <= c[1] /\ c[1] <= bb.x2 * c[2] /\ bb.y1 * c[4] <= c[3] /\ c[3] <= bb.y2 * c[4]
     /\ (Len(rs) = 1 => c = <<Frac(Cx2(RectOf(rs[1])), 2)[1], Frac(Cx2(RectOf(rs[1])), 2)[2],
                              Frac(Cy2(RectOf(rs[1])), 2)[1], Frac(Cy2(RectOf(rs[1])), 2)[2]>>)
IntCenter(c) == c[2] = 1 /\ c[4] = 1
\* the wire-length bracket is sound against a closed form: for a two-pin net the sum of the two
\* distances to the midpoint is the distance between the centres, whose square is rational
InvWireLength == phase = "loaded" => \A k \in DOMAIN n.nets :
   (NetDefined(n.mods, n.nets[k]) =>
      LET b == NetWL(n.mods, n.nets[k]) IN
      /\ 0 <= b[1] /\ b[1] <= b[2] /\ b[2] - b[1] <= 8 * Len(n.nets[k].pins)
      /\ (Len(n.nets[k].pins) = 2 /\ IntCenter(CenterOf(n.mods, n.nets[k].pins[1])) /\ IntCenter(CenterOf(n.mods, n.nets[k].pins[2])) =>
            LET c1 == CenterOf(n.mods, n.nets[k].pins[1])  c2 == CenterOf(n.mods, n.nets[k].pins[2])
                \* RES * (c1 - c2) per axis, exact when the denominators divide RES * (their product)
                dd == c1[2] * c2[2] * c1[4] * c2[4]
                dx == (c1[1] * c2[2] - c2[1] * c1[2]) * c1[4] * c2[4]
                dy == (c1[3] * c2[4] - c2[3] * c1[4]) * c1[2] * c2[2]
            IN \* b1/RES <= sqrt(dx^2+dy^2)/dd <= b2/RES
               /\ b[1] * b[1] * dd * dd <= RES * RES * (dx * dx + dy * dy)
               /\ RES * RES * (dx * dx + dy * dy) <= b[2] * b[2] * dd * dd))
\* every injected defect makes the document ill-formed and is refused by the reader
InvDefectRejected == phase = "defect" => /\ inj.cls \in DefectClasses /\ ~WellFormed(doc) /\ ~Read(doc).ok
\* create_stog finds a trunk exactly when one exists
InvStog == \A i \in DOMAIN doc.mods : LET rs == doc.mods[i].rects.rs IN
              (phase = "build" /\ rs # <<>>) => (HasStog(rs) <=> IsStog(rs))
=============================================================================
