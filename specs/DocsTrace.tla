----------------------------- MODULE DocsTrace -----------------------------
(***************************************************************************)
(* C19, code -> spec: batch validation of observed producer runs.          *)
(*                                                                         *)
(* One event = one object handed to one real producer, which was called    *)
(* TWICE on it; the first document went to the corresponding real reader.  *)
(*   prod      the producer (module Docs, Producers)                       *)
(*   src, op   the abstract object the harness built the real object from  *)
(*             and the operation applied before writing ("none", "split"   *)
(*             for dies; "refine", "griddify", "uniform" for allocations)  *)
(*   pre, post what the real object looked like through its accessors      *)
(*             before the first and after the second call (dies,           *)
(*             allocations: the structured observation; other producers: a *)
(*             digest string of the object's state)                        *)
(*   d1, d2    digests of the two documents                                *)
(*   accepted  1 if the reader accepted the first document                 *)
(*   back      the object the reader built, observed through its accessors *)
(*             (numbers in 1/1000 lattice units)                           *)
(* A trace of kind "store" is one same-path history inside ONE process:    *)
(* producer, objs (the abstract objects), and the operations                *)
(*   write(path)   the real producer wrote the current object to the path   *)
(*   change(to)    object number `to` became current                        *)
(*   read(path)    the real reader read the path: accepted, back            *)
(* consumed by the store machine's own actions WriteTo / ChangeTo /         *)
(* ReadFrom; every read is judged against seen'.want, the design of the     *)
(* object LAST written to that path.                                        *)
(*                                                                          *)
(* Every event is consumed by the specification's own chain                *)
(* Produce ; ProduceAgain ; Read on the abstract object (doc', back' are   *)
(* what the specification computes).  The clauses of the statement go to   *)
(* `fails`; what is finer than the statement (order of regions, cells,     *)
(* modules and nets, region tags of module rectangles, the model's own     *)
(* acceptance) goes to `drift`.  Verdicts are total.                       *)
(***************************************************************************)
EXTENDS Docs, IOUtils

Batch == JsonDeserialize(IOEnv.TRACE_FILE)

VARIABLES tid, l, fails, drift
tvars == <<vars, tid, l, fails, drift>>

T == Batch[tid]

IsStore == T.kind = "store"
TraceInit == /\ tid \in 1..Len(Batch) /\ l = 1 /\ fails = {} /\ drift = {}
             /\ doc = Nothing /\ doc2 = Nothing /\ back = Nothing /\ store = [f \in {"P", "Q"} |-> Nothing] /\ seen = Nothing /\ hist = <<>>
             /\ IF Batch[tid].kind = "store" THEN pc = "store" /\ prod = Batch[tid].producer /\ src = Batch[tid].objs[1]
                ELSE pc = "pick" /\ prod = "" /\ src = Nothing

IsDie(p) == p \in {"die", "floorset_dief"}
IsNet(p) == ~IsDie(p) /\ p # "alloc"
\* the design the document has to describe, as an observation (dies, allocations: the object that was written,
\* which is what `pre` shows; FloorSet die: the span of the pins) or as an abstract netlist
WrittenDie(e) == IF e.prod = "die" THEN e.pre ELSE DieObsOf(ConvertDie(e.src))

Clauses(e) ==
  LET yes == e.accepted = 1 IN
  [ \* "is accepted by the corresponding reader"
    accepted     |-> yes,
    \* "describes the same design that was written: same regions, cells and ratios ..."
    same_design  |-> (yes /\ ~IsNet(e.prod)) => IF IsDie(e.prod) THEN SameDieObs(WrittenDie(e), e.back)
                                                 ELSE SameAllocObs(e.pre, e.back),
    \* "... modules, kinds, shapes ..."
    same_modules |-> (yes /\ IsNet(e.prod)) => SameModsObs(Design(e.prod, e.src), e.back),
    \* (kinds, continued: a module that may be flipped still may)
    same_flip    |-> (yes /\ IsNet(e.prod)) => SameFlipObs(Design(e.prod, e.src), e.back),
    \* "... nets and weights"
    same_nets    |-> (yes /\ IsNet(e.prod)) => SameNetsObs(Design(e.prod, e.src), e.back),
    \* "producing a document never alters the object it was produced from"
    unaltered    |-> e.post = e.pre,
    \* "so producing it twice gives identical documents"
    repeat       |-> e.d2 = e.d1 ]
ClauseNames == {"accepted", "same_design", "same_modules", "same_flip", "same_nets", "unaltered", "repeat"}

Drifts(e) ==
  (IF (e.accepted = 1) # back'.ok THEN {"acceptance"} ELSE {})
  \cup (IF e.accepted = 1 /\ IsNet(e.prod) /\ ~TagsAndOrder(Design(e.prod, e.src), e.back) THEN {"tags_or_order"} ELSE {})
  \cup (IF e.accepted = 1 /\ e.prod = "die" /\ e.pre.regs # e.back.regs THEN {"region_order"} ELSE {})
  \cup (IF e.accepted = 1 /\ e.prod = "alloc" /\ e.pre # e.back THEN {"cell_order"} ELSE {})
  \cup (IF e.prod = "die" /\ e.op = "none" /\ ~SameDieObs(DieObsOf(e.src), e.pre) THEN {"source_object"} ELSE {})
  \cup (IF e.prod = "alloc" /\ e.op = "none" /\ ~SameAllocObs(AllocObsOf(e.src), e.pre) THEN {"source_object"} ELSE {})

\* a read of a same-path history, judged against the design last written to that path (seen'.want)
ReadClauses(e, want) ==
  LET yes == e.accepted = 1 IN
  [ accepted     |-> yes,
    same_design  |-> (yes /\ ~IsNet(prod)) => IF IsDie(prod) THEN SameDieObs(DieObsOf(want), e.back) ELSE SameAllocObs(AllocObsOf(want), e.back),
    same_modules |-> (yes /\ IsNet(prod)) => SameModsObs(want, e.back),
    same_flip    |-> (yes /\ IsNet(prod)) => SameFlipObs(want, e.back),
    same_nets    |-> (yes /\ IsNet(prod)) => SameNetsObs(want, e.back),
    unaltered    |-> TRUE,
    repeat       |-> TRUE ]
StoreOp == LET e == T.events[l] IN
  CASE e.op = "write" -> WriteTo(e.path) /\ UNCHANGED <<fails, drift, hist>>
    [] e.op = "change" -> ChangeTo(T.objs[e.to]) /\ UNCHANGED <<fails, drift, hist>>
    [] OTHER -> /\ ReadFrom(e.path) /\ UNCHANGED <<drift, hist>>
                /\ LET cl == ReadClauses(e, seen'.want) IN fails' = fails \cup { <<l, c>> : c \in { c \in ClauseNames : ~cl[c] } }

Step == /\ l <= Len(T.events)
        /\ IF IsStore THEN StoreOp
           ELSE LET e == T.events[l]
                    cl == Clauses(e)
                IN /\ prod' = e.prod /\ src' = e.src
                   /\ doc' = Document(e.prod, e.src) /\ doc2' = Document(e.prod, e.src)
                   /\ back' = Reader(e.prod, doc')
                   /\ fails' = fails \cup { <<l, c>> : c \in { c \in ClauseNames : ~cl[c] } }
                   /\ drift' = drift \cup { <<l, d>> : d \in Drifts(e) }
                   /\ pc' = "read" /\ UNCHANGED fvars
        /\ l' = l + 1 /\ UNCHANGED tid

Done == /\ l = Len(T.events) + 1
        /\ l' = l + 1
        /\ PrintT(ToJson([tag |-> "VERDICT", id |-> T.id, fails |-> fails, drift |-> drift]))
        /\ UNCHANGED <<vars, tid, fails, drift>>

TraceNext == Step \/ Done
TraceSpec == TraceInit /\ [][TraceNext]_tvars
=============================================================================
