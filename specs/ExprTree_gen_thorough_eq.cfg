\* Universe E (thorough): all operators, histories of 3 operations ending or not with an Equation.
SPECIFICATION Spec
CONSTANTS
  Consts <- ConstsA
  Scals <- ScalsA
  Vals <- ValsB
  Inits <- InitsB
  BinOps <- AllBin
  WithSqrt = FALSE
  WithRaw = FALSE
  SameNames = {0}
  MaxBuild = 1
  MaxOps = 3
  OpKinds = {"assign", "undo", "eq"}
  RehomeTargets = {}
  EqCmps = {"LE", "GE", "EQ"}
  EqEps <- EpsA
  STACKUNDO = FALSE
  EMIT = TRUE
CHECK_DEADLOCK FALSE
