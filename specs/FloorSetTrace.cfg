SPECIFICATION TraceSpec
CONSTANTS
  UNIVERSE = "thorough"
  EMIT = FALSE
CHECK_DEADLOCK FALSE
