\* behaviour generation for Extract (spec -> code): every solution Optimize may return for the initial allocation of
\* the L-module instances, ratios k/4, thresholds 3/4 and 2/4
SPECIFICATION Spec
CONSTANTS
  Instances <- SolThorough
  Den = 4
  TOLR = 0
  TOLP = 0
  EMIT = FALSE
  EMITSOL = TRUE
CHECK_DEADLOCK FALSE
