\* Universe S (quick) with CHAIN: Perturb and Wild also start from every moved (legal) configuration.
SPECIFICATION Spec
CONSTANTS
  DW = 8
  DH = 8
  RP = 2
  RQ = 1
  TXS = {2}
  TYS = {2}
  TrunkSizes <- TrunkSizes1
  BranchSizes <- BranchSizesS
  BranchOffs = {0, 99}
  Kinds = {"soft", "hard", "fixed"}
  Slacks = {0, 2}
  MaxMods = 1
  MaxBr = 2
  MaxRects = 3
  Deltas <- DeltasA
  Slides <- SlidesA
  EdgeDs <- EdgeDsA
  CHAIN = TRUE
  WILD = TRUE
  FIXMODEL = "intended"
  ANYRATIO = FALSE
  BASEMOD = 2
  EMIT = FALSE
INVARIANT InvShape
INVARIANT InvBuiltLegal
INVARIANT InvSystemExact
INVARIANT InvGroups
INVARIANT InvPerturbOne
INVARIANT InvWild
CHECK_DEADLOCK FALSE
