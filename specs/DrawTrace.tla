----------------------------- MODULE DrawTrace -----------------------------
(***************************************************************************)
(* DRAW, code -> spec: batch validation of observations of tools/draw.     *)
(* One TLC initial state per observation; kinds:                           *)
(*   plot     a canvas (die, req = <<width, height, frame>>) and a design, *)
(*            with everything the real functions said about them:          *)
(*            o.sc   calculate_scaling: width, height, frame, and xw / yh  *)
(*                   = 1000 * xscale * die width (height)                  *)
(*            o.pts  scale(): <<x, y (half lattice units), column, row>>   *)
(*            o.check  1 when check_modules raised                         *)
(*            o.bbox calculate_bbox in thousandths (netlist without cells) *)
(*            o.centers  calculate_centers of every net, in thousandths    *)
(*            o.plot get_floorplan_plot: raised, size, prims = the boxes   *)
(*                   recorded by the ImageDraw stub, in drawing order      *)
(*            T.loose = 1: radii are not lattice numbers (netgen documents)*)
(*                   -- the exact pixel boxes are not judged               *)
(*   outname  gen_out_filename(name)                                       *)
(*   raw      check_modules on one hand-made Module (nrects, hasc, area,   *)
(*            term)                                                        *)
(*   main     main(): the file it created and the size of the picture      *)
(* Property clauses -> fails, conformance (exact tie rounding) -> drift.   *)
(***************************************************************************)
EXTENDS Draw, IOUtils

Batch == JsonDeserialize(IOEnv.TRACE_FILE)
VARIABLES tid, l, fails, drift
tvars == <<vars, tid, l, fails, drift>>
T == Batch[tid]

TraceInit == /\ tid \in 1..Len(Batch) /\ l = 1 /\ fails = {} /\ drift = {}
             /\ pc = "pick" /\ die = <<1, 1>> /\ req = <<0, 0, 0>> /\ sc = Scaling(<<1, 1>>, 1, 1, 0) /\ design = NoDesign
             /\ plot = <<>> /\ fname = <<>>
Bad(cl) == { k \in DOMAIN cl : ~cl[k] }
IsDrift(k) == k \in { "d_tie_rounding", "d_scale_rounding" }

\* --- the exact (unrounded) pixel boxes: every coordinate <<rational, offset>>, observed - offset must round the rational
EX(x, s) == << ExactX(RI(x), s), 0 >>
EY(y, s) == << ExactY(RI(y), s), 0 >>
BoxExact(kind, t, s) == << kind, EX(t[1], s), EY(t[4], s), EX(t[3], s), EY(t[2], s) >>
ModuleExact(m, s) == LET sh == ShapesOf(m) IN [ k \in DOMAIN sh |-> BoxExact(IF HasRects(m) THEN "rect" ELSE "ellipse", sh[k], s) ]
NetExact(dg, net, s) ==
  LET pts == PinPoints(dg, net)  hx == ExactX(pts[1][1], s)  hy == ExactY(pts[1][2], s) IN
  [ k \in 1..Len(net) |-> << "line", <<hx, 0>>, <<hy, 0>>, <<ExactX(pts[k + 1][1], s), 0>>, <<ExactY(pts[k + 1][2], s), 0>> >> ]
  \o (IF Len(pts) > 3 THEN << << "ellipse", <<hx, -8>>, <<hy, -8>>, <<hx, 8>>, <<hy, 8>> >> >> ELSE <<>>)
DrawnExact(dg, s) ==
  << << "rect", <<RI(0), 0>>, <<RI(0), 0>>, <<RI(s.width + 2 * s.frame), 0>>, <<RI(s.height + 2 * s.frame), 0>> >>,
     << "rect", <<RI(s.frame), 0>>, <<RI(s.frame), 0>>, <<RI(s.width + s.frame), 0>>, <<RI(s.height + s.frame), 0>> >> >>
  \o (IF dg.cells # <<>> THEN [ k \in DOMAIN dg.cells |-> BoxExact("rect", dg.cells[k], s) ]
      ELSE FoldLeft(LAMBDA acc, m : acc \o ModuleExact(m, s), <<>>, dg.mods))
  \o FoldLeft(LAMBDA acc, net : acc \o NetExact(dg, net, s), <<>>, dg.nets)
PrimOK(obs, ex) == /\ obs[1] = ex[1] /\ \A i \in 2..5 : IsRounding(obs[i] - ex[i][2], ex[i][1])
BoxesOK(prims, dg, s) == LET ex == DrawnExact(dg, s) IN Len(prims) = Len(ex) /\ \A k \in DOMAIN ex : PrimOK(prims[k], ex[k])

\* a value in thousandths equals the rational num/den within 2/1000 (computed without large products)
Milli(num, den) == LET q == num \div den  r == num - q * den  k == (den \div 1000000) + 1 IN
                   1000 * q + (1000 * (r \div k)) \div Max({1, den \div k})
Within(obs, num, den) == Abs(obs - Milli(num, den)) <= 2

JudgePlot ==
  LET o == T.obs
      d == T.die  r == T.req
      dg == [ mods |-> T.design.mods, nets |-> T.design.nets, cells |-> T.design.cells, picked |-> <<>> ]
      s == Scaling(d, o.sc.width, o.sc.height, o.sc.frame)           \* the OBSERVED scaling, with exact factors
      ref == CalcScaling(d, r[1], r[2], r[3], Default)
      sh == AllShapes(dg)
      nshapes == IF dg.cells # <<>> THEN Len(dg.cells) ELSE Len(sh)
      cl == [ \* calculate_scaling
              scaling_requested |-> (r[1] # 0 => o.sc.width = r[1]) /\ (r[2] # 0 => o.sc.height = r[2]) /\ o.sc.frame = r[3],
              scaling_aspect |-> /\ (r[1] # 0 /\ r[2] = 0) => IsRounding(o.sc.height, <<d[2] * o.sc.width, d[1]>>)
                                 /\ (r[1] = 0 /\ r[2] # 0) => IsRounding(o.sc.width, <<d[1] * o.sc.height, d[2]>>),
              scaling_default |-> (r[1] = 0 /\ r[2] = 0) =>
                                    /\ Max({o.sc.width, o.sc.height}) = Default
                                    /\ IF d[1] > d[2] THEN IsRounding(o.sc.height, <<d[2] * Default, d[1]>>)
                                       ELSE IsRounding(o.sc.width, <<d[1] * Default, d[2]>>),
              scale_factors |-> Abs(o.sc.xw - 1000 * o.sc.width) <= 1 /\ Abs(o.sc.yh - 1000 * o.sc.height) <= 1,
              \* scale
              corner_images |-> \A k \in DOMAIN o.pts : LET p == o.pts[k] IN
                                   /\ (p[1] = 0 /\ p[2] = 0) => (p[3] = s.frame /\ p[4] = s.height + s.frame)
                                   /\ (p[1] = 2 * d[1] /\ p[2] = 2 * d[2]) => (p[3] = s.width + s.frame /\ p[4] = s.frame),
              inside |-> \A k \in DOMAIN o.pts : LET p == o.pts[k] IN
                            (0 <= p[1] /\ p[1] <= 2 * d[1] /\ 0 <= p[2] /\ p[2] <= 2 * d[2]) =>
                               (s.frame <= p[3] /\ p[3] <= s.width + s.frame /\ s.frame <= p[4] /\ p[4] <= s.height + s.frame),
              monotone |-> \A a \in DOMAIN o.pts : \A b \in DOMAIN o.pts :
                              /\ o.pts[a][1] <= o.pts[b][1] => o.pts[a][3] <= o.pts[b][3]
                              /\ o.pts[a][2] <= o.pts[b][2] => o.pts[a][4] >= o.pts[b][4],
              affine |-> \A k \in DOMAIN o.pts : LET p == o.pts[k] IN
                            IsRounding(p[3], ExactX(<<p[1], 2>>, s)) /\ IsRounding(p[4], ExactY(<<p[2], 2>>, s)),
              \* check_modules and get_floorplan_plot
              check_exact |-> (o.check = 1) <=> ~Drawable(dg),
              plot_total |-> o.plot.skipped = 0 => ((o.plot.raised = 1) <=> ~Drawable(dg)),
              image_size |-> (o.plot.raised = 0 /\ o.plot.skipped = 0) => o.plot.size = ImageSize(s),
              pixel_boxes |-> (o.plot.raised = 0 /\ o.plot.skipped = 0 /\ T.loose = 0) => BoxesOK(o.plot.prims, dg, s),
              primitive_count |-> (o.plot.raised = 0 /\ o.plot.skipped = 0) =>
                                    Len(o.plot.prims) = 2 + nshapes + FoldLeft(LAMBDA a, nt : a + Len(nt) + (IF Len(nt) >= 3 THEN 1 ELSE 0), 0, dg.nets),
              inside_image |-> (o.plot.raised = 0 /\ o.plot.skipped = 0 /\ Len(o.plot.prims) >= 2 + nshapes) =>
                                 /\ InImage(o.plot.prims[1], s) /\ InFrame(o.plot.prims[2], s)
                                 /\ \A k \in 1..nshapes : (IF dg.cells # <<>> THEN InDie(dg.cells[k], d) ELSE InDie(sh[k], d))
                                                             => InFrame(o.plot.prims[2 + k], s),
              \* calculate_bbox: contains every drawn shape, and is the smallest such box
              bbox_contains |-> o.bbox # <<>> => \A k \in DOMAIN sh : 1000 * sh[k][3] <= o.bbox[1] + 1 /\ 1000 * sh[k][4] <= o.bbox[2] + 1,
              bbox_tight |-> (o.bbox # <<>> /\ T.loose = 0) => o.bbox[1] <= 1000 * BBoxOf(dg)[1] + 1 /\ o.bbox[2] <= 1000 * BBoxOf(dg)[2] + 1,
              \* calculate_centers: the hub, then one point per pin
              centers |-> \A n \in DOMAIN o.centers :
                             LET want == PinPoints(dg, dg.nets[n])  got == o.centers[n] IN
                             /\ Len(got) = Len(want)
                             /\ \A k \in DOMAIN want : Within(got[k][1], want[k][1][1], want[k][1][2]) /\ Within(got[k][2], want[k][2][1], want[k][2][2]) ]
      dr == [ d_scale_rounding |-> o.sc.width = ref.width /\ o.sc.height = ref.height,
              d_tie_rounding |-> (o.plot.raised = 0 /\ o.plot.skipped = 0 /\ T.loose = 0 /\ Drawable(dg)) => o.plot.prims = Drawn(dg, s) ]
  IN /\ fails' = { <<1, k>> : k \in Bad(cl) } /\ drift' = { <<1, k>> : k \in Bad(dr) }
     /\ die' = d /\ req' = r /\ sc' = s /\ design' = dg /\ pc' = "plotted"
     /\ UNCHANGED <<plot, fname>>

JudgeName ==
  /\ fails' = { <<1, k>> : k \in Bad([ out_filename |-> T.obs = OutName(T.name, <<"g", "i", "f">>) ]) } /\ drift' = {}
  /\ fname' = T.name /\ pc' = "named" /\ UNCHANGED <<die, req, sc, design, plot>>

\* check_modules on a hand-made module: "either a list of rectangles or a center and an area" (a terminal needs no area)
JudgeRaw ==
  LET m == T.mod IN
  /\ fails' = { <<1, k>> : k \in Bad([ check_exact |-> (T.obs = 1) <=> ~(m.nrects > 0 \/ (m.hasc = 1 /\ (m.area = 1 \/ m.term = 1))) ]) }
  /\ drift' = {} /\ pc' = "plotted" /\ UNCHANGED <<die, req, sc, design, plot, fname>>

\* main(): "-o OUTFILE output file"; README: "If not specified, the name of the input file is used and a .gif suffix is
\* added (substituting the original suffix)"; the picture has the size calculate_scaling gives for the options
JudgeMain ==
  LET o == T.obs  s == CalcScaling(T.die, T.req[1], T.req[2], T.req[3], Default)
      want == IF T.outopt # <<>> THEN T.outopt ELSE OutName(T.name, <<"g", "i", "f">>) IN
  /\ fails' = { <<1, k>> : k \in Bad([ returns |-> o.raised = 0,
                                       main_writes_named_file |-> o.raised = 0 => o.created = want,
                                       image_size |-> (o.raised = 0 /\ o.size # <<>>) =>
                                                        /\ IsRounding(o.size[1] - 2 * s.frame, RI(s.width)) /\ Abs(o.size[1] - ImageSize(s)[1]) <= 1
                                                        /\ Abs(o.size[2] - ImageSize(s)[2]) <= 1 ]) }
  /\ drift' = {} /\ fname' = T.name /\ pc' = "named" /\ UNCHANGED <<die, req, sc, design, plot>>

Judge == /\ l = 1
         /\ CASE T.kind = "plot" -> JudgePlot
              [] T.kind = "outname" -> JudgeName
              [] T.kind = "raw" -> JudgeRaw
              [] OTHER -> JudgeMain
         /\ l' = 2 /\ UNCHANGED tid
Done == /\ l = 2 /\ l' = 3
        /\ PrintT(ToJson([ tag |-> "VERDICT", id |-> T.id, fails |-> fails, drift |-> drift ]))
        /\ UNCHANGED <<vars, tid, fails, drift>>
TraceNext == Judge \/ Done
TraceSpec == TraceInit /\ [][TraceNext]_tvars
=============================================================================
