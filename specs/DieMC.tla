------------------------------- MODULE DieMC -------------------------------
(* Constant values for the TLC configurations of Die.tla (cfg files cannot hold tuples). *)
EXTENDS Die
Tags3 == <<"#", "R1", "F">>
Tags2 == <<"#", "R1">>
\* uniform metric, 32 micro-units per lattice step (five exact halvings), margin OUT = 1
XSu == [ k \in 1..8 |-> 32 * (k - 2) ]
\* the same with margin OUT = 0
XSu0 == [ k \in 1..8 |-> 32 * (k - 1) ]
\* a sliver column (1 : 100) and a 1000 : 1 row
XSsliver == <<-32, 0, 32, 3232, 3264, 3296, 3328, 3360>>
YSflat == <<-32, 0, 32000, 32032, 32064, 32096, 32128, 32160>>
\* thin overlaps: a column of width 1 between lines 1 and 2 of a die 30000 wide, a row of height 10 of a die 20000 high
XSthin == <<0, 10000, 10001, 20000, 30000>>
YSthin == <<0, 10, 10000, 20000>>
SplitsQ == { <<3, 2, 1>>, <<3, 2, 5>>, <<2, 1, 7>> }
SplitsT == { <<71, 50, 1>>, <<71, 50, 9>>, <<3, 2, 4>>, <<3, 2, 13>>, <<7, 4, 6>>, <<2, 1, 7>>, <<3, 1, 10>> }
GridsQ == { <<2, 3>>, <<1, 1>> }
GridsT == { <<nr, nc>> : nr \in 1..4, nc \in 1..4 }
=============================================================================
