\* C10 design-level check (quick): 8x4 lattice die, fixed 4x4 module, one refinable cell; soft + flippable hard
\* (two optimisations) and flippable hard alone (three optimisations); ratios k/3, threshold 2/3.
\* Largest intermediate value: area-weighted first moments < 10^3.
SPECIFICATION Spec
CONSTANTS
  Instances <- QuickInstances
  Den = 3
  TOLR = 0
  TOLP = 0
  EMIT = FALSE
  EMITSOL = FALSE
INVARIANT ClauseInv
INVARIANT InvCellsDisjoint
INVARIANT InvCellsInDie
INVARIANT InvRatioIn01
INVARIANT InvCapacity
INVARIANT InvCentresInDie
INVARIANT InvFixedKeep
INVARIANT InvHardCongruent
INVARIANT InvRefineConforms
INVARIANT InvHardAtCentre
PROPERTY ActRefineConforms
PROPERTY ActExtractConforms
VIEW View
CHECK_DEADLOCK FALSE
