----------------------------- MODULE UtilsTrace -----------------------------
(***************************************************************************)
(* UTILS, code -> spec: batch validation of what the real functions of     *)
(* frame/utils/utils.py (and the netlist reader) answered.                 *)
(* A trace is a list of independent events; every event carries the input  *)
(* in the abstract form of Utils.tla and the observed answers:             *)
(*  str   [s, ident, isnum, flt, route0, route1]  valid_identifier(s),     *)
(*        string_is_number(s), did float(s) succeed, what read_yaml(s) did *)
(*        with no such file / with a file of that name ("na": no such file *)
(*        can be made)                                                     *)
(*  kind  [kind, isnum, ident]      is_number / valid_identifier of a      *)
(*        value that is not a string (or a plain word / digit string)      *)
(*  aeq   [a, b, num, den, sa, sb, ab, ba]  almost_eq(a,b,eps), (b,a,eps); *)
(*        sa/sb = "inf" | "-inf" | "nan" replace the lattice value         *)
(*  tree  [t, has_cs, rt, wfile]    write_yaml(tree): text contains ': ',  *)
(*        read_yaml(that text) == tree ("ok" / what happened), and the     *)
(*        same through a file                                              *)
(*  name  [s, quoted, accepted]     Netlist() of a one-module netlist whose*)
(*        module is called s (double-quoted YAML scalar / plain scalar)    *)
(*  handle [how, ok]                read_yaml(open file / StringIO)        *)
(* Property clauses -> fails; model conformance -> drift (see Clauses).    *)
(***************************************************************************)
EXTENDS Utils, IOUtils

Batch == JsonDeserialize(IOEnv.TRACE_FILE)
VARIABLES tid, l, fails, drift
tvars == <<vars, tid, l, fails, drift>>
T == Batch[tid]
B(x) == IF x THEN 1 ELSE 0

TraceInit == /\ tid \in 1..Len(Batch) /\ l = 1 /\ fails = {} /\ drift = {}
             /\ Init

Clauses(e) ==
  CASE e.k = "str" ->
         [ident_grammar |-> e.ident = B(IsIdentifier(e.s)),
          number_grammar |-> e.isnum = B(IsFloatLiteral(e.s)),
          number_iff_float |-> e.isnum = e.flt,
          route_no_file |-> e.route0 = Route(e.s, FALSE),
          route_file_exists |-> e.route1 = "na" \/ e.route1 = Route(e.s, TRUE)]
    [] e.k = "kind" ->
         [is_number_kind |-> (KindVerdict(e.kind) = "yes" => e.isnum = 1) /\ (KindVerdict(e.kind) = "no" => e.isnum = 0),
          ident_nonstring |-> e.kind \in {"str", "numstr"} \/ e.ident = 0]
    [] e.k = "aeq" ->
         IF e.sa # "" \/ e.sb # "" THEN [none |-> TRUE]
         ELSE [aeq_symmetric |-> e.ab = e.ba,
               aeq_inside |-> Inside(e.a, e.b, e.num, e.den) => e.ab = 1,
               aeq_outside |-> Outside(e.a, e.b, e.num, e.den) => e.ab = 0]
    [] e.k = "tree" ->
         [roundtrip |-> e.rt = "ok", write_file |-> e.wfile = "ok"]
    [] e.k = "name" ->
         IF e.quoted = 1 THEN [reader_agrees |-> e.accepted = B(IsIdentifier(e.s))]
         ELSE [reader_only_identifiers |-> e.accepted = 1 => IsIdentifier(e.s)]
    [] e.k = "handle" -> [read_handle |-> e.ok = 1]
    [] OTHER -> [unknown_event |-> FALSE]

Drifts(e) ==
  CASE e.k = "kind" -> IF KindVerdict(e.kind) = "open" /\ e.isnum # B(AsCoded(e.kind)) THEN {"is_number_open_kind"} ELSE {}
    [] e.k = "aeq"  -> IF e.sa # "" \/ e.sb # ""
                       THEN (IF e.ab = 0 /\ e.ba = 0 THEN {} ELSE {"almost_eq_special"})
                       ELSE (IF e.ab = B(AlmostEqCoded(e.a, e.b, e.num, e.den)) THEN {} ELSE {"almost_eq_boundary"})
    [] e.k = "tree" -> (IF e.has_cs = B(HasColonSpace(e.t)) THEN {} ELSE {"dump_shape"})
                       \cup (IF (e.rt = "ok") = RoundTripAsCoded(e.t) THEN {} ELSE {"roundtrip_as_coded"})
    [] e.k = "name" -> IF e.quoted = 0 /\ e.accepted = 0 /\ IsIdentifier(e.s) THEN {"yaml_typed_name"} ELSE {}
    [] OTHER -> {}

Step == /\ l <= Len(T.events)
        /\ LET e == T.events[l]  cl == Clauses(e) IN
             /\ fails' = fails \cup { <<l, c>> : c \in { d \in DOMAIN cl : ~cl[d] } }
             /\ drift' = drift \cup { <<l, d>> : d \in Drifts(e) }
        /\ l' = l + 1 /\ UNCHANGED <<vars, tid>>
Done == /\ l = Len(T.events) + 1 /\ l' = l + 1
        /\ PrintT(ToJson([tag |-> "VERDICT", id |-> T.id, fails |-> fails, drift |-> drift]))
        /\ UNCHANGED <<vars, tid, fails, drift>>
TraceNext == Step \/ Done
TraceSpec == TraceInit /\ [][TraceNext]_tvars
=============================================================================
