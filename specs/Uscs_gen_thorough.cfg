\* behaviour generation (thorough)
SPECIFICATION Spec
CONSTANTS
  MaxBlocks = 2
  MaxTerms = 2
  MaxNets = 2
  SoftChoices <- SoftT
  HardChoices <- HardT
  PlChoices <- PlT
  Styles <- InLanguage
  EMIT = TRUE
CHECK_DEADLOCK FALSE
