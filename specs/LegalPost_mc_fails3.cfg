\* MUST FAIL (InvCovered): fuse_rects fuses a branch into the neighbour that turn_off_rects has already switched off; its area is lost.
\* Universe P: ratio limit 3 on a 10x10 die; trunks 4x5 / 1x1 at (2,2), (2,7), (5,2), (5,7) (a 1x1 module fits the notch
\* left by a 3x1 branch on the 4-wide side), up to two modules and two branches (3x1, 1x1, 1x2, flush with either end),
\* all kinds; thresholds as in ModelWrapper.solve (turn off <= 1/10, fuse > 1 - 1/20); hard modules left alone (SKIPHARD).
SPECIFICATION PSpec
CONSTANTS
  DW = 10
  DH = 10
  RP = 3
  RQ = 1
  TXS = {2, 5}
  TYS = {2, 7}
  TrunkSizes <- TrunkSizesP
  BranchSizes <- BranchSizesP2
  BranchOffs = {0, 1, 2, 99}
  Kinds = {"soft"}
  Slacks = {0}
  MaxMods = 1
  MaxBr = 2
  MaxRects = 3
  Deltas <- DeltasV
  Slides <- SlidesV
  EdgeDs <- EdgeDsA
  CHAIN = FALSE
  WILD = FALSE
  FIXMODEL = "intended"
  ANYRATIO = FALSE
  BASEMOD = 2
  OFFN = 1
  OFFD = 10
  FUSN = 1
  FUSD = 20
  SKIPHARD = TRUE
  EMIT = FALSE
INVARIANT InvCovered
CHECK_DEADLOCK FALSE
