SPECIFICATION Spec
CONSTANTS
  NX = 3
  NY = 3
  MAXR = 3
  HISTLEN = 3
  EMIT = TRUE

CHECK_DEADLOCK FALSE
