\* probes outside the input language (quick)
SPECIFICATION Spec
CONSTANTS
  MaxBlocks = 2
  MaxTerms = 2
  MaxNets = 1
  SoftChoices <- SoftQ
  HardChoices <- HardQ
  PlChoices <- PlQ
  Styles <- Probes
  EMIT = TRUE
CHECK_DEADLOCK FALSE
