SPECIFICATION Spec
CONSTANTS
  Vars = {"a", "b"}
  CoefNeg = 2
  CoefPos = 3
  ConstMax = 2
  MulNeg = 2
  MulPos = 3
  CMax = 2
  KMax = 3
  CMax2 = 1
  KMax2 = 1
  EMIT = TRUE
CONSTRAINT InBox
CHECK_DEADLOCK FALSE
