------------------------------ MODULE Spectral ------------------------------
(***************************************************************************)
(* C14 -- Spectral placement keeps every module's disc inside the die.     *)
(*                                                                         *)
(* tools/spectral is a numeric optimiser (Koren's power iteration with     *)
(* node masses).  What the iteration converges to is NOT predicted here;   *)
(* the specification is the CONTRACT of every step, written in the shape   *)
(* of the implementation:                                                  *)
(*                                                                         *)
(*   Spectral.spectral_layout(shape, n)        [tools/spectral/spectral.py] *)
(*     for trial in 1..n:                                                  *)
(*        Seed        random start for the movable nodes, fixed nodes at   *)
(*                    their own place, everything shifted to die-centred   *)
(*                    coordinates           (spectral_layout_die, l.43-51) *)
(*        for dim in x, y:                                                 *)
(*           Normalize   rescale the movable coordinates so that           *)
(*                       |x_i| <= half - radius_i        (normalize, l.100)*)
(*           Step*       (zero or more passes) orthogonalize + centroids   *)
(*                       give SOME vector that                             *)
(*                       keeps the fixed coordinates; it is normalized     *)
(*                       again                           (loop body, l.63) *)
(*           EndDim                                                        *)
(*        EndTrial    keep the trial if its wire length is smaller         *)
(*     Commit         centre := best + die centre; movable hard modules    *)
(*                    are translated so that their centroid is the centre  *)
(*                    (Module.recenter_rectangles); fixed modules, areas   *)
(*                    and nets are not touched                             *)
(*                                                                         *)
(*     Again          (object lifecycle) the same object is placed again   *)
(*                                                                         *)
(* The clauses of C14 are invariants of this machine (InSpan / DiscInDie,  *)
(* FixedUnmoved, HardRigid, AreasNetsUnchanged).  TLC checks them on a     *)
(* small quantised universe, where Step may return ANY vector of a grid    *)
(* (so whatever the power iteration does is covered), and SpectralTrace    *)
(* judges observed runs of the real code with the SAME value-level         *)
(* operators (NormalizeClauses, SeedClauses, TrialClauses, CommitClauses). *)
(* Property clauses: in_span (every normalized vector, every trial),       *)
(* disc_in_die, fixed_unmoved, hard_rigid, areas_nets_unchanged (the       *)
(* committed placement).  Fields named d_... are model conformance only.   *)
(*                                                                         *)
(* Lattice world.  Die = [0, 2*HX] x [0, 2*HY]; coordinates during a trial *)
(* are die-centred (as in the code).  A netlist is the JSON-shaped record  *)
(*   [half, kind, area, rad, rects, p0, edges, trials]                     *)
(* kind[i] in {"soft","hard","fixed"}; rad[i] = radius of the disc of      *)
(* area[i]; rects[i] = <<x1,y1,x2,y2>> tuples (die coordinates) of a hard  *)
(* or fixed module, <<>> for a soft one and for a fixed terminal (a pin:   *)
(* area 0, only a centre); p0[i] = its centre as loaded;                   *)
(* edges = <<weight, <<node, ...>>>> hyper-edges.                          *)
(***************************************************************************)
EXTENDS Geometry, TLC, Json

CONSTANTS HalfSet,       \* set of <<HX, HY>> (half width / height of the die)
          Profiles,      \* set of kind sequences
          AreaProfiles,  \* set of sequences: area of a soft module, template number of a hard / fixed one
          Graphs,        \* set of net topologies (names, see EdgesOf)
          FixSet,        \* set of <<x, y>>: die-centred position of the (first) fixed module
          TrialSet,      \* set of trial counts (nfloorplans >= 1)
          MaxIter,       \* power-iteration steps per dimension explored by TLC (the code: 0..10000)
          G,             \* grid step of the vectors an iteration may produce
          GS,            \* grid step of the random start
          Rounds,        \* placements of the SAME object explored by TLC (1, or 2: the object is placed again)
          TOL,           \* tolerance in lattice units: 0 in the model, quantisation noise in trace validation
          EMIT           \* TRUE: print the netlists of the universe (behaviour generation), explore nothing

VARIABLES pc,      \* "seed" | "norm" | "iter" | "commit" | "done" | "emitted"
          net,     \* the netlist as given (never changes: the reference for the frame conditions)
          trial,   \* current trial 1..net.trials
          dim,     \* current dimension 1 (x) | 2 (y)
          iter,    \* iterations done in this dimension
          pre,     \* the vector handed to the last normalize (history variable: the contract relates pre and coord[dim])
          coord,   \* <<xs, ys>> die-centred coordinates of every node in this trial
          best,    \* [has, wl, coord] best trial so far
          pos,     \* committed centres (die coordinates), <<>> before Commit
          rects,   \* current rectangles of every module
          area, edges  \* current areas and nets
vars == <<pc, net, trial, dim, iter, pre, coord, best, pos, rects, area, edges>>

(***************************************************************************)
(* Netlists                                                                *)
(***************************************************************************)
Sgn(a) == IF a > 0 THEN 1 ELSE IF a < 0 THEN -1 ELSE 0
SumSeq(s) == FoldSeq(LAMBDA v, acc : acc + v, 0, s)
Nodes(nl) == 1..Len(nl.kind)
FixedOf(nl) == { i \in Nodes(nl) : nl.kind[i] = "fixed" }
MovOf(nl) == Nodes(nl) \ FixedOf(nl)            \* soft and hard: the modules spectral has to place
HardMovOf(nl) == { i \in Nodes(nl) : nl.kind[i] = "hard" }
\* how far node i may be from the die centre in dimension d (max_span in the code)
Span(nl, d) == [ i \in Nodes(nl) |-> nl.half[d] - nl.rad[i] ]
\* the quantifier of C14: the disc of every movable module fits in the die
\* (a disc exactly as wide as the die fits: its module has no room to move in that dimension, span 0, and normalize
\* then puts every movable module on the centre line of that dimension)
Fits(nl) == \A i \in MovOf(nl) : \A d \in 1..2 : nl.rad[i] <= nl.half[d]

\* least integer radius whose disc has at least area a (pi ~ 355/113): the lattice stand-in of sqrt(a/pi)
CeilRad(a) == CHOOSE r \in 0..a : 355 * r * r >= 113 * a /\ (r = 0 \/ 355 * (r - 1) * (r - 1) < 113 * a)

\* rectangles of hard / fixed modules: templates around their own centroid (0,0)
Template(k) == CASE k = 1 -> << <<-1, -1, 1, 1>> >>                          \* 2x2 square
                 [] k = 2 -> << <<-2, -1, 0, 1>>, <<0, -1, 2, 1>> >>         \* 4x2 bar of two squares
                 [] k = 4 -> <<>>                                            \* a fixed terminal (pin): no area, no rectangle, only a centre
                 [] OTHER -> << <<-1, -2, 1, 0>>, <<-1, 0, 1, 2>>, <<-1, 2, 1, 4>>, <<-1, -4, 1, -2>> >>  \* 2x8 column
Shift(rs, dx, dy) == [ k \in DOMAIN rs |-> <<rs[k][1] + dx, rs[k][2] + dy, rs[k][3] + dx, rs[k][4] + dy>> ]
RArea(t) == (t[3] - t[1]) * (t[4] - t[2])
RectsArea(rs) == SumSeq([ k \in DOMAIN rs |-> RArea(rs[k]) ])
\* doubled area-weighted centroid (Module.calculate_center_from_rectangles / recenter_rectangles)
Centroid2(rs) == << SumSeq([ k \in DOMAIN rs |-> RArea(rs[k]) * (rs[k][1] + rs[k][3]) ]) \div RectsArea(rs),
                    SumSeq([ k \in DOMAIN rs |-> RArea(rs[k]) * (rs[k][2] + rs[k][4]) ]) \div RectsArea(rs) >>
CentroidExact(rs) == /\ SumSeq([ k \in DOMAIN rs |-> RArea(rs[k]) * (rs[k][1] + rs[k][3]) ]) % (2 * RectsArea(rs)) = 0
                     /\ SumSeq([ k \in DOMAIN rs |-> RArea(rs[k]) * (rs[k][2] + rs[k][4]) ]) % (2 * RectsArea(rs)) = 0
Centroid(rs) == << Centroid2(rs)[1] \div 2, Centroid2(rs)[2] \div 2 >>

\* net topologies on nodes 1..n; every one is connected and touches every node (the quantifier)
PathE(n) == [ i \in 1..(n - 1) |-> <<1, <<i, i + 1>>>> ]
EdgesOf(g, n) ==
  CASE g = "path"   -> PathE(n)
    [] g = "wpath"  -> [ i \in 1..(n - 1) |-> <<i, <<i, i + 1>>>> ]                \* weights 1, 2, 3, ...
    [] g = "cycle"  -> Append(PathE(n), <<1, <<n, 1>>>>)
    [] g = "star"   -> [ i \in 1..(n - 1) |-> <<1, <<1, i + 1>>>> ]                \* hub = first node
    [] g = "starL"  -> [ i \in 1..(n - 1) |-> <<1, <<n, i>>>> ]                    \* hub = last node (fixed in most profiles)
    [] g = "clique" -> SetToSeq({ <<1, <<q[1], q[2]>>>> : q \in { qq \in (1..n) \X (1..n) : qq[1] < qq[2] } })
    [] g = "hyper"  -> << <<2, [ i \in 1..3 |-> i ]>>, <<1, [ i \in 1..(n - 2) |-> i + 2 ]>> >>  \* two hyper-edges sharing node 3
    [] OTHER        -> << <<3, [ i \in 1..n |-> i ]>> >>                           \* "bus": one hyper-edge with every node

MkNet(h, p, a, g, f, t) ==
  LET n == Len(p)
      fixedIdx == { i \in 1..n : p[i] = "fixed" }
      first == IF fixedIdx = {} THEN 0 ELSE Min(fixedIdx)
      \* the first fixed module sits at f (die-centred), any further one at the mirrored place; movable hard
      \* modules are loaded somewhere (here: one unit right of the die centre) -- spectral must not care
      place(i) == IF p[i] = "fixed" THEN (IF i = first THEN <<h[1] + f[1], h[2] + f[2]>> ELSE <<h[1] - f[1], h[2] - f[2]>>)
                  ELSE <<h[1] + 1, h[2]>>
      \* "softr" = a soft module that carries a rectangle (a 2x2 square found by an earlier stage) covering only a part
      \* of its declared area: the disc that must stay in the die is that of the AREA
      soft(i) == p[i] \in {"soft", "softr"}
      rs == [ i \in 1..n |-> IF p[i] = "soft" THEN <<>> ELSE IF p[i] = "softr" THEN Shift(Template(1), place(i)[1], place(i)[2])
                               ELSE Shift(Template(a[i]), place(i)[1], place(i)[2]) ]
      ar == [ i \in 1..n |-> IF soft(i) THEN a[i] ELSE RectsArea(rs[i]) ]
  IN [ half |-> h, kind |-> [ i \in 1..n |-> IF soft(i) THEN "soft" ELSE p[i] ], area |-> ar,
       rad |-> [ i \in 1..n |-> CeilRad(ar[i]) ], rects |-> rs,
       p0 |-> [ i \in 1..n |-> IF soft(i) THEN <<0, 0>> ELSE place(i) ],
       edges |-> EdgesOf(g, n), trials |-> t, round |-> 1 ]

\* EMIT: the radii of the lattice model are rounded up, the real ones (computed by the harness from the
\* areas) are smaller, so the generation universe is filtered by the harness, not by Fits
Shapes == { q \in Profiles \X AreaProfiles : Len(q[1]) = Len(q[2]) }
\* FRAME's reader only accepts rectangles whose centre has non-negative coordinates
Loadable(nl) == \A i \in Nodes(nl) : \A k \in DOMAIN nl.rects[i] :
                   nl.rects[i][k][1] + nl.rects[i][k][3] >= 0 /\ nl.rects[i][k][2] + nl.rects[i][k][4] >= 0
Universe == { nl \in { MkNet(h, q[1], q[2], g, f, t) : h \in HalfSet, q \in Shapes, g \in Graphs, f \in FixSet, t \in TrialSet } :
              Loadable(nl) /\ (EMIT \/ Fits(nl)) }

(***************************************************************************)
(* Value-level operators = the contracts.  Used by the actions below and,  *)
(* on observed values, by SpectralTrace.  Each returns a record of         *)
(* booleans: property clauses first, model-conformance ("d_") after.       *)
(***************************************************************************)
\* normalize(x, max_span, is_fixed): the concrete rule on the lattice -- one common positive scale, the
\* largest that keeps every movable node whose coordinate is not (numerically) zero inside its span
NormCand(x, fx) == { i \in DOMAIN x : i \notin fx /\ x[i] # 0 }
Normalizable(x, fx) == NormCand(x, fx) # {}          \* otherwise min() of an empty sequence: the code raises
NormalizeResult(x, sp, fx) ==
  LET C == NormCand(x, fx)
      j == CHOOSE j \in C : \A k \in C : sp[j] * Abs(x[k]) <= sp[k] * Abs(x[j])     \* scale = sp[j] / |x[j]| is minimal
  IN [ i \in DOMAIN x |-> IF i \in fx THEN x[i] ELSE Sgn(x[i]) * ((Abs(x[i]) * sp[j]) \div Abs(x[j])) ]

InSpan(y, sp, fx, tol) == \A i \in DOMAIN y : i \notin fx => Abs(y[i]) <= sp[i] + tol
\* Property clause: in_span.  Every vector normalize leaves behind is a would-be result: the loop ends when the
\* (scale-free) dot product is within max(size)*n*1e-10 of 1, so for the same netlist on a proportionally larger die
\* it ends after this very pass and this vector (scaled) is what spectral_layout_die returns.
\* Conformance ("d_"): the fixed coordinates are not touched (they never reach the output: the centre of a fixed
\* module is dropped at the end), one positive scale (signs and order kept), as large as the spans allow.
NormalizeClauses(x, y, sp, fx, tol) ==
  [ in_span       |-> InSpan(y, sp, fx, tol),
    d_fixed_kept  |-> \A i \in DOMAIN x : i \in fx => y[i] = x[i],
    d_sign        |-> \A i \in DOMAIN x : i \notin fx => (x[i] > 0 => y[i] >= 0) /\ (x[i] < 0 => y[i] <= 0),
    d_monotone    |-> \A i \in DOMAIN x : \A j \in DOMAIN x : (i \notin fx /\ j \notin fx /\ x[i] < x[j]) => y[i] <= y[j],
    d_tight       |-> \E i \in DOMAIN x : i \notin fx /\ Abs(y[i]) >= sp[i] - tol ]

\* where a fixed node is during a trial: its own centre, die-centred
FixedAt(nl, i, d) == nl.p0[i][d] - nl.half[d]
FixedKept(nl, c, tol) == \A i \in FixedOf(nl) : \A d \in 1..2 : Abs(c[d][i] - FixedAt(nl, i, d)) <= tol
SeedClauses(nl, c, tol) ==
  [ d_fixed_kept  |-> FixedKept(nl, c, tol),
    \* random.uniform(0, 2*span) - half
    d_seed_range  |-> \A i \in MovOf(nl) : \A d \in 1..2 :
                         -nl.half[d] - tol <= c[d][i] /\ c[d][i] <= nl.half[d] - 2 * nl.rad[i] + tol ]

\* what spectral_layout_die returns: any trial may be the one that is committed
TrialClauses(nl, c, tol) ==
  [ in_span       |-> \A d \in 1..2 : InSpan(c[d], Span(nl, d), FixedOf(nl), tol),
    d_fixed_kept  |-> FixedKept(nl, c, tol) ]

\* Manhattan wire length of the clique model (weight 2w/|e| per pair) times 30, which keeps it integral for
\* hyper-edges of up to 6 pins; the machine only compares wire lengths, so the common factor is irrelevant
Pairs(e) == { q \in (DOMAIN e) \X (DOMAIN e) : q[1] < q[2] }
WL(nl, c) == SumSeq([ k \in DOMAIN nl.edges |->
                 LET w == nl.edges[k][1]  e == nl.edges[k][2] IN
                 (w * (60 \div Len(e))) *
                 FoldSet(LAMBDA q, acc : acc + Abs(c[1][e[q[1]]] - c[1][e[q[2]]]) + Abs(c[2][e[q[1]]] - c[2][e[q[2]]]), 0, Pairs(e)) ])

\* the committed placement
DiscInDie(p, r, half, tol) == /\ p[1] - r >= -tol /\ p[1] + r <= 2 * half[1] + tol
                              /\ p[2] - r >= -tol /\ p[2] + r <= 2 * half[2] + tol
\* same rectangles up to ONE common translation (no mirroring, no reshaping)
Rigid(rs0, rs1, tol) ==
  /\ Len(rs0) = Len(rs1)
  /\ \A k \in DOMAIN rs0 :
       /\ Abs((rs1[k][3] - rs1[k][1]) - (rs0[k][3] - rs0[k][1])) <= tol
       /\ Abs((rs1[k][4] - rs1[k][2]) - (rs0[k][4] - rs0[k][2])) <= tol
       /\ Abs((rs1[k][1] - rs0[k][1]) - (rs1[1][1] - rs0[1][1])) <= tol
       /\ Abs((rs1[k][2] - rs0[k][2]) - (rs1[1][2] - rs0[1][2])) <= tol
CommitClauses(nl, p, rs, ar, ed, b, tol) ==
  [ disc_in_die   |-> \A i \in MovOf(nl) : DiscInDie(p[i], nl.rad[i], nl.half, tol),
    fixed_unmoved |-> \A i \in FixedOf(nl) : rs[i] = nl.rects[i] /\ Abs(p[i][1] - nl.p0[i][1]) <= tol /\ Abs(p[i][2] - nl.p0[i][2]) <= tol,
    hard_rigid    |-> \A i \in HardMovOf(nl) : Rigid(nl.rects[i], rs[i], tol),
    areas_nets_unchanged |-> ar = nl.area /\ ed = nl.edges,
    \* conformance: rectangles a soft module may carry are not touched; the committed centre is the best trial
    \* shifted by the die centre
    d_soft_rects_kept |-> \A i \in Nodes(nl) : nl.kind[i] = "soft" => rs[i] = nl.rects[i],
    d_commit_is_best |-> b.has => \A i \in Nodes(nl) : \A d \in 1..2 : Abs(p[i][d] - (b.coord[d][i] + nl.half[d])) <= tol ]

AllTrue(cl) == \A k \in DOMAIN cl : cl[k]

(***************************************************************************)
(* The machine                                                             *)
(***************************************************************************)
NoBest == [ has |-> FALSE, wl |-> 0, coord |-> <<>> ]
Init == /\ net \in Universe
        /\ pc = "seed" /\ trial = 1 /\ dim = 1 /\ iter = 0 /\ pre = <<>> /\ coord = <<>>
        /\ best = NoBest /\ pos = <<>>
        /\ rects = net.rects /\ area = net.area /\ edges = net.edges

\* all vectors v over the nodes with v[i] \in R[i]
RECURSIVE Prod(_, _)
Prod(R, n) == IF n = 0 THEN {<<>>} ELSE { Append(s, v) : s \in Prod(R, n - 1), v \in R[n] }
OnGrid(lo, hi, g) == { v \in lo..hi : v % g = 0 }
MaxSpan(nl, d) == Max({ Span(nl, d)[i] : i \in MovOf(nl) })

\* random.uniform(0, 2*span) - half for the movable nodes; the fixed ones at their place
SeedVecs(nl, d) == Prod([ i \in Nodes(nl) |-> IF i \in FixedOf(nl) THEN {FixedAt(nl, i, d)}
                                              ELSE OnGrid(-nl.half[d], nl.half[d] - 2 * nl.rad[i], GS) ], Len(nl.kind))
Seed == /\ ~EMIT /\ pc = "seed"
        /\ \E xs \in SeedVecs(net, 1), ys \in SeedVecs(net, 2) : coord' = <<xs, ys>>
        /\ pc' = "norm" /\ dim' = 1 /\ iter' = 0 /\ pre' = <<>>
        /\ UNCHANGED <<net, trial, best, pos, rects, area, edges>>

NormalizeTo(x) == /\ Normalizable(x, FixedOf(net))
                  /\ pre' = x
                  /\ coord' = [coord EXCEPT ![dim] = NormalizeResult(x, Span(net, dim), FixedOf(net))]
Normalize == /\ ~EMIT /\ pc = "norm" /\ NormalizeTo(coord[dim]) /\ pc' = "iter"
             /\ UNCHANGED <<net, trial, dim, iter, best, pos, rects, area, edges>>

\* one pass of the loop body: orthogonalize + calculate_centroids produce SOME vector (centroids of in-span
\* coordinates: within the largest span) that keeps the fixed coordinates; it is normalized
IterVecs(nl, d, c) == Prod([ i \in Nodes(nl) |-> IF i \in FixedOf(nl) THEN {c[i]} ELSE OnGrid(-MaxSpan(nl, d), MaxSpan(nl, d), G) ],
                           Len(nl.kind))
Step == /\ pc = "iter" /\ iter < MaxIter
        /\ \E y \in IterVecs(net, dim, coord[dim]) : NormalizeTo(y)
        /\ iter' = iter + 1
        /\ UNCHANGED <<pc, net, trial, dim, best, pos, rects, area, edges>>

\* the loop ends: converged, or 10000 iterations -- or no pass at all: the convergence tolerance of the code is
\* max(size) * n * 1e-10, ABSOLUTE, so for a die of side >= 1e10 / n the loop condition is false from the start
\* and the normalized random start is returned (observed with the 1e9-sided die of the `big` scale)
EndDim == /\ pc = "iter" /\ dim = 1
          /\ dim' = 2 /\ iter' = 0 /\ pc' = "norm"
          /\ UNCHANGED <<net, trial, pre, coord, best, pos, rects, area, edges>>

TrialDone == pc = "iter" /\ dim = 2
Better == ~best.has \/ WL(net, coord) < best.wl
NextTrial == /\ IF trial < net.trials THEN trial' = trial + 1 /\ pc' = "seed" ELSE trial' = trial /\ pc' = "commit"
             /\ UNCHANGED <<net, dim, iter, pre, coord, pos, rects, area, edges>>
EndTrialImprove == TrialDone /\ Better /\ best' = [ has |-> TRUE, wl |-> WL(net, coord), coord |-> coord ] /\ NextTrial
EndTrialKeep == TrialDone /\ ~Better /\ best' = best /\ NextTrial

\* m.center = best + die centre; recenter_rectangles for movable hard modules
CommitPos(nl, b) == [ i \in Nodes(nl) |-> <<b.coord[1][i] + nl.half[1], b.coord[2][i] + nl.half[2]>> ]
Recentred(rs, p) == Shift(rs, p[1] - Centroid(rs)[1], p[2] - Centroid(rs)[2])
Commit == /\ pc = "commit"
          /\ pos' = CommitPos(net, best)
          /\ rects' = [ i \in Nodes(net) |-> IF i \in HardMovOf(net) THEN Recentred(rects[i], pos'[i]) ELSE rects[i] ]
          /\ pc' = "done"
          /\ UNCHANGED <<net, trial, dim, iter, pre, coord, best, area, edges>>

\* object lifecycle: the SAME Spectral object is placed again, on the same die or on the die with width and height
\* exchanged.  The reference of the new placement is the object as the previous one left it (the hard modules where they
\* were put); nothing else is carried over -- in particular the fixed modules are read from their own place again, not
\* from the die-centred coordinates of the previous placement.
Again == /\ ~EMIT /\ pc = "done" /\ net.round < Rounds
         /\ \E hf \in { net.half, <<net.half[2], net.half[1]>> } :
               net' = [net EXCEPT !.round = @ + 1, !.half = hf, !.rects = rects,
                                  !.p0 = [ i \in Nodes(net) |-> IF i \in HardMovOf(net) THEN pos[i] ELSE @[i] ]]
         /\ pc' = "seed" /\ trial' = 1 /\ dim' = 1 /\ iter' = 0 /\ pre' = <<>> /\ coord' = <<>> /\ best' = NoBest /\ pos' = <<>>
         /\ UNCHANGED <<rects, area, edges>>

\* behaviour generation: one line per netlist of the universe
EmitCase == /\ EMIT /\ pc = "seed" /\ coord = <<>>
            /\ PrintT(ToJson(net))
            /\ pc' = "emitted"
            /\ UNCHANGED <<net, trial, dim, iter, pre, coord, best, pos, rects, area, edges>>

\* (Seed and Normalize carry ~EMIT; everything else is reachable only through them)
Next == EmitCase \/ Seed \/ Normalize \/ Step \/ EndDim \/ EndTrialImprove \/ EndTrialKeep \/ Commit \/ Again
Spec == Init /\ [][Next]_vars

(***************************************************************************)
(* Invariants = the clauses of C14 (and the conformance of the concrete    *)
(* normalize rule to its contract)                                         *)
(***************************************************************************)
\* the templates are placed on the lattice (their centroid is a lattice point)
TemplatesOnLattice == \A i \in Nodes(net) : (net.rects[i] # <<>> /\ net.kind[i] # "soft") => CentroidExact(net.rects[i]) /\ Centroid(net.rects[i]) = net.p0[i]
\* every normalize call meets its contract (the min-ratio rule keeps every movable node in its span)
NormalizeMeetsContract == pc = "iter" => AllTrue(NormalizeClauses(pre, coord[dim], Span(net, dim), FixedOf(net), TOL))
\* dimensions already normalized are inside the span: at any moment the trial could be returned
Normalized(d) == d < dim \/ (d = dim /\ pc = "iter")
InSpanInv == pc \in {"norm", "iter"} => \A d \in 1..2 : Normalized(d) => InSpan(coord[d], Span(net, d), FixedOf(net), TOL)
SeedInv == pc \in {"norm", "iter"} => SeedClauses(net, coord, TOL).d_fixed_kept
TrialInv == TrialDone => AllTrue(TrialClauses(net, coord, TOL))
BestInv == best.has => AllTrue(TrialClauses(net, best.coord, TOL))
\* the frame conditions hold at every moment, not only at the end
AreasNetsUnchanged == area = net.area /\ edges = net.edges
FixedRectsUntouched == \A i \in FixedOf(net) : rects[i] = net.rects[i]
\* the committed placement: every clause of the property
CommitInv == pc = "done" => AllTrue(CommitClauses(net, pos, rects, area, edges, best, TOL))
\* ... and the movable hard modules are where their disc is: the centroid of the translated rectangles is the centre
HardCentroid == pc = "done" => \A i \in HardMovOf(net) : CentroidExact(rects[i]) /\ Centroid(rects[i]) = pos[i]
=============================================================================
