SPECIFICATION Spec
CONSTANTS
  N = 4
  K = 24
  EMIT = FALSE
INVARIANT LawSymmetric
INVARIANT LawIntersection
INVARIANT LawInterExists
INVARIANT LawInsideArea
INVARIANT LawTouch
INVARIANT LawModelMeetsProperty
INVARIANT LawSplitTiles
INVARIANT LawCuttable
CHECK_DEADLOCK FALSE
