----------------------------- MODULE DieTrace -----------------------------
(***************************************************************************)
(* C01 / C11, code -> spec: batch validation of observed Die behaviours.   *)
(*                                                                         *)
(* A trace is what one real process did with one description:              *)
(*   event 1  Load        Die(description, netlist) -> accept / reject,    *)
(*                        and for an accepted die the four reported lists  *)
(*   event k  Split/Grid  split_refinable_regions(r, n) / initial_grid     *)
(*                        with the lists observed afterwards               *)
(* All coordinates are integers (metric micro-units after pull-back).      *)
(* The abstract action Decompose accepts ANY exact cover (the statement    *)
(* does not prescribe the greedy strategy); Split/Grid accept any result   *)
(* meeting the post-condition.  Verdicts are total.                        *)
(***************************************************************************)
EXTENDS DieOps, TLC, Json, IOUtils

Batch == JsonDeserialize(IOEnv.TRACE_FILE)

VARIABLES tid, l,
          die,      \* the die rectangle
          desc,     \* the description (set of tagged rectangles)
          st,       \* abstract state of the Die object: "none" | "rejected" | "accepted"
          refinable, blocked, fixedr,   \* current region lists of the object (sets of tagged rectangles)
          fails, drift
tvars == <<tid, l, die, desc, st, refinable, blocked, fixedr, fails, drift>>

T == Batch[tid]
SeqToSet(s) == { s[k] : k \in DOMAIN s }
Tagged(S, tag) == { t \in S : t[5] = tag }
Bad(cl) == { k \in DOMAIN cl : ~cl[k] }

TraceInit == /\ tid \in 1..Len(Batch) /\ l = 1
             /\ die = Rect(0, 0, Batch[tid].dw, Batch[tid].dh)
             /\ desc = SeqToSet(Batch[tid].regs)
             /\ st = "none" /\ refinable = {} /\ blocked = {} /\ fixedr = {}
             /\ fails = {} /\ drift = {}

(***************************************************************************)
(* Load: the accept/reject verdict and, when accepted, the decomposition.  *)
(***************************************************************************)
LoadClauses(e) ==
  LET acc == e.verdict = "accept"
      all == SeqToSet(e.ground) \cup SeqToSet(e.spec) \cup SeqToSet(e.block) \cup SeqToSet(e.fixed)
      n == Len(e.ground) + Len(e.spec) + Len(e.block) + Len(e.fixed)
  IN [ accept_iff_valid |-> (acc <=> ValidIn(desc, die)),
       \* the remaining clauses speak about accepted dies only
       inside |-> (acc => \A t \in all : IsRect(TRect(t)) /\ Inside(TRect(t), die)),
       disjoint |-> (acc => Cardinality(all) = n /\ PairwiseDisjoint({ TRect(t) : t \in all })
                            /\ Cardinality({ TRect(t) : t \in all }) = n),
       area_sum |-> (acc => SumArea({ TRect(t) : t \in all }) = Area(die)),
       inputs_kept |-> (acc => /\ SeqToSet(e.block) = Tagged(desc, "#") /\ Len(e.block) = Cardinality(Tagged(desc, "#"))
                               /\ SeqToSet(e.fixed) = Tagged(desc, "F") /\ Len(e.fixed) = Cardinality(Tagged(desc, "F"))
                               /\ SeqToSet(e.spec) = desc \ (Tagged(desc, "#") \cup Tagged(desc, "F"))
                               /\ Len(e.spec) = Cardinality(desc \ (Tagged(desc, "#") \cup Tagged(desc, "F")))),
       ground_tag |-> (acc => \A t \in SeqToSet(e.ground) : t[5] = "_") ]

Load(e) == /\ st = "none"
           /\ st' = IF e.verdict = "accept" THEN "accepted" ELSE "rejected"
           /\ refinable' = IF e.verdict = "accept" THEN SeqToSet(e.ground) \cup SeqToSet(e.spec) ELSE {}
           /\ blocked' = IF e.verdict = "accept" THEN SeqToSet(e.block) ELSE {}
           /\ fixedr' = IF e.verdict = "accept" THEN SeqToSet(e.fixed) ELSE {}
           /\ fails' = fails \cup { <<l, k>> : k \in Bad(LoadClauses(e)) }
           /\ drift' = drift

(***************************************************************************)
(* Split / Grid (C11): any result meeting the post-condition is accepted.  *)
(***************************************************************************)
SplitClauses(e) ==
  LET after == SeqToSet(e.refinable) IN
  [ returns |-> e.ok = 1,
    count |-> (e.ok = 1 => Cardinality(after) >= e.n /\ Len(e.refinable) = Cardinality(after)),
    aspect_ratio |-> (e.ok = 1 => \A u \in after : IsRect(TRect(u)) /\ ARLeq(TRect(u), e.p, e.q)),
    parent_and_tag |-> (e.ok = 1 => \A u \in after :
                          Cardinality({ t \in refinable : Inside(TRect(u), TRect(t)) /\ t[5] = u[5] }) >= 1),
    tiles_parent |-> (e.ok = 1 => \A t \in refinable :
                          Tiles({ TRect(u) : u \in { v \in after : Inside(TRect(v), TRect(t)) /\ v[5] = t[5] } }, TRect(t))),
    disjoint |-> (e.ok = 1 => PairwiseDisjoint({ TRect(u) : u \in after })
                              /\ Cardinality({ TRect(u) : u \in after }) = Cardinality(after)),
    others_untouched |-> (e.ok = 1 => SeqToSet(e.block) = blocked /\ SeqToSet(e.fixed) = fixedr
                              /\ Len(e.block) = Cardinality(blocked) /\ Len(e.fixed) = Cardinality(fixedr)) ]

GridClauses(e) ==
  LET after == SeqToSet(e.refinable) IN
  [ returns |-> e.ok = 1,
    count |-> (e.ok = 1 => Cardinality(after) = e.nr * e.nc /\ Len(e.refinable) = e.nr * e.nc),
    grid_tiles |-> (e.ok = 1 => /\ Tiles({ TRect(u) : u \in after }, die)
                                /\ \A u \in after : u[5] = "_"
                                /\ { TRect(u) : u \in after } = GridSet(die, e.nr, e.nc)),
    others_untouched |-> (e.ok = 1 => e.block = <<>> /\ e.fixed = <<>>) ]

\* A request outside the quantifier (limit <= sqrt 2, n <= 0) that the code refuses.  Nothing is judged on it; the die is
\* still a die, so the NEXT admissible request is judged against the regions it had before (a refused request that
\* leaves the object half-modified shows there; the change itself is reported as drift).  If the code serves the request
\* instead of refusing it, the regions observed afterwards become the current ones.
Refused(e) == /\ st = "accepted"
              /\ fails' = fails
              /\ drift' = IF e.raised = 1 /\ SeqToSet(e.refinable) # refinable
                          THEN drift \cup {<<l, "refused_request_changed_the_die">>} ELSE drift
              /\ refinable' = IF e.raised = 1 THEN refinable ELSE SeqToSet(e.refinable)
              /\ UNCHANGED <<st, blocked, fixedr>>

Refine(e) == /\ st = "accepted"
             /\ LET cl == IF e.op = "split" THEN SplitClauses(e) ELSE GridClauses(e) IN
                  fails' = fails \cup { <<l, k>> : k \in Bad(cl) }
             \* model conformance: is the result one the modelled algorithm can produce?
             /\ drift' = IF e.ok = 1 /\ e.op = "split" /\ e.check_model = 1
                            /\ SeqToSet(e.refinable) \notin SplitResults(refinable, e.p, e.q, e.n)
                         THEN drift \cup {<<l, "split_not_model_result">>} ELSE drift
             /\ refinable' = IF e.ok = 1 THEN SeqToSet(e.refinable) ELSE refinable
             /\ UNCHANGED <<st, blocked, fixedr>>

Step == /\ l <= Len(T.events)
        /\ LET e == T.events[l] IN
             IF e.op = "load" THEN Load(e)
             ELSE IF st = "accepted" /\ e.op = "refused" THEN Refused(e)
             ELSE IF st = "accepted" THEN Refine(e)
             ELSE /\ fails' = fails \cup {<<l, "refine_on_rejected_die">>}
                  /\ UNCHANGED <<st, refinable, blocked, fixedr, drift>>
        /\ l' = l + 1 /\ UNCHANGED <<tid, die, desc>>

Done == /\ l = Len(T.events) + 1 /\ l' = l + 1
        /\ PrintT(ToJson([tag |-> "VERDICT", id |-> T.id, fails |-> fails, drift |-> drift]))
        /\ UNCHANGED <<tid, die, desc, st, refinable, blocked, fixedr, fails, drift>>

TraceNext == Step \/ Done
TraceSpec == TraceInit /\ [][TraceNext]_tvars
=============================================================================
