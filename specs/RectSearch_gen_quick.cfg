\* behaviour generation: one case per (grid, k) and per (grid, occupancy, k)
SPECIFICATION Spec
CONSTANTS
  GRIDS <- QuickGrids
  SGRIDS <- QuickSolveGrids
  AGRIDS <- QuickGenAllocGrids
  KMAX = 3
  DEN = 2
  OCCVALS = {0, 1, 2}
  FNUM = 100
  FDEN = 1
  RATIO = 2
  MODES = {"gen", "solve", "alloc"}
  BORDER = "grid"
  UNIT = 1
  EMIT = TRUE
CHECK_DEADLOCK FALSE
