\* trace validation: the universe constants are unused (the netlist comes from the trace); TOL = 2 micro-units
SPECIFICATION TraceSpec
CONSTANTS
  HalfSet = {}
  Profiles = {}
  AreaProfiles = {}
  Graphs = {}
  FixSet = {}
  TrialSet = {}
  MaxIter = 1
  GS = 2
  G = 1
  Rounds = 1
  TOL = 2
  EMIT = FALSE
CHECK_DEADLOCK FALSE
