\* USCS design-level check (thorough): <= 2 blocks (4 soft shapes incl. one FPEF cannot express, 2 quads), <= 2 terminals, <= 2 nets, 2 placement points, 4 styles
SPECIFICATION Spec
CONSTANTS
  MaxBlocks = 2
  MaxTerms = 2
  MaxNets = 2
  SoftChoices <- SoftT
  HardChoices <- HardT
  PlChoices <- PlT
  Styles <- InLanguage
  EMIT = FALSE
INVARIANT RoundTrip
INVARIANT RoundTripByClause
INVARIANT AllConsumed
INVARIANT AcceptedIff
INVARIANT HardIsItsQuad
CHECK_DEADLOCK FALSE
