\* NEGATIVE run: the loop as coded today (second end point gets y2 = x): TLC must report an invariant violated
SPECIFICATION Spec
CONSTANTS
  N = 5
  WINDOWS <- QuickWindows
  DEFECTS = {"y2x"}
  EMIT = FALSE
INVARIANT TypeOK
INVARIANT MachineIsFunction
INVARIANT ClipIsIntersection
INVARIANT RejectedIffMisses
INVARIANT OrderIndependent
INVARIANT Within4
INVARIANT StaysOnLine
CHECK_DEADLOCK FALSE
