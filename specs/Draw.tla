-------------------------------- MODULE Draw --------------------------------
(***************************************************************************)
(* DRAW -- tools/draw/draw.py draws a floorplan as the documentation says. *)
(*                                                                         *)
(* Every clause is derived from a docstring, an option help or the README  *)
(* of the tool (quoted at the operator that states it):                    *)
(*                                                                         *)
(*   CalcScaling   calculate_scaling(original, width, height, frame,       *)
(*                 default): "desired width / height (0 if aspect ratio    *)
(*                 must be preserved)", "If both width and height are zero *)
(*                 then the scaling preserves the aspect ratio and the max *)
(*                 dimension is 1000 [default]", "frame: size of the frame *)
(*                 around the canvas"; Scaling = (xscale, yscale, width,   *)
(*                 height, frame) "width / height of the picture (in       *)
(*                 pixels), without frame"                                 *)
(*   ScalePoint    scale(p, s): "Scales a point according to the scaling   *)
(*                 factors ... the new point (with integer values)": affine*)
(*                 up to rounding, y flipped (image rows grow downwards)   *)
(*   BBoxOf        calculate_bbox: "the bounding box of the netlist using  *)
(*                 the rectangles ... The ll corner of the bounding box is *)
(*                 assumed to be (0,0)"; README: "If no rectangles are     *)
(*                 specified, the module is drawn as a circle"             *)
(*   Drawable      check_modules: "all modules are drawable, i.e., we      *)
(*                 either have a list of rectangles or a center and an     *)
(*                 area" (a terminal needs no area)                        *)
(*   PinPoints     calculate_centers: "a list of points to be connected    *)
(*                 from a hyperedge. The first point acts as the center of *)
(*                 the star"; with an allocation the point of a module is  *)
(*                 Allocation.center = the centroid of its cells weighted  *)
(*                 by ratio * cell area                                    *)
(*   OutName       gen_out_filename: "substituting the extension by the    *)
(*                 suffix. If the name has no extension, the suffix is     *)
(*                 added at the end of the name"                           *)
(*   Drawn         get_floorplan_plot: outer frame, inner frame, the cells *)
(*                 of the allocation or the rectangles / circles of the    *)
(*                 modules, the star of every net (a hub circle of radius  *)
(*                 8 pixels for nets of three pins or more); the image is  *)
(*                 (width + 2 frame) x (height + 2 frame) pixels           *)
(*                                                                         *)
(* The machine picks a canvas (die shape, requested width / height, frame),*)
(* builds a small design from a catalogue (AddModule, AddNet, or a whole   *)
(* allocation scene), and Plot computes the list of pixel boxes; PickName  *)
(* / Rename enumerate file names.  The lemmas (fit, aspect, corner images, *)
(* inside, monotone, affine, box, star) are invariants; DrawTrace judges   *)
(* observations of the real functions with the same operators.             *)
(*                                                                         *)
(* Numbers: the lattice is integral (die sides, centres, radii, corners);  *)
(* derived quantities are rationals <<num, den>> with den > 0.  Round is   *)
(* Python's round(): to nearest, ties to the even integer.  Largest        *)
(* intermediate value: coordinate * pixels * denominators < 10^7.          *)
(***************************************************************************)
EXTENDS Integers, Sequences, FiniteSets, FiniteSetsExt, SequencesExt, TLC, Json

CONSTANTS Dies,        \* set of <<ow, oh>> die shapes
          Widths, Heights, Frames,   \* requested picture width / height (0 = derive), frame thickness
          Default,     \* the "default" argument (1000 in the code)
          ModuleCat,   \* sequence of catalogue entries (names, see CatModule: the module depends on the die)
          MaxMods, MaxNets,
          Scenes,      \* set of allocation scenes [mods, nets, cells]
          NameAlphabet, MaxName,     \* file names are sequences of one-character strings
          EMIT

VARIABLES pc,      \* "pick" | "canvas" | "plotted" | "named" | "emitted"
          die, req, sc, design, plot, fname
vars == <<pc, die, req, sc, design, plot, fname>>

(***************************************************************************)
(* Rationals and rounding                                                  *)
(***************************************************************************)
Abs(a) == IF a >= 0 THEN a ELSE -a
RLe(a, b) == a[1] * b[2] <= b[1] * a[2]
RMulI(a, k) == <<a[1] * k, a[2]>>
RECURSIVE GCD(_, _)
GCD(a, b) == IF b = 0 THEN a ELSE GCD(b, a % b)
\* lowest terms (keeps the numbers small: TLC integers are 32-bit)
Norm(a) == LET g == GCD(Abs(a[1]), a[2]) IN IF g = 0 THEN a ELSE <<a[1] \div g, a[2] \div g>>
RAdd(a, b) == LET g == GCD(a[2], b[2]) IN Norm(<<a[1] * (b[2] \div g) + b[1] * (a[2] \div g), (a[2] \div g) * b[2]>>)
RI(k) == <<k, 1>>
\* Python round(): nearest integer, ties to even
Round(a) == LET q == a[1] \div a[2]  r == a[1] - q * a[2] IN
            IF 2 * r < a[2] THEN q ELSE IF 2 * r > a[2] THEN q + 1 ELSE IF q % 2 = 0 THEN q ELSE q + 1
\* |k - a| <= 1/2: k is a correct rounding of a (either neighbour on a tie: float arithmetic may fall on either side)
\* (written without multiplying k by the denominator: TLC integers are 32-bit)
IsRounding(k, a) == LET q == a[1] \div a[2]  r == a[1] - q * a[2] IN
                    (k = q /\ 2 * r <= a[2]) \/ (k = q + 1 /\ 2 * r >= a[2])

(***************************************************************************)
(* calculate_scaling and scale                                             *)
(***************************************************************************)
Scaling(d, w, h, f) == [ xs |-> <<w, d[1]>>, ys |-> <<h, d[2]>>, width |-> w, height |-> h, frame |-> f ]
CalcScaling(d, w, h, f, def) ==
  IF w # 0 /\ h # 0 THEN Scaling(d, w, h, f)            \* "Scale independently without preserving aspect ratio"
  ELSE LET w1 == IF w = 0 /\ h = 0 /\ d[1] > d[2] THEN def ELSE w          \* default to the larger side
           h1 == IF w = 0 /\ h = 0 /\ ~(d[1] > d[2]) THEN def ELSE h
           h2 == IF h1 = 0 THEN Round(<<d[2] * w1, d[1]>>) ELSE h1           \* the missing dimension keeps the aspect ratio
           w2 == IF w1 = 0 THEN Round(<<d[1] * h2, d[2]>>) ELSE w1
       IN Scaling(d, w2, h2, f)
\* a point <<x, y>> with rational coordinates -> pixel <<column, row>>
ScalePoint(p, s) == << Round(Norm(<<p[1][1] * s.xs[1], p[1][2] * s.xs[2]>>)) + s.frame,
                       s.height + s.frame - Round(Norm(<<p[2][1] * s.ys[1], p[2][2] * s.ys[2]>>)) >>
\* the exact (unrounded) image, for the "affine up to rounding" statements
ExactX(px, s) == RAdd(Norm(<<px[1] * s.xs[1], px[2] * s.xs[2]>>), RI(s.frame))
ExactY(py, s) == RAdd(Norm(<<-(py[1] * s.ys[1]), py[2] * s.ys[2]>>), RI(s.height + s.frame))
ImageSize(s) == << s.width + 2 * s.frame, s.height + 2 * s.frame >>
IP(x, y) == << RI(x), RI(y) >>

(***************************************************************************)
(* Designs: modules <<name, kind, cx, cy, r, rects>> with kind "circle"    *)
(* (soft: centre and area pi r^2), "rects", "terminal" (centre, no area),  *)
(* "nocentre" (soft without centre: not drawable), nets = sequences of     *)
(* module indices, cells = <<x1, y1, x2, y2, ratios>> with ratios[m] a     *)
(* rational                                                                *)
(***************************************************************************)
HasRects(m) == m[6] # <<>>
\* the catalogue: where a module is depends on the die d (centre, border, corner, outside)
CatModule(kind, d) ==
  CASE kind = "centre"  -> <<"Mc", "circle", d[1] \div 2, d[2] \div 2, 1, <<>>>>          \* a circle in the middle (sticks out of a flat die)
    [] kind = "border"  -> <<"Mb", "circle", 1, 1, 1, <<>>>>                              \* a circle touching the left and bottom borders
    [] kind = "rect"    -> <<"Mr", "rects", 0, 0, 0, << <<0, 0, 2, 1>> >> >>               \* a rectangle in the origin corner
    [] kind = "two"     -> <<"Mt", "rects", 0, 0, 0, << <<d[1] - 2, 0, d[1], 1>>, <<d[1] - 1, 1, d[1], 2>> >> >>   \* two rectangles on the right border
    [] kind = "tcorner" -> <<"Tc", "terminal", d[1], d[2], 0, <<>>>>                      \* a terminal on the far corner of the die
    [] kind = "tout"    -> <<"To", "terminal", d[1] + 1, 0, 0, <<>>>>                     \* a terminal outside the die
    [] OTHER            -> <<"Mn", "nocentre", 0, 0, 0, <<>>>>                            \* a soft module without centre: not drawable
Drawable1(m) == HasRects(m) \/ m[2] \in {"circle", "terminal"}
Drawable(dg) == \A k \in DOMAIN dg.mods : Drawable1(dg.mods[k])
\* the shape that is drawn for a module: its rectangles, or the circle of its area around its centre
ShapesOf(m) == IF HasRects(m) THEN m[6] ELSE IF Drawable1(m) THEN << <<m[3] - m[5], m[4] - m[5], m[3] + m[5], m[4] + m[5]>> >> ELSE <<>>
AllShapes(dg) == FoldLeft(LAMBDA acc, m : acc \o ShapesOf(m), <<>>, dg.mods)
\* "the bounding box ... Only xmax and ymax are returned. The ll corner is assumed to be (0,0)"
BBoxOf(dg) == LET sh == AllShapes(dg) IN
              << Max({0} \cup { sh[k][3] : k \in DOMAIN sh }), Max({0} \cup { sh[k][4] : k \in DOMAIN sh }) >>

\* the centre of a module without allocation: its own centre, or the area-weighted centroid of its rectangles
RArea(t) == (t[3] - t[1]) * (t[4] - t[2])
SumSeq(s) == FoldLeft(LAMBDA a, v : a + v, 0, s)
ModCentre(m) == IF ~HasRects(m) THEN IP(m[3], m[4])
                ELSE LET a == SumSeq([ k \in DOMAIN m[6] |-> RArea(m[6][k]) ]) IN
                     << Norm(<< SumSeq([ k \in DOMAIN m[6] |-> RArea(m[6][k]) * (m[6][k][1] + m[6][k][3]) ]), 2 * a >>),
                        Norm(<< SumSeq([ k \in DOMAIN m[6] |-> RArea(m[6][k]) * (m[6][k][2] + m[6][k][4]) ]), 2 * a >>) >>
\* Allocation.center(m): cells weighted by ratio * area (ratios <<n, d>> share the denominator RD)
RD == 4
AllocCentre(cells, m) ==
  LET wgt(c) == RArea(c) * c[5][m] IN                       \* numerator of ratio * area (denominator RD)
  << Norm(<< SumSeq([ k \in DOMAIN cells |-> wgt(cells[k]) * (cells[k][1] + cells[k][3]) ]), 2 * SumSeq([ k \in DOMAIN cells |-> wgt(cells[k]) ]) >>),
     Norm(<< SumSeq([ k \in DOMAIN cells |-> wgt(cells[k]) * (cells[k][2] + cells[k][4]) ]), 2 * SumSeq([ k \in DOMAIN cells |-> wgt(cells[k]) ]) >>) >>
PinOf(dg, m) == IF dg.cells # <<>> THEN AllocCentre(dg.cells, m) ELSE ModCentre(dg.mods[m])
\* "the first point acts as the center of the star": the mean of the pins
RSum(ps, i) == FoldLeft(LAMBDA a, p : RAdd(a, p[i]), RI(0), ps)
PinPoints(dg, net) == LET pins == [ k \in DOMAIN net |-> PinOf(dg, net[k]) ]
                          mean(i) == Norm(<< RSum(pins, i)[1], RSum(pins, i)[2] * Len(net) >>)
                      IN << << mean(1), mean(2) >> >> \o pins

(***************************************************************************)
(* get_floorplan_plot: the primitives, in drawing order, as pixel boxes    *)
(* <<kind, x0, y0, x1, y1>>                                                *)
(***************************************************************************)
BoxOf(kind, t, s) == LET ll == ScalePoint(IP(t[1], t[2]), s)  ur == ScalePoint(IP(t[3], t[4]), s)
                     IN << kind, ll[1], ur[2], ur[1], ll[2] >>              \* "Notice that y-coordinates are swapped"
ModulePrims(m, s) == LET sh == ShapesOf(m) IN [ k \in DOMAIN sh |-> BoxOf(IF HasRects(m) THEN "rect" ELSE "ellipse", sh[k], s) ]
NetPrims(dg, net, s) ==
  LET pts == PinPoints(dg, net)  px == [ k \in DOMAIN pts |-> ScalePoint(pts[k], s) ]  hub == px[1] IN
  [ k \in 1..Len(net) |-> << "line", hub[1], hub[2], px[k + 1][1], px[k + 1][2] >> ]
  \o (IF Len(px) > 3 THEN << << "ellipse", hub[1] - 8, hub[2] - 8, hub[1] + 8, hub[2] + 8 >> >> ELSE <<>>)
Drawn(dg, s) ==
  << << "rect", 0, 0, s.width + 2 * s.frame, s.height + 2 * s.frame >>,
     << "rect", s.frame, s.frame, s.width + s.frame, s.height + s.frame >> >>
  \o (IF dg.cells # <<>> THEN [ k \in DOMAIN dg.cells |-> BoxOf("rect", dg.cells[k], s) ]
      ELSE FoldLeft(LAMBDA acc, m : acc \o ModulePrims(m, s), <<>>, dg.mods))
  \o FoldLeft(LAMBDA acc, net : acc \o NetPrims(dg, net, s), <<>>, dg.nets)
\* what the function returns: the image, or a refusal exactly when some module cannot be drawn
Plot(dg, s) == IF Drawable(dg) THEN [ ok |-> TRUE, size |-> ImageSize(s), prims |-> Drawn(dg, s) ]
               ELSE [ ok |-> FALSE, size |-> <<0, 0>>, prims |-> <<>> ]

\* inside the inner frame / inside the image (coordinates are pixel boundaries: the frame rectangles themselves go up to
\* width + 2 frame)
InFrame(b, s) == s.frame <= b[2] /\ b[2] <= b[4] /\ b[4] <= s.width + s.frame /\ s.frame <= b[3] /\ b[3] <= b[5] /\ b[5] <= s.height + s.frame
InImage(b, s) == 0 <= b[2] /\ b[4] <= s.width + 2 * s.frame /\ 0 <= b[3] /\ b[5] <= s.height + 2 * s.frame
InDie(t, d) == 0 <= t[1] /\ t[3] <= d[1] /\ 0 <= t[2] /\ t[4] <= d[2]

(***************************************************************************)
(* gen_out_filename on names given as sequences of characters              *)
(***************************************************************************)
LastIndex(nm, c) == IF \E i \in DOMAIN nm : nm[i] = c THEN Max({ i \in DOMAIN nm : nm[i] = c }) ELSE 0
\* the extension is what follows the last "." of the FILE NAME (the part after the last "/"), if it has one
OutName(nm, suffix) == LET slash == LastIndex(nm, "/")  dot == LastIndex(nm, ".") IN
                       IF dot > slash THEN SubSeq(nm, 1, dot) \o suffix ELSE nm \o <<".">> \o suffix
\* names for which "the extension" is beyond dispute: a non-empty stem before the dot, no dot-only components
PlainName(nm) == /\ nm # <<>> /\ nm[Len(nm)] \notin {"/", "."}
                 /\ \A i \in DOMAIN nm : nm[i] = "." => (i > 1 /\ nm[i - 1] \notin {"/", "."})

(***************************************************************************)
(* The machine                                                             *)
(***************************************************************************)
NoDesign == [ mods |-> <<>>, nets |-> <<>>, cells |-> <<>>, picked |-> <<>> ]
Init == pc = "pick" /\ die = <<1, 1>> /\ req = <<0, 0, 0>> /\ sc = Scaling(<<1, 1>>, 1, 1, 0) /\ design = NoDesign
        /\ plot = <<>> /\ fname = <<>>

PickCanvas == /\ pc = "pick" /\ fname = <<>>
              /\ \E d \in Dies, w \in Widths, h \in Heights, f \in Frames :
                   die' = d /\ req' = <<w, h, f>> /\ sc' = CalcScaling(d, w, h, f, Default)
              /\ pc' = "canvas" /\ UNCHANGED <<design, plot, fname>>
\* modules in increasing order of the catalogue (each set once); the catalogue depends on the die (border, outside)
AddModule == /\ pc = "canvas" /\ design.cells = <<>> /\ design.nets = <<>> /\ Len(design.mods) < MaxMods
             /\ \E k \in DOMAIN ModuleCat :
                  /\ design.picked # <<>> => k > design.picked[Len(design.picked)]
                  /\ design' = [design EXCEPT !.mods = Append(@, CatModule(ModuleCat[k], die)), !.picked = Append(@, k)]
             /\ UNCHANGED <<pc, die, req, sc, plot, fname>>
\* nets: the pair of the first two modules, then the net of all modules (three pins or more: a hub circle)
NetCat(dg) == (IF Len(dg.mods) >= 2 THEN << <<1, 2>> >> ELSE <<>>) \o (IF Len(dg.mods) >= 3 THEN << [ k \in DOMAIN dg.mods |-> k ] >> ELSE <<>>)
AddNet == /\ pc = "canvas" /\ design.cells = <<>> /\ Len(design.nets) < MaxNets /\ Len(design.nets) < Len(NetCat(design))
          /\ design' = [design EXCEPT !.nets = Append(@, NetCat(design)[Len(@) + 1])]
          /\ UNCHANGED <<pc, die, req, sc, plot, fname>>
\* a whole scene with an allocation (the cells tile a 4x4 die: only on that die)
PickScene == /\ pc = "canvas" /\ design = NoDesign /\ die = <<4, 4>>
             /\ \E sn \in Scenes : design' = [ mods |-> sn.mods, nets |-> sn.nets, cells |-> sn.cells, picked |-> <<0>> ]
             /\ UNCHANGED <<pc, die, req, sc, plot, fname>>
DoPlot == /\ ~EMIT /\ pc = "canvas"
          /\ plot' = Plot(design, sc) /\ pc' = "plotted"
          /\ UNCHANGED <<die, req, sc, design, fname>>

PickName == /\ pc = "pick" /\ Len(fname) < MaxName
            /\ \E c \in NameAlphabet : fname' = Append(fname, c)
            /\ UNCHANGED <<pc, die, req, sc, design, plot>>
Rename == /\ ~EMIT /\ pc = "pick" /\ PlainName(fname)
          /\ plot' = OutName(fname, <<"g", "i", "f">>) /\ pc' = "named"
          /\ UNCHANGED <<die, req, sc, design, fname>>

EmitPlot == /\ EMIT /\ pc = "canvas"
            /\ PrintT(ToJson([ kind |-> "plot", die |-> die, req |-> req, design |-> [ mods |-> design.mods, nets |-> design.nets, cells |-> design.cells ] ]))
            /\ pc' = "emitted" /\ UNCHANGED <<die, req, sc, design, plot, fname>>
EmitName == /\ EMIT /\ pc = "pick" /\ PlainName(fname)
            /\ PrintT(ToJson([ kind |-> "outname", name |-> fname ]))
            /\ pc' = "emitted" /\ UNCHANGED <<die, req, sc, design, plot, fname>>

Next == PickCanvas \/ AddModule \/ AddNet \/ PickScene \/ DoPlot \/ PickName \/ Rename \/ EmitPlot \/ EmitName
Spec == Init /\ [][Next]_vars

(***************************************************************************)
(* Lemmas (invariants)                                                     *)
(***************************************************************************)
OnCanvas == pc \in {"canvas", "plotted"}
W0 == req[1]
H0 == req[2]
\* both given: as requested; otherwise the aspect ratio of the die is kept (the derived side is the rounded exact one)
LemmaRequested == OnCanvas => /\ (W0 # 0 => sc.width = W0) /\ (H0 # 0 => sc.height = H0) /\ sc.frame = req[3]
LemmaAspect == OnCanvas => /\ (W0 # 0 /\ H0 = 0) => IsRounding(sc.height, <<die[2] * sc.width, die[1]>>)
                           /\ (W0 = 0 /\ H0 # 0) => IsRounding(sc.width, <<die[1] * sc.height, die[2]>>)
\* both zero: the larger side of the picture is the default, the other keeps the aspect ratio
LemmaDefault == (OnCanvas /\ W0 = 0 /\ H0 = 0) =>
                   /\ Max({sc.width, sc.height}) = Default
                   /\ IF die[1] > die[2] THEN sc.width = Default /\ IsRounding(sc.height, <<die[2] * Default, die[1]>>)
                      ELSE sc.height = Default /\ IsRounding(sc.width, <<die[1] * Default, die[2]>>)
\* the die's corners go to the corners of the inner frame, y flipped; drawable area + frame = the image
LemmaCorners == OnCanvas => /\ ScalePoint(IP(0, 0), sc) = << sc.frame, sc.height + sc.frame >>
                            /\ ScalePoint(IP(die[1], die[2]), sc) = << sc.width + sc.frame, sc.frame >>
                            /\ ImageSize(sc) = << sc.width + 2 * sc.frame, sc.height + 2 * sc.frame >>
\* (the canvas lemmas are evaluated once per canvas, on the state where no module has been added yet; points in half
\* lattice units, one axis at a time)
Bare == pc = "canvas" /\ design = NoDesign
XS == 0..(2 * die[1])
YS == 0..(2 * die[2])
PX(x) == ScalePoint(<< <<x, 2>>, RI(0) >>, sc)[1]
PY(y) == ScalePoint(<< RI(0), <<y, 2>> >>, sc)[2]
LemmaInside == Bare => /\ \A x \in XS : sc.frame <= PX(x) /\ PX(x) <= sc.width + sc.frame
                       /\ \A y \in YS : sc.frame <= PY(y) /\ PY(y) <= sc.height + sc.frame
LemmaMonotone == Bare => /\ \A x \in XS : \A z \in XS : x <= z => PX(x) <= PX(z)
                         /\ \A y \in YS : \A z \in YS : y <= z => PY(y) >= PY(z)          \* image rows grow downwards
LemmaAffine == Bare => /\ \A x \in XS : IsRounding(PX(x), ExactX(<<x, 2>>, sc))
                       /\ \A y \in YS : IsRounding(PY(y), ExactY(<<y, 2>>, sc))
\* the box contains every drawn shape and is the smallest such box anchored at the origin
LemmaBBox == OnCanvas => LET b == BBoxOf(design)  sh == AllShapes(design) IN
                /\ \A k \in DOMAIN sh : sh[k][3] <= b[1] /\ sh[k][4] <= b[2]
                /\ (sh # <<>> /\ b[1] > 0) => \E k \in DOMAIN sh : sh[k][3] = b[1]
                /\ (sh # <<>> /\ b[2] > 0) => \E k \in DOMAIN sh : sh[k][4] = b[2]
\* the plot: refused exactly for undrawable designs; the right number of primitives; shapes inside the die are drawn
\* inside the inner frame, hence inside the image
LemmaPlot == pc = "plotted" =>
   /\ plot.ok <=> Drawable(design)
   /\ plot.ok => /\ plot.size = ImageSize(sc)
                 /\ InImage(plot.prims[1], sc) /\ InFrame(plot.prims[2], sc)
                 /\ design.cells = <<>> =>
                      LET sh == AllShapes(design) IN
                      /\ Len(plot.prims) = 2 + Len(sh) + FoldLeft(LAMBDA a, nt : a + Len(nt) + (IF Len(nt) >= 3 THEN 1 ELSE 0), 0, design.nets)
                      /\ \A k \in DOMAIN sh : InDie(sh[k], die) => InFrame(plot.prims[2 + k], sc)
                 /\ design.cells # <<>> => \A k \in DOMAIN design.cells : InFrame(plot.prims[2 + k], sc)
\* the hub of a star lies within the box of its pins
LemmaStar == OnCanvas => \A n \in DOMAIN design.nets : Drawable(design) =>
                LET pts == PinPoints(design, design.nets[n]) IN
                \E a \in 2..Len(pts) : \E b \in 2..Len(pts) : RLe(pts[a][1], pts[1][1]) /\ RLe(pts[1][1], pts[b][1])
\* the output name: the directory part is untouched, the name ends with ".gif", a name without extension only grows
LemmaName == pc = "named" =>
   LET slash == LastIndex(fname, "/") IN
   /\ SubSeq(plot, Len(plot) - 3, Len(plot)) = <<".", "g", "i", "f">>
   /\ SubSeq(plot, 1, slash) = SubSeq(fname, 1, slash)
   /\ (LastIndex(fname, ".") <= slash) => plot = fname \o <<".", "g", "i", "f">>
=============================================================================
