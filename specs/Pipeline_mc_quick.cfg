SPECIFICATION Spec
CONSTANTS
  TYPES = {"chain", "ring", "star", "ring-star", "one-net"}
  SIZES = {4}
  GRIDS = {202}
  HLEVELS = {}
  DIESEL = {404, 603}
  EDITS = {"none", "fpin", "block", "fpin+block", "pin"}
  GCELLS = {1, 2, 3}
  POSSEL = {0, 2424}
  TOL = 0
  COMTOL = 0
  EMIT = FALSE
INVARIANT TypeOK
INVARIANT ProducerWellFormed
INVARIANT HandOff
INVARIANT DesignPreserved
INVARIANT FixedStay
INVARIANT PlacedAfterPlacement
INVARIANT GlbfloorContract
INVARIANT AllocOnlyAfterGlbfloor
PROPERTY PlacementSteps
CHECK_DEADLOCK FALSE
