----------------------------- MODULE NetApiTrace -----------------------------
(***************************************************************************)
(* NETAPI, code -> spec: every step observed on a real Netlist object is   *)
(* judged as a transition of NetApi.                                       *)
(*                                                                         *)
(* The harness replays TLC-generated (and random, longer) action sequences *)
(* on the real object and records, for every call,                         *)
(*   pre    the abstract state read off the object just before             *)
(*          (plain attributes only: nothing that fills a memo)             *)
(*   op, arg, raised, ret                                                  *)
(*   post   the abstract state just after the call                         *)
(*   views  (hasviews = 1) every derived view, read after the call         *)
(*   post2  the abstract state after reading the views                     *)
(*   reload (write_yaml) the state of Netlist(text) or its rejection       *)
(* pre is the observed post2 of the previous call of the same object, so   *)
(* each step is self-contained and steps observed along many sequences are *)
(* submitted once.  One TLC initial state per step; verdicts are total.    *)
(*                                                                         *)
(* fails (property level):                                                 *)
(*   raises            the call is enabled (documented precondition holds  *)
(*                     on pre) and raised                                  *)
(*   effect            Documented(pre, op, arg, post, ret) is false         *)
(*   off_lattice       an enabled call left the lattice                    *)
(*   v_<view>          the view differs from its function of post          *)
(*   view_pure         reading the views changed the state (post2 # post)  *)
(*   write_read_same   pre is normal and the written text does not read    *)
(*                     back as the same design                             *)
(* drift (model conformance): post differs from Apply (trunk choice ...),  *)
(*   order of the rectangles view, steps outside the documented            *)
(*   preconditions, write_yaml on a state that has no document.            *)
(***************************************************************************)
EXTENDS NetApi, IOUtils

Batch == JsonDeserialize(IOEnv.TRACE_FILE)

VARIABLES tid, l
tvars == <<vars, tid, l>>
T == Batch[tid]

TraceInit == /\ tid \in 1..Len(Batch) /\ l = 1
             /\ d = 1 /\ st = Batch[tid].pre /\ prev = Batch[tid].pre /\ last = NoAct /\ hist = <<>>
             /\ cache = NoCache(Batch[tid].pre)

Failed(cl) == {k \in DOMAIN cl : ~cl[k]}

\* the views against their definitions on the state s
ViewClauses(s, v) ==
  [v_rectangles |-> F!SameBag(v.rectangles, ViewRectangles(s)),
   v_num_rectangles |-> v.num_rectangles = ViewNumRectangles(s),
   v_fixed_rectangles |-> F!SameBag(v.fixed_rectangles, ViewFixedRectangles(s)),
   v_area_rectangles |-> Len(v.area_rectangles) = Len(s.mods) /\
                         \A i \in DOMAIN s.mods : v.area_rectangles[i] = ViewAreaRectangles(s.mods[i]),
   v_area |-> Len(v.area) = Len(s.mods) /\ \A i \in DOMAIN s.mods : v.area[i] = ViewArea(s.mods[i]),
   v_has_stog |-> Len(v.has_stog) = Len(s.mods) /\ \A i \in DOMAIN s.mods : v.has_stog[i] = F!B(ViewHasStog(s.mods[i])),
   v_all_soft_have_stogs |-> v.all_soft_have_stogs = F!B(ViewAllSoftHaveStogs(s)),
   \* wire length of the CURRENT centres: -1 (the code asserts) exactly when some member has no centre
   v_wire_length |-> IF ~ViewWLDefined(s) THEN v.wire_length = -1
                     ELSE IF ~(F!WLBounded(s.nets) /\ \A k \in DOMAIN s.nets : F!WeightOK(s.nets[k].w)) THEN TRUE
                     ELSE v.wire_length >= 0 /\ F!InBracket(v.wire_length, 1, F!WD, ViewWL(s))]

Judge ==
  LET r == Apply(T.pre, T.op, T.arg)
      enabled == r.ok
      lattice == T.postok = 1
      cl == IF ~enabled \/ T.raised = 1 \/ ~lattice THEN [effect |-> TRUE]
            ELSE [effect |-> Documented(T.pre, T.op, T.arg, T.post, T.ret)]
      vcl == IF enabled /\ T.raised = 0 /\ lattice /\ T.hasviews = 1 THEN ViewClauses(T.post, T.views) ELSE [v_none |-> TRUE]
      pure == IF enabled /\ T.raised = 0 /\ lattice /\ T.hasviews = 1 THEN T.post2ok = 1 /\ T.post2 = T.post ELSE TRUE
      wr == IF enabled /\ T.raised = 0 /\ lattice /\ T.op = "write_yaml" /\ Normal(T.pre)
            THEN T.reload.acc = 1 /\ SameDesign(T.reload.state, T.pre) ELSE TRUE
      fl == Failed(cl) \cup Failed(vcl)
            \cup (IF enabled /\ T.raised = 1 THEN {"raises"} ELSE {})
            \cup (IF enabled /\ T.raised = 0 /\ ~lattice THEN {"off_lattice"} ELSE {})
            \cup (IF pure THEN {} ELSE {"view_pure"})
            \cup (IF wr THEN {} ELSE {"write_read_same"})
      df == (IF ~enabled THEN {"call_outside_documented_precondition"} ELSE {})
            \cup (IF enabled /\ T.raised = 0 /\ lattice /\ T.post # r.st THEN {"effect_differs_from_model"} ELSE {})
            \cup (IF enabled /\ T.raised = 0 /\ lattice /\ T.hasviews = 1 /\ T.views.rectangles # ViewRectangles(T.post)
                     /\ F!SameBag(T.views.rectangles, ViewRectangles(T.post)) THEN {"rectangles_view_order"} ELSE {})
            \cup (IF enabled /\ T.raised = 0 /\ lattice /\ T.op = "write_yaml" /\ ~Normal(T.pre) THEN {"write_yaml_of_a_state_without_document"} ELSE {})
  IN
  /\ l = 1 /\ l' = 2
  /\ PrintT(ToJson([tag |-> "VERDICT", id |-> T.id, fails |-> fl, drift |-> df]))
  /\ UNCHANGED <<vars, tid>>

TraceSpec == TraceInit /\ [][Judge]_tvars
=============================================================================
