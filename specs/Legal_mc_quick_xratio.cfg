\* Universe X: ONE hard or fixed module on a 10x10 die whose GIVEN rectangles may exceed the ratio limit 2 (trunk 6x2 or 4x4, branches 3x1 / 2x1): no configuration with that shape is legal, its own configuration violates exactly `ratio`.
SPECIFICATION Spec
CONSTANTS
  DW = 10
  DH = 10
  RP = 2
  RQ = 1
  TXS = {2}
  TYS = {2}
  TrunkSizes <- TrunkSizesX
  BranchSizes <- BranchSizesX
  BranchOffs = {0, 99}
  Kinds = {"hard", "fixed"}
  Slacks = {0}
  MaxMods = 1
  MaxBr = 2
  MaxRects = 3
  Deltas <- DeltasA
  Slides <- SlidesA
  EdgeDs <- EdgeDsA
  CHAIN = FALSE
  WILD = FALSE
  FIXMODEL = "intended"
  ANYRATIO = TRUE
  BASEMOD = 2
  EMIT = FALSE
INVARIANT InvShape
INVARIANT InvBuiltLegal
INVARIANT InvSystemExact
INVARIANT InvGroups
INVARIANT InvPerturbOne
INVARIANT InvWild
CHECK_DEADLOCK FALSE
