SPECIFICATION Spec
CONSTANTS
  NEWLINE_TEXT = FALSE
  Alpha = {"a", "n", "e", "0", "_", ".", "-", "sp", ":", "uni", "udig", "q"}
  MaxLen = 6
  EMIT = FALSE
CHECK_DEADLOCK FALSE
INVARIANT IdMachineIsGrammar
INVARIANT NumMachineIsGrammar
INVARIANT CsMachineIsRule
INVARIANT RunAgrees
INVARIANT BothLanguages
INVARIANT PlainIsNumber
INVARIANT OddNumberShape
INVARIANT TextNeverFile
INVARIANT IdentifierIsFileName
