SPECIFICATION Spec
CONSTANTS
  N = 3
  K = 24
  EMIT = FALSE
INVARIANT LawSymmetric
INVARIANT LawIntersection
INVARIANT LawInterExists
INVARIANT LawInsideArea
INVARIANT LawTouch
INVARIANT LawModelMeetsProperty
INVARIANT LawSplitTiles
INVARIANT LawCuttable
CHECK_DEADLOCK FALSE
