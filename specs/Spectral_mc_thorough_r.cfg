\* C14 design-level check, universe R (object lifecycle, thorough): 12x8 die (the second placement also on the 8x12 die),: soft r=2, movable hard square, fixed square on an 8x8 die, one
\* trial, one step per dimension, the object is placed TWICE (Again): the invariants hold for each placement.
SPECIFICATION Spec
CONSTANTS
  HalfSet <- HalfR
  Profiles <- ProfB
  AreaProfiles <- AreaB
  Graphs = {"path"}
  FixSet <- FixA
  TrialSet = {1}
  MaxIter = 1
  GS = 2
  G = 2
  Rounds = 2
  TOL = 0
  EMIT = FALSE
INVARIANT TemplatesOnLattice
INVARIANT NormalizeMeetsContract
INVARIANT InSpanInv
INVARIANT SeedInv
INVARIANT TrialInv
INVARIANT BestInv
INVARIANT AreasNetsUnchanged
INVARIANT FixedRectsUntouched
INVARIANT CommitInv
INVARIANT HardCentroid
CHECK_DEADLOCK FALSE
