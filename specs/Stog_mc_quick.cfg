SPECIFICATION Spec
CONSTANTS
  NX = 3
  NY = 2
  MAXR = 3
  HISTLEN = 3
  EMIT = FALSE
INVARIANT TypeOK
INVARIANT InvVerdict
INVARIANT InvTrunkFirst
INVARIANT InvSides
INVARIANT InvNoRoles
INVARIANT InvReorderOnly
INVARIANT InvNetCurrent
INVARIANT InvRecAllCovers
INVARIANT LemmaFindLocation
INVARIANT LemmaOneSide
INVARIANT LemmaUniqueTrunk
INVARIANT LemmaLargestTrunk
INVARIANT LemmaStable
CHECK_DEADLOCK FALSE
