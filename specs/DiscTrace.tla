----------------------------- MODULE DiscTrace -----------------------------
(***************************************************************************)
(* C17, code -> spec: batch validation of observed sweeps of               *)
(* circle_circle_intersection_area.                                        *)
(*                                                                         *)
(* One TLC initial state per recorded sweep (fixed radii, one embedding,   *)
(* events ordered by (D2, k)).  Every event is consumed by the spec's own  *)
(* action MoveTo (which yields the enclosure enc' of the true area), then   *)
(* judged by Disc!Judge (clauses about one observation) and Disc!JudgeChain (clauses about the previous and the    *)
(* current observation).  Verdicts are total: the step never blocks on a   *)
(* value returned by the code; it accumulates the false clauses in `fails` *)
(* and the model-conformance differences in `drift`.                       *)
(*                                                                         *)
(* A trace is  [id, r1, r2, ex, events]  with events as described in       *)
(* Disc.tla section 5;  ex = 1 iff the embedding is exact (dyadic), which  *)
(* only matters for the conformance check of the `return 0` branch.        *)
(***************************************************************************)
EXTENDS Disc, IOUtils

Batch == JsonDeserialize(IOEnv.TRACE_FILE)

VARIABLES tid, l, prev, fails, drift
tvars == <<vars, tid, l, prev, fails, drift>>

T == Batch[tid]
TraceInit == /\ tid \in 1..Len(Batch) /\ l = 1 /\ fails = {} /\ drift = {} /\ prev = NoPrev
             /\ pc = "sweep" /\ r1 = Batch[tid].r1 /\ r2 = Batch[tid].r2 /\ d2 = 0
             /\ enc = Enc(Batch[tid].r1, Batch[tid].r2, 0)

\* model conformance (never a violation): with exactly representable inputs and no ulp shift the code must take
\* the branch the model takes; the `return 0` branch is visible from outside because it returns the int 0
BranchDrift(e) == /\ T.ex = 1 /\ EvK(e) = 0
                  /\ \/ (e[3] = 0 /\ e[7] # B2I(ImplBranch(r1, r2, EvD2(e)) = "zero"))
                     \/ (e[5] = 0 /\ e[8] # B2I(ImplBranch(r1, r2, EvD2(e)) = "zero"))

Step == /\ l <= Len(T.events)
        /\ LET e == T.events[l] IN
             /\ MoveTo(EvD2(e))
             /\ fails' = fails \cup { <<l, c>> : c \in Failing(Judge(r1, r2, e, enc')) \cup Failing(JudgeChain(r1, r2, prev, e)) }
             /\ drift' = IF BranchDrift(e) THEN drift \cup {<<l, "branch">>} ELSE drift
             /\ prev' = NextPrev(prev, e)
        /\ l' = l + 1 /\ UNCHANGED tid

Done == /\ l = Len(T.events) + 1
        /\ l' = l + 1
        /\ PrintT(ToJson([tag |-> "VERDICT", id |-> T.id, fails |-> fails, drift |-> drift]))
        /\ UNCHANGED <<vars, tid, prev, fails, drift>>

TraceNext == Step \/ Done
TraceSpec == TraceInit /\ [][TraceNext]_tvars
=============================================================================
