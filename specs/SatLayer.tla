------------------------------ MODULE SatLayer ------------------------------
(***************************************************************************)
(* C07 -- The SAT layer encodes every posted constraint exactly.           *)
(*                                                                         *)
(* Subject: tools/rect/satmanager.py (SATManager) on top of                *)
(*          tools/rect/pseudobool.py (Ineq, the process-wide ROBDD store). *)
(*                                                                         *)
(* PROPERTY LEVEL.  A process holds any number of managers.  Each manager  *)
(* has user variables Vars and a set                                       *)
(*        allowed  \subseteq  Assigns                                      *)
(* of assignments of the user variables that satisfy everything posted to  *)
(* it so far.  Posting a constraint c either is REFUSED (an exception; the *)
(* manager is unchanged) or intersects `allowed` with SatSet(c), the       *)
(* satisfying set defined DIRECTLY:                                        *)
(*    clause   some literal true                                           *)
(*    imply    all of lits true  =>  head true                             *)
(*    amo      at most one of the listed literals true (by position: a     *)
(*             literal listed twice counts twice)                          *)
(*    pb       sum(coef * literal)  op  bound,   op in >=, <=, >, <, =     *)
(*             on the RAW term list (zero / negative coefficients and      *)
(*             repeated variables allowed)                                 *)
(* Only what the layer documents as unsupported may be refused             *)
(* (Refusable): pseudo-Boolean =, >, <, and Heule's encoding with k < 3.   *)
(* Solve reports satisfiable iff allowed # {} and exposes a model in       *)
(* `allowed`.  Nothing a manager does depends on the other managers.       *)
(*                                                                         *)
(* DETAIL LEVEL.  Next to `allowed` each manager carries the CNF the       *)
(* implementation is specified to generate (Robdd.tla: isclause shortcut,  *)
(* ROBDD built into the store shared by ALL managers, one-directional      *)
(* Tseitin with the per-manager `codified` set, quadratic / Heule          *)
(* at-most-one with the per-manager fresh-variable counter).  The design-  *)
(* level statement of C07 is the refinement invariant                      *)
(*        Exact ==  \A m : Proj(mgrs[m].cnf) = mgrs[m].allowed             *)
(* (Proj = TLC's own DPLL projection onto the user variables), checked for *)
(* every sequence of posts of the bounded universe, across managers        *)
(* sharing one store.                                                      *)
(*                                                                         *)
(* A constraint is the JSON-shaped record                                  *)
(*   [kind, lits, head, meth, k, terms, op, bound, dec]   (unused fields   *)
(* blank) with literals <<var, sign>> and terms <<var, sign, coef>>.       *)
(* Post / Encode / SatSet are value-level and shared with SatTrace.tla.    *)
(*                                                                         *)
(* PROPAGATION STRENGTH (an extension, no part of C07's statement).  With  *)
(* PROBE the machine applies unit propagation (Robdd!UnitProp) to the CNF  *)
(* of a single posted constraint under every partial assignment and        *)
(* records the outcome in the history.  ProbeSound must hold for every     *)
(* kind (it follows from Exact); ProbeDetectsInconsistency and             *)
(* ProbeArcConsistent are asserted for the kinds in ACKinds: the           *)
(* SatLayer_ac_*.cfg files state for which kinds they hold and for which   *)
(* TLC must produce a counterexample.                                      *)
(***************************************************************************)
EXTENDS Robdd

CONSTANTS Fams,        \* constraint kinds generated: subset of {"clause", "imply", "amo", "pb"}
          ClauseMax,   \* clauses / implication bodies: all literal sequences up to this length
          AmoSeq,      \* at-most-one groups: all literal sequences up to this length (repeats, complements)
          AmoMax,      \*   ... and the groups VarList[1..n] for n up to this, in every polarity pattern over
          AmoPols,     \*   these polarities ({0, 1} or {1})
          HeuleKs,     \* chain widths tried for Heule's encoding (k < 3 must be refused)
          PbShape,     \* pseudo-Boolean term lists: "raw" = every sequence over variable x polarity x coefficient
                       \*   (repeated variables, zero and negative coefficients), bounds -PbBound..PbBound;
                       \*   "ordered" = VarList[1..n] in order, coefficients 1..PbPos, bounds 1..PbBound (the
                       \*   shape that reaches the diagrams; used where SEQUENCES of posts are explored)
          PbTerms,     \*   up to this many terms
          PbPols,      \*   polarities offered ({0, 1} or {1})
          PbNeg, PbPos,\*   coefficients -PbNeg..PbPos
          PbBound,
          PbOps,       \*   operators
          MaxMgrs, MaxPosts,
          PROBE,       \* TRUE: after the posts, probe the manager's CNF with unit propagation under every partial
                       \*   assignment of the user variables (propagation strength; used with MaxPosts = 1)
          ACKinds      \* the constraint kinds (KindTag) the propagation invariants are asserted for

VARIABLES hist,      \* what happened so far: << [ev, m, c] .. >>  (ev = "new" | "post")
          mgrs,      \* << [allowed, cnf, cod, aux, posted] .. >>
          lastm, lastc, lastref   \* the last post: manager, constraint, refused?
svars == <<hist, mgrs, lastm, lastc, lastref>>
allvars == <<vars, rvars, svars>>

(***************************************************************************)
(* Constraints and their direct semantics                                  *)
(***************************************************************************)
Blank == [kind |-> "", lits |-> <<>>, head |-> <<"", 1>>, meth |-> "", k |-> 0,
          terms |-> <<>>, op |-> "", bound |-> 0, dec |-> 0]
LV(l, a) == LitVal(l[1], l[2], a)
Satisfies(c, a) ==
  CASE c.kind = "clause" -> \E i \in DOMAIN c.lits : LV(c.lits[i], a) = 1
    [] c.kind = "imply"  -> (\A i \in DOMAIN c.lits : LV(c.lits[i], a) = 1) => LV(c.head, a) = 1
    [] c.kind = "amo"    -> SumSeq([i \in DOMAIN c.lits |-> LV(c.lits[i], a)]) <= 1
    [] c.kind = "pb"     -> Direct(SumSeq([i \in DOMAIN c.terms |-> c.terms[i][3] * LV(c.terms[i], a)]), c.op, c.bound)
    [] OTHER -> TRUE
SatSet(c) == { a \in Assigns : Satisfies(c, a) }

(***************************************************************************)
(* The specified encoding of one constraint into manager m (detail level)  *)
(***************************************************************************)
\* the inequality as the front end (PBExpr) hands it over:  expr(terms) op bound
NormIneq(c) == MkIneq(FoldTerms(Empty, c.terms, 1), [c |-> c.bound, t |-> <<>>], c.op)
LitSet(ls) == { ULit(ls[i]) : i \in DOMAIN ls }

\* What the property lets the layer refuse: what it documents as not implemented -- pseudo-Boolean =, >, < -- and
\* Heule with k < 3.  (A refusal never breaks "encoded exactly or refused"; refused_encodable only guards against
\* refusing the constraint kinds the layer exists for.)
Refusable(c) == \/ c.kind = "pb" /\ c.op \in {">", "<", "="}
                \/ c.kind = "amo" /\ c.meth = "heule" /\ c.k < 3
\* What the code as modelled refuses (model conformance only): a strict or equality constraint that is NOT a plain
\* disjunction -- clause-shaped ones are posted as clauses (isclause) -- and Heule with k < 3.
RefusedAsCoded(c) == \/ c.kind = "pb" /\ c.op \in {">", "<", "="} /\ ClauseForm(NormIneq(c)).kind = "no"
                     \/ c.kind = "amo" /\ c.meth = "heule" /\ c.k < 3

NewMgr == [allowed |-> Assigns, cnf |-> {}, cod |-> {}, aux |-> 0, posted |-> <<>>]
\* -> [refused, cnf, cod, aux, store, root]   (root = -1: no diagram was built)
Encode(c, m, st) ==
  LET Res(r, cls, cod, aux, s2, rt) == [refused |-> r, cnf |-> m.cnf \cup cls, cod |-> cod, aux |-> aux, store |-> s2, root |-> rt]
      Plain(cls) == Res(FALSE, cls, m.cod, m.aux, st, -1)
      Refuse == Res(TRUE, {}, m.cod, m.aux, st, -1)
  IN CASE c.kind = "clause" -> Plain({LitSet(c.lits)})
       [] c.kind = "imply"  -> Plain({ { -ULit(c.lits[i]) : i \in DOMAIN c.lits } \cup {ULit(c.head)} })
       [] c.kind = "amo"    ->
            IF c.meth = "quadratic" THEN Plain(Quadratic(LitSeq(c.lits)))
            ELSE IF c.k < 3 THEN Refuse
            ELSE LET H == Heule(LitSeq(c.lits), c.k, m.aux) IN Res(FALSE, H.cls, m.cod, H.aux, st, -1)
       [] c.kind = "pb"     ->
            LET q == NormIneq(c)
                cf == ClauseForm(q)
            IN IF cf.kind = "taut" THEN Plain({})
               ELSE IF cf.kind = "clause" THEN Plain({LitSet(cf.lits)})
               ELSE IF q.op # ">=" THEN Refuse
               ELSE LET B == GetRobdd(q, c.dec = 1, st)
                        C == Codify(B.store, B.id, m.cod)
                    IN Res(FALSE, C.cls \cup {{NodeVar(B.id)}}, C.cod, m.aux, B.store, B.id)
       [] OTHER -> Refuse

\* posting c to manager record m with the global store st: -> [m, store, refused, root]
Post(c, m, st) ==
  LET E == Encode(c, m, st) IN
  IF E.refused THEN [m |-> m, store |-> st, refused |-> TRUE, root |-> -1]
  ELSE [m |-> [allowed |-> m.allowed \cap SatSet(c), cnf |-> E.cnf, cod |-> E.cod, aux |-> E.aux,
               posted |-> Append(m.posted, c)],
        store |-> E.store, refused |-> FALSE, root |-> E.root]

(***************************************************************************)
(* The bounded universe of constraints                                     *)
(***************************************************************************)
Lits == Vars \X {0, 1}
SeqsUpTo(S, n) == UNION { [1..k -> S] : k \in 0..n }
Prefix(n, pol) == [i \in 1..n |-> <<VarList[i], pol[i]>>]
AmoGroups == SeqsUpTo(Lits, AmoSeq)
             \cup UNION { { Prefix(n, pol) : pol \in [1..n -> AmoPols] } : n \in (AmoSeq + 1)..AmoMax }
PbTermLists == IF PbShape = "raw" THEN SeqsUpTo(Vars \X PbPols \X ((-PbNeg)..PbPos), PbTerms)
               ELSE UNION { { [i \in 1..n |-> <<VarList[i], pol[i], kk[i]>>] : pol \in [1..n -> PbPols], kk \in [1..n -> 1..PbPos] }
                            : n \in 1..PbTerms }
PbBounds == IF PbShape = "raw" THEN (-PbBound)..PbBound ELSE 1..PbBound
Universe ==
  (IF "clause" \in Fams THEN { [Blank EXCEPT !.kind = "clause", !.lits = ls] : ls \in SeqsUpTo(Lits, ClauseMax) } ELSE {})
  \cup (IF "imply" \in Fams THEN { [Blank EXCEPT !.kind = "imply", !.lits = ls, !.head = h] :
                                    ls \in SeqsUpTo(Lits, ClauseMax), h \in Lits } ELSE {})
  \cup (IF "amo" \in Fams THEN { [Blank EXCEPT !.kind = "amo", !.meth = "quadratic", !.lits = g] : g \in AmoGroups }
                               \cup { [Blank EXCEPT !.kind = "amo", !.meth = "heule", !.k = kk, !.lits = g] :
                                      g \in AmoGroups, kk \in HeuleKs } ELSE {})
  \cup (IF "pb" \in Fams THEN { [Blank EXCEPT !.kind = "pb", !.terms = ts, !.op = o, !.bound = b, !.dec = d] :
                                 ts \in PbTermLists, o \in PbOps, b \in PbBounds, d \in {0, 1} } ELSE {})
\* the second construction only differs for inequalities that reach the diagram: >= / <= (kept for
\* all operators would only repeat identical cases)
Admit(c) == c.kind = "pb" /\ c.dec = 1 => c.op \in {">=", "<="}

(***************************************************************************)
(* Propagation probes                                                      *)
(***************************************************************************)
\* finer kind of a constraint: which encoding path it takes
KindTag(c) ==
  CASE c.kind = "amo" -> IF c.meth = "quadratic" THEN "amo_quadratic" ELSE "amo_heule"
    [] c.kind = "pb"  -> LET q == NormIneq(c) IN
                         IF ClauseForm(q).kind # "no" THEN "pb_clause"
                         ELSE IF q.op # ">=" THEN "pb_refused"
                         ELSE IF c.dec = 1 THEN "pb_decomposition" ELSE "pb_plain"
    [] OTHER -> c.kind
LitPairs(xs) == { <<VarList[IF x > 0 THEN x ELSE -x], IF x > 0 THEN 1 ELSE 0>> : x \in xs }
ProbeResult(cnf, rs) == LET U == UPOn(cnf, rs) IN
  [conflict |-> IF U.conflict THEN 1 ELSE 0, implied |-> LitPairs(U.implied)]

(***************************************************************************)
(* State machine: managers are created, constraints posted, in any order   *)
(***************************************************************************)
SInit == /\ RInit
         /\ hist = <<>> /\ mgrs = <<>> /\ lastm = 0 /\ lastc = Blank /\ lastref = FALSE

Posts == Cardinality({ i \in DOMAIN hist : hist[i].ev = "post" })
\* a new manager is created right before it is first used (no idle managers at the end of a history)
NewManager == /\ Len(mgrs) < MaxMgrs /\ Posts < MaxPosts
              /\ (hist # <<>> => hist[Len(hist)].ev = "post")
              /\ mgrs' = Append(mgrs, NewMgr)
              /\ hist' = Append(hist, [ev |-> "new", m |-> Len(mgrs) + 1, c |-> Blank])
              /\ UNCHANGED <<vars, rvars, lastm, lastc, lastref>>

PostTo(i, c) ==
  LET P == Post(c, mgrs[i], store) IN
  /\ mgrs' = [mgrs EXCEPT ![i] = P.m]
  /\ store' = P.store
  /\ IF P.root >= 0 THEN /\ root' = P.root /\ lastq' = NormIneq(c) /\ lastdec' = (c.dec = 1) /\ nb' = nb + 1
                    ELSE UNCHANGED <<root, lastq, lastdec, nb>>
  /\ lastm' = i /\ lastc' = c /\ lastref' = P.refused
  /\ hist' = Append(hist, [ev |-> "post", m |-> i, c |-> c])
  /\ UNCHANGED vars

PostAny == /\ Posts < MaxPosts
           /\ \E i \in DOMAIN mgrs : \E c \in Universe : Admit(c) /\ PostTo(i, c)

\* one propagation probe of the manager that received the last (accepted) post
Probe == /\ PROBE /\ Posts = MaxPosts /\ hist # <<>> /\ hist[Len(hist)].ev = "post" /\ ~lastref
         /\ \E rs \in PartialAssigns :
              hist' = Append(hist, [ev |-> "prop", m |-> lastm, c |-> Blank, rho |-> rs, tag |-> KindTag(lastc),
                                    up |-> ProbeResult(mgrs[lastm].cnf, rs)])
         /\ UNCHANGED <<vars, rvars, mgrs, lastm, lastc, lastref>>

\* "Cofactor histories": after an inequality that reached a diagram, the residual inequality of one branch of
\* its top decision (same variable names) is posted to the SAME manager.  Its diagram is a sub-diagram of
\* the first one -- every node, the root included, is already in the store and already codified by this
\* manager -- so only the assertion of the root is new.  (Not in Universe: the residual is over VarList[2..n].)
Cofactor(c, branch, d) ==
  LET q == NormIneq(c)
      ts == SortDesc(q.lhs.t)
      h == ts[1]
      b2 == IF (h[2] = 1) = (branch = 1) THEN q.rhs - h[3] ELSE q.rhs     \* the top literal is true / false
  IN [Blank EXCEPT !.kind = "pb", !.terms = Tail(ts), !.op = ">=", !.bound = b2, !.dec = d]
PostCofactor == /\ Posts < MaxPosts /\ lastm > 0 /\ ~lastref
                /\ KindTag(lastc) \in {"pb_plain", "pb_decomposition"}
                /\ \E br \in {0, 1}, d \in {0, 1} : PostTo(lastm, Cofactor(lastc, br, d))

\* Object lifecycle: the SAME constraint record posted again, to the same or to another manager (the driver then
\* posts the very same Ineq object a second time): it must be encoded the same way both times.
PostAgain == /\ Posts < MaxPosts /\ lastm > 0
             /\ \E i \in DOMAIN mgrs : PostTo(i, lastc)

\* behaviour generation: every maximal history is printed once
EmitHist == /\ EMIT /\ Posts = MaxPosts /\ hist[Len(hist)].ev # "emitted"
            /\ (PROBE => hist[Len(hist)].ev = "prop" \/ lastref)
            /\ PrintT(ToJson([events |-> hist]))
            /\ hist' = Append(hist, [ev |-> "emitted", m |-> 0, c |-> Blank])
            /\ UNCHANGED <<vars, rvars, mgrs, lastm, lastc, lastref>>

SNext == NewManager \/ PostAny \/ PostCofactor \/ PostAgain \/ Probe \/ EmitHist
SSpec == SInit /\ [][SNext]_allvars

(***************************************************************************)
(* Invariants                                                              *)
(***************************************************************************)
\* (a state that only records "this history has been printed" repeats its predecessor: nothing to re-check)
Printed == hist # <<>> /\ hist[Len(hist)].ev = "emitted"
\* allowed is, by definition, the conjunction of everything accepted
AllowedIsConjunction ==
  Printed \/ \A i \in DOMAIN mgrs : mgrs[i].allowed = { a \in Assigns : \A j \in DOMAIN mgrs[i].posted : Satisfies(mgrs[i].posted[j], a) }
\* C07 at design level: the specified CNF projects onto the user variables exactly as `allowed`
Exact == Printed \/ \A i \in DOMAIN mgrs : Proj(mgrs[i].cnf) = mgrs[i].allowed
\* refused only when refusable, and an accepted constraint really restricts the manager
NeverDropped == lastm > 0 => IF lastref THEN Refusable(lastc) ELSE mgrs[lastm].allowed \subseteq SatSet(lastc)
\* the shared store stays canonical and the last diagram computes its inequality, whatever was built before
StoreCanonical == Canonical
LastDiagram == nb > 0 => NodeSem
\* Propagation strength of the encoding of ONE constraint (the manager holds just lastc)
Probed == hist # <<>> /\ hist[Len(hist)].ev = "prop"
LastRho == hist[Len(hist)].rho
ProbeSound == Probed => UPSoundOn(mgrs[lastm].cnf, mgrs[lastm].allowed, LastRho)
ProbeDetectsInconsistency == (Probed /\ KindTag(lastc) \in ACKinds) => UPDetectsOn(mgrs[lastm].cnf, mgrs[lastm].allowed, LastRho)
ProbeArcConsistent == (Probed /\ KindTag(lastc) \in ACKinds) => UPCompleteOn(mgrs[lastm].cnf, mgrs[lastm].allowed, LastRho)
\* what Solve may answer (value-level, used by SatTrace)
SolveOK(sat, model, allowed) == (sat = 1 <=> allowed # {}) /\ (sat = 1 => model \in allowed)
=============================================================================
