\* C14 design-level check, universe B (thorough): best-of-two-trials selection; soft r=2, movable hard square,
\* fixed square, seeds on the even grid, two steps per dimension.
SPECIFICATION Spec
CONSTANTS
  HalfSet <- HalfA
  Profiles <- ProfB
  AreaProfiles <- AreaB
  Graphs = {"path"}
  FixSet <- FixA
  TrialSet = {2}
  MaxIter = 2
  GS = 2
  G = 2
  TOL = 0
  EMIT = FALSE
INVARIANT TemplatesOnLattice
INVARIANT NormalizeMeetsContract
INVARIANT InSpanInv
INVARIANT SeedInv
INVARIANT TrialInv
INVARIANT BestInv
INVARIANT AreasNetsUnchanged
INVARIANT FixedRectsUntouched
INVARIANT CommitInv
INVARIANT HardCentroid
CHECK_DEADLOCK FALSE
