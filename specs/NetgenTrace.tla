----------------------------- MODULE NetgenTrace -----------------------------
(***************************************************************************)
(* NETGEN, code -> spec: every run of tools.netgen.netgen.main is judged   *)
(* against Netgen!Design.  One trace = one command line T.case and what    *)
(* was observed:                                                           *)
(*   out   [rc (0 = returned, 1 = raised / exited), parsed, mods =         *)
(*          <<[name, area <<n,d>>, center <<>> | <<x, y>> in 1e-6 units]>>,*)
(*          nets = <<[pins, w <<n,d>>]>>]   the written YAML document      *)
(*   nl    [acc, mods, nets]                Netlist(outfile)               *)
(*   rc2, d1, d2                            second run, digests of files   *)
(* fails (property level)                                                  *)
(*   rejects            a nonsense command line was answered with a file   *)
(*   proper_or_rejected a degenerate size gave an improper design          *)
(*   raises / modules / areas / nets / weights / centers / loads /         *)
(*   loaded_same / idempotent       for defined command lines              *)
(* drift: module order differs from the generation order of the definition *)
(***************************************************************************)
EXTENDS Netgen, IOUtils

Batch == JsonDeserialize(IOEnv.TRACE_FILE)
VARIABLES tid, l
tvars == <<vars, tid, l>>
T == Batch[tid]

TraceInit == /\ tid \in 1..Len(Batch) /\ l = 1
             /\ phase = "chosen" /\ case = Batch[tid].case /\ design = NoDesign

Failed(cl) == {k \in DOMAIN cl : ~cl[k]}
IntW(w) == IF w[2] = 1 THEN w[1] ELSE -1
ObsNets(o) == {<<ToSet(o.nets[k].pins), IntW(o.nets[k].w)>> : k \in DOMAIN o.nets}
ObsPinSets(o) == {ToSet(o.nets[k].pins) : k \in DOMAIN o.nets}
ObsNames(o) == [i \in DOMAIN o.mods |-> o.mods[i].name]
\* no repeated name, every net >= 2 distinct declared pins, no net listed twice, positive weights
ProperObs(o) ==
  /\ Cardinality(ToSet(ObsNames(o))) = Len(o.mods)
  /\ \A k \in DOMAIN o.nets : /\ Cardinality(ToSet(o.nets[k].pins)) = Len(o.nets[k].pins) /\ Len(o.nets[k].pins) >= 2
                              /\ ToSet(o.nets[k].pins) \subseteq ToSet(ObsNames(o)) /\ o.nets[k].w[1] > 0
  /\ Cardinality(ObsPinSets(o)) = Len(o.nets)
Absv(x) == IF x < 0 THEN -x ELSE x
MICRO == 1000000
\* observed coordinate x (1e-6 units) against the fraction num/den, within tol (1e-6 units)
Near(x, num, den, tol) == Absv(x * den - num * MICRO) <= tol * den
CentersOK(c, g, o) ==
  IF c.centers = 0 THEN \A i \in DOMAIN o.mods : o.mods[i].center = <<>>
  ELSE LET sd == Sd(c)
           \* no noise: the grid position itself; noise: within 8 standard deviations of it
           tol == IF sd[1] = 0 THEN 1 ELSE (8 * sd[1] * MICRO) \div sd[2] + 1
       IN \A i \in DOMAIN o.mods :
            /\ o.mods[i].center # <<>>
            /\ \E k \in DOMAIN g.mods : g.mods[k] = o.mods[i].name
            /\ LET k == CHOOSE k \in DOMAIN g.mods : g.mods[k] = o.mods[i].name  p == g.centers[k] IN
               Near(o.mods[i].center[1], p[1], p[2], tol) /\ Near(o.mods[i].center[2], p[3], p[4], tol)
Reproducible(c) == c.centers = 0 \/ Sd(c)[1] = 0 \/ c.seed # -1

DefinedClauses(c, o, nl) ==
  LET g == Design(c) IN
  IF o.rc # 0 \/ o.parsed # 1 THEN [raises |-> FALSE]
  ELSE
  [raises |-> TRUE,
   modules |-> Len(o.mods) = Len(g.mods) /\ ToSet(ObsNames(o)) = Nodes(g),
   areas |-> \A i \in DOMAIN o.mods : o.mods[i].area = <<1, 1>>,
   nets |-> Len(o.nets) = Cardinality(g.nets) /\ ObsPinSets(o) = {e[1] : e \in g.nets},
   weights |-> ObsNets(o) = g.nets,
   centers |-> ToSet(ObsNames(o)) = Nodes(g) => CentersOK(c, g, o),
   loads |-> nl.acc = 1,
   loaded_same |-> nl.acc = 1 => /\ [i \in DOMAIN nl.mods |-> nl.mods[i].name] = ObsNames(o)
                                 /\ \A i \in DOMAIN nl.mods : i \in DOMAIN o.mods /\ nl.mods[i].area = o.mods[i].area
                                 /\ [k \in DOMAIN nl.nets |-> <<nl.nets[k].pins, nl.nets[k].w>>] = [k \in DOMAIN o.nets |-> <<o.nets[k].pins, o.nets[k].w>>],
   idempotent |-> Reproducible(c) => T.rc2 = 0 /\ T.d2 = T.d1]

Judge ==
  LET c == T.case
      fl == IF Nonsense(c) THEN (IF T.out.rc = 0 THEN {"rejects"} ELSE {})
            ELSE IF Degenerate(c) THEN (IF T.out.rc = 0 /\ ~(T.out.parsed = 1 /\ ProperObs(T.out)) THEN {"proper_or_rejected"} ELSE {})
            ELSE Failed(DefinedClauses(c, T.out, T.nl))
      df == IF Defined(c) /\ T.out.rc = 0 /\ T.out.parsed = 1 /\ ToSet(ObsNames(T.out)) = Nodes(Design(c)) /\ ObsNames(T.out) # Design(c).mods
            THEN {"module_order_differs_from_definition"} ELSE {}
  IN /\ l = 1 /\ l' = 2
     /\ PrintT(ToJson([tag |-> "VERDICT", id |-> T.id, fails |-> fl, drift |-> df]))
     /\ UNCHANGED <<vars, tid>>
TraceSpec == TraceInit /\ [][Judge]_tvars
=============================================================================
