SPECIFICATION TraceSpec
CONSTANTS
  TYPES = {}
  SIZES = {}
  GRIDS = {}
  HLEVELS = {}
  DIESEL = {}
  EDITS = {}
  GCELLS = {}
  POSSEL = {}
  TOL = 2
  COMTOL = 30
  EMIT = FALSE
CHECK_DEADLOCK FALSE
