\* behaviour generation (quick)
SPECIFICATION Spec
CONSTANTS
  Dies <- DiesQ
  Widths = {0, 7, 100}
  Heights = {0, 5}
  Frames = {0, 20}
  Default = 1000
  ModuleCat <- CatQ
  MaxMods = 2
  MaxNets = 1
  Scenes <- ScenesAll
  NameAlphabet = {"a", ".", "/"}
  MaxName = 4
  EMIT = TRUE
CHECK_DEADLOCK FALSE
