SPECIFICATION Spec
CONSTANTS
  UNIVERSE = "quick"
  EMIT = FALSE
INVARIANT TypeOK
INVARIANT InvAccepted
INVARIANT InvSameDesign
INVARIANT InvRepeat
INVARIANT InvReadLastWrite
INVARIANT InvDefined
INVARIANT InvDefinedSizes
PROPERTY SrcUnchanged
CHECK_DEADLOCK FALSE
