\* Universe E (thorough): one + or * application, an optional assign or undo, then an Equation for every comparison, hard and soft, epsilon 0, 1/4, 1e-7.
SPECIFICATION Spec
CONSTANTS
  Consts <- ConstsA
  Scals <- ScalsH
  Vals <- ValsB
  Inits <- InitsA
  BinOps <- TwoBin
  WithSqrt = FALSE
  WithRaw = FALSE
  SameNames = {0}
  MaxBuild = 1
  MaxOps = 2
  OpKinds = {"assign", "undo", "eq"}
  RehomeTargets = {}
  EqCmps = {"LE", "GE", "EQ"}
  EqEps <- EpsA
  STACKUNDO = FALSE
  EMIT = FALSE
INVARIANT InvShape
INVARIANT InvVarList
INVARIANT InvUndo
INVARIANT InvUndoTerm
INVARIANT InvRehome
INVARIANT InvCheckpoint
INVARIANT InvEquation
CHECK_DEADLOCK FALSE
