\* DRAW design-level check (quick): 3 dies x widths {0,7,100} x heights {0,5} x frames {0,20}, <= 2 modules of 7, <= 1 net, 2 allocation scenes, names to 4 characters
SPECIFICATION Spec
CONSTANTS
  Dies <- DiesQ
  Widths = {0, 7, 100}
  Heights = {0, 5}
  Frames = {0, 20}
  Default = 1000
  ModuleCat <- CatQ
  MaxMods = 2
  MaxNets = 1
  Scenes <- ScenesAll
  NameAlphabet = {"a", ".", "/"}
  MaxName = 4
  EMIT = FALSE
INVARIANT LemmaRequested
INVARIANT LemmaAspect
INVARIANT LemmaDefault
INVARIANT LemmaCorners
INVARIANT LemmaInside
INVARIANT LemmaMonotone
INVARIANT LemmaAffine
INVARIANT LemmaBBox
INVARIANT LemmaPlot
INVARIANT LemmaStar
INVARIANT LemmaName
CHECK_DEADLOCK FALSE
