SPECIFICATION Spec
CONSTANTS
  GRIDS <- QuickSolveGrids
  KMAX = 3
  DEN = 2
  OCCVALS = {0, 1, 2}
  FNUM = 100
  FDEN = 1
  RATIO = 2
  MODES = {"solve"}
  BORDER = "grid"
  UNIT = 1
  EMIT = FALSE
INVARIANT TypeOK
INVARIANT SolveMeetsProperty
INVARIANT LoopOptimal
INVARIANT LoopNoShapes
CHECK_DEADLOCK FALSE
