\* MUST FAIL (InvUndo): undo modelled as a stack (back to the value before the last assign). The module restores the checkpoint.
SPECIFICATION Spec
CONSTANTS
  Consts <- ConstsH
  Scals <- ScalsH
  Vals <- ValsA
  Inits <- InitsA
  BinOps <- TwoBin
  WithSqrt = FALSE
  WithRaw = FALSE
  SameNames = {0}
  MaxBuild = 1
  MaxOps = 3
  OpKinds = {"assign", "undo"}
  RehomeTargets = {}
  EqCmps = {}
  EqEps <- EpsA
  STACKUNDO = TRUE
  EMIT = FALSE
INVARIANT InvShape
INVARIANT InvVarList
INVARIANT InvUndo
INVARIANT InvUndoTerm
INVARIANT InvRehome
INVARIANT InvCheckpoint
INVARIANT InvEquation
CHECK_DEADLOCK FALSE
