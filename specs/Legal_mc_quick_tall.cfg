\* Universe T: a 4x400 die (aspect 1:100): two 2x2 modules above each other; the smoothing tolerance is 0.01*min(W,H)/n.
SPECIFICATION Spec
CONSTANTS
  DW = 4
  DH = 400
  RP = 2
  RQ = 1
  TXS = {1}
  TYS = {10, 12}
  TrunkSizes <- TrunkSizes2
  BranchSizes <- BranchSizes1
  BranchOffs = {0}
  Kinds = {"soft", "hard"}
  Slacks = {0}
  MaxMods = 2
  MaxBr = 0
  MaxRects = 2
  Deltas <- DeltasA
  Slides <- SlidesA
  EdgeDs <- EdgeDsA
  CHAIN = FALSE
  WILD = FALSE
  FIXMODEL = "intended"
  ANYRATIO = FALSE
  BASEMOD = 2
  EMIT = FALSE
INVARIANT InvShape
INVARIANT InvBuiltLegal
INVARIANT InvSystemExact
INVARIANT InvGroups
INVARIANT InvPerturbOne
INVARIANT InvWild
CHECK_DEADLOCK FALSE
