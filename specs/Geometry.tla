------------------------------ MODULE Geometry ------------------------------
(***************************************************************************)
(* Plane geometry of axis-parallel rectangles on an integer lattice.       *)
(* This is the TLA+ counterpart of frame/geometry/geometry.py: every       *)
(* public Rectangle method has an operator here defined directly from      *)
(* corner coordinates.  A rectangle is a record [x1,y1,x2,y2] of lattice   *)
(* coordinates (lower-left / upper-right corner), never centre/size, so    *)
(* that all arithmetic is exact integer arithmetic.  Tags (region, fixed,  *)
(* hard) travel in separate fields of the records that use rectangles.     *)
(* All other specifications EXTEND this module.                            *)
(***************************************************************************)
EXTENDS Integers, FiniteSets, Sequences, FiniteSetsExt, SequencesExt

\* binary max/min; Max(S)/Min(S) on sets come from FiniteSetsExt
Mx(a, b) == IF a >= b THEN a ELSE b
Mn(a, b) == IF a <= b THEN a ELSE b
Abs(a) == IF a >= 0 THEN a ELSE -a

Rect(x1, y1, x2, y2) == [x1 |-> x1, y1 |-> y1, x2 |-> x2, y2 |-> y2]
\* from a JSON array <<x1,y1,x2,y2,...>>
RectOf(s) == Rect(s[1], s[2], s[3], s[4])
IsRect(r) == r.x1 < r.x2 /\ r.y1 < r.y2

W(r) == r.x2 - r.x1
H(r) == r.y2 - r.y1
Area(r) == W(r) * H(r)
\* doubled centre, so that it stays integral
Cx2(r) == r.x1 + r.x2
Cy2(r) == r.y1 + r.y2

\* all rectangles with corners on the lattice lo..hi (both axes)
RectsOn(xlo, xhi, ylo, yhi) ==
  { r \in [x1 : xlo..xhi, y1 : ylo..yhi, x2 : xlo..xhi, y2 : ylo..yhi] : IsRect(r) }

(***************************************************************************)
(* Overlap, intersection, containment, touching                            *)
(***************************************************************************)
OvW(a, b) == Mn(a.x2, b.x2) - Mx(a.x1, b.x1)
OvH(a, b) == Mn(a.y2, b.y2) - Mx(a.y1, b.y1)
OverlapArea(a, b) == IF OvW(a, b) > 0 /\ OvH(a, b) > 0 THEN OvW(a, b) * OvH(a, b) ELSE 0
Overlaps(a, b) == OverlapArea(a, b) > 0
\* the common region (only meaningful when Overlaps)
Inter(a, b) == Rect(Mx(a.x1, b.x1), Mx(a.y1, b.y1), Mn(a.x2, b.x2), Mn(a.y2, b.y2))
\* a inside b (closed)
Inside(a, b) == a.x1 >= b.x1 /\ a.y1 >= b.y1 /\ a.x2 <= b.x2 /\ a.y2 <= b.y2
InsideStrict(a, b) == a.x1 > b.x1 /\ a.y1 > b.y1 /\ a.x2 < b.x2 /\ a.y2 < b.y2
\* point membership (closed); the point is given doubled (px2 = 2*px) so centres are expressible
PointIn2(px2, py2, r) == 2 * r.x1 <= px2 /\ px2 <= 2 * r.x2 /\ 2 * r.y1 <= py2 /\ py2 <= 2 * r.y2
PointIn2Strict(px2, py2, r) == 2 * r.x1 < px2 /\ px2 < 2 * r.x2 /\ 2 * r.y1 < py2 /\ py2 < 2 * r.y2
\* closed rectangles share at least a point (distance 0)
Touch(a, b) == OvW(a, b) >= 0 /\ OvH(a, b) >= 0
\* L-infinity gap between closed rectangles (0 when they touch)
Gap(a, b) == Mx(Mx(-OvW(a, b), -OvH(a, b)), 0)

(***************************************************************************)
(* Aspect ratio as a comparison of integers: AR(r) <= p/q                   *)
(***************************************************************************)
ARLeq(r, p, q) == Mx(W(r), H(r)) * q <= Mn(W(r), H(r)) * p

(***************************************************************************)
(* Splitting                                                               *)
(***************************************************************************)
\* cut by a vertical line x = c  (FRAME: split_horizontal(x)); defined for x1 < c < x2
CutX(r, c) == << Rect(r.x1, r.y1, c, r.y2), Rect(c, r.y1, r.x2, r.y2) >>
\* cut by a horizontal line y = c (FRAME: split_vertical(y))
CutY(r, c) == << Rect(r.x1, r.y1, r.x2, c), Rect(r.x1, c, r.x2, r.y2) >>
CanHalveX(r) == Cx2(r) % 2 = 0
CanHalveY(r) == Cy2(r) % 2 = 0
HalveX(r) == CutX(r, Cx2(r) \div 2)
HalveY(r) == CutY(r, Cy2(r) \div 2)
\* FRAME's Rectangle.split(): the larger dimension is halved; ties cut the width
SplitsY(r) == H(r) > W(r)
CanHalve(r) == IF SplitsY(r) THEN CanHalveY(r) ELSE CanHalveX(r)
Halve(r) == IF SplitsY(r) THEN HalveY(r) ELSE HalveX(r)

\* n recursive halvings: the set of 2^n pieces (requires enough divisibility)
RECURSIVE HalveN(_, _)
HalveN(r, n) == IF n = 0 THEN {r}
                ELSE LET p == Halve(r) IN HalveN(p[1], n - 1) \cup HalveN(p[2], n - 1)
RECURSIVE CanHalveN(_, _)
CanHalveN(r, n) == IF n = 0 THEN TRUE
                   ELSE CanHalve(r) /\ LET p == Halve(r) IN CanHalveN(p[1], n - 1) /\ CanHalveN(p[2], n - 1)

\* nrows x ncols grid of equal cells (requires divisibility); row-major from the lower-left corner
CanGrid(r, nrows, ncols) == W(r) % ncols = 0 /\ H(r) % nrows = 0
GridCell(r, nrows, ncols, row, col) ==
  LET sx == W(r) \div ncols  sy == H(r) \div nrows
  IN Rect(r.x1 + col * sx, r.y1 + row * sy, r.x1 + (col + 1) * sx, r.y1 + (row + 1) * sy)
GridSeq(r, nrows, ncols) ==
  [ k \in 1..(nrows * ncols) |-> GridCell(r, nrows, ncols, (k - 1) \div ncols, (k - 1) % ncols) ]
GridSet(r, nrows, ncols) == { GridSeq(r, nrows, ncols)[k] : k \in 1..(nrows * ncols) }

(***************************************************************************)
(* Cuttability with the sliver rule (ratio = rn/rd).  The statement        *)
(* brackets the answer: never cuttable unless strictly inside; always      *)
(* cuttable when neither piece is thinner than ratio * (either side).      *)
(***************************************************************************)
StrictlyInX(r, c) == r.x1 < c /\ c < r.x2
StrictlyInY(r, c) == r.y1 < c /\ c < r.y2
NoSliverX(r, c, rn, rd) == Mn(c - r.x1, r.x2 - c) * rd > rn * Mx(W(r), H(r))
NoSliverY(r, c, rn, rd) == Mn(c - r.y1, r.y2 - c) * rd > rn * Mx(W(r), H(r))
\* what FRAME implements (x cut compares with the height, y cut with the width)
XCuttableImpl(r, c, rn, rd) == StrictlyInX(r, c) /\ Mn(c - r.x1, r.x2 - c) * rd > rn * H(r)
YCuttableImpl(r, c, rn, rd) == StrictlyInY(r, c) /\ Mn(c - r.y1, r.y2 - c) * rd > rn * W(r)

(***************************************************************************)
(* Sets of rectangles                                                      *)
(***************************************************************************)
SumArea(S) == FoldSet(LAMBDA r, acc : acc + Area(r), 0, S)
PairwiseDisjoint(S) == \A a \in S : \A b \in S : a # b => ~Overlaps(a, b)
CoveredArea(r, S) == FoldSet(LAMBDA s, acc : acc + OverlapArea(r, s), 0, S)
\* S tiles the rectangle r exactly
Tiles(S, r) == /\ \A s \in S : IsRect(s) /\ Inside(s, r)
               /\ PairwiseDisjoint(S)
               /\ SumArea(S) = Area(r)
\* two sets of pairwise disjoint rectangles cover exactly the same region of the plane
SameRegion(S, T) == /\ \A s \in S : CoveredArea(s, T) = Area(s)
                    /\ \A t \in T : CoveredArea(t, S) = Area(t)
\* bounding box of a non-empty set
BBox(S) == Rect(Min({r.x1 : r \in S}), Min({r.y1 : r \in S}), Max({r.x2 : r \in S}), Max({r.y2 : r \in S}))

\* sorted sequence of distinct boundary coordinates
XCuts(S) == SetToSortSeq({r.x1 : r \in S} \cup {r.x2 : r \in S}, <)
YCuts(S) == SetToSortSeq({r.y1 : r \in S} \cup {r.y2 : r \in S}, <)

(***************************************************************************)
(* Lemmas checked by TLC on bounded universes (see GeometryOps.tla)        *)
(***************************************************************************)
LemmaOverlapSym(a, b) == OverlapArea(a, b) = OverlapArea(b, a)
LemmaInter(a, b) == Overlaps(a, b) =>
    /\ IsRect(Inter(a, b)) /\ Inside(Inter(a, b), a) /\ Inside(Inter(a, b), b)
    /\ Area(Inter(a, b)) = OverlapArea(a, b)
LemmaCutX(r, c) == StrictlyInX(r, c) => Tiles({CutX(r, c)[1], CutX(r, c)[2]}, r)
LemmaCutY(r, c) == StrictlyInY(r, c) => Tiles({CutY(r, c)[1], CutY(r, c)[2]}, r)
LemmaHalve(r) == CanHalve(r) => Tiles({Halve(r)[1], Halve(r)[2]}, r) /\ Area(Halve(r)[1]) = Area(Halve(r)[2])
LemmaGrid(r, nr, nc) == CanGrid(r, nr, nc) =>
    Tiles(GridSet(r, nr, nc), r) /\ Cardinality(GridSet(r, nr, nc)) = nr * nc
=============================================================================
