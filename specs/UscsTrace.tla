----------------------------- MODULE UscsTrace -----------------------------
(***************************************************************************)
(* USCS, code -> spec: batch validation of observed runs of the real       *)
(* parser.  One TLC initial state per run.  A trace holds the benchmark    *)
(* (T.bench, the abstract source the harness rendered into .blocks /       *)
(* .nets / .pl text), whether the text was an out-of-language probe        *)
(* (T.probe), and the observation T.obs:                                   *)
(*   raised    1 when tools.uscs_parser.uscs_parser.main raised            *)
(*   mods,nets what the YAML it wrote says, in the abstract FPEF shape of  *)
(*             Uscs.tla (areas and coordinates integers, aspect ratios in  *)
(*             thousandths, centres doubled)                               *)
(*   accepted  1 when frame.netlist.Netlist loaded that YAML               *)
(*   lmods, lnets  the netlist object Netlist built (when accepted)        *)
(* The machine of Uscs.tla is replayed with the observed values: bench is  *)
(* installed, fpef' := the observed parse, and the contract is judged with *)
(* the spec's own operators (Expected, ParsedClauses, WellFormed, Loaded,  *)
(* ReadAccepts).  Total verdict: property clauses -> fails, conformance of *)
(* the reader model -> drift.                                              *)
(***************************************************************************)
EXTENDS Uscs, IOUtils

Batch == JsonDeserialize(IOEnv.TRACE_FILE)

VARIABLES tid, l, fails, drift
tvars == <<vars, tid, l, fails, drift>>
T == Batch[tid]
BenchOf(t) == [ blocks |-> t.bench.blocks, terms |-> t.bench.terms, nets |-> t.bench.nets, pl |-> t.bench.pl ]
ObsMod(m) == Mod(m.name, m.area, m.lo, m.hi, m.rects, m.term, m.fixed, m.hasc, m.c2)
ObsFpef(o) == [ err |-> o.raised = 1, mods |-> [ k \in DOMAIN o.mods |-> ObsMod(o.mods[k]) ], nets |-> o.nets ]

TraceInit == /\ tid \in 1..Len(Batch) /\ l = 1 /\ fails = {} /\ drift = {}
             /\ pc = "rendered" /\ ph = 4 /\ bench = BenchOf(Batch[tid]) /\ style = <<>> /\ docs = <<>> /\ fpef = <<>>

Bad(cl) == { k \in DOMAIN cl : ~cl[k] }
IsDrift(k) == k \in { "d_reader_model", "d_extra_keys" }

LoadedSame(o, exp) ==
  LET want == Loaded(exp) IN
  /\ Len(o.lmods) = Len(want.mods)
  /\ \A k \in DOMAIN want.mods :
       LET a == o.lmods[k]  b == want.mods[k] IN
       /\ a.name = b.name /\ a.term = b.term /\ a.fixed = b.fixed /\ a.hard = b.hard /\ a.area = b.area
       /\ a.lo = b.lo /\ a.hi = b.hi /\ a.rects = b.rects /\ a.hasc = b.hasc /\ (b.hasc = 1 => a.c2 = b.c2)
  /\ o.lnets = want.nets

\* DoParse with the observed result
Judge ==
  /\ l = 1
  /\ LET o == T.obs  exp == Expected(bench)  f == ObsFpef(o)
         parsed == ParsedClauses(exp, f.mods, f.nets)
         cl == IF T.probe = 1
               THEN [ no_silent_drop |-> o.raised = 1 \/ AllTrue(parsed) ]
               ELSE IF o.raised = 1 THEN [ returns |-> FALSE ]
               ELSE parsed @@ [ returns |-> o.raised = 0,
                                accepted_iff |-> o.raised = 0 => ((o.accepted = 1) <=> WellFormed(bench)),
                                netlist_view |-> (o.raised = 0 /\ o.accepted = 1 /\ AllTrue(parsed)) => LoadedSame(o, exp) ]
         dr == [ d_reader_model |-> o.raised = 0 => ((o.accepted = 1) <=> ReadAccepts(f)),
                 d_extra_keys |-> o.extra = 0 ]
     IN /\ fails' = { <<1, k>> : k \in Bad(cl) }
        /\ drift' = { <<1, k>> : k \in Bad(dr) }
        /\ fpef' = f
  /\ pc' = "parsed" /\ l' = 2 /\ UNCHANGED <<ph, bench, style, docs, tid>>

Done == /\ l = 2 /\ l' = 3
        /\ PrintT(ToJson([ tag |-> "VERDICT", id |-> T.id, fails |-> fails, drift |-> drift ]))
        /\ UNCHANGED <<vars, tid, fails, drift>>

TraceNext == Judge \/ Done
TraceSpec == TraceInit /\ [][TraceNext]_tvars
=============================================================================
