SPECIFICATION Spec
CONSTANTS
  DW = 4
  DH = 3
  OUT = 1
  MAXR = 2
  TAGS <- Tags2
  XS <- XSsliver
  YS <- YSflat
  SPLITS <- SplitsQ
  GRIDS <- GridsQ
  EMIT = TRUE
CHECK_DEADLOCK FALSE
