SPECIFICATION Spec
CONSTANTS
  NEWLINE_TEXT = FALSE
  Alpha = {"a", "n", "e", "0", "udig", "_", ".", "-", "sp", "nl", "uni", "q", ":", "br"}
  MaxLen = 5
  EMIT = TRUE
CHECK_DEADLOCK FALSE
