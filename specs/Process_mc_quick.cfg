SPECIFICATION Spec
CONSTANTS
  KINDS = {"netlist", "die", "alloc", "stog", "encode", "legal", "strop", "undef", "pads", "initalloc"}
  PROBES = {"netlist", "die", "alloc", "stog", "encode", "legal", "strop", "sliver", "initalloc"}
  SCALES = {0, 2, 4}
  MID = 2
  BAND = 2
  MAXH = 2
  EMIT = FALSE
INVARIANT NoLeak
INVARIANT EpsOwnerIsFirstLoader
PROPERTY EpsSetOnce
PROPERTY StoreMonotone
CHECK_DEADLOCK FALSE
