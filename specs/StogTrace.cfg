SPECIFICATION TraceSpec
CONSTANTS
  NX = 4
  NY = 4
  MAXR = 4
  HISTLEN = 4
  EMIT = FALSE

CHECK_DEADLOCK FALSE
