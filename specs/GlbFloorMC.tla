----------------------------- MODULE GlbFloorMC -----------------------------
(* Instances for the TLC configurations of GlbFloor.tla (cfg files cannot hold records).                  *)
(* Model checking: an 8x4 (or 12x4) lattice die whose right-most 4x4 square is a fixed module; the rest is  *)
(* one (or two) refinable 4x4 cell(s).  Movable modules: a soft one and / or a flippable hard one made of   *)
(* two 2x2 squares.  Ratios are k/Den; thr is the threshold in the same unit.                               *)
(* Generation: parameter combinations of the conformance runs (the harness expands a combination into a    *)
(* die, a netlist derived from the examples under tools/glbfloor/example, and the call parameters).        *)
EXTENDS GlbFloor

Soft(c) == [ kind |-> "soft", flip |-> 0, rects |-> <<>>, c0 |-> c ]
Hard(f, x, y) == [ kind |-> "hard", flip |-> f, rects |-> << <<x, y, x + 2, y + 2>>, <<x + 2, y, x + 4, y + 2>> >>, c0 |-> <<x + 2, y + 1>> ]
Fixed(x) == [ kind |-> "fixed", flip |-> 0, rects |-> << <<x, 0, x + 4, 4>> >>, c0 |-> <<x + 2, 2>> ]
Inst(die, cs, ow, ms, thr, mi) ==
  [ die |-> die, cells |-> cs, owner |-> ow, mods |-> ms, thr |-> thr, maxiter |-> mi,
    variant |-> "mc", ascale |-> 0, alpha |-> 0, init |-> "none" ]

\* one refinable cell + the fixed cell; soft + flippable hard + fixed; two optimisations
Q1(thr) == Inst(<<8, 4>>, << <<0, 0, 4, 4>>, <<4, 0, 8, 4>> >>, <<0, 3>>, << Soft(<<2, 2>>), Hard(1, 0, 0), Fixed(4) >>, thr, 2)
\* one refinable cell + the fixed cell; flippable hard + fixed; three optimisations (two refinements)
Q2 == Inst(<<8, 4>>, << <<0, 0, 4, 4>>, <<4, 0, 8, 4>> >>, <<0, 2>>, << Hard(1, 0, 0), Fixed(4) >>, 2, 3)
\* two refinable cells + the fixed cell; rigid (not flippable) hard + fixed; two optimisations
T3 == Inst(<<12, 4>>, << <<0, 0, 4, 4>>, <<4, 0, 8, 4>>, <<8, 0, 12, 4>> >>, <<0, 0, 2>>, << Hard(0, 4, 2), Fixed(8) >>, 2, 2)
\* no fixed module at all: two refinable cells, soft + flippable hard
T4 == Inst(<<8, 4>>, << <<0, 0, 4, 4>>, <<4, 0, 8, 4>> >>, <<0, 0>>, << Soft(<<6, 2>>), Hard(1, 2, 0) >>, 2, 2)

\* an L-shaped hard module (12x6 trunk + 6x6 branch, centroid on the lattice): not symmetric in either axis, so a
\* mirrored placement differs from the original in both
HardL(f, x, y) == [ kind |-> "hard", flip |-> f, rects |-> << <<x, y, x + 12, y + 6>>, <<x, y + 6, x + 6, y + 12>> >>, c0 |-> <<x + 5, y + 5>> ]
FixedR(x1, y1, x2, y2) == [ kind |-> "fixed", flip |-> 0, rects |-> << <<x1, y1, x2, y2>> >>, c0 |-> <<(x1 + x2) \div 2, (y1 + y2) \div 2>> ]
Two12 == << <<0, 0, 12, 12>>, <<12, 0, 24, 12>> >>
\* 24x12 die: soft + flippable L + fixed 12x12 block; soft + flippable L on two free cells; rigid L + fixed
X1(thr) == Inst(<<24, 12>>, Two12, <<0, 3>>, << Soft(<<6, 6>>), HardL(1, 0, 0), FixedR(12, 0, 24, 12) >>, thr, 1)
X2(thr) == Inst(<<24, 12>>, Two12, <<0, 0>>, << Soft(<<18, 6>>), HardL(1, 6, 0) >>, thr, 1)
X3(thr) == Inst(<<24, 12>>, Two12, <<0, 2>>, << HardL(0, 0, 0), FixedR(12, 0, 24, 12) >>, thr, 2)
\* two variants of the same macro: the SAME trunk rectangle (same place, same shape), the branch on the other side; the
\* both rigid (each module must come back congruent to ITS OWN rectangles)
HardL2(f, x, y) == [ kind |-> "hard", flip |-> f, rects |-> << <<x, y, x + 12, y + 6>>, <<x + 6, y + 6, x + 12, y + 12>> >>, c0 |-> <<x + 7, y + 5>> ]
X4(thr) == Inst(<<24, 12>>, Two12, <<0, 0>>, << HardL(0, 6, 0), HardL2(0, 6, 0) >>, thr, 1)
\* solutions replayed into the real extract_solution (ratios k/4: 0.25, 0.5, 0.75 are exact in binary)
SolQuick == { X1(3), X2(3), X4(3) }
SolThorough == { X1(3), X1(2), X2(3), X2(2), X3(3), X4(3), X4(2) }

QuickInstances == { Q1(2), Q2 }
\* thr = Den (threshold 1.0) is included on purpose: every non-empty free cell is then refined, the fixed one never
ThoroughInstances == { Q1(2), Q1(3), Q2, T3, T4, X3(2), X4(2) }

\* generation (tall, wide and flat dies; alpha 999 stands for 0.999): <<die (doubled lattice units)>>, variant, area scale (quarters of a grid square), threshold %, alpha %,
\* iteration limit, initial refinement
Gen(dies, variants, scales, thrs, alphas, iters, inits) ==
  { [ die |-> d, cells |-> <<>>, owner |-> <<>>, mods |-> <<>>, thr |-> t, maxiter |-> i,
      variant |-> v, ascale |-> s, alpha |-> a, init |-> n ] :
    d \in dies, v \in variants, s \in scales, t \in thrs, a \in alphas, i \in iters, n \in inits }
GenQuick == Gen({ <<4, 6>>, <<4, 8>>, <<6, 4>>, <<8, 4>> }, { "soft", "fixed", "hard", "flip", "mixed", "twin", "over" }, { 3, 4 }, { 60, 80, 95 }, { 0, 30, 100, 999 },
                { 1, 2, 3 }, { "none", "grid", "split4", "split8" })
GenThorough == Gen({ <<4, 6>>, <<4, 8>>, <<6, 6>>, <<6, 4>>, <<8, 4>>, <<12, 4>> }, { "soft", "fixed", "hard", "flip", "mixed", "twin", "over" }, { 2, 3, 4 }, { 50, 60, 70, 80, 95 },
                   { 0, 30, 50, 100, 999 }, { 1, 2, 3, 4 }, { "none", "grid", "split4", "split8" })
=============================================================================
