----------------------------- MODULE GlbFloorMC -----------------------------
(* Instances for the TLC configurations of GlbFloor.tla (cfg files cannot hold records).                  *)
(* Model checking: an 8x4 (or 12x4) lattice die whose right-most 4x4 square is a fixed module; the rest is  *)
(* one (or two) refinable 4x4 cell(s).  Movable modules: a soft one and / or a flippable hard one made of   *)
(* two 2x2 squares.  Ratios are k/Den; thr is the threshold in the same unit.                               *)
(* Generation: parameter combinations of the conformance runs (the harness expands a combination into a    *)
(* die, a netlist derived from the examples under tools/glbfloor/example, and the call parameters).        *)
EXTENDS GlbFloor

Soft(c) == [ kind |-> "soft", flip |-> 0, rects |-> <<>>, c0 |-> c ]
Hard(f, x, y) == [ kind |-> "hard", flip |-> f, rects |-> << <<x, y, x + 2, y + 2>>, <<x + 2, y, x + 4, y + 2>> >>, c0 |-> <<x + 2, y + 1>> ]
Fixed(x) == [ kind |-> "fixed", flip |-> 0, rects |-> << <<x, 0, x + 4, 4>> >>, c0 |-> <<x + 2, 2>> ]
Inst(die, cs, ow, ms, thr, mi) ==
  [ die |-> die, cells |-> cs, owner |-> ow, mods |-> ms, thr |-> thr, maxiter |-> mi,
    variant |-> "mc", ascale |-> 0, alpha |-> 0, init |-> "none" ]

\* one refinable cell + the fixed cell; soft + flippable hard + fixed; two optimisations
Q1(thr) == Inst(<<8, 4>>, << <<0, 0, 4, 4>>, <<4, 0, 8, 4>> >>, <<0, 3>>, << Soft(<<2, 2>>), Hard(1, 0, 0), Fixed(4) >>, thr, 2)
\* one refinable cell + the fixed cell; flippable hard + fixed; three optimisations (two refinements)
Q2 == Inst(<<8, 4>>, << <<0, 0, 4, 4>>, <<4, 0, 8, 4>> >>, <<0, 2>>, << Hard(1, 0, 0), Fixed(4) >>, 2, 3)
\* two refinable cells + the fixed cell; rigid (not flippable) hard + fixed; two optimisations
T3 == Inst(<<12, 4>>, << <<0, 0, 4, 4>>, <<4, 0, 8, 4>>, <<8, 0, 12, 4>> >>, <<0, 0, 2>>, << Hard(0, 4, 2), Fixed(8) >>, 2, 2)
\* no fixed module at all: two refinable cells, soft + flippable hard
T4 == Inst(<<8, 4>>, << <<0, 0, 4, 4>>, <<4, 0, 8, 4>> >>, <<0, 0>>, << Soft(<<6, 2>>), Hard(1, 2, 0) >>, 2, 2)

QuickInstances == { Q1(2), Q2 }
\* thr = Den (threshold 1.0) is included on purpose: refine then halves the fixed cell too, and the clauses still hold
ThoroughInstances == { Q1(2), Q1(3), Q2, T3, T4 }

\* generation: <<die (doubled lattice units)>>, variant, area scale (quarters of a grid square), threshold %, alpha %,
\* iteration limit, initial refinement
Gen(dies, variants, scales, thrs, alphas, iters, inits) ==
  { [ die |-> d, cells |-> <<>>, owner |-> <<>>, mods |-> <<>>, thr |-> t, maxiter |-> i,
      variant |-> v, ascale |-> s, alpha |-> a, init |-> n ] :
    d \in dies, v \in variants, s \in scales, t \in thrs, a \in alphas, i \in iters, n \in inits }
GenQuick == Gen({ <<4, 6>>, <<4, 8>> }, { "soft", "fixed", "hard", "flip", "mixed" }, { 3, 4 }, { 60, 80, 95 }, { 0, 30, 100 },
                { 1, 2, 3 }, { "none", "grid", "split4", "split8" })
GenThorough == Gen({ <<4, 6>>, <<4, 8>>, <<6, 6>> }, { "soft", "fixed", "hard", "flip", "mixed" }, { 2, 3, 4 }, { 50, 60, 70, 80, 95 },
                   { 0, 30, 50, 100 }, { 1, 2, 3, 4 }, { "none", "grid", "split4", "split8" })
=============================================================================
