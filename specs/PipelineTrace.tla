--------------------------- MODULE PipelineTrace ---------------------------
(***************************************************************************)
(* PIPELINE, code -> spec: batch validation of real flows.                 *)
(*                                                                         *)
(* A trace is one execution of                                             *)
(*    netgen.main -> (user edit) -> spectral.main -> force.main ->         *)
(*    glbfloor.main                                                        *)
(* on files, every stage reading what the previous one wrote.  After every *)
(* stage the harness reads the written file(s) with the reader the NEXT    *)
(* stage uses (frame.netlist.Netlist, frame.allocation.Allocation) and     *)
(* records the abstract document (Pipeline.tla header).  An event is       *)
(*   [stage, status, accepted, net, raw, alloc]                            *)
(*   status   "ok" | "raised" (the stage failed on the documents it was    *)
(*            handed) | "nosolution" (GEKKO found no solution: counted,    *)
(*            never a violation)                                           *)
(*   accepted 1 iff every file the stage wrote was read back successfully  *)
(*   raw      <<name, has, x, y>> per module: the `center` field as        *)
(*            written in the file (the reader may override it from the     *)
(*            rectangles)                                                  *)
(* Each event is consumed by the Pipeline action of its stage              *)
(* (NetgenWrites, UserWrites, StageTo, GlbTo, Stops), with the observed    *)
(* documents as the new state, and judged by the stage's Post operator and *)
(* the precondition of the stage that reads next.  Verdicts are total.     *)
(* Lengths in 1e-6 of the larger die side; TOL = 2, COMTOL = 30 (3 % of    *)
(* the die side: glbfloor drops shares below 1 - threshold from the        *)
(* allocation it writes and GEKKO's tolerance is 1e-3).                    *)
(***************************************************************************)
EXTENDS Pipeline, IOUtils

Batch == JsonDeserialize(IOEnv.TRACE_FILE)

VARIABLES tid, l, fails, drift,
          judged     \* number of modules whose centre was compared with the centre of mass of their shares (non-vacuity)
tvars == <<vars, tid, l, fails, drift, judged>>

T == Batch[tid]
TraceInit == /\ tid \in 1..Len(Batch) /\ l = 1 /\ fails = {} /\ drift = {} /\ judged = 0 /\ Init

\* the precondition of the stage that reads what stage s wrote
NextPre(s, doc, a) == CASE s = "netgen" -> WellFormed(doc)
                        [] s = "user" -> SpectralPre(doc)
                        [] s = "spectral" -> ForcePre(doc)
                        [] s = "force" -> GlbfloorPre(doc)
                        [] s = "glbfloor" -> RectPre(doc, a)
\* the precondition of stage s itself, on the document in flight
OwnPre(s) == CASE s = "spectral" -> SpectralPre(net) [] s = "force" -> ForcePre(net) [] s = "glbfloor" -> GlbfloorPre(net)
               [] OTHER -> TRUE

RawDrift(e) == IF e.status = "ok" /\ e.accepted = 1 /\
                  \E i \in DOMAIN e.raw : \E j \in DOMAIN e.net.mods :
                     /\ e.raw[i][1] = MName(e.net.mods[j]) /\ e.raw[i][2] = 1 /\ MHas(e.net.mods[j]) = 1
                     /\ (Abs(e.raw[i][3] - MX(e.net.mods[j])) > TOL \/ Abs(e.raw[i][4] - MY(e.net.mods[j])) > TOL)
               THEN {"centre_field_differs_from_what_the_reader_computes_from_rectangles"} ELSE {}

Clauses(e) ==
  IF e.status = "nosolution" THEN [ ok |-> TRUE ]
  ELSE IF e.status = "raised" THEN
       \* a stage must run on every document that satisfies its precondition (if the precondition is false the
       \* previous stage was already charged with `next_stage_precondition`)
       [ stage_runs_on_handed_documents |-> ~OwnPre(e.stage) ]
  ELSE IF e.accepted = 0 THEN [ written_documents_accepted_by_reader |-> FALSE ]
  ELSE LET common == [ written_documents_accepted_by_reader |-> TRUE,
                       next_stage_precondition |-> NextPre(e.stage, e.net, e.alloc),
                       \* a written netlist must not contradict itself: where it gives both a `center` and rectangles,
                       \* the reader of the next stage takes the centroid of the rectangles, so the two must agree
                       centre_field_consistent_with_rectangles |-> RawDrift(e) = {} ] IN
       CASE e.stage \in {"netgen", "user"} -> common
         [] e.stage \in {"spectral", "force"} -> common @@ PlacePost(net, e.net, die, base)
         [] e.stage = "glbfloor" -> common @@ GlbfloorPost(net, e.net, e.alloc, die, base)

Step ==
  /\ l <= Len(T.events)
  /\ LET e == T.events[l]
         good == e.status = "ok" /\ e.accepted = 1 IN
       /\ CASE ~good -> Stops
            [] good /\ e.stage = "netgen" -> NetgenWrites(T.flow, T.die, e.net)
            [] good /\ e.stage = "user" -> UserWrites(T.edit, e.net)
            [] good /\ e.stage \in {"spectral", "force"} -> StageTo(e.stage, e.net)
            [] good /\ e.stage = "glbfloor" -> GlbTo(e.net, e.alloc)
       /\ fails' = fails \cup { <<l, c>> : c \in Failing(Clauses(e)) }
       /\ drift' = drift
            \cup (IF good /\ e.stage = "netgen" /\ e.net # NetgenDoc(T.flow) THEN {<<l, "netgen_document_differs_from_model">>} ELSE {})
            \cup (IF good /\ e.stage = "user" /\ e.net # Edited(net, T.edit, T.die, T.barea) THEN {<<l, "user_edit_differs_from_model">>} ELSE {})
            \cup (IF good /\ e.stage = "glbfloor" /\ e.compat = 0 /\ Names(e.net) = AllocNames(e.alloc)
                  THEN {<<l, "check_compatible_false_on_equal_module_sets">>} ELSE {})
       /\ judged' = IF good /\ e.stage = "glbfloor"
                    THEN judged + Cardinality({ nm \in AllocNames(e.alloc) \cap Names(e.net) :
                                                  MKind(ModOf(e.net, nm)) = "soft" /\ AreaAccounted(e.net, e.alloc, die, nm) })
                    ELSE judged
  /\ l' = l + 1 /\ UNCHANGED tid

Done == /\ l = Len(T.events) + 1
        /\ l' = l + 1
        /\ PrintT(ToJson([tag |-> "VERDICT", id |-> T.id, fails |-> fails, drift |-> drift, judged |-> judged]))
        /\ UNCHANGED <<vars, tid, fails, drift, judged>>

TraceNext == Step \/ Done
TraceSpec == TraceInit /\ [][TraceNext]_tvars
=============================================================================
