\* NETAPI: batch judgement of observed steps (TRACE_FILE in the environment); MAXLEN / ASIS are unused here
SPECIFICATION TraceSpec
CONSTANTS
  MAXLEN = 0
  EMIT = FALSE
  ASIS = FALSE
CHECK_DEADLOCK FALSE
