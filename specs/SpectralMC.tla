----------------------------- MODULE SpectralMC -----------------------------
(* Constant values for the TLC configurations of Spectral.tla (cfg files cannot hold tuples).          *)
(* A = "four movable modules + one fixed, one trial" (the smallest netlist of C14's quantifier);        *)
(* B = "three / two movable + one fixed, two trials" (best-of-n selection: both EndTrial branches);    *)
(* Gen* = the netlists printed for the conformance runs (EMIT).                                         *)
EXTENDS Spectral

\* --- model checking ---------------------------------------------------------------------------------------
\* 8x8 die; soft r=2 (area 12), soft r=1 (area 3), movable hard 4x2 bar (r=2), soft r=3 (area 28), fixed 2x2 square
HalfA == { <<4, 4>> }
ProfA == { <<"soft", "soft", "hard", "soft", "fixed">> }
AreaA == { <<12, 3, 2, 28, 1>> }
\* the same with a fixed terminal (a pin) instead of the fixed square
AreaAT == { <<12, 3, 2, 28, 1>>, <<12, 3, 2, 28, 4>> }
\* ... and with a module whose disc is exactly as wide as the die (area 50: radius 4 = half the side)
AreaAX == AreaAT \cup { <<12, 3, 2, 50, 1>> }
\* ... and the profile in which the big soft module carries a 2x2 rectangle (a part of its area)
ProfAR == { <<"soft", "soft", "hard", "soft", "fixed">>, <<"soft", "soft", "hard", "softr", "fixed">> }
\* quick: soft r=2, soft r=3, bar, soft r=3 (fewer seeds: the seed range of a large module is short)
AreaAQ == { <<12, 28, 2, 28, 1>> }
FixA == { <<2, -2>> }
\* thorough: a wide die as well, two net topologies, two fixed places (one outside the spans of the movable nodes)
HalfAT == { <<4, 4>>, <<6, 4>> }
HalfR == { <<6, 4>> }
FixAT == { <<2, -2>>, <<-3, 3>> }
\* two trials: soft r=2, movable hard square, fixed square (+ a soft r=1 in thorough)
ProfB == { <<"soft", "hard", "fixed">> }
AreaB == { <<12, 1, 1>> }
ProfBT == { <<"soft", "hard", "soft", "fixed">> }
AreaBT == { <<12, 1, 3, 2>> }

\* --- generation -------------------------------------------------------------------------------------------
\* kinds: at least four movable modules; soft areas 3 / 12 / 28 / 50 (real radii 0.98 / 1.95 / 2.99 / 3.99 lattice
\* units: the last one nearly fills a die of half-width 4); templates 1..3 for hard and fixed modules
GenHalf == { <<4, 4>>, <<5, 4>>, <<4, 5>>, <<5, 5>> }
GenHalfT == GenHalf \cup { <<5, 2>>, <<2, 5>> }
GenProf5 == { <<"softr", "soft", "hard", "soft", "fixed">>, <<"soft", "soft", "soft", "soft", "fixed">>, <<"soft", "hard", "soft", "hard", "fixed">>,
              <<"hard", "soft", "soft", "soft", "soft">>, <<"soft", "soft", "hard", "soft", "fixed">> }
GenProf46 == { <<"soft", "soft", "soft", "soft">>, <<"hard", "hard", "hard", "hard">>,
               <<"soft", "soft", "hard", "soft", "fixed", "fixed">>, <<"fixed", "soft", "hard", "soft", "soft", "fixed">> }
GenArea5 == { <<12, 3, 2, 28, 1>>, <<3, 1, 3, 2, 2>>, <<50, 1, 3, 1, 1>>, <<3, 3, 3, 3, 3>>, <<28, 3, 1, 3, 4>> }   \* (4 = a fixed terminal)
GenArea46 == { <<12, 3, 2, 28>>, <<1, 2, 1, 1>>, <<3, 12, 2, 3, 1, 2>>, <<1, 28, 1, 3, 12, 1>> }
GenProf == GenProf5 \cup GenProf46
GenArea == GenArea5 \cup GenArea46
GenGraphs == { "path", "wpath", "cycle", "star", "starL", "clique", "hyper", "bus" }
GenFix == { <<2, -2>>, <<-3, 3>>, <<0, 0>> }
GenFixQ == { <<2, -2>>, <<-3, 3>> }
=============================================================================
