\* batch trace validation; the grid, k, par and weights come from the trace, the constants below are unused
SPECIFICATION TraceSpec
CONSTANTS
  GRIDS <- TinyGrids
  SGRIDS <- TinyGrids
  AGRIDS <- TinyGrids
  KMAX = 3
  DEN = 2
  OCCVALS = {0, 1, 2}
  FNUM = 100
  FDEN = 1
  RATIO = 2
  MODES = {"solve"}
  BORDER = "grid"
  UNIT = 1
  EMIT = FALSE
CHECK_DEADLOCK FALSE
