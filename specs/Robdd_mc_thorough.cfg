SPECIFICATION RSpec
CONSTANTS
  Vars = {"a", "b", "c"}
  RTerms = 2
  RCoef = 3
  RBound = 3
  RBuilds = 2
  RDecs = {TRUE, FALSE}
  CoefNeg = 0
  CoefPos = 0
  ConstMax = 0
  MulNeg = 0
  MulPos = 0
  CMax = 0
  KMax = 0
  CMax2 = 0
  KMax2 = 0
  EMIT = FALSE
INVARIANT Canonical
INVARIANT NodeSem
INVARIANT TseitinExact
CHECK_DEADLOCK FALSE
