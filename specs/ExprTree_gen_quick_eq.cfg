\* Universe E (quick): one + application, then an optional assign and an Equation (lhs or rhs = the node built) for every comparison, hard and soft, epsilon 0 and 1/4.
SPECIFICATION Spec
CONSTANTS
  Consts <- ConstsH
  Scals <- ScalsH
  Vals <- ValsH
  Inits <- InitsA
  BinOps <- OneBin
  WithSqrt = FALSE
  WithRaw = FALSE
  SameNames = {0}
  MaxBuild = 1
  MaxOps = 2
  OpKinds = {"assign", "eq"}
  RehomeTargets = {}
  EqCmps = {"LE", "GE", "EQ"}
  EqEps <- EpsQ
  STACKUNDO = FALSE
  EMIT = TRUE
CHECK_DEADLOCK FALSE
