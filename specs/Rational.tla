------------------------------ MODULE Rational ------------------------------
(***************************************************************************)
(* Exact rational arithmetic for the CANVAS specifications.  A rational is *)
(* <<num, den>> in lowest terms with den > 0, so that equal numbers are    *)
(* equal values (TLC compares states and results with =).                  *)
(***************************************************************************)
EXTENDS Integers

Abs(a) == IF a >= 0 THEN a ELSE -a
RECURSIVE GCD(_, _)
GCD(a, b) == IF b = 0 THEN a ELSE GCD(b, a % b)
Q(n, d) == LET s == IF d < 0 THEN -1 ELSE 1
               g == GCD(Abs(n), Abs(d)) IN
           IF n = 0 THEN <<0, 1>> ELSE <<(s * n) \div g, (s * d) \div g>>
I(n) == <<n, 1>>
RAdd(a, b) == Q(a[1] * b[2] + b[1] * a[2], a[2] * b[2])
RSub(a, b) == Q(a[1] * b[2] - b[1] * a[2], a[2] * b[2])
RMul(a, b) == Q(a[1] * b[1], a[2] * b[2])
RDiv(a, b) == Q(a[1] * b[2], a[2] * b[1])                 \* b # 0
RLt(a, b) == a[1] * b[2] < b[1] * a[2]
RLe(a, b) == a[1] * b[2] <= b[1] * a[2]
RMax(a, b) == IF RLe(a, b) THEN b ELSE a
RMin(a, b) == IF RLe(a, b) THEN a ELSE b
IsQ(a) == a[2] > 0 /\ (a[1] = 0 => a[2] = 1) /\ GCD(Abs(a[1]), a[2]) = 1
Mn(a, b) == IF a <= b THEN a ELSE b
Mx(a, b) == IF a >= b THEN a ELSE b

=============================================================================
