\* exhaustive: Gen/Enc on 16 grids up to 4x4, k = 1..3; solve loop on grids up to 2x2 and 3x1 (uniform and non-uniform) with every occupancy in {0, 1/2, 1}^cells
SPECIFICATION Spec
CONSTANTS
  GRIDS <- ThoroughAllGrids
  SGRIDS <- ThoroughMcSolveGrids
  AGRIDS <- TinyGrids
  KMAX = 3
  DEN = 2
  OCCVALS = {0, 1, 2}
  FNUM = 100
  FDEN = 1
  RATIO = 2
  MODES = {"gen", "enc", "solve"}
  BORDER = "grid"
  UNIT = 1
  EMIT = FALSE
INVARIANT TypeOK
INVARIANT InputIsGrid
INVARIANT GenIsDecl
INVARIANT GenClosed
INVARIANT EncSound
INVARIANT EncComplete
INVARIANT SolveMeetsProperty
INVARIANT LoopOptimal
INVARIANT TableIsObj
INVARIANT FastIsTable
INVARIANT LoopNoShapes
PROPERTY BoundGrows
PROPERTY StrictlyGrows
CHECK_DEADLOCK FALSE
