\* Universe T (quick): terms of <= 2 operator applications over v1, v2, a raw GEKKO variable, the constant 3, Python numbers 2 (int) and -1/2 (float), all five binary operators and sqrt; no operations.
SPECIFICATION Spec
CONSTANTS
  Consts <- ConstsQ
  Scals <- ScalsA
  Vals <- ValsA
  Inits <- InitsA
  BinOps <- AllBin
  WithSqrt = TRUE
  WithRaw = TRUE
  SameNames = {0}
  MaxBuild = 2
  MaxOps = 0
  OpKinds = {}
  RehomeTargets = {}
  EqCmps = {}
  EqEps <- EpsA
  STACKUNDO = FALSE
  EMIT = TRUE
CHECK_DEADLOCK FALSE
