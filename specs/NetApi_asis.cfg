\* NETAPI: the cache discipline of the code as it stands -- InvCacheCoherent is EXPECTED to fail; TLC's shortest
\* counterexample is the design-level statement of the staleness observed on the real objects
SPECIFICATION Spec
CONSTANTS
  MAXLEN = 3
  EMIT = FALSE
  ASIS = TRUE
INVARIANT InvCacheCoherent
CHECK_DEADLOCK FALSE
