\* behaviour generation
SPECIFICATION CSpec
CONSTANTS
  CN = 6
  CWINDOWS <- CThoroughWindows
  SIZES <- ThoroughSizes
  DEEP = TRUE
  CEMIT = TRUE
CHECK_DEADLOCK FALSE
