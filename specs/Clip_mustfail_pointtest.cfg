\* NEGATIVE run: the point test as coded today (x1 == y1 and x2 == y2): TLC must report an invariant violated
SPECIFICATION Spec
CONSTANTS
  N = 5
  WINDOWS <- QuickWindows
  DEFECTS = {"pointtest"}
  EMIT = FALSE
INVARIANT TypeOK
INVARIANT MachineIsFunction
INVARIANT ClipIsIntersection
INVARIANT RejectedIffMisses
INVARIANT OrderIndependent
INVARIANT Within4
INVARIANT StaysOnLine
CHECK_DEADLOCK FALSE
