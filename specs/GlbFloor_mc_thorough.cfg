\* C10 design-level check (thorough): the quick instances plus threshold 1.0, a 12x4 die with two refinable cells
\* and a rigid hard module, and a die without fixed module; ratios k/3.
SPECIFICATION Spec
CONSTANTS
  Instances <- ThoroughInstances
  Den = 3
  TOLR = 0
  TOLP = 0
  EMIT = FALSE
  EMITSOL = FALSE
INVARIANT ClauseInv
INVARIANT InvCellsDisjoint
INVARIANT InvCellsInDie
INVARIANT InvRatioIn01
INVARIANT InvCapacity
INVARIANT InvCentresInDie
INVARIANT InvFixedKeep
INVARIANT InvHardCongruent
INVARIANT InvRefineConforms
INVARIANT InvHardAtCentre
PROPERTY ActRefineConforms
PROPERTY ActExtractConforms
VIEW View
CHECK_DEADLOCK FALSE
