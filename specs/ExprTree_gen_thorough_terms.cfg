\* Universe T (thorough): terms of <= 3 operator applications, larger catalogues, two initial valuations.
SPECIFICATION Spec
CONSTANTS
  Consts <- ConstsB
  Scals <- ScalsB
  Vals <- ValsB
  Inits <- InitsB
  BinOps <- AllBin
  WithSqrt = TRUE
  WithRaw = TRUE
  SameNames = {0}
  MaxBuild = 3
  MaxOps = 0
  OpKinds = {}
  RehomeTargets = {}
  EqCmps = {}
  EqEps <- EpsA
  STACKUNDO = FALSE
  EMIT = TRUE
CHECK_DEADLOCK FALSE
