\* NETGEN: structural lemmas on Design(case) for every command line of the universe (sizes -1..24, grids 0..8 x 0..8, H-trees to 5 levels)
SPECIFICATION Spec
CONSTANTS
  NMAX = 24
  GMAX = 8
  LMAX = 5
  EMIT = FALSE
INVARIANT InvProper
INVARIANT InvConnected
INVARIANT InvCounts
INVARIANT InvDegrees
INVARIANT InvWeights
INVARIANT InvCenters
INVARIANT InvClasses
CHECK_DEADLOCK FALSE
