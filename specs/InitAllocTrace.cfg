SPECIFICATION TraceSpec
CHECK_DEADLOCK FALSE
