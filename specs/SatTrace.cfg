SPECIFICATION TraceSpec
CONSTANTS
  Vars = {"a", "b", "c", "d", "e", "f", "g"}
  Fams = {}
  ClauseMax = 0
  AmoSeq = 0
  AmoMax = 0
  AmoPols = {0, 1}
  HeuleKs = {}
  PbShape = "raw"
  PbTerms = 0
  PbPols = {0, 1}
  PbNeg = 0
  PbPos = 0
  PbBound = 0
  PbOps = {">="}
  MaxMgrs = 0
  MaxPosts = 0
  EMIT = FALSE
  PROBE = FALSE
  ACKinds = {}
  RDecs = {TRUE, FALSE}
  RTerms = 0
  RCoef = 0
  RBound = 0
  RBuilds = 0
  CoefNeg = 0
  CoefPos = 0
  ConstMax = 0
  MulNeg = 0
  MulPos = 0
  CMax = 0
  KMax = 0
  CMax2 = 0
  KMax2 = 0
CHECK_DEADLOCK FALSE
