------------------------------ MODULE ExprTree ------------------------------
(***************************************************************************)
(* EXPRTREE -- tools/legalfloor/expression_tree.py as an algebra of its    *)
(* own (grows the C09 / LEGALPOST specifications downwards: C09 only used  *)
(* Equation.is_equation_met on the trees legalfloor builds).               *)
(*                                                                         *)
(* There is no listed property text; the clauses are what a user of the    *)
(* module (legalfloor.py, model.py) relies on:                             *)
(*   build     t op u builds a tree for op in + - * / ** and sqrt(t), with *)
(*             a tree, a Python int/float or a GEKKO variable as the other *)
(*             operand, on either side for numbers; the exponent of a      *)
(*             power is a constant natural number on the right             *)
(*   eval      evaluate() is the arithmetic value of the term under the    *)
(*             current values of its variables (1e-9 relative)             *)
(*   gekko     get_gekko_expression() denotes the same function (the GEKKO *)
(*             expression evaluated at the variables' values)              *)
(*   varlist   get_variable_list() lists every variable below the tree     *)
(*             exactly once, in order of first occurrence (left to right)  *)
(*   string    get_string() / repr are total                               *)
(*   assign    assign(v) sets the variable; nothing else changes           *)
(*   undo      undo() puts every variable below the tree back to its value *)
(*             at its last CHECKPOINT: creation or the last set_gekko (this *)
(*             is how model.py uses it: re-home in build_model, solve,     *)
(*             undo on a failed verify).  It is NOT a stack: see STACKUNDO. *)
(*   rehome    after t.set_gekko(G) every variable below t belongs to G,   *)
(*             all values are unchanged and the checkpoint is the current  *)
(*             value                                                       *)
(*   eq_*      Equation(lhs, cmp, rhs).surplus() = amount of violation,    *)
(*             slack() = margin (0 for EQ), is_equation_met() = the        *)
(*             comparison holds within epsilon (soft) or exactly (hard),   *)
(*             epsilon = get_epsilon() (values below 1e-6 count as 0);     *)
(*             apply_equation / add_equation post the same comparison to   *)
(*             GEKKO (1 equation, 2 for a soft EQ), change no value and no *)
(*             verdict, and re-home the variables                          *)
(*                                                                         *)
(* Values are exact rationals <<num, den>> (den > 0, lowest terms).  The   *)
(* universe: two named variables (+ optionally one raw GEKKO variable used *)
(* as an operand), constants and Python numbers from small catalogues,     *)
(* terms built by at most MaxBuild operator applications (the second and   *)
(* third application use the node built before: "comb" terms), ** only     *)
(* with exponents 0..3, sqrt only on perfect squares, no division by 0;    *)
(* anything else is outside the universe (`Defined`).                      *)
(*                                                                         *)
(* A node of the pool is the record [op, l, r, n, d, i]:                   *)
(*   "var"  the named variable i            "raw"  a raw GEKKO variable    *)
(*   "cst"  ExpressionTree(G_i, n/d)        "scal" the Python number n/d   *)
(*                                                 (i = 1: an int)         *)
(*   "add" "sub" "mul" "div" "pow" (l, r = pool indices), "srt" (l)        *)
(* "raw" and "scal" are operands, not trees.                               *)
(* State: the pool, the valuation `val`, the checkpoints `chk`, the assign *)
(* stacks `stk` (only for the stack reading of undo), the GEKKO model each *)
(* variable lives in (`home`), and the log of operations `ops`.            *)
(***************************************************************************)
EXTENDS Integers, Sequences, FiniteSets, SequencesExt, TLC, Json

CONSTANTS Consts,      \* catalogue of "cst" leaves: <<n, d, gekko>>
          Scals,       \* catalogue of Python numbers: <<n, d, isint>>
          Vals,        \* values for Assign: <<n, d>>
          Inits,       \* initial valuations <<<<n,d>>, <<n,d>>, <<n,d>>>> (v1, v2, raw)
          BinOps,      \* subset of {"add", "sub", "mul", "div", "pow"}
          WithSqrt, WithRaw,
          SameNames,   \* subset of {0, 1}: 1 = both variables are created with the same requested name
          MaxBuild, MaxOps,
          OpKinds,     \* subset of {"assign", "undo", "undot", "rehome", "eq"}
          RehomeTargets,  \* subset of {0, 2}
          EqCmps, EqEps,
          STACKUNDO,   \* TRUE: model undo as "back to the value before the last assign" (must FAIL InvUndo)
          EMIT

VARIABLES pool, ini, val, chk, stk, home, ngk, same, nb, ops, phase
vars == <<pool, ini, val, chk, stk, home, ngk, same, nb, ops, phase>>

(***************************************************************************)
(* Rationals                                                               *)
(***************************************************************************)
Abs(a) == IF a >= 0 THEN a ELSE -a
Mx(a, b) == IF a >= b THEN a ELSE b
RECURSIVE GCD(_, _)
GCD(a, b) == IF b = 0 THEN a ELSE GCD(b, a % b)
Norm(n, d) == IF n = 0 THEN <<0, 1>>
              ELSE LET s == IF d < 0 THEN -1 ELSE 1  g == GCD(Abs(n), Abs(d)) IN <<(s * n) \div g, (s * d) \div g>>
BIG == 20000                                   \* products of two such numbers stay below 2^31
Fits(q) == Abs(q[1]) <= BIG /\ q[2] <= BIG
RAdd(a, b) == Norm(a[1] * b[2] + b[1] * a[2], a[2] * b[2])
RSub(a, b) == Norm(a[1] * b[2] - b[1] * a[2], a[2] * b[2])
RMul(a, b) == Norm(a[1] * b[1], a[2] * b[2])
RDiv(a, b) == Norm(a[1] * b[2], a[2] * b[1])
RLe(a, b) == a[1] * b[2] <= b[1] * a[2]
RLt(a, b) == a[1] * b[2] < b[1] * a[2]
RAbs(a) == <<Abs(a[1]), a[2]>>
RMax0(a) == IF a[1] > 0 THEN a ELSE <<0, 1>>
Zero == <<0, 1>>
\* a ** k for k in 0..3 (Python: 0.0 ** 0.0 = 1.0)
PowOK(q, k) == k \in {0, 1} \/ (k = 2 /\ Mx(Abs(q[1]), q[2]) <= 140) \/ (k = 3 /\ Mx(Abs(q[1]), q[2]) <= 27)
RPow(q, k) == CASE k = 0 -> <<1, 1>> [] k = 1 -> q [] k = 2 -> RMul(q, q) [] k = 3 -> RMul(RMul(q, q), q)
IsSq(n) == \E r \in 0..141 : r * r = n
Sq(n) == CHOOSE r \in 0..141 : r * r = n
SqOK(q) == q[1] >= 0 /\ IsSq(q[1]) /\ IsSq(q[2])
RSqrt(q) == <<Sq(q[1]), Sq(q[2])>>

(***************************************************************************)
(* Terms                                                                   *)
(***************************************************************************)
Node(op, l, r, n, d, i) == [op |-> op, l |-> l, r |-> r, n |-> n, d |-> d, i |-> i]
Binary == {"add", "sub", "mul", "div", "pow"}
IsTree(nd) == nd.op \notin {"scal", "raw"}
RECURSIVE Defined(_, _, _), Value(_, _, _)
Value(p, v, k) ==
  LET nd == p[k] IN
  CASE nd.op = "var" -> v[nd.i]
    [] nd.op = "raw" -> v[3]
    [] nd.op \in {"cst", "scal"} -> <<nd.n, nd.d>>
    [] nd.op = "add" -> RAdd(Value(p, v, nd.l), Value(p, v, nd.r))
    [] nd.op = "sub" -> RSub(Value(p, v, nd.l), Value(p, v, nd.r))
    [] nd.op = "mul" -> RMul(Value(p, v, nd.l), Value(p, v, nd.r))
    [] nd.op = "div" -> RDiv(Value(p, v, nd.l), Value(p, v, nd.r))
    [] nd.op = "pow" -> RPow(Value(p, v, nd.l), Value(p, v, nd.r)[1])
    [] nd.op = "srt" -> RSqrt(Value(p, v, nd.l))
\* inside the universe: every sub-term is, no division by zero, small natural exponent, perfect square, moderate size
Defined(p, v, k) ==
  LET nd == p[k] IN
  IF nd.op \in {"var", "raw", "cst", "scal"} THEN TRUE
  ELSE IF nd.op = "srt" THEN Defined(p, v, nd.l) /\ SqOK(Value(p, v, nd.l))
  ELSE /\ Defined(p, v, nd.l) /\ Defined(p, v, nd.r)
       /\ (nd.op = "div" => Value(p, v, nd.r)[1] # 0)
       /\ (nd.op = "pow" => /\ p[nd.r].op \in {"cst", "scal"}            \* a constant exponent ...
                             /\ LET e == Value(p, v, nd.r) IN e[2] = 1 /\ e[1] \in 0..3 /\ PowOK(Value(p, v, nd.l), e[1]))
       /\ Fits(Value(p, v, k))

\* variables below node k: in order of first occurrence, and as a set (two independent definitions)
RECURSIVE VarSeq(_, _), VarSet(_, _)
VarSeq(p, k) ==
  LET nd == p[k] IN
  CASE nd.op = "var" -> <<nd.i>>
    [] nd.op = "raw" -> <<3>>
    [] nd.op \in {"cst", "scal"} -> <<>>
    [] nd.op = "srt" -> VarSeq(p, nd.l)
    [] OTHER -> LET a == VarSeq(p, nd.l) IN a \o SelectSeq(VarSeq(p, nd.r), LAMBDA x : \A j \in 1..Len(a) : a[j] # x)
VarSet(p, k) ==
  LET nd == p[k] IN
  CASE nd.op = "var" -> {nd.i} [] nd.op = "raw" -> {3} [] nd.op \in {"cst", "scal"} -> {}
    [] nd.op = "srt" -> VarSet(p, nd.l) [] OTHER -> VarSet(p, nd.l) \cup VarSet(p, nd.r)
Named(p, k) == VarSet(p, k) \ {3}           \* the variables that can be assigned / undone / re-homed through the tree
\* the tree was created in GEKKO model g: ExpressionTree.gekko of a composite is the gekko of its LEFT operand when
\* that is a tree, otherwise of the right one (reflected operators)
RECURSIVE GekkoOf(_, _, _)
GekkoOf(p, h, k) ==
  LET nd == p[k] IN
  CASE nd.op = "var" -> h[nd.i] [] nd.op = "cst" -> nd.i
    [] nd.op \in {"scal", "raw"} -> 0
    [] nd.op = "srt" -> GekkoOf(p, h, nd.l)
    [] OTHER -> IF IsTree(p[nd.l]) THEN GekkoOf(p, h, nd.l) ELSE GekkoOf(p, h, nd.r)

(***************************************************************************)
(* Operations on the state (value level: shared with ExprTreeTrace)        *)
(***************************************************************************)
OpRec(op, a, b, n, d, c, h) == [op |-> op, a |-> a, b |-> b, n |-> n, d |-> d, c |-> c, h |-> h]
St(v, c, s, h, g) == [val |-> v, chk |-> c, stk |-> s, home |-> h, ngk |-> g]
\* set_gekko on the nodes ks towards model t (0 = a NEW model): the named variables below that are not yet in that
\* model move there, their checkpoint becomes their current value, their stacks are emptied
Rehomed(p, s, ks, t) ==
  LET g == IF t = 0 THEN s.ngk + 1 ELSE t
      vs == { x \in UNION { Named(p, k) : k \in ks } : s.home[x] # g } IN
  St(s.val, [x \in 1..2 |-> IF x \in vs THEN s.val[x] ELSE s.chk[x]],
     [x \in 1..2 |-> IF x \in vs THEN <<>> ELSE s.stk[x]],
     [x \in 1..2 |-> IF x \in vs THEN g ELSE s.home[x]], Mx(g, s.ngk))
UndoVar(s, x) ==
  IF STACKUNDO /\ Len(s.stk[x]) > 0
  THEN St([s.val EXCEPT ![x] = s.stk[x][Len(s.stk[x])]], s.chk, [s.stk EXCEPT ![x] = SubSeq(@, 1, Len(@) - 1)], s.home, s.ngk)
  ELSE St([s.val EXCEPT ![x] = s.chk[x]], s.chk, [s.stk EXCEPT ![x] = <<>>], s.home, s.ngk)
ApplyOp(p, s, o) ==
  CASE o.op = "assign" -> St([s.val EXCEPT ![o.a] = <<o.n, o.d>>], s.chk, [s.stk EXCEPT ![o.a] = Append(@, s.val[o.a])], s.home, s.ngk)
    [] o.op = "undo" -> UndoVar(s, o.a)
    [] o.op = "undot" -> LET vs == Named(p, o.a) IN
                         LET s1 == IF 1 \in vs THEN UndoVar(s, 1) ELSE s IN IF 2 \in vs THEN UndoVar(s1, 2) ELSE s1
    [] o.op = "rehome" -> Rehomed(p, s, {o.a}, o.b)
    [] o.op = "eq" -> Rehomed(p, s, {o.a, o.b}, 0)   \* apply_equation re-homes both sides into the (new) target model

\* Equation semantics
EpsEff(o) == IF o.h = 1 \/ o.n * 1000000 < o.d THEN Zero ELSE <<o.n, o.d>>     \* hard: no slack; below 1e-6: zero
Surplus(c, L, R) == CASE c = "LE" -> RMax0(RSub(L, R)) [] c = "GE" -> RMax0(RSub(R, L)) [] c = "EQ" -> RAbs(RSub(R, L))
Slack(c, L, R) == CASE c = "LE" -> RMax0(RSub(R, L)) [] c = "GE" -> RMax0(RSub(L, R)) [] c = "EQ" -> Zero
Met(c, L, R, e) == CASE c = "LE" -> RLe(L, RAdd(R, e)) [] c = "GE" -> RLe(RSub(R, e), L)
                     [] c = "EQ" -> RLe(RSub(R, e), L) /\ RLe(L, RAdd(R, e))
NumGekkoEqs(o) == IF o.c = "EQ" /\ o.h = 0 THEN 2 ELSE 1

(***************************************************************************)
(* Catalogues for the configuration files (a .cfg cannot write tuples)     *)
(***************************************************************************)
ConstsQ == {<<3, 1, 1>>}
ConstsA == {<<3, 1, 1>>, <<1, 4, 1>>}
ConstsB == {<<3, 1, 1>>, <<1, 4, 1>>, <<2, 1, 2>>}          \* the last one lives in GEKKO model 2
ConstsH == {<<2, 1, 2>>}
ScalsA == {<<2, 1, 1>>, <<-1, 2, 0>>}
ScalsB == {<<2, 1, 1>>, <<-1, 2, 0>>, <<0, 1, 1>>}
ScalsH == {<<2, 1, 1>>}
ValsA == {<<0, 1>>, <<9, 4>>}
ValsH == {<<9, 4>>}
ValsB == {<<0, 1>>, <<9, 4>>, <<-3, 1>>}
InitsA == {<<<<4, 1>>, <<1, 4>>, <<3, 1>>>>}
InitsB == {<<<<4, 1>>, <<1, 4>>, <<3, 1>>>>, <<<<-2, 1>>, <<0, 1>>, <<1, 1>>>>}
EpsA == {<<0, 1>>, <<1, 4>>, <<1, 10000000>>}
EpsQ == {<<0, 1>>, <<1, 4>>}
AllBin == {"add", "sub", "mul", "div", "pow"}
TwoBin == {"add", "mul"}
OneBin == {"add"}

(***************************************************************************)
(* State machine                                                           *)
(***************************************************************************)
Leaves == <<Node("var", 0, 0, 0, 1, 1), Node("var", 0, 0, 0, 1, 2)>>
          \o SetToSeq({ Node("cst", 0, 0, c[1], c[2], c[3]) : c \in Consts })
          \o SetToSeq({ Node("scal", 0, 0, c[1], c[2], c[3]) : c \in Scals })
          \o (IF WithRaw THEN <<Node("raw", 0, 0, 0, 1, 3)>> ELSE <<>>)
NL == Len(Leaves)
Cur == St(val, chk, stk, home, ngk)

Init == /\ pool = Leaves /\ nb = 0 /\ ops = <<>> /\ phase = "build"
        /\ same \in SameNames
        /\ val \in Inits /\ ini = val /\ chk = val /\ stk = <<<<>>, <<>>>> /\ home = <<1, 1>> /\ ngk = 2    \* models 1 and 2 exist

\* operands: at least one tree; a raw GEKKO variable only on the right; after the first application the node built
\* before is one of the operands
Buildable(op, l, r) ==
  /\ IsTree(pool[l]) \/ IsTree(pool[r])
  /\ pool[l].op # "raw"
  /\ (nb > 0 => l = Len(pool) \/ r = Len(pool))
  /\ Defined(Append(pool, Node(op, l, r, 0, 1, 0)), val, Len(pool) + 1)
Build(op, l, r) == /\ phase = "build" /\ nb < MaxBuild /\ Buildable(op, l, r)
                   /\ pool' = Append(pool, Node(op, l, r, 0, 1, 0)) /\ nb' = nb + 1
                   /\ UNCHANGED <<ini, val, chk, stk, home, ngk, same, ops, phase>>
BuildSqrt(l) == /\ phase = "build" /\ nb < MaxBuild /\ WithSqrt /\ IsTree(pool[l]) /\ (nb > 0 => l = Len(pool))
                /\ Defined(Append(pool, Node("srt", l, 0, 0, 1, 0)), val, Len(pool) + 1)
                /\ pool' = Append(pool, Node("srt", l, 0, 0, 1, 0)) /\ nb' = nb + 1
                /\ UNCHANGED <<ini, val, chk, stk, home, ngk, same, ops, phase>>
StartOps == /\ phase = "build" /\ nb >= 1 /\ MaxOps > 0 /\ phase' = "ops"
            /\ UNCHANGED <<pool, ini, val, chk, stk, home, ngk, same, nb, ops>>

Trees == { k \in 1..Len(pool) : IsTree(pool[k]) }
Composite == { k \in (NL + 1)..Len(pool) : TRUE }
\* an Equation ends a history
Do(o) == /\ phase = "ops" /\ Len(ops) < MaxOps /\ o.op \in OpKinds /\ (IF Len(ops) = 0 THEN TRUE ELSE ops[Len(ops)].op # "eq")
         /\ LET s == ApplyOp(pool, Cur, o) IN
              val' = s.val /\ chk' = s.chk /\ stk' = s.stk /\ home' = s.home /\ ngk' = s.ngk
         /\ ops' = Append(ops, o) /\ UNCHANGED <<pool, ini, same, nb, phase>>
Assign(x, q) == Do(OpRec("assign", x, 0, q[1], q[2], "", 0))
Undo(x) == Do(OpRec("undo", x, 0, 0, 1, "", 0))
UndoTerm(k) == Do(OpRec("undot", k, 0, 0, 1, "", 0))
\* set_gekko towards a new model (t = 0) or towards the existing model 2
Rehome(k, t) == Do(OpRec("rehome", k, t, 0, 1, "", 0))
\* Equation(lhs, cmp, rhs, hard) with epsilon e; one side is the last node built
MakeEquation(a, b, c, h, e) == /\ (a = Len(pool) \/ b = Len(pool)) /\ Defined(pool, val, a) /\ Defined(pool, val, b)
                               /\ Do(OpRec("eq", a, b, e[1], e[2], c, h))

Emit == /\ EMIT /\ phase # "emitted"
        /\ IF MaxOps = 0 THEN phase = "build" /\ nb = MaxBuild
           ELSE phase = "ops" /\ (IF Len(ops) = 0 THEN FALSE ELSE IF Len(ops) = MaxOps THEN TRUE ELSE ops[Len(ops)].op = "eq")
        /\ phase' = "emitted" /\ UNCHANGED <<pool, ini, val, chk, stk, home, ngk, same, nb, ops>>
        /\ PrintT(ToJson([pool |-> pool, nl |-> NL, same |-> same, ops |-> ops, init |-> ini]))

BuildAny == \E op \in BinOps : \E l \in 1..Len(pool) : \E r \in 1..Len(pool) : Build(op, l, r)
SqrtAny == \E l \in 1..Len(pool) : BuildSqrt(l)
AssignAny == \E x \in 1..2 : \E q \in Vals : Assign(x, q)
UndoAny == \E x \in 1..2 : Undo(x)
UndoTermAny == \E k \in Composite : UndoTerm(k)
RehomeAny == \E k \in Composite : \E t \in RehomeTargets : Rehome(k, t)
EquationAny == \E a \in Trees : \E b \in Trees : \E c \in EqCmps : \E h \in {0, 1} : \E e \in EqEps : MakeEquation(a, b, c, h, e)
Next == BuildAny \/ SqrtAny \/ StartOps \/ AssignAny \/ UndoAny \/ UndoTermAny \/ RehomeAny \/ EquationAny \/ Emit
Spec == Init /\ [][Next]_vars

(***************************************************************************)
(* Invariants: the contracts, at design level                              *)
(***************************************************************************)
InvShape == /\ \A k \in 1..Len(pool) : pool[k].l < k /\ pool[k].r < k
            /\ \A x \in 1..3 : val[x] = Norm(val[x][1], val[x][2]) /\ val[x][2] > 0
\* varlist: first-occurrence order has no repetition and covers exactly the variables below the node
InvVarList == \A k \in Trees : LET s == VarSeq(pool, k) IN
                 /\ \A i \in 1..Len(s) : \A j \in 1..Len(s) : i # j => s[i] # s[j]
                 /\ { s[i] : i \in 1..Len(s) } = VarSet(pool, k)
\* undo: the variable is back at its checkpoint (fails under STACKUNDO after two assigns)
LastOp == ops[Len(ops)]
InvUndo == (Len(ops) > 0 /\ LastOp.op = "undo") => val[LastOp.a] = chk[LastOp.a]
InvUndoTerm == (Len(ops) > 0 /\ LastOp.op = "undot") => \A x \in Named(pool, LastOp.a) : val[x] = chk[x]
\* rehome / apply_equation: every named variable below lives in the target model
InvRehome == (Len(ops) > 0 /\ LastOp.op \in {"rehome", "eq"}) =>
                \A x \in Named(pool, LastOp.a) \cup (IF LastOp.op = "eq" THEN Named(pool, LastOp.b) ELSE {}) :
                   home[x] = (IF LastOp.op = "rehome" /\ LastOp.b # 0 THEN LastOp.b ELSE ngk)
\* a variable that has not been assigned since its checkpoint has its checkpoint value
InvCheckpoint == \A x \in 1..2 : stk[x] = <<>> => val[x] = chk[x]
\* equation laws
InvEquation == (Len(ops) > 0 /\ LastOp.op = "eq") =>
  LET o == LastOp  L == Value(pool, val, o.a)  R == Value(pool, val, o.b)
      su == Surplus(o.c, L, R)  sl == Slack(o.c, L, R)  e == EpsEff(o) IN
  /\ su[1] >= 0 /\ sl[1] >= 0 /\ (su[1] = 0 \/ sl[1] = 0)
  /\ (o.c = "LE" => RSub(su, sl) = RSub(L, R)) /\ (o.c = "GE" => RSub(su, sl) = RSub(R, L)) /\ (o.c = "EQ" => sl = Zero)
  /\ (Met(o.c, L, R, e) <=> RLe(su, e))
  /\ (Met(o.c, L, R, Zero) => Met(o.c, L, R, e))
=============================================================================
