-------------------------------- MODULE Clip --------------------------------
(***************************************************************************)
(* CANVAS (1) -- the line clipping of tools/rect/canvas.py                  *)
(* (dashed_line_implementation: "Cohen-Sutherland Algorithm for line        *)
(* clipping"), transcribed action by action.                                *)
(*                                                                          *)
(*   window   the four numbers given to Canvas.set_coords (x0,y0,x1,y1);    *)
(*            the code clips against [min(x0,x1), max(x0,x1)] x             *)
(*            [min(y0,y1), max(y0,y1)], so either orientation of y is fine  *)
(*   seg      the segment <<x1,y1,x2,y2>> handed to Canvas.line             *)
(*   p1, p2   the running end points (rationals), c1, c2 their out codes    *)
(*   actions  PointTest     "If the line is just a point, don't bother"     *)
(*            OutCodes      compute_out_code of both end points             *)
(*            TrivialAccept both codes `inside`                             *)
(*            TrivialReject the codes share a bit                           *)
(*            ClipEndpoint  move the end point with the larger code to the  *)
(*                          window line named by its first bit in the order *)
(*                          top, bottom, right, left                        *)
(*            Magnitude     a clipped segment of length 0 is not drawn      *)
(* What must hold (derived from the comments in the code -- "Both points    *)
(* are inside the drawing region", "Both points can be found on the same    *)
(* side outside", the name of the algorithm -- and from the only use of     *)
(* the result, drawing dashes from p1 to p2): the segment that is drawn is  *)
(* exactly (segment /\ window): declaratively the parameter interval        *)
(* [tmin, tmax] of the original segment inside the four half planes         *)
(* (Inter below, Liang-Barsky style, independent of the algorithm).         *)
(*                                                                          *)
(* Rational arithmetic: a rational is <<num, den>> in lowest terms with     *)
(* den > 0, so equal numbers are equal values.                              *)
(*                                                                          *)
(* DEFECTS (a set) switches in the two places where the code as it stands   *)
(* departs from this: "y2x" (the second end point gets y2 = x instead of    *)
(* y2 = y) and "pointtest" (the point test compares x1 with y1 and x2 with  *)
(* y2).  DEFECTS = {} is the specification; Clip_mustfail_*.cfg show that   *)
(* the invariants reject either departure; the trace specification uses the *)
(* variants only to label an observation "exactly what the known defect     *)
(* produces" for the known-finding matcher.                                 *)
(***************************************************************************)
EXTENDS Rational, Sequences, FiniteSets, TLC, Json

CONSTANTS N,        \* segment end points on the lattice 0..N x 0..N
          WINDOWS,  \* set of <<x0, y0, x1, y1>>
          DEFECTS,  \* {} = specification
          EMIT

VARIABLES pc, window, seg, p1, p2, c1, c2, steps
vars == <<pc, window, seg, p1, p2, c1, c2, steps>>

(***************************************************************************)
(* The window and the out codes                                            *)
(***************************************************************************)
MinX(w) == I(Mn(w[1], w[3]))   MaxX(w) == I(Mx(w[1], w[3]))
MinY(w) == I(Mn(w[2], w[4]))   MaxY(w) == I(Mx(w[2], w[4]))
\* a point is <<x, y>> with rational x, y
Pt(x, y) == <<I(x), I(y)>>
InWindow(p, w) == RLe(MinX(w), p[1]) /\ RLe(p[1], MaxX(w)) /\ RLe(MinY(w), p[2]) /\ RLe(p[2], MaxY(w))
\* compute_out_code: a set of bits; Val is the integer the code compares with max() and ==
Code(p, w) == (IF RLt(p[1], MinX(w)) THEN {"left"} ELSE {}) \cup (IF RLt(MaxX(w), p[1]) THEN {"right"} ELSE {})
              \cup (IF RLt(p[2], MinY(w)) THEN {"bottom"} ELSE {}) \cup (IF RLt(MaxY(w), p[2]) THEN {"top"} ELSE {})
Weight(b) == CASE b = "left" -> 1 [] b = "right" -> 2 [] b = "bottom" -> 4 [] b = "top" -> 8
Val(c) == (IF "left" \in c THEN 1 ELSE 0) + (IF "right" \in c THEN 2 ELSE 0)
          + (IF "bottom" \in c THEN 4 ELSE 0) + (IF "top" \in c THEN 8 ELSE 0)

(***************************************************************************)
(* One pass of the loop, on values                                         *)
(***************************************************************************)
\* The point where the line through a, b meets the window line chosen for the code `out`:
\*   x = x1 + (x2 - x1) * (Y - y1) / (y2 - y1), y = Y     (top / bottom; right / left alike with x and y exchanged)
\* evaluated over the common denominator L of the four coordinates (A1 = x1 * L, ...), which keeps TLC's 32-bit
\* integers in range: x = (A1 * (B2 - A2) + (B1 - A1) * (Y * L - A2)) / (L * (B2 - A2)).
LCM(m, n) == (m \div GCD(m, n)) * n
CommonDen(a, b) == LCM(LCM(a[1][2], a[2][2]), LCM(b[1][2], b[2][2]))
Along(A1, A2, B1, B2, Y, L) == Q(A1 * (B2 - A2) + (B1 - A1) * (Y * L - A2), L * (B2 - A2))
Crossing(a, b, out, w) ==
  LET L  == CommonDen(a, b)
      A1 == a[1][1] * (L \div a[1][2])   A2 == a[2][1] * (L \div a[2][2])
      B1 == b[1][1] * (L \div b[1][2])   B2 == b[2][1] * (L \div b[2][2]) IN
  IF "top" \in out THEN << Along(A1, A2, B1, B2, MaxY(w)[1], L), MaxY(w) >>
  ELSE IF "bottom" \in out THEN << Along(A1, A2, B1, B2, MinY(w)[1], L), MinY(w) >>
  ELSE IF "right" \in out THEN << MaxX(w), Along(A2, A1, B2, B1, MaxX(w)[1], L) >>
  ELSE << MinX(w), Along(A2, A1, B2, B1, MinX(w)[1], L) >>
\* beyond this common denominator the integers above could overflow; it is reached only by the DEFECTS variants
\* (end points that have left the original line), never by the specification on lattices up to 20
Wild(a, b) == CommonDen(a, b) > 600
Accepts(a, b, w) == Code(a, w) = {} /\ Code(b, w) = {}
Rejects(a, b, w) == Code(a, w) \cap Code(b, w) # {}
\* out_code_out = max(out_code1, out_code2); the first end point moves when its code is that maximum
MovesFirst(a, b, w) == Val(Code(a, w)) >= Val(Code(b, w))
Clipped(a, b, w, D) ==
  IF MovesFirst(a, b, w) THEN << Crossing(a, b, Code(a, w), w), b >>
  ELSE LET c == Crossing(a, b, Code(b, w), w) IN
       << a, IF "y2x" \in D THEN <<c[1], c[1]>> ELSE c >>
IsPoint(s, D) == IF "pointtest" \in D THEN s[1] = s[2] /\ s[3] = s[4] ELSE s[1] = s[3] /\ s[2] = s[4]

\* The whole computation as a function: what is drawn for segment s in window w.
\* <<>> = nothing; <<a, b>> = the dashes run from a to b; <<"diverged">> = more than `fuel` clip steps, or Wild.
RECURSIVE Loop(_, _, _, _, _)
Loop(a, b, w, D, fuel) ==
  IF Accepts(a, b, w) THEN (IF a = b THEN <<>> ELSE <<a, b>>)
  ELSE IF Rejects(a, b, w) THEN <<>>
  ELSE IF fuel = 0 \/ Wild(a, b) THEN <<"diverged">>
  ELSE LET n == Clipped(a, b, w, D) IN Loop(n[1], n[2], w, D, fuel - 1)
Drawn(s, w, D) == IF IsPoint(s, D) THEN <<>> ELSE Loop(Pt(s[1], s[2]), Pt(s[3], s[4]), w, D, IF D = {} THEN 8 ELSE 4)
\* Does the run compute a crossing whose COMPUTED coordinate lands exactly on a window line (a corner crossing, or
\* y2 = x on a y line)?  Under an inexact float embedding such a tie is decided by the last bit, so the driver
\* replays these cases only under the exact embeddings (the same policy as C18 for shared edges).
OnXLine(v, w) == v = MinX(w) \/ v = MaxX(w)
OnYLine(v, w) == v = MinY(w) \/ v = MaxY(w)
TieAt(a, b, w, D) ==
  LET first == MovesFirst(a, b, w)
      out   == IF first THEN Code(a, w) ELSE Code(b, w)
      c     == Crossing(a, b, out, w) IN
  \/ (("top" \in out \/ "bottom" \in out) /\ OnXLine(c[1], w))
  \/ (~("top" \in out \/ "bottom" \in out) /\ OnYLine(c[2], w))
  \/ (~first /\ "y2x" \in D /\ OnYLine(c[1], w))
RECURSIVE Ties(_, _, _, _, _)
Ties(a, b, w, D, fuel) ==
  IF Accepts(a, b, w) \/ Rejects(a, b, w) \/ fuel = 0 \/ Wild(a, b) THEN FALSE
  ELSE TieAt(a, b, w, D) \/ LET n == Clipped(a, b, w, D) IN Ties(n[1], n[2], w, D, fuel - 1)
HasTies(s, w) == \/ Ties(Pt(s[1], s[2]), Pt(s[3], s[4]), w, {}, 8)
                 \/ Ties(Pt(s[1], s[2]), Pt(s[3], s[4]), w, {"y2x"}, 4)
RECURSIVE StepsOf(_, _, _, _, _)
StepsOf(a, b, w, D, fuel) == IF Accepts(a, b, w) \/ Rejects(a, b, w) \/ fuel = 0 THEN 0
                             ELSE LET n == Clipped(a, b, w, D) IN 1 + StepsOf(n[1], n[2], w, D, fuel - 1)

(***************************************************************************)
(* What must be drawn: segment /\ window, declaratively.  The point at     *)
(* parameter t of s is s.a + t (s.b - s.a); each half plane bounds t from  *)
(* below or from above (or excludes everything when the segment is         *)
(* parallel to it and outside).                                            *)
(***************************************************************************)
\* constraint  lo <= a + t*d <= hi  ->  [ok, tl, tu]
Slab(a, d, lo, hi) ==
  IF d = 0 THEN [ok |-> RLe(lo, I(a)) /\ RLe(I(a), hi), tl |-> I(0), tu |-> I(1)]
  ELSE LET t1 == RDiv(RSub(lo, I(a)), I(d))  t2 == RDiv(RSub(hi, I(a)), I(d)) IN
       [ok |-> TRUE, tl |-> RMin(t1, t2), tu |-> RMax(t1, t2)]
At(s, t) == << RAdd(I(s[1]), RMul(t, I(s[3] - s[1]))), RAdd(I(s[2]), RMul(t, I(s[4] - s[2]))) >>
Inter(s, w) ==
  LET sx == Slab(s[1], s[3] - s[1], MinX(w), MaxX(w))
      sy == Slab(s[2], s[4] - s[2], MinY(w), MaxY(w))
      tl == RMax(I(0), RMax(sx.tl, sy.tl))
      tu == RMin(I(1), RMin(sx.tu, sy.tu)) IN
  IF sx.ok /\ sy.ok /\ RLe(tl, tu) THEN <<At(s, tl), At(s, tu)>> ELSE <<>>
\* what has to be drawn: the intersection when it is a proper segment, nothing when it is empty or a single point
MustDraw(s, w) == LET i == Inter(s, w) IN IF i = <<>> \/ i[1] = i[2] THEN <<>> ELSE i
RevSeg(s) == <<s[3], s[4], s[1], s[2]>>
Swap(r) == IF r = <<>> THEN <<>> ELSE <<r[2], r[1]>>
\* on the line through the original end points / between them
OnLine(p, s) == RMul(RSub(p[1], I(s[1])), I(s[4] - s[2])) = RMul(RSub(p[2], I(s[2])), I(s[3] - s[1]))
Between(p, s) == /\ RLe(I(Mn(s[1], s[3])), p[1]) /\ RLe(p[1], I(Mx(s[1], s[3])))
                 /\ RLe(I(Mn(s[2], s[4])), p[2]) /\ RLe(p[2], I(Mx(s[2], s[4])))

\* Property clauses on an OBSERVED drawing r (<<>> or <<a, b>>) of segment s in window w
ClipClauses(s, w, r) ==
  [ clip_drawn_iff_meets |-> (r # <<>>) <=> (MustDraw(s, w) # <<>>),
    clip_inside          |-> r # <<>> => InWindow(r[1], w) /\ InWindow(r[2], w),
    clip_on_segment      |-> r # <<>> => OnLine(r[1], s) /\ OnLine(r[2], s) /\ Between(r[1], s) /\ Between(r[2], s),
    clip_is_intersection |-> (r # <<>> /\ MustDraw(s, w) # <<>>) => r = MustDraw(s, w) ]
AllTrue(cl) == \A f \in DOMAIN cl : cl[f]

\* windows used by the configuration files: square, wide, y given bottom-up (y0 > y1), x given right-to-left, thin
QuickWindows == { <<2, 2, 4, 4>>, <<1, 2, 5, 3>>, <<1, 4, 4, 1>> }
ThoroughWindows == QuickWindows \cup { <<5, 1, 2, 6>>, <<3, 0, 4, 7>>, <<0, 0, 7, 7>> }

(***************************************************************************)
(* State machine                                                           *)
(***************************************************************************)
Lattice == 0..N
Segments == { <<a, b, c, d>> : a \in Lattice, b \in Lattice, c \in Lattice, d \in Lattice }
Nowhere == <<I(0), I(0)>>
Init == /\ pc = "start" /\ window \in WINDOWS /\ seg \in Segments
        /\ p1 = Nowhere /\ p2 = Nowhere /\ c1 = {} /\ c2 = {} /\ steps = 0
PointTest == /\ ~EMIT /\ pc = "start"
             /\ pc' = IF IsPoint(seg, DEFECTS) THEN "nothing" ELSE "codes"
             /\ p1' = Pt(seg[1], seg[2]) /\ p2' = Pt(seg[3], seg[4])
             /\ UNCHANGED <<window, seg, c1, c2, steps>>
OutCodes == /\ pc = "codes" /\ pc' = "loop"
            /\ c1' = Code(p1, window) /\ c2' = Code(p2, window)
            /\ UNCHANGED <<window, seg, p1, p2, steps>>
TrivialAccept == /\ pc = "loop" /\ c1 = {} /\ c2 = {} /\ pc' = "accepted"
                 /\ UNCHANGED <<window, seg, p1, p2, c1, c2, steps>>
TrivialReject == /\ pc = "loop" /\ ~(c1 = {} /\ c2 = {}) /\ c1 \cap c2 # {} /\ pc' = "nothing"
                 /\ UNCHANGED <<window, seg, p1, p2, c1, c2, steps>>
ClipEndpoint == /\ pc = "loop" /\ ~(c1 = {} /\ c2 = {}) /\ c1 \cap c2 = {} /\ steps < 8
                /\ ~Wild(p1, p2)
                /\ LET n == Clipped(p1, p2, window, DEFECTS) IN
                     /\ p1' = n[1] /\ p2' = n[2]
                     /\ c1' = Code(n[1], window) /\ c2' = Code(n[2], window)
                /\ steps' = steps + 1
                /\ UNCHANGED <<pc, window, seg>>
Magnitude == /\ pc = "accepted" /\ pc' = IF p1 = p2 THEN "nothing" ELSE "drawn"
             /\ UNCHANGED <<window, seg, p1, p2, c1, c2, steps>>
\* behaviour generation: one case per (window, segment) with what must be drawn and the class of the case
Emit == /\ EMIT /\ pc = "start" /\ pc' = "emitted" /\ UNCHANGED <<window, seg, p1, p2, c1, c2, steps>>
        /\ PrintT(ToJson([window |-> window, seg |-> seg,
                          draws |-> IF MustDraw(seg, window) = <<>> THEN 0 ELSE 1,
                          ties |-> IF HasTies(seg, window) THEN 1 ELSE 0,
                          steps |-> StepsOf(Pt(seg[1], seg[2]), Pt(seg[3], seg[4]), window, {}, 8),
                          c1 |-> Val(Code(Pt(seg[1], seg[2]), window)), c2 |-> Val(Code(Pt(seg[3], seg[4]), window))]))
Next == PointTest \/ OutCodes \/ TrivialAccept \/ TrivialReject \/ ClipEndpoint \/ Magnitude \/ Emit
Spec == Init /\ [][Next]_vars

(***************************************************************************)
(* Invariants                                                              *)
(***************************************************************************)
Result == IF pc = "drawn" THEN <<p1, p2>> ELSE <<>>
Terminal == pc \in {"drawn", "nothing"}
TypeOK == /\ pc \in {"start", "codes", "loop", "accepted", "drawn", "nothing", "emitted"}
          /\ IsQ(p1[1]) /\ IsQ(p1[2]) /\ IsQ(p2[1]) /\ IsQ(p2[2]) /\ steps \in 0..8
\* the state machine computes the function Drawn
MachineIsFunction == Terminal => Result = Drawn(seg, window, DEFECTS)
\* the drawn segment is exactly segment /\ window (all four clauses)
ClipIsIntersection == Terminal => AllTrue(ClipClauses(seg, window, Result))
\* rejected (or not drawn) iff the segment misses the window, up to a single common point
RejectedIffMisses == Terminal => ((Result = <<>>) <=> (Inter(seg, window) = <<>> \/ Inter(seg, window)[1] = Inter(seg, window)[2]))
\* the result does not depend on the order of the end points
OrderIndependent == pc = "start" => Drawn(RevSeg(seg), window, DEFECTS) = Swap(Drawn(seg, window, DEFECTS))
\* at most four clip steps, and the loop always ends
Within4 == steps <= 4 /\ (pc = "loop" /\ steps = 4 => (c1 = {} /\ c2 = {}) \/ c1 \cap c2 # {})
\* every intermediate end point stays on the line through the original end points
StaysOnLine == pc \in {"loop", "accepted", "drawn"} => OnLine(p1, seg) /\ OnLine(p2, seg)
=============================================================================
