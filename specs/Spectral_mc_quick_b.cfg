\* C14 design-level check, universe B (quick): best-of-two-trials selection; soft r=2, movable hard square, fixed square
\* on an 8x8 die, path of nets, two trials, two steps per dimension.
SPECIFICATION Spec
CONSTANTS
  HalfSet <- HalfA
  Profiles <- ProfB
  AreaProfiles <- AreaB
  Graphs = {"path"}
  FixSet <- FixA
  TrialSet = {2}
  MaxIter = 1
  GS = 4
  G = 2
  Rounds = 1
  TOL = 0
  EMIT = FALSE
INVARIANT TemplatesOnLattice
INVARIANT NormalizeMeetsContract
INVARIANT InSpanInv
INVARIANT SeedInv
INVARIANT TrialInv
INVARIANT BestInv
INVARIANT AreasNetsUnchanged
INVARIANT FixedRectsUntouched
INVARIANT CommitInv
INVARIANT HardCentroid
CHECK_DEADLOCK FALSE
