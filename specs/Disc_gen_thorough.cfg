SPECIFICATION Spec
CONSTANTS
  RMAX = 12
  NC = 24
  JUMP = 100
  EMIT = TRUE
CHECK_DEADLOCK FALSE
