SPECIFICATION Spec
CONSTANTS
  MAXROWS = 5
  MAXCOLS = 5
  MAXCELLS = 16
  DECLCELLS = 12
  EMIT = FALSE
INVARIANT TypeOK
INVARIANT InvExists
INVARIANT InvPartition
INVARIANT InvAbut
INVARIANT InvShadowIsDecl
INVARIANT InvTrunksSuffice
INVARIANT InvTrunksFull
INVARIANT LemmaTrunksValid
CHECK_DEADLOCK FALSE
