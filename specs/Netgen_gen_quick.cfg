\* NETGEN: behaviour generation -- print every command line with its class (nonsense / degenerate / defined)
SPECIFICATION Spec
CONSTANTS
  NMAX = 6
  GMAX = 4
  LMAX = 3
  EMIT = TRUE
CHECK_DEADLOCK FALSE
