---------------------------- MODULE GeometryOps ----------------------------
(***************************************************************************)
(* C18 -- Rectangle operations agree with plane geometry.                  *)
(*                                                                         *)
(* State machine: pick one or two tagged rectangles on a lattice, then     *)
(* apply any public Rectangle operation; `res` is the value the operation  *)
(* must return, defined from corner coordinates (module Geometry).         *)
(* TLC enumerates every (operands, operation, argument) of the bounded     *)
(* universe, checks the geometric laws as invariants, and (EMIT) prints    *)
(* every case for replay against frame.geometry.Rectangle.                 *)
(* GeometryTrace.tla re-uses Apply/Expected to judge observed results.     *)
(*                                                                         *)
(* Values are kept JSON-shaped: a tagged rectangle is the tuple            *)
(* <<x1,y1,x2,y2,region,fixed,hard>> (fixed/hard as 0/1).                  *)
(***************************************************************************)
EXTENDS Geometry, TLC, Json

CONSTANTS N,      \* lattice is 0..N in both axes
          K,      \* micro-units per lattice step (rectangle corners are multiples of K)
          EMIT    \* TRUE: print the cases (behaviour generation)

VARIABLES pc, a, b, op, arg, res
vars == <<pc, a, b, op, arg, res>>

Regions == {"g", "r"}            \* ground ("_" in FRAME) and a named region
Tag(r, reg, f, h) == <<r.x1, r.y1, r.x2, r.y2, reg, f, h>>
Untag(t) == RectOf(t)
RegOf(t) == t[5]
Retag(t, r) == Tag(r, t[5], t[6], t[7])      \* a piece of t: inherits region, fixed, hard
B2I(x) == IF x THEN 1 ELSE 0

Coords == { K * i : i \in 0..N }
LatticeRects == RectsOn(0, N, 0, N)
Scale(r) == Rect(K * r.x1, K * r.y1, K * r.x2, K * r.y2)

PairOps == {"area_overlap", "overlap", "mul", "is_inside", "touches", "eq"}
\* half-lattice cut coordinates, -1 = "halve" (FRAME's default argument)
CutArgs == { (K \div 2) * i : i \in 0..(2 * N) } \cup {-1}
RatioArgs == { <<1, 100>>, <<1, 10>>, <<1, 4>> }
GridArgs == { <<nr, nc>> : nr \in 1..4, nc \in 1..4 }
PointArgs == { <<K * i, K * j>> : i \in 0..(2 * N), j \in 0..(2 * N) }   \* doubled coordinates
OneArgs(o) == CASE o = "split" -> {<<>>}
                [] o = "duplicate" -> {<<>>}
                [] o \in {"split_horizontal", "split_vertical"} -> { <<c>> : c \in CutArgs }
                [] o \in {"x_cuttable", "y_cuttable"} -> { <<c, q[1], q[2]>> : c \in CutArgs \ {-1}, q \in RatioArgs }
                [] o = "rectangle_grid" -> GridArgs
                [] o = "point_inside" -> PointArgs
OneOps == {"split", "duplicate", "split_horizontal", "split_vertical", "x_cuttable", "y_cuttable",
           "rectangle_grid", "point_inside"}

(***************************************************************************)
(* The value every operation must return.  "undef" = the operation has a   *)
(* precondition that fails (FRAME asserts); such cases are not replayed.   *)
(***************************************************************************)
Defined(ta, o, g) ==
  LET r == Untag(ta) IN
  CASE o = "split" -> CanHalve(r)
    [] o = "split_horizontal" -> IF g[1] < 0 THEN CanHalveX(r) ELSE StrictlyInX(r, g[1])
    [] o = "split_vertical" -> IF g[1] < 0 THEN CanHalveY(r) ELSE StrictlyInY(r, g[1])
    [] o = "rectangle_grid" -> CanGrid(r, g[1], g[2])
    [] OTHER -> TRUE

Expected(ta, tb, o, g) ==
  LET r == Untag(ta)  s == Untag(tb) IN
  CASE o = "area_overlap" -> OverlapArea(r, s)
    [] o = "overlap" -> B2I(Overlaps(r, s))
    [] o = "mul" -> IF Overlaps(r, s) /\ RegOf(ta) = RegOf(tb) THEN <<Retag(ta, Inter(r, s))>> ELSE <<>>
    [] o = "is_inside" -> B2I(Inside(r, s))
    [] o = "touches" -> B2I(Touch(r, s))
    \* touching within a stated distance tolerance of g[1] HALF lattice units (odd, so that no gap equals it): coordinate
    \* comparison per axis, as the statement says ("touching (within the distance tolerance) match coordinate comparison")
    [] o = "touches_tol" -> B2I(2 * OvW(r, s) >= -g[1] /\ 2 * OvH(r, s) >= -g[1])
    \* containment, observed together with the comparison of the objects' own corner coordinates (bounding_box)
    [] o = "is_inside_bb" -> <<B2I(Inside(r, s)), B2I(Inside(r, s))>>
    [] o = "eq" -> B2I(r = s /\ RegOf(ta) = RegOf(tb))
    [] o = "duplicate" -> <<ta>>
    [] o = "split" -> <<Retag(ta, Halve(r)[1]), Retag(ta, Halve(r)[2])>>
    [] o = "split_horizontal" ->
         LET p == IF g[1] < 0 THEN HalveX(r) ELSE CutX(r, g[1]) IN <<Retag(ta, p[1]), Retag(ta, p[2])>>
    [] o = "split_vertical" ->
         LET p == IF g[1] < 0 THEN HalveY(r) ELSE CutY(r, g[1]) IN <<Retag(ta, p[1]), Retag(ta, p[2])>>
    [] o = "rectangle_grid" -> [ k \in 1..(g[1] * g[2]) |-> Retag(ta, GridSeq(r, g[1], g[2])[k]) ]
    [] o = "x_cuttable" -> B2I(XCuttableImpl(r, g[1], g[2], g[3]))
    [] o = "y_cuttable" -> B2I(YCuttableImpl(r, g[1], g[2], g[3]))
    [] o = "point_inside" -> B2I(PointIn2(g[1], g[2], r))

(***************************************************************************)
(* Property clauses on an OBSERVED result v (what C18's statement says,    *)
(* nothing more).  Everything beyond (piece order, tie rule of split,      *)
(* the sliver band, ==) is model conformance only.                         *)
(***************************************************************************)
IsBit(v) == v \in {0, 1}
PiecesOf(v) == { Untag(v[k]) : k \in DOMAIN v }
Inherit(ta, v) == \A k \in DOMAIN v : v[k][5] = ta[5] /\ v[k][6] = ta[6] /\ v[k][7] = ta[7]
\* `ex` = the embedding is exact (all coordinates dyadic: every float operation is exact).  Under an inexact
\* embedding (steps 0.1, 1/3, 1e-3) the exact comparisons of containment and point membership are decided
\* by the last bit when an edge is shared, so only the unambiguous direction is required there.
\* `sm` = small-magnitude embedding (1e-6 units): FRAME's area tolerance (the square root of the distance tolerance) is
\* then larger than a lattice cell, so the thresholded boolean overlap() may answer 0 for a genuine overlap; only "1 =>
\* the rectangles overlap" is required of it there (the statement speaks of the overlap AREA, which stays exact).
Holds(ta, tb, o, g, v, ex, sm) ==
  LET r == Untag(ta)  s == Untag(tb) IN
  CASE o = "area_overlap" -> v = OverlapArea(r, s)
    [] o = "overlap" -> IF sm THEN IsBit(v) /\ (v = 1 => Overlaps(r, s)) ELSE v = B2I(Overlaps(r, s))
    [] o = "move" -> TRUE
    [] o = "mul" -> IF Overlaps(r, s) /\ RegOf(ta) = RegOf(tb)
                    THEN Len(v) = 1 /\ Untag(v[1]) = Inter(r, s) /\ Inherit(ta, v)
                    ELSE \/ v = <<>>
                         \* inexact coordinates: rectangles sharing an edge may overlap by one unit in the
                         \* last place; the degenerate common region (zero lattice area) is then accepted
                         \/ /\ ~ex /\ RegOf(ta) = RegOf(tb) /\ Touch(r, s) /\ Len(v) = 1
                            /\ Untag(v[1]) = Inter(r, s) /\ Inherit(ta, v)
    [] o = "is_inside" -> IF ex THEN v = B2I(Inside(r, s))
                          ELSE IsBit(v) /\ (v = 1 => Inside(r, s)) /\ (InsideStrict(r, s) => v = 1)
    [] o = "touches" -> v = B2I(Touch(r, s))
    [] o = "touches_tol" -> v = B2I(2 * OvW(r, s) >= -g[1] /\ 2 * OvH(r, s) >= -g[1])
    \* "containment ... match[es] coordinate comparison": the answer equals the comparison of the four corner coordinates
    \* the objects themselves report (second component), under every embedding; and plane geometry where it is decidable
    [] o = "is_inside_bb" -> /\ Len(v) = 2 /\ IsBit(v[1]) /\ v[1] = v[2]
                             /\ IF ex THEN v[1] = B2I(Inside(r, s))
                                ELSE (v[1] = 1 => Inside(r, s)) /\ (InsideStrict(r, s) => v[1] = 1)
    [] o = "point_inside" -> IF ex THEN v = B2I(PointIn2(g[1], g[2], r))
                             ELSE IsBit(v) /\ (v = 1 => PointIn2(g[1], g[2], r)) /\ (PointIn2Strict(g[1], g[2], r) => v = 1)
    [] o = "duplicate" -> v = <<ta>>
    [] o = "split" ->         \* halving: two equal pieces tiling r (either axis accepted for a square)
         /\ Len(v) = 2 /\ Inherit(ta, v) /\ Tiles(PiecesOf(v), r) /\ Cardinality(PiecesOf(v)) = 2
         /\ Area(Untag(v[1])) = Area(Untag(v[2]))
         /\ (W(r) # H(r) => PiecesOf(v) = {Halve(r)[1], Halve(r)[2]})
    [] o = "split_horizontal" ->
         LET p == IF g[1] < 0 THEN HalveX(r) ELSE CutX(r, g[1]) IN
         Len(v) = 2 /\ Inherit(ta, v) /\ PiecesOf(v) = {p[1], p[2]}
    [] o = "split_vertical" ->
         LET p == IF g[1] < 0 THEN HalveY(r) ELSE CutY(r, g[1]) IN
         Len(v) = 2 /\ Inherit(ta, v) /\ PiecesOf(v) = {p[1], p[2]}
    [] o = "rectangle_grid" ->
         /\ Len(v) = g[1] * g[2] /\ Inherit(ta, v)
         /\ PiecesOf(v) = GridSet(r, g[1], g[2]) /\ Tiles(PiecesOf(v), r)
    [] o = "x_cuttable" -> /\ IsBit(v)
                           /\ (v = 1 => StrictlyInX(r, g[1]))
                           /\ (StrictlyInX(r, g[1]) /\ NoSliverX(r, g[1], g[2], g[3]) => v = 1)
    [] o = "y_cuttable" -> /\ IsBit(v)
                           /\ (v = 1 => StrictlyInY(r, g[1]))
                           /\ (StrictlyInY(r, g[1]) /\ NoSliverY(r, g[1], g[2], g[3]) => v = 1)
    [] o = "eq" -> TRUE

(***************************************************************************)
(* State machine                                                           *)
(***************************************************************************)
NoRect == <<0, 0, 0, 0, "g", 0, 0>>
Init == pc = "pick" /\ a = NoRect /\ b = NoRect /\ op = "" /\ arg = <<>> /\ res = <<>>

PickPair == /\ pc = "pick"
            /\ \E r \in LatticeRects, s \in LatticeRects, rb \in Regions, f \in {0, 1} :
                  /\ a' = Tag(Scale(r), "g", f, 1 - f)
                  /\ b' = Tag(Scale(s), rb, 0, 0)
            /\ pc' = "pair" /\ UNCHANGED <<op, arg, res>>

PickOne == /\ pc = "pick"
           /\ \E r \in LatticeRects, ra \in Regions, f \in {0, 1}, h \in {0, 1} :
                 a' = Tag(Scale(r), ra, f, h)
           /\ b' = NoRect
           /\ pc' = "one" /\ UNCHANGED <<op, arg, res>>

Apply(o, g) == /\ Defined(a, o, g)
               /\ op' = o /\ arg' = g /\ res' = Expected(a, b, o, g)
               /\ UNCHANGED <<a, b>>

\* the live object `a` is moved IN PLACE (FRAME code does this: Module.recenter_rectangles adds to r.center.x / .y);
\* every later operation must answer for the new position
MoveA(dx, dy) == /\ a' = <<a[1] + dx, a[2] + dy, a[3] + dx, a[4] + dy, a[5], a[6], a[7]>>
                 /\ op' = "move" /\ arg' = <<dx, dy>> /\ res' = <<>> /\ UNCHANGED b
MovePair == /\ pc = "pair" /\ pc' = "pairmoved"
            /\ \E d \in {<<K, 0>>, <<-K, 0>>, <<0, K>>, <<0, -K>>} :
                 /\ a[1] + d[1] >= 0 /\ a[2] + d[2] >= 0 /\ a[3] + d[1] <= N * K /\ a[4] + d[2] <= N * K
                 /\ MoveA(d[1], d[2])
ApplyPair == pc \in {"pair", "pairmoved"} /\ pc' = "pairdone" /\ \E o \in PairOps : Apply(o, <<>>)
ApplyOne == pc = "one" /\ pc' = "onedone" /\ \E o \in OneOps : \E g \in OneArgs(o) : Apply(o, g)

\* behaviour generation: one line per picked operand(s) listing every applicable (operation, argument)
OneCases(ta) == UNION { { <<o, g>> : g \in { gg \in OneArgs(o) : Defined(ta, o, gg) } } : o \in OneOps }
CaseOf(ta, tb, kind, ops) ==
  [ kind |-> kind, a |-> ta, b |-> tb, events |-> SetToSeq({ [op |-> o[1], arg |-> o[2]] : o \in ops }) ]
EmitPair == /\ EMIT /\ pc = "pair" /\ pc' = "emitted" /\ UNCHANGED <<a, b, op, arg, res>>
            /\ PrintT(ToJson(CaseOf(a, b, "pair", { <<o, <<>>>> : o \in PairOps })))
EmitOne == /\ EMIT /\ pc = "one" /\ pc' = "emitted" /\ UNCHANGED <<a, b, op, arg, res>>
           /\ PrintT(ToJson(CaseOf(a, b, "one", OneCases(a))))

Next == PickPair \/ PickOne \/ (~EMIT /\ (MovePair \/ ApplyPair \/ ApplyOne)) \/ EmitPair \/ EmitOne
Spec == Init /\ [][Next]_vars

(***************************************************************************)
(* Invariants: the laws of C18 hold for the specified operations           *)
(***************************************************************************)
InPair == pc \in {"pair", "pairmoved", "pairdone"}
InOne == pc \in {"one", "onedone"}
LawSymmetric == InPair => LemmaOverlapSym(Untag(a), Untag(b)) /\ Inter(Untag(a), Untag(b)) = Inter(Untag(b), Untag(a))
LawIntersection == InPair => LemmaInter(Untag(a), Untag(b))
LawInterExists == InPair => ((Expected(a, b, "mul", <<>>) # <<>>) <=> (OverlapArea(Untag(a), Untag(b)) > 0 /\ RegOf(a) = RegOf(b)))
LawInsideArea == InPair => (Inside(Untag(a), Untag(b)) <=> OverlapArea(Untag(a), Untag(b)) = Area(Untag(a)))
LawTouch == InPair => (Touch(Untag(a), Untag(b)) <=> Gap(Untag(a), Untag(b)) = 0) /\ (Overlaps(Untag(a), Untag(b)) => Touch(Untag(a), Untag(b)))
\* the specified result always satisfies the property clauses (the model is an instance of the property)
LawModelMeetsProperty == pc \in {"pairdone", "onedone"} => Holds(a, b, op, arg, res, TRUE, FALSE)
LawSplitTiles == (pc = "onedone" /\ op \in {"split", "split_horizontal", "split_vertical", "rectangle_grid"})
                    => Tiles(PiecesOf(res), Untag(a)) /\ Inherit(a, res)
LawCuttable == (pc = "onedone" /\ op = "x_cuttable") =>
                    /\ (res = 1 => StrictlyInX(Untag(a), arg[1]))
                    /\ (StrictlyInX(Untag(a), arg[1]) /\ NoSliverX(Untag(a), arg[1], arg[2], arg[3]) => res = 1)
=============================================================================
