SPECIFICATION Spec
CONSTANTS
  DW = 4
  DH = 3
  OUT = 0
  MAXR = 2
  TAGS <- Tags2
  XS <- XSthin
  YS <- YSthin
  SPLITS <- SplitsQ
  GRIDS <- GridsQ
  EMIT = TRUE
CHECK_DEADLOCK FALSE
