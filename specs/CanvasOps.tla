------------------------------ MODULE CanvasOps ------------------------------
(***************************************************************************)
(* CANVAS (2) -- the coordinate map and the colour helpers of               *)
(* tools/rect/canvas.py, as value-level operators, a small machine that     *)
(* enumerates their arguments, the laws they must satisfy, and the clauses  *)
(* that judge observed results (CanvasTrace.tla).                           *)
(*                                                                          *)
(* Where each clause comes from:                                            *)
(*  interpolate  docstring "Moves a point from virtual space to image       *)
(*    space"; Canvas's class comment: (x0,y0) is the UPPER LEFT corner in   *)
(*    virtual space, (x1,y1) the BOTTOM RIGHT one, image space is           *)
(*    [0,width] x [0,height] with the origin at the upper left (PIL).       *)
(*    Hence: the two corners go to (0,0) and (width,height), the map is     *)
(*    affine (mid points go to mid points), and monotone on each axis in    *)
(*    the direction x0 -> x1, y0 -> y1.  Interp is the unique such map.     *)
(*  rgb          docstring: "three values ... from 0 to 255 ... into a hex  *)
(*    code for the RGB color they represent": '#' + two hex digits per      *)
(*    channel, most significant first.                                      *)
(*  hex_breakdown no docstring; used as the inverse of such codes (drawbox, *)
(*    clear): '#'-optional, 6 digits -> (r,g,b,255), 8 digits -> (r,g,b,a), *)
(*    upper or lower case; 3 / 4 digit short forms are only required to be  *)
(*    total with channels in 0..255 (the code scales a digit by 16).        *)
(*  color_mix    docstring: "returns p*c2 + (1-p)*c1 in hex": p <= 0 gives  *)
(*    c1, p >= 1 gives c2, otherwise each channel is that number rounded    *)
(*    (within 1/2), hence in 0..255.                                        *)
(*                                                                          *)
(* A colour string is handled as the sequence of its hex digit VALUES       *)
(* (0..15); the harness refuses anything that is not '#' + hex digits       *)
(* (clause rgb_format).  Ratios p are <<num, den>>.                         *)
(***************************************************************************)
EXTENDS Rational, Sequences, SequencesExt, FiniteSets, TLC, Json

CONSTANTS CN,       \* points on the lattice 0..CN (and the half points) for the coordinate map
          CWINDOWS, \* set of <<x0, y0, x1, y1>>
          SIZES,    \* set of <<width, height>> of the image
          DEEP,     \* TRUE: the wider colour universe
          CEMIT

VARIABLES ck,    \* kind of the case: "interp" | "rgb" | "mix" | "hex" | "" (not picked yet)
          carg,  \* its arguments
          cres   \* the specified result
cvars == <<ck, carg, cres>>

(***************************************************************************)
(* The coordinate map                                                      *)
(***************************************************************************)
\* p = <<x, y>> rationals; w = <<x0, y0, x1, y1>> integers (x0 # x1, y0 # y1); sz = <<width, height>>
Interp(w, sz, p) == << RDiv(RMul(RSub(p[1], I(w[1])), I(sz[1])), I(w[3] - w[1])),
                       RDiv(RMul(RSub(p[2], I(w[2])), I(sz[2])), I(w[4] - w[2])) >>
Mid(p, q) == << RDiv(RAdd(p[1], q[1]), I(2)), RDiv(RAdd(p[2], q[2]), I(2)) >>
\* Property clauses on OBSERVED images obs[i] of the points pts[i] (pts[1], pts[2] are the two corners)
InterpClauses(w, sz, pts, obs) ==
  [ interp_corners  |-> obs[1] = <<I(0), I(0)>> /\ obs[2] = <<I(sz[1]), I(sz[2])>>,
    interp_affine   |-> \A i \in DOMAIN pts : obs[i] = Interp(w, sz, pts[i]),
    interp_monotone |-> \A i \in DOMAIN pts : \A j \in DOMAIN pts :
                          /\ (RLt(pts[i][1], pts[j][1]) => IF w[1] < w[3] THEN RLt(obs[i][1], obs[j][1]) ELSE RLt(obs[j][1], obs[i][1]))
                          /\ (RLt(pts[i][2], pts[j][2]) => IF w[2] < w[4] THEN RLt(obs[i][2], obs[j][2]) ELSE RLt(obs[j][2], obs[i][2])) ]

(***************************************************************************)
(* Colours                                                                 *)
(***************************************************************************)
Hex2(v) == <<v \div 16, v % 16>>
RgbDigits(c) == Hex2(c[1]) \o Hex2(c[2]) \o Hex2(c[3])
Pair(d, i) == 16 * d[i] + d[i + 1]
\* hex_breakdown of the digit sequence d (length 3, 4, 6 or 8)
Breakdown(d) ==
  CASE Len(d) = 6 -> <<Pair(d, 1), Pair(d, 3), Pair(d, 5), 255>>
    [] Len(d) = 8 -> <<Pair(d, 1), Pair(d, 3), Pair(d, 5), Pair(d, 7)>>
    [] Len(d) = 3 -> <<16 * d[1], 16 * d[2], 16 * d[3], 255>>
    [] Len(d) = 4 -> <<16 * d[1], 16 * d[2], 16 * d[3], 16 * d[4]>>
IsDigits(d, n) == Len(d) = n /\ \A i \in DOMAIN d : d[i] \in 0..15
InRange(t) == \A i \in DOMAIN t : t[i] \in 0..255
\* the channel value v is p*b + (1-p)*a rounded: within one half of it
RoundedMix(v, a, b, p) == LET e == b * p[1] + a * (p[2] - p[1]) IN 2 * Abs(v * p[2] - e) <= p[2]
MixSpec(c1, c2, p) ==      \* one admissible result (ties rounded to even, as Python's round does)
  IF p[1] <= 0 THEN c1 ELSE IF p[1] >= p[2] THEN c2
  ELSE [ i \in 1..3 |-> LET e == c2[i] * p[1] + c1[i] * (p[2] - p[1])
                            q == e \div p[2]  r == e % p[2] IN
                        IF 2 * r < p[2] THEN q ELSE IF 2 * r > p[2] THEN q + 1 ELSE IF q % 2 = 0 THEN q ELSE q + 1 ]

\* Property clauses on OBSERVED results.  d = digit values of the returned string, hash = 1 iff it starts with '#'
RgbClauses(c, hash, d, back) ==
  [ rgb_format    |-> hash = 1 /\ IsDigits(d, 6),
    rgb_value     |-> IsDigits(d, 6) => <<Pair(d, 1), Pair(d, 3), Pair(d, 5)>> = c,
    rgb_roundtrip |-> back = <<c[1], c[2], c[3], 255>> ]       \* hex_breakdown(rgb(r,g,b))
HexClauses(d, out) ==
  [ hex_value |-> Len(d) \in {6, 8} => out = Breakdown(d),
    hex_range |-> Len(out) = 4 /\ InRange(out) /\ (Len(d) \in {3, 6} => out[4] = 255) ]
MixClauses(c1, c2, p, hash, d) ==
  LET v == <<Pair(d, 1), Pair(d, 3), Pair(d, 5)>> IN
  [ mix_format    |-> hash = 1 /\ IsDigits(d, 6),
    mix_endpoints |-> IsDigits(d, 6) => (p[1] <= 0 => v = c1) /\ (p[1] >= p[2] => v = c2),
    mix_value     |-> (IsDigits(d, 6) /\ p[1] > 0 /\ p[1] < p[2]) => \A i \in 1..3 : RoundedMix(v[i], c1[i], c2[i], p),
    mix_range     |-> IsDigits(d, 6) => InRange(v) ]
AllHold(cl) == \A f \in DOMAIN cl : cl[f]

QuickSizes == { <<8, 8>>, <<12, 5>> }
ThoroughSizes == QuickSizes \cup { <<800, 800>> }
CQuickWindows == { <<2, 2, 4, 4>>, <<1, 4, 4, 1>>, <<-1, -1, 5, 4>> }
CThoroughWindows == CQuickWindows \cup { <<5, 1, 2, 6>>, <<0, 0, 7, 7>>, <<3, 7, -2, 0>> }

(***************************************************************************)
(* The machine: pick a case, compute the specified result                  *)
(***************************************************************************)
Lat == 0..CN
LatticePoints == { <<I(x), I(y)>> : x \in Lat, y \in Lat } \cup { <<Q(2 * x + 1, 2), Q(2 * y + 1, 2)>> : x \in 0..(CN - 1), y \in 0..(CN - 1) }
Corners(w) == << <<I(w[1]), I(w[2])>>, <<I(w[3]), I(w[4])>> >>
Triples == IF DEEP THEN { <<a, b, c>> : a \in {0, 1, 127, 255}, b \in {0, 128, 254}, c \in {0, 16, 255} }
           ELSE { <<255, 255, 255>>, <<0, 0, 0>>, <<255, 0, 0>>, <<12, 130, 251>>, <<200, 1, 77>> }
Ratios == { <<-1, 4>>, <<0, 1>>, <<1, 10>>, <<1, 4>>, <<1, 3>>, <<1, 2>>, <<2, 3>>, <<9, 10>>, <<1, 1>>, <<5, 4>> }
         \cup (IF DEEP THEN { <<i, 8>> : i \in 1..7 } \cup { <<i, 255>> : i \in {1, 127, 128, 254} } ELSE {})
HexStrings == { <<15, 15, 15, 15, 15, 15>>, <<0, 0, 0, 0, 0, 0>>, <<15, 15, 0, 0, 0, 0>>, <<1, 2, 10, 11, 12, 15>>,
                <<1, 2, 10, 11, 12, 15, 8, 0>>, <<15, 15, 15, 15, 15, 15, 0, 0>>, <<15, 15, 15>>, <<1, 10, 15>>, <<0, 8, 15, 7>> }

CInit == ck = "" /\ carg = <<>> /\ cres = <<>>
PickInterp == /\ ck = "" /\ \E w \in CWINDOWS, sz \in SIZES :
                   /\ carg' = [window |-> w, size |-> sz]
                   /\ cres' = [ p \in LatticePoints \cup { Corners(w)[1], Corners(w)[2] } |-> Interp(w, sz, p) ]
              /\ ck' = "interp"
PickRgb == /\ ck = "" /\ \E v \in 0..255 : LET c == <<v, (7 * v + 3) % 256, 255 - v>> IN carg' = c /\ cres' = RgbDigits(c)
           /\ ck' = "rgb"
PickMix == /\ ck = "" /\ \E c1 \in Triples, c2 \in Triples, p \in Ratios :
                carg' = <<c1, c2, p>> /\ cres' = RgbDigits(MixSpec(c1, c2, p))
           /\ ck' = "mix"
PickHex == /\ ck = "" /\ \E d \in HexStrings : carg' = d /\ cres' = Breakdown(d)
           /\ ck' = "hex"
\* behaviour generation
CEmit == /\ CEMIT /\ ck \in {"interp", "rgb", "mix", "hex"} /\ ck' = "emitted" /\ UNCHANGED <<carg, cres>>
         /\ PrintT(ToJson([kind |-> ck, arg |-> carg, pts |-> IF ck = "interp" THEN SetToSeq(DOMAIN cres) ELSE <<>>]))
CNext == PickInterp \/ PickRgb \/ PickMix \/ PickHex \/ CEmit
CSpec == CInit /\ [][CNext]_cvars

(***************************************************************************)
(* Laws of the specified operators                                         *)
(***************************************************************************)
LawInterp == ck = "interp" =>
  LET w == carg.window  sz == carg.size  P == DOMAIN cres IN
  /\ cres[Corners(w)[1]] = <<I(0), I(0)>> /\ cres[Corners(w)[2]] = <<I(sz[1]), I(sz[2])>>
  /\ \A p \in P : \A q \in P : Mid(p, q) \in P => cres[Mid(p, q)] = Mid(cres[p], cres[q])          \* affine
  /\ \A p \in P : \A q \in P : RLt(p[1], q[1]) => (IF w[1] < w[3] THEN RLt(cres[p][1], cres[q][1]) ELSE RLt(cres[q][1], cres[p][1]))
  /\ \A p \in P : \A q \in P : RLt(p[2], q[2]) => (IF w[2] < w[4] THEN RLt(cres[p][2], cres[q][2]) ELSE RLt(cres[q][2], cres[p][2]))
LawRgb == ck = "rgb" => AllHold(RgbClauses(carg, 1, cres, Breakdown(cres)))
LawMix == ck = "mix" => AllHold(MixClauses(carg[1], carg[2], carg[3], 1, cres))
LawHex == ck = "hex" => AllHold(HexClauses(carg, cres))
LawRoundTrip == ck = "rgb" => Breakdown(RgbDigits(carg)) = <<carg[1], carg[2], carg[3], 255>>
=============================================================================
