SPECIFICATION Spec
CONSTANTS
  Vars = {"a", "b"}
  CoefNeg = 2
  CoefPos = 3
  ConstMax = 2
  MulNeg = 2
  MulPos = 3
  CMax = 3
  KMax = 3
  CMax2 = 1
  KMax2 = 1
  EMIT = FALSE
CONSTRAINT InBox
CHECK_DEADLOCK FALSE
INVARIANT SemOK
INVARIANT CoefPositive
INVARIANT OnePerVar
INVARIANT IneqOK
INVARIANT IneqAllOps
INVARIANT IneqShape
INVARIANT NormalFormUnique
