\* exhaustive: Gen/Enc with up to four boxes on the quick grids (the tool uses 1..3)
SPECIFICATION Spec
CONSTANTS
  GRIDS <- QuickGrids
  SGRIDS <- McSolveGrids
  AGRIDS <- TinyGrids
  KMAX = 4
  DEN = 2
  OCCVALS = {0, 1, 2}
  FNUM = 100
  FDEN = 1
  RATIO = 2
  MODES = {"gen", "enc"}
  BORDER = "grid"
  UNIT = 1
  EMIT = FALSE
INVARIANT TypeOK
INVARIANT InputIsGrid
INVARIANT GenIsDecl
INVARIANT GenClosed
INVARIANT EncSound
INVARIANT EncComplete
INVARIANT SolveMeetsProperty
INVARIANT LoopOptimal
INVARIANT TableIsObj
INVARIANT FastIsTable
INVARIANT LoopNoShapes
PROPERTY BoundGrows
PROPERTY StrictlyGrows
CHECK_DEADLOCK FALSE
