SPECIFICATION Spec
CONSTANTS
  DW = 4
  DH = 3
  OUT = 0
  MAXR = 2
  TAGS <- Tags2
  XS <- XSthin
  YS <- YSthin
  SPLITS = {}
  GRIDS = {}
  EMIT = FALSE
INVARIANT VerdictIffValid
INVARIANT AllInside
INVARIANT NoOverlap
INVARIANT AreaSum
INVARIANT CoverExact
INVARIANT GroundFree
INVARIANT SplitMeetsPost
INVARIANT GridMeetsPost
INVARIANT SplitLoopInv
CHECK_DEADLOCK FALSE
