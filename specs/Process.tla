------------------------------ MODULE Process ------------------------------
(***************************************************************************)
(* C20 -- Results do not depend on what the process did before.            *)
(*                                                                         *)
(* FRAME keeps process-wide state; this module models exactly those        *)
(* registers and how every library operation reads and writes them:        *)
(*   eps     Rectangle._distance_epsilon/_area_epsilon: unset, or set ONCE *)
(*           by the first design loaded in the process (Netlist: 1e-12 *   *)
(*           smallest feature, Die: 1e-11 * min side, Allocation: 1e-12 *  *)
(*           min side of the bounding box).  Kept as <<owner step, decade>>*)
(*           where decade = scale index of the design that set it.         *)
(*   store   pseudobool.memory / mmap: the shared ROBDD store, only grows  *)
(*           (Encode).  Kept as the number of encodings that used it.      *)
(*   legal   tools.legalfloor.expression_tree globals (epsilon tree, debug *)
(*           flags): overwritten by every legaliser model construction.    *)
(* A history is a sequence of operations on unrelated designs, each at a   *)
(* scale from SCALES (all within the factor-1000 band of the probed        *)
(* design).  The probed operation's abstract result is a function of the   *)
(* probed design and of the registers it READS; NoLeak states that for     *)
(* every reachable history it equals the result in a fresh process.        *)
(***************************************************************************)
EXTENDS Integers, Sequences, FiniteSets, TLC, Json

CONSTANTS KINDS,     \* operation kinds usable in histories
          PROBES,    \* probed operation kinds
          SCALES,    \* scale indices of history designs (naturals); MID = the probed design's own scale
          MID,
          BAND,      \* |scale - MID| <= BAND  <=>  within the factor-1000 band (conservative reading)
          MAXH,      \* maximal history length
          EMIT

VARIABLES pc,      \* "hist" | "probed" | "emitted"
          hist,    \* sequence of <<kind, scale>>
          eps,     \* <<owner, scale>>; owner = 0 when unset, else the 1-based step that set it
          store,   \* number of Encode operations so far
          legal,   \* number of legaliser models built so far
          probe,   \* the probed kind ("" before the probe)
          result   \* abstract result of the probe: <<kind, tolerance class used>>
vars == <<pc, hist, eps, store, legal, probe, result>>

Loaders == {"netlist", "die", "alloc", "stog", "legal", "sliver", "initalloc"}   \* operations that load a design (set eps when unset)
ReadsEps == {"netlist", "die", "alloc", "stog", "sliver", "initalloc"}       \* operations whose answer involves the tolerances
\* "undef" is the public call Rectangle.undefine_epsilon(): the next loader derives the tolerances afresh.
\* "pads" (history only) loads a netlist made of terminals only: a design without any dimension, so it has nothing to derive
\* the tolerances from and must leave them as they are (unset stays unset: the next loader sets them).  On the pinned tree
\* it set them to infinity, after which every die was rejected: repaired in /repo (fixed: property=C20).
\* "sliver" is a probe only: a design whose rectangles overlap by an area within a factor 3 of its own area tolerance.
\* Its verdict is decided by the tolerance in force, so it equals the fresh verdict only when the tolerance is unset
\* at the probe (the probe then derives it from itself) -- e.g. after a history that ends with "undef".
ReadsStore == {"encode"}
ReadsLegal == {"legal"}

Init == pc = "hist" /\ hist = <<>> /\ eps = <<0, 0>> /\ store = 0 /\ legal = 0 /\ probe = "" /\ result = <<>>

\* one operation of the history on an unrelated design of scale s
Op(k, s) == /\ hist' = Append(hist, <<k, s>>)
            /\ eps' = IF k = "undef" THEN <<0, 0>>
                      ELSE IF k \in Loaders /\ eps[1] = 0 THEN <<Len(hist) + 1, s>> ELSE eps
            /\ store' = IF k = "encode" THEN store + 1 ELSE store
            /\ legal' = IF k = "legal" THEN legal + 1 ELSE legal

HistStep == /\ pc = "hist" /\ Len(hist) < MAXH
            /\ \E k \in KINDS : \E s \in SCALES : Op(k, s)
            /\ UNCHANGED <<pc, probe, result>>

(***************************************************************************)
(* The abstract result of a probe.  Geometric answers are determined by    *)
(* the design as long as the tolerance in force is in the band in which    *)
(* it separates "equal up to rounding" from "different by a feature":      *)
(* TolClass = "ok" for every tolerance set by a design within BAND.        *)
(* The SAT projection does not depend on the store (node ids are not       *)
(* observable); the legaliser's equations do not depend on earlier models. *)
(***************************************************************************)
TolClass(e, k) == IF k \notin ReadsEps THEN "n/a"
                  ELSE IF e[1] = 0 THEN "ok"                    \* the probe itself sets it
                  ELSE IF k = "sliver" THEN "set_by_another_design"   \* outside the assumption: not judged
                  ELSE IF e[2] - MID >= -BAND /\ e[2] - MID <= BAND THEN "ok" ELSE "out_of_band"
ResultOf(k, e, st, lg) == <<k, TolClass(e, k)>>
Fresh(k) == ResultOf(k, <<0, 0>>, 0, 0)

Probe == /\ pc = "hist"
         /\ \E k \in PROBES :
              /\ probe' = k
              /\ result' = ResultOf(k, eps, store, legal)
              /\ Op(k, MID)
         /\ pc' = "probed"

Emit == /\ EMIT /\ pc = "probed" /\ pc' = "emitted"
        /\ PrintT(ToJson([hist |-> SubSeq(hist, 1, Len(hist) - 1), probe |-> probe,
                          eps_owner |-> eps[1], store |-> store, legal |-> legal]))
        /\ UNCHANGED <<hist, eps, store, legal, probe, result>>

Next == HistStep \/ Probe \/ Emit
Spec == Init /\ [][Next]_vars

(***************************************************************************)
(* Properties                                                              *)
(***************************************************************************)
\* (a sliver probe is inside the assumption only when the tolerance is unset when it runs)
NoLeak == pc = "probed" /\ ~(probe = "sliver" /\ result[2] = "set_by_another_design") => result = Fresh(probe)
\* the tolerance is set once and never changes afterwards
EpsSetOnce == [][eps[1] # 0 /\ (hist' = hist \/ hist'[Len(hist')][1] # "undef") => eps' = eps]_vars
MaxOf(S) == CHOOSE x \in S : \A y \in S : y <= x
LastUndef == IF \E i \in DOMAIN hist : hist[i][1] = "undef" THEN MaxOf({ i \in DOMAIN hist : hist[i][1] = "undef" }) ELSE 0
EpsOwnerIsFirstLoader == eps[1] # 0 =>
     /\ hist[eps[1]][1] \in Loaders /\ eps[1] > LastUndef
     /\ \A i \in (LastUndef + 1)..(eps[1] - 1) : hist[i][1] \notin Loaders
StoreMonotone == [][store' >= store /\ legal' >= legal]_vars
=============================================================================
