\* Universe H (thorough): histories of 4 operations, three values.
SPECIFICATION Spec
CONSTANTS
  Consts <- ConstsH
  Scals <- ScalsH
  Vals <- ValsB
  Inits <- InitsA
  BinOps <- TwoBin
  WithSqrt = FALSE
  WithRaw = FALSE
  SameNames = {0, 1}
  MaxBuild = 1
  MaxOps = 4
  OpKinds = {"assign", "undo", "undot", "rehome"}
  RehomeTargets = {0, 2}
  EqCmps = {}
  EqEps <- EpsA
  STACKUNDO = FALSE
  EMIT = TRUE
CHECK_DEADLOCK FALSE
