\* Universe H (thorough): one + application, then every history of 4 operations (assign of 0 or 9/4, undo, undo on the term, set_gekko towards a new model or model 2).
SPECIFICATION Spec
CONSTANTS
  Consts <- ConstsH
  Scals <- ScalsH
  Vals <- ValsA
  Inits <- InitsA
  BinOps <- OneBin
  WithSqrt = FALSE
  WithRaw = FALSE
  SameNames = {0}
  MaxBuild = 1
  MaxOps = 4
  OpKinds = {"assign", "undo", "undot", "rehome"}
  RehomeTargets = {0, 2}
  EqCmps = {}
  EqEps <- EpsA
  STACKUNDO = FALSE
  EMIT = TRUE
CHECK_DEADLOCK FALSE
