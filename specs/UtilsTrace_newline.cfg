SPECIFICATION TraceSpec
CONSTANTS
  NEWLINE_TEXT = TRUE
  Alpha = {"a"}
  MaxLen = 0
  EMIT = FALSE
CHECK_DEADLOCK FALSE
