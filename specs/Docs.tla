-------------------------------- MODULE Docs --------------------------------
(***************************************************************************)
(* C19 -- Every document FRAME produces is accepted back and says the same *)
(* thing; producing never alters the object, so producing twice gives      *)
(* identical documents.                                                    *)
(*                                                                         *)
(* Producers (one action each) and their readers:                          *)
(*   WriteDie          Die.write_yaml                      -> Die          *)
(*   WriteAlloc        Allocation.write_yaml               -> Allocation   *)
(*   Gen               tools/netgen gen_* (+ main)         -> Netlist      *)
(*   ConvertFloorSet   FloorSetInstance.write_yaml_FPEF    -> Netlist      *)
(*                     FloorSetInstance.write_yaml_DIEF    -> Die          *)
(*   EmitRectNetlist   rect_io.get_netlist(None, alloc)    -> Netlist      *)
(*   EmitRectSolution  rect_io.solution_to_netlist         -> Netlist      *)
(*   EmitLegalNetlist  legalfloor Model.get_netlist        -> Netlist      *)
(*                                                                         *)
(* Three layers of JSON-shaped values (tuples, records, ints, strings):    *)
(*   objects    what a producer starts from (a die, an allocation, a       *)
(*              topology and its size, a FloorSet instance, an allocation  *)
(*              or a netlist plus a solution, a legaliser model), on the   *)
(*              integer lattice of module Geometry;                        *)
(*   documents  the abstract YAML trees (DIEF, allocation, FPEF): exactly  *)
(*              the keys and list shapes the formats have, coordinates as  *)
(*              corner tuples (the centre/size rendering under a float     *)
(*              embedding is the harness's business);                      *)
(*   readers    ReadDie / ReadAlloc / ReadFpef: the acceptance rules of    *)
(*              the real readers and the object they build.                *)
(* Every producer is specified as the INTENDED writer: the document whose  *)
(* reading gives back the design.  The invariants say, for every object of *)
(* the bounded universe: the document is accepted, reading it gives the    *)
(* same design, the object is unchanged, a second write gives the same     *)
(* document; and for the generator: the document is accepted exactly for   *)
(* the sizes for which the topology is Defined.                            *)
(*                                                                         *)
(* DocsTrace.tla judges observations of the real producers with the        *)
(* operators of the last section (Same*Obs); observed numbers arrive in    *)
(* thousandths of a lattice unit (K).                                      *)
(*                                                                         *)
(* Configurations: Docs_mc_quick / Docs_mc_thorough (UNIVERSE = "quick" /   *)
(* "thorough": die 3x2 / 4x3 with <= 2 regions; allocations on 4x2 with 3 /*)
(* 4 layouts, 2 tags, depth 0 / 0..1, 4 occupancy maps per cell; generator *)
(* sizes 1..5 / 1..8, grids to 3x3 / 4x4, h-trees to 2 / 3 levels; FloorSet*)
(* instances of 1..2 blocks from 3 polygon shapes, 3 kinds, 3 pin sets and *)
(* weighted wirings; netlists of <= 2 / <= 3 modules from a catalogue of 8 *)
(* (soft with centre, soft with a region rectangle, soft orthogon, hard,   *)
(* flippable hard orthogon, fixed, terminal, fixed terminal) with <= 1 /   *)
(* <= 2 weighted                                                           *)
(* nets); Docs_gen_* = the same with EMIT.                                 *)
(*                                                                         *)
(* Numbers: areas <<n, d>> and centres <<xn, yn, d>> are rationals with a  *)
(* common denominator; weights <<n, d>>.  Largest intermediate value:      *)
(* 16 000 (a coordinate in thousandths) times a centroid denominator       *)
(* (<= 2 * 64 * 4), below 2^31.                                            *)
(***************************************************************************)
EXTENDS Geometry, TLC, Json

CONSTANTS UNIVERSE,   \* "quick" | "thorough": size of the enumerated universe
          EMIT        \* TRUE: behaviour generation (print every object) instead of model checking

VARIABLES pc,     \* "pick" | "picked" | "written" | "rewritten" | "read" | "emitted"
          prod,   \* the producer
          src,    \* the object handed to the producer
          doc,    \* the document of the first call
          doc2,   \* the document of the second call
          back,   \* what the reader makes of doc: [ok, obj]
          store,  \* the file store: path -> the document last written there (with the object it was written from)
          seen,   \* the last read of a path: [path, want (the design last written to it), got (what the reader built)]
          hist    \* the write / change / read operations so far (recorded for behaviour generation only)
fvars == <<store, seen, hist>>
vars == <<pc, prod, src, doc, doc2, back, store, seen, hist>>

Thorough == UNIVERSE = "thorough"
K == 1000                      \* observed numbers are in 1/K lattice units
DEN == 4                       \* occupancy ratios are numerators over DEN
Ground == "_"
Blockage == "#"

Count(s, x) == Cardinality({ i \in DOMAIN s : s[i] = x })
SameBag(s, t) == Len(s) = Len(t) /\ \A i \in DOMAIN s : Count(s, s[i]) = Count(t, s[i])
Distinct(s) == \A i \in DOMAIN s : \A j \in DOMAIN s : i # j => s[i] # s[j]
SeqOfSet(S) == SetToSeq(S)
RectT(t) == RectOf(t)          \* <<x1,y1,x2,y2,...>> -> Geometry record
Flat(ss) == FoldLeft(LAMBDA acc, x : acc \o x, <<>>, ss)

(***************************************************************************)
(* DIES   object [w, h, regs]: regs = tagged rectangles <<x1,y1,x2,y2,tag>>*)
(*        tag = "#" (blockage) or a region name.                           *)
(*        document [width, height, regions] (no `regions` key when empty;  *)
(*        here: the empty tuple).                                          *)
(***************************************************************************)
DieRect(o) == Rect(0, 0, o.w, o.h)
\* Die.write_yaml: blockages first, then the specialised regions, each in the object's order
WriteDie(o) == [width |-> o.w, height |-> o.h,
                regions |-> SelectSeq(o.regs, LAMBDA t : t[5] = Blockage) \o SelectSeq(o.regs, LAMBDA t : t[5] # Blockage)]
\* parse_yaml_die + Die.__init__ (_check_rectangles): positive size, non-ground tags, regions inside the die
\* and pairwise non-overlapping
ReadDie(d) ==
  LET die == Rect(0, 0, d.width, d.height) IN
  [ok |-> /\ d.width > 0 /\ d.height > 0
          /\ \A i \in DOMAIN d.regions : LET t == d.regions[i] IN
                t[5] # Ground /\ IsRect(RectT(t)) /\ Inside(RectT(t), die)
          /\ \A i \in DOMAIN d.regions : \A j \in DOMAIN d.regions :
                i # j => ~Overlaps(RectT(d.regions[i]), RectT(d.regions[j])),
   obj |-> [w |-> d.width, h |-> d.height, regs |-> d.regions]]
\* "same regions"
SameDie(a, b) == a.w = b.w /\ a.h = b.h /\ SameBag(a.regs, b.regs)

(***************************************************************************)
(* ALLOCATIONS   object = sequence of cells                                *)
(*        <<x1, y1, x2, y2, tag, depth, ratios>>,                          *)
(*        ratios = << <<module, numerator over DEN>>, ... >>.              *)
(*        document = list of entries [rect (with the tag as fifth element, *)
(*        `_` included), alloc, depth (absent, here <<>>, when 0)].        *)
(***************************************************************************)
WriteAlloc(o) == [ i \in DOMAIN o |-> [rect |-> <<o[i][1], o[i][2], o[i][3], o[i][4], o[i][5]>>, alloc |-> o[i][7],
                                      depth |-> IF o[i][6] > 0 THEN <<o[i][6]>> ELSE <<>>] ]
ReadAlloc(d) ==
  [ok |-> /\ Len(d) >= 1
          /\ \A i \in DOMAIN d : /\ IsRect(RectT(d[i].rect)) /\ d[i].rect[1] >= 0 /\ d[i].rect[2] >= 0
                                 /\ \A k \in DOMAIN d[i].alloc : d[i].alloc[k][2] \in 0..DEN
                                 /\ Distinct([k \in DOMAIN d[i].alloc |-> d[i].alloc[k][1]])
          /\ \A i \in DOMAIN d : \A j \in DOMAIN d : i # j => ~Overlaps(RectT(d[i].rect), RectT(d[j].rect)),
   obj |-> [ i \in DOMAIN d |-> <<d[i].rect[1], d[i].rect[2], d[i].rect[3], d[i].rect[4], d[i].rect[5],
                                  IF d[i].depth = <<>> THEN 0 ELSE d[i].depth[1], d[i].alloc>> ]]
\* "same cells and ratios": the same cells (rectangle, tag, depth) with the same occupancy maps
CellKey(c) == <<c[1], c[2], c[3], c[4], c[5], c[6], Range(c[7])>>
SameAlloc(a, b) == SameBag([i \in DOMAIN a |-> CellKey(a[i])], [i \in DOMAIN b |-> CellKey(b[i])])

\* area and first moments allocated to module m (times DEN; moments doubled): rect_io.get_netlist
Num(c, m) == LET hit == { k \in DOMAIN c[7] : c[7][k][1] = m } IN IF hit = {} THEN 0 ELSE c[7][CHOOSE k \in hit : TRUE][2]
AArea(o, m) == FoldLeft(LAMBDA acc, c : acc + Area(RectT(c)) * Num(c, m), 0, o)
AMx(o, m) == FoldLeft(LAMBDA acc, c : acc + Area(RectT(c)) * Num(c, m) * Cx2(RectT(c)), 0, o)
AMy(o, m) == FoldLeft(LAMBDA acc, c : acc + Area(RectT(c)) * Num(c, m) * Cy2(RectT(c)), 0, o)
\* modules in order of first appearance
RECURSIVE Uniq(_)
Uniq(s) == IF s = <<>> THEN <<>> ELSE <<s[1]>> \o Uniq(SelectSeq(Tail(s), LAMBDA x : x # s[1]))
AMods(o) == Uniq(Flat([i \in DOMAIN o |-> [k \in DOMAIN o[i][7] |-> o[i][7][k][1]]]))

(***************************************************************************)
(* NETLISTS   object [mods, nets]                                          *)
(*   module [name, kind, area, center, rects]                              *)
(*     kind   = <<hard, fixed, terminal, flip>> (0/1)                      *)
(*     area   = <<n, d>> (total area n/d; <<0, 1>> when it is derived from *)
(*              the rectangles: hard modules, terminals)                   *)
(*     center = <<>> | <<xn, yn, d>>                                       *)
(*     rects  = << <<x1,y1,x2,y2,region>> >>                               *)
(*   net    [pins, w]: pins = module names, w = <<n, d>>                   *)
(* FPEF document [mods, nets]: module entry [name, area (<<>> = no key),   *)
(*   center, fixed, hard, terminal, flip (0 = no key), rects]; net entry   *)
(*   = pins, plus the weight unless it is 1 (here: [pins, w]).             *)
(***************************************************************************)
Soft == <<0, 0, 0, 0>>
Hard == <<1, 0, 0, 0>>
Flip == <<1, 0, 0, 1>>
Fixed == <<1, 1, 0, 0>>
Terminal == <<1, 0, 1, 0>>
FixedTerminal == <<1, 1, 1, 0>>          \* a fixed pin: `terminal: true, fixed: true, center: [..]`
Mod(n, k, a, c, r) == [name |-> n, kind |-> k, area |-> a, center |-> c, rects |-> r]
One == <<1, 1>>
Net(p, w) == [pins |-> p, w |-> w]

\* the writer every netlist producer is meant to be (yaml_write_netlist): soft modules carry area and centre,
\* fixed is said instead of hard, terminal instead of hard, rectangles when there are any
WriteFpef(n) ==
  [mods |-> [ i \in DOMAIN n.mods |-> LET m == n.mods[i] IN
               [name |-> m.name,
                area |-> IF m.kind[1] = 0 THEN <<m.area>> ELSE <<>>,
                center |-> IF m.kind[1] = 0 \/ m.kind[3] = 1 THEN m.center ELSE <<>>,
                fixed |-> m.kind[2], hard |-> IF m.kind[2] = 0 /\ m.kind[3] = 0 THEN m.kind[1] ELSE 0,
                terminal |-> m.kind[3], flip |-> m.kind[4], rects |-> m.rects] ],
   nets |-> n.nets]

\* Module.__init__/setup + Netlist.__init__: what makes the reader refuse a document
ModOK(e) ==
  LET hard == e.hard = 1 \/ e.fixed = 1 \/ e.terminal = 1 IN
  /\ ~(e.hard = 1 /\ e.fixed = 1)
  /\ (e.terminal = 1 => e.area = <<>> /\ e.flip = 0)
  /\ (e.flip = 1 => hard /\ e.fixed = 0)
  /\ (hard => e.area = <<>>) /\ (~hard => e.area # <<>> /\ e.area[1][1] > 0)
  /\ (hard /\ e.terminal = 0 => e.center = <<>> /\ Len(e.rects) >= 1)
  /\ \A k \in DOMAIN e.rects : IsRect(RectT(e.rects[k])) /\ (hard => e.rects[k][5] = Ground)
  /\ (hard /\ e.terminal = 0 => \A k \in DOMAIN e.rects : \A j \in DOMAIN e.rects :
                                    k # j => ~Overlaps(RectT(e.rects[k]), RectT(e.rects[j])))
ReadFpef(d) ==
  LET names == [i \in DOMAIN d.mods |-> d.mods[i].name] IN
  [ok |-> /\ Distinct(names)
          /\ \A i \in DOMAIN d.mods : ModOK(d.mods[i])
          /\ \A i \in DOMAIN d.nets : /\ Len(d.nets[i].pins) >= 2
                                      /\ \A k \in DOMAIN d.nets[i].pins : d.nets[i].pins[k] \in Range(names)
                                      /\ d.nets[i].w[1] > 0,
   obj |-> [mods |-> [ i \in DOMAIN d.mods |-> LET e == d.mods[i] IN
                        Mod(e.name, <<IF e.hard = 1 \/ e.fixed = 1 \/ e.terminal = 1 THEN 1 ELSE 0, e.fixed, e.terminal, e.flip>>,
                            IF e.area = <<>> THEN <<0, 1>> ELSE e.area[1], e.center, e.rects) ],
            nets |-> d.nets]]

\* "same modules, kinds, shapes, nets and weights" between two netlist objects
RegionOf(m) == { RectT(m.rects[k]) : k \in DOMAIN m.rects }
SameQ(a, b) == a[1] * b[2] = b[1] * a[2]
SameCenter(a, b) == (a = <<>> /\ b = <<>>) \/ (a # <<>> /\ b # <<>> /\ a[1] * b[3] = b[1] * a[3] /\ a[2] * b[3] = b[2] * a[3])
SameMod(a, b) == /\ a.name = b.name /\ a.kind = b.kind
                 /\ (a.kind[1] = 0 => SameQ(a.area, b.area))
                 /\ (a.rects = <<>> => SameCenter(a.center, b.center))
                 /\ SameBag([k \in DOMAIN a.rects |-> SubSeq(a.rects[k], 1, 4)], [k \in DOMAIN b.rects |-> SubSeq(b.rects[k], 1, 4)])
NetKey(e) == <<[nm \in Range(e.pins) |-> Count(e.pins, nm)], (e.w[1] * 1000) \div e.w[2]>>
SameNetlist(a, b) == /\ Len(a.mods) = Len(b.mods)
                     /\ \A i \in DOMAIN a.mods : \E j \in DOMAIN b.mods : SameMod(a.mods[i], b.mods[j])
                     /\ SameBag([i \in DOMAIN a.nets |-> NetKey(a.nets[i])], [i \in DOMAIN b.nets |-> NetKey(b.nets[i])])

(***************************************************************************)
(* THE GENERATOR  tools/netgen: module indices and edges per topology.     *)
(* An edge is <<pins (indices), weight>>; every module is soft, area 1.    *)
(***************************************************************************)
E2(a, b, w) == <<<<a, b>>, w>>
Chain(n) == [mods |-> [i \in 1..n |-> i - 1], nets |-> [i \in 1..(n - 1) |-> E2(i - 1, i, 1)]]
Ring(n) == [mods |-> [i \in 1..n |-> i - 1], nets |-> [i \in 1..n |-> E2(i - 1, i % n, 1)]]
Star(n) == [mods |-> [i \in 1..n |-> i - 1], nets |-> [i \in 1..(n - 1) |-> E2(0, i, 1)]]
OneNet(n) == [mods |-> [i \in 1..n |-> i - 1], nets |-> << <<[i \in 1..n |-> i - 1], 1>> >>]
\* a ring on the modules 1..n-1 (closed by the edge <<n-1, 1>>) plus a star from module 0
RingStar(n) == [mods |-> [i \in 1..n |-> i - 1],
                nets |-> [i \in 1..(n - 2) |-> E2(i, i + 1, 1)] \o <<E2(n - 1, 1, 1)>> \o [i \in 1..(n - 1) |-> E2(0, i, 1)]]
\* grid: module <<r, c>> is numbered r * 100 + c; horizontal edges first
GridId(r, c) == r * 100 + c
Grid(rows, cols) ==
  [mods |-> Flat([r \in 1..rows |-> [c \in 1..cols |-> GridId(r - 1, c - 1)]]),
   nets |-> Flat([r \in 1..rows |-> [c \in 1..(cols - 1) |-> E2(GridId(r - 1, c - 1), GridId(r - 1, c), 1)]])
            \o Flat([r \in 1..(rows - 1) |-> [c \in 1..cols |-> E2(GridId(r - 1, c - 1), GridId(r, c - 1), 1)]])]
\* gen_htree_rec(levels, weight, first): centre, left, right, four sub-trees of doubled weight
RECURSIVE HT(_, _, _)
HT(l, w, first) ==
  IF l = 1 THEN [mods |-> <<first>>, nets |-> <<>>, next |-> first + 1]
  ELSE LET c == first  lf == first + 1  rt == first + 2
           base == [mods |-> <<c, lf, rt>>, nets |-> <<E2(lf, c, w), E2(rt, c, w)>>, next |-> first + 3, cs |-> <<>>]
           Sub(acc) == LET s == HT(l - 1, 2 * w, acc.next) IN
                       [mods |-> acc.mods \o s.mods, nets |-> Append(acc.nets, E2(c, acc.next, w)) \o s.nets,
                        next |-> s.next, cs |-> Append(acc.cs, acc.next)]
           a == Sub(Sub(Sub(Sub(base))))
       IN [mods |-> a.mods, next |-> a.next,
           nets |-> a.nets \o <<E2(lf, a.cs[1], w), E2(lf, a.cs[2], w), E2(rt, a.cs[3], w), E2(rt, a.cs[4], w)>>]
HTree(l) == LET t == HT(l, 1, 0) IN [mods |-> t.mods, nets |-> t.nets]

Topologies == {"chain", "ring", "star", "ring-star", "one-net", "grid", "htree"}
Topo(type, size) == CASE type = "chain" -> Chain(size[1]) [] type = "ring" -> Ring(size[1]) [] type = "star" -> Star(size[1])
                      [] type = "ring-star" -> RingStar(size[1]) [] type = "one-net" -> OneNet(size[1])
                      [] type = "grid" -> Grid(size[1], size[2]) [] type = "htree" -> HTree(size[1])
\* "every size for which the topology is defined": every net has at least two pins and names existing modules
Defined(type, size) == LET t == Topo(type, size) IN
                         \A i \in DOMAIN t.nets : /\ Len(t.nets[i][1]) >= 2
                                                  /\ \A k \in DOMAIN t.nets[i][1] : t.nets[i][1][k] \in Range(t.mods)
ModName(type, id) == IF type = "grid" THEN "M" \o ToString(id \div 100) \o "_" \o ToString(id % 100) ELSE "M" \o ToString(id)
\* the document netgen writes
GenDoc(type, size) == LET t == Topo(type, size) IN
  [mods |-> [i \in DOMAIN t.mods |-> [name |-> ModName(type, t.mods[i]), area |-> <<One>>, center |-> <<>>, fixed |-> 0, hard |-> 0,
                                     terminal |-> 0, flip |-> 0, rects |-> <<>>]],
   nets |-> [i \in DOMAIN t.nets |-> Net([k \in DOMAIN t.nets[i][1] |-> ModName(type, t.nets[i][1][k])], <<t.nets[i][2], 1>>)]]

(***************************************************************************)
(* THE FLOORSET CONVERTER   instance [blocks, pins, b2b, p2b]              *)
(*   block = [shape (set of disjoint rectangles: the polygon), area, kind] *)
(*           kind "soft" | "hard" (FloorSet "fixed") | "fixed" (pre-placed)*)
(*   pin   = <<x, y>>;  b2b = <<block, block, w>>, p2b = <<pin, block, w>> *)
(*           (0-based indices, w = <<n, d>> >= 0; 0 stands for weight 1)   *)
(*   dens  = <<>> (weights as given) | <<n, d>> (weights scaled), unit     *)
(***************************************************************************)
ShapeArea(sh) == FoldLeft(LAMBDA acc, t : acc + Area(RectT(t)), 0, sh)
ShapeMx(sh) == FoldLeft(LAMBDA acc, t : acc + Area(RectT(t)) * Cx2(RectT(t)), 0, sh)
ShapeMy(sh) == FoldLeft(LAMBDA acc, t : acc + Area(RectT(t)) * Cy2(RectT(t)), 0, sh)
\* perimeter of the polygon: the perimeters of its rectangles minus twice every boundary two of them share
SharedLen(a, b) == IF a.x2 = b.x1 \/ b.x2 = a.x1 THEN Mx(0, OvH(a, b))
                   ELSE IF a.y2 = b.y1 \/ b.y2 = a.y1 THEN Mx(0, OvW(a, b)) ELSE 0
Perimeter(sh) == FoldLeft(LAMBDA acc, t : acc + 2 * (W(RectT(t)) + H(RectT(t))), 0, sh)
                 - 2 * FoldLeft(LAMBDA acc, q : acc + SharedLen(RectT(sh[q[1]]), RectT(sh[q[2]])), 0,
                                SetToSeq({ q \in (DOMAIN sh) \X (DOMAIN sh) : q[1] < q[2] }))
\* connection weights: <<n, d>> with d in {1, 2}.  Total weight of block i (0-based), in halves
Halves(w) == (2 * w[1]) \div w[2]
FsWeightOf(ins, i) == FoldLeft(LAMBDA acc, e : acc + (IF e[1] = i \/ e[2] = i THEN Halves(e[3]) ELSE 0), 0, ins.b2b)
                      + FoldLeft(LAMBDA acc, e : acc + (IF e[2] = i THEN Halves(e[3]) ELSE 0), 0, ins.p2b)
FsBlocks(ins) == 0..(Len(ins.blocks) - 1)
FsPerim(ins, i) == Perimeter(ins.blocks[i + 1].shape)
\* README: with a density d every weight is scaled by alpha = d * P_k / W_k of the most congested block k (a length:
\* it scales with the unit of the design, ins.unit)
FsMostCongested(ins) == CHOOSE k \in FsBlocks(ins) : \A i \in FsBlocks(ins) : FsWeightOf(ins, i) * FsPerim(ins, k) <= FsWeightOf(ins, k) * FsPerim(ins, i)
FsAlpha(ins) == IF ins.dens = <<>> THEN <<1, 1>>
                ELSE LET k == FsMostCongested(ins) IN
                     <<2 * ins.dens[1] * FsPerim(ins, k) * ins.unit[1], ins.dens[2] * FsWeightOf(ins, k) * ins.unit[2]>>
\* a connection of weight 0 becomes a net of weight 1 (manager.py: `wei if wei > 0 else 1`), in BOTH tables
FsNetWeight(al, w) == IF w[1] = 0 THEN <<1, 1>> ELSE <<w[1] * al[1], w[2] * al[2]>>
ConvertWith(inst, al) ==
  [mods |-> [i \in DOMAIN inst.blocks |-> LET b == inst.blocks[i]
                                              rs == [k \in DOMAIN b.shape |-> b.shape[k] \o <<Ground>>] IN
               IF b.kind = "fixed" THEN Mod("M" \o ToString(i - 1), Fixed, <<0, 1>>, <<>>, rs)
               ELSE IF b.kind = "hard" THEN Mod("M" \o ToString(i - 1), Hard, <<0, 1>>, <<>>, rs)
               ELSE Mod("M" \o ToString(i - 1), Soft, <<b.area, 1>>,
                        <<ShapeMx(b.shape), ShapeMy(b.shape), 2 * ShapeArea(b.shape)>>, rs)]
            \o [j \in DOMAIN inst.pins |-> Mod("T" \o ToString(j - 1), Terminal, <<0, 1>>, <<2 * inst.pins[j][1], 2 * inst.pins[j][2], 2>>, <<>>)],
   nets |-> [i \in DOMAIN inst.b2b |-> Net(<<"M" \o ToString(inst.b2b[i][1]), "M" \o ToString(inst.b2b[i][2])>>, FsNetWeight(al, inst.b2b[i][3]))]
            \o [i \in DOMAIN inst.p2b |-> Net(<<"T" \o ToString(inst.p2b[i][1]), "M" \o ToString(inst.p2b[i][2])>>, FsNetWeight(al, inst.p2b[i][3]))]]
\* (the factor is worked out once: a bound variable holds a value)
ConvertNetlist(inst) == CHOOSE r \in { ConvertWith(inst, al) : al \in { FsAlpha(inst) } } : TRUE
\* the die of the instance: spanned by the pins
ConvertDie(inst) == [w |-> Max({ inst.pins[j][1] : j \in DOMAIN inst.pins }), h |-> Max({ inst.pins[j][2] : j \in DOMAIN inst.pins }), regs |-> <<>>]

(***************************************************************************)
(* THE RECT STAGE                                                          *)
(*   get_netlist(None, allocation): one soft module per allocated module,  *)
(*   area and centroid of what is allocated to it, no nets;                *)
(*   solution_to_netlist(netlist, result): the netlist with the rectangles *)
(*   of the solved modules replaced (result = << <<name, rects>> >>).      *)
(* THE LEGALISER  Model.get_netlist: the netlist the model was built from, *)
(*   with the current rectangles (here: unchanged).                        *)
(***************************************************************************)
AllocNetlist(o) == [mods |-> [i \in DOMAIN AMods(o) |-> LET m == AMods(o)[i] IN
                               Mod(m, Soft, <<AArea(o, m), DEN>>, <<AMx(o, m), AMy(o, m), 2 * AArea(o, m)>>, <<>>)],
                    nets |-> <<>>]
Solved(res, name) == { k \in DOMAIN res : res[k][1] = name }
SolutionNetlist(s) ==
  [mods |-> [i \in DOMAIN s.net.mods |-> LET m == s.net.mods[i]  hit == Solved(s.result, m.name) IN
               IF hit = {} THEN m ELSE Mod(m.name, m.kind, m.area, m.center, s.result[CHOOSE k \in hit : TRUE][2])],
   nets |-> s.net.nets]
LegalNetlist(n) == n

(***************************************************************************)
(* THE BOUNDED UNIVERSE                                                    *)
(***************************************************************************)
\* dies: 3x2 (quick) / 4x3 (thorough), at most two valid regions tagged "#" or "dsp"
DieW == IF Thorough THEN 4 ELSE 3
DieH == IF Thorough THEN 3 ELSE 2
DieTags == {Blockage, "dsp"}
DieRegs == { <<r.x1, r.y1, r.x2, r.y2, t>> : r \in RectsOn(0, DieW, 0, DieH), t \in DieTags }
Key5(t) == (((t[1] * 8 + t[2]) * 8 + t[3]) * 8 + t[4]) * 2 + (IF t[5] = Blockage THEN 0 ELSE 1)
DiePairs == { p \in DieRegs \X DieRegs : ~Overlaps(RectT(p[1]), RectT(p[2])) }
\* every set once (ascending keys), plus some lists that name a specialised region BEFORE a blockage
DieSets == {<<>>} \cup { <<a>> : a \in DieRegs }
           \cup { p \in DiePairs : Key5(p[2]) > Key5(p[1]) }
           \cup { p \in DiePairs : p[1][5] # Blockage /\ p[2][5] = Blockage /\ W(RectT(p[1])) = 1 }
Dies == { [w |-> DieW, h |-> DieH, regs |-> s] : s \in DieSets }

\* allocations: a few layouts of a 4x2 area; every cell takes a tag, a depth and an occupancy map
Layouts == { << <<0, 0, 4, 2>> >>, << <<0, 0, 2, 2>>, <<2, 0, 4, 2>> >>, << <<0, 0, 2, 2>>, <<2, 0, 3, 2>> >> }
           \cup (IF Thorough THEN { << <<0, 0, 2, 2>>, <<2, 0, 4, 1>>, <<2, 1, 4, 2>> >> } ELSE {})
\* occupancy maps, explicit zero ratios included (a module listed with 0 in a cell, as include_area_zero produces;
\* "Z" is listed with 0 wherever it occurs: a module of total area 0)
Maps == { <<>>, << <<"A", 2>> >>, << <<"A", 1>>, <<"B", 2>> >>, << <<"B", 4>> >>, << <<"A", 0>>, <<"B", 2>> >>, << <<"Z", 0>> >> }
\* the first cell takes either tag, the others are ground cells
CellChoices(r, first) == { <<r[1], r[2], r[3], r[4], t, d, m>> : t \in (IF first THEN {Ground, "dsp"} ELSE {Ground}),
                                                               d \in (IF Thorough THEN {0, 1} ELSE {0}), m \in Maps }
RECURSIVE AllocsOf(_, _)
AllocsOf(layout, first) == IF layout = <<>> THEN {<<>>}
                           ELSE { <<c>> \o rest : c \in CellChoices(layout[1], first), rest \in AllocsOf(Tail(layout), FALSE) }
Allocs == UNION { AllocsOf(l, TRUE) : l \in Layouts }
AllocOps == {"none", "refine", "griddify", "uniform"}

\* generator sizes
GenParams == { <<t, <<n>>>> : t \in Topologies \ {"grid", "htree"}, n \in 1..(IF Thorough THEN 8 ELSE 5) }
             \cup { <<"grid", <<r, c>>>> : r \in 1..(IF Thorough THEN 4 ELSE 3), c \in 1..(IF Thorough THEN 4 ELSE 3) }
             \cup { <<"htree", <<l>>>> : l \in 1..(IF Thorough THEN 3 ELSE 2) }

\* netlists for the rect and legaliser stages: modules drawn from a catalogue (8x6 area), nets over them
W52 == <<5, 2>>
Catalogue == << Mod("A", Soft, <<4, 1>>, <<2, 2, 2>>, <<>>),
                Mod("B", Soft, <<4, 1>>, <<>>, << <<2, 0, 4, 2, "dsp">> >>),
                \* (declared area 5, rectangles 4 + 2: the area of a soft module is what it declares, not what its rectangles cover)
                Mod("S", Soft, <<5, 1>>, <<>>, << <<0, 2, 2, 4, Ground>>, <<2, 2, 3, 4, Ground>> >>),
                Mod("H", Hard, <<0, 1>>, <<>>, << <<4, 0, 6, 2, Ground>> >>),
                Mod("P", Flip, <<0, 1>>, <<>>, << <<4, 2, 6, 4, Ground>>, <<4, 4, 5, 5, Ground>> >>),
                Mod("F", Fixed, <<0, 1>>, <<>>, << <<6, 0, 8, 2, Ground>> >>),
                Mod("T", Terminal, <<0, 1>>, <<0, 6, 2>>, <<>>),
                Mod("G", FixedTerminal, <<0, 1>>, <<16, 6, 2>>, <<>>) >>
MaxMods == IF Thorough THEN 3 ELSE 2
ModSets == { S \in SUBSET (1..Len(Catalogue)) : Cardinality(S) \in 1..MaxMods }
ModSeq(S) == LET idx == SetToSortSeq(S, <) IN [k \in DOMAIN idx |-> Catalogue[idx[k]]]
NetCands(ms) == LET names == [k \in DOMAIN ms |-> ms[k].name] IN
                { Net(<<names[q[1]], names[q[2]]>>, w) : q \in { r \in (DOMAIN names) \X (DOMAIN names) : r[1] < r[2] }, w \in {One, W52} }
                \cup (IF Len(names) >= 3 THEN { Net(names, W52) } ELSE {})
NetSeqs(ms) == {<<>>} \cup { <<e>> : e \in NetCands(ms) }
               \cup (IF Thorough THEN { q \in NetCands(ms) \X NetCands(ms) : q[1].pins # q[2].pins } ELSE {})
Netlists == UNION { { [mods |-> ModSeq(S), nets |-> ns] : ns \in NetSeqs(ModSeq(S)) } : S \in ModSets }
\* the legaliser works on modules that have rectangles
LegalNetlists == { n \in Netlists : \A i \in DOMAIN n.mods : n.mods[i].rects # <<>> }
\* a solution gives rectangles to the soft modules that have none (and the stage is also run with nothing solved)
SolvedA == << <<"A", << <<0, 0, 2, 2, Ground>> >> >> >>
Solutions == UNION { { [net |-> n, result |-> r] :
                         r \in { <<>>, SelectSeq(SolvedA, LAMBDA x : \E i \in DOMAIN n.mods : n.mods[i].name = x[1]) } } : n \in Netlists }

\* FloorSet instances: polygonal blocks (every shape a single-trunk orthogon), pins, weighted connections
Shapes == << << <<0, 0, 2, 2>> >>,
             << <<0, 0, 2, 2>>, <<2, 0, 3, 1>> >>,
             << <<0, 1, 3, 2>>, <<1, 2, 2, 3>>, <<1, 0, 2, 1>> >> >>
Shift(sh, dx) == [k \in DOMAIN sh |-> <<sh[k][1] + dx, sh[k][2], sh[k][3] + dx, sh[k][4]>>]
Block(i, s, k) == [shape |-> Shift(Shapes[s], 4 * (i - 1)), area |-> ShapeArea(Shapes[s]), kind |-> k]
BlockSeqs == { <<Block(1, s, k)>> : s \in DOMAIN Shapes, k \in {"soft", "hard", "fixed"} }
             \cup { <<Block(1, s, k), Block(2, s2, k2)>> : s \in DOMAIN Shapes, k \in {"soft", "hard", "fixed"}, s2 \in DOMAIN Shapes,
                                                         k2 \in (IF Thorough THEN {"soft", "hard", "fixed"} ELSE {"soft"}) }
\* (the die is spanned by the pins: some pin has a positive x and some pin a positive y)
PinSeqs == { << <<12, 6>> >>, << <<0, 6>>, <<12, 2>> >>, << <<12, 6>>, <<5, 0>> >> }
\* connection rows of weight 0 in BOTH tables (they become nets of weight 1); every wiring keeps a positive weight
W0 == <<0, 1>>
Wiring(bs, ps) == { [b2b |-> b, p2b |-> p] :
                    b \in (IF Len(bs) >= 2 THEN { <<>>, << <<0, 1, W52>> >>, << <<0, 1, One>>, <<1, 0, W52>> >>, << <<0, 1, W0>> >> } ELSE { <<>> }),
                    p \in { << <<0, 0, One>> >>, << <<Len(ps) - 1, Len(bs) - 1, W52>>, <<0, 0, One>> >>,
                            << <<0, 0, W0>>, <<Len(ps) - 1, Len(bs) - 1, One>> >> } }
\* a density only for instances whose blocks have the same polygon (their closed vertex lists then need no padding)
DensChoices(bs) == IF \A i \in DOMAIN bs : Len(bs[i].shape) = Len(bs[1].shape) /\ bs[i].area = bs[1].area THEN { <<>>, <<1, 2>> } ELSE { <<>> }
Instances == UNION { { [blocks |-> bs, pins |-> ps, b2b |-> wr.b2b, p2b |-> wr.p2b, dens |-> d, unit |-> <<1, 1>>] :
                         wr \in Wiring(bs, ps), d \in DensChoices(bs) } : bs \in BlockSeqs, ps \in PinSeqs }

Producers == {"die", "alloc", "netgen", "floorset_fpef", "floorset_dief", "rect_netlist", "rect_solution", "legal"}
Sources(p) == CASE p = "die" -> Dies
                [] p = "alloc" -> Allocs
                [] p = "netgen" -> GenParams
                [] p = "floorset_fpef" -> Instances
                \* (the die is spanned by the blocks and the pins alone: one wiring per placement; the random driver keeps others)
                [] p = "floorset_dief" -> { i \in Instances : i.b2b = <<>> /\ i.p2b = << <<0, 0, One>> >> /\ i.dens = <<>> }
                \* the rect stage starts from an allocation in which something is allocated and nothing is listed with 0
                [] p = "rect_netlist" -> { a \in Allocs : AMods(a) # <<>> /\ \A i \in DOMAIN a : \A k \in DOMAIN a[i][7] : a[i][7][k][2] > 0 }
                [] p = "rect_solution" -> Solutions
                [] p = "legal" -> LegalNetlists

(***************************************************************************)
(* STATE MACHINE                                                           *)
(***************************************************************************)
Nothing == <<>>
Paths == IF Thorough THEN {"P", "Q"} ELSE {"P"}
NoFiles == [f \in Paths |-> Nothing]
Init == /\ pc = "pick" /\ prod = "" /\ src = Nothing /\ doc = Nothing /\ doc2 = Nothing /\ back = Nothing
        /\ store = NoFiles /\ seen = Nothing /\ hist = <<>>

Pick == /\ pc = "pick"
        /\ \E p \in Producers : \E o \in Sources(p) : prod' = p /\ src' = o
        /\ pc' = "picked" /\ UNCHANGED <<doc, doc2, back, fvars>>

\* the document each producer writes for the object o
Document(p, o) == CASE p = "die" -> WriteDie(o)
                    [] p = "alloc" -> WriteAlloc(o)
                    [] p = "netgen" -> GenDoc(o[1], o[2])
                    [] p = "floorset_fpef" -> WriteFpef(ConvertNetlist(o))
                    [] p = "floorset_dief" -> WriteDie(ConvertDie(o))
                    [] p = "rect_netlist" -> WriteFpef(AllocNetlist(o))
                    [] p = "rect_solution" -> WriteFpef(SolutionNetlist(o))
                    [] p = "legal" -> WriteFpef(LegalNetlist(o))
\* the design the document has to describe
Design(p, o) == CASE p = "die" -> o
                  [] p = "alloc" -> o
                  [] p = "netgen" -> ReadFpef(GenDoc(o[1], o[2])).obj
                  [] p = "floorset_fpef" -> ConvertNetlist(o)
                  [] p = "floorset_dief" -> ConvertDie(o)
                  [] p = "rect_netlist" -> AllocNetlist(o)
                  [] p = "rect_solution" -> SolutionNetlist(o)
                  [] p = "legal" -> LegalNetlist(o)
Reader(p, d) == IF p \in {"die", "floorset_dief"} THEN ReadDie(d) ELSE IF p = "alloc" THEN ReadAlloc(d) ELSE ReadFpef(d)
SameDesign(p, a, b) == IF p \in {"die", "floorset_dief"} THEN SameDie(a, b) ELSE IF p = "alloc" THEN SameAlloc(a, b) ELSE SameNetlist(a, b)

\* one action per producer: the first call.  A producer only reads its object: src is UNCHANGED.
Produce(p) == /\ pc = "picked" /\ prod = p /\ ~EMIT
              /\ doc' = Document(p, src)
              /\ pc' = "written" /\ UNCHANGED <<prod, src, doc2, back, fvars>>
WriteDieA == Produce("die")
WriteAllocA == Produce("alloc")
Gen == Produce("netgen")
ConvertFloorSet == Produce("floorset_fpef") \/ Produce("floorset_dief")
EmitRectNetlist == Produce("rect_netlist")
EmitRectSolution == Produce("rect_solution")
EmitLegalNetlist == Produce("legal")
\* the second call on the same object
ProduceAgain == /\ pc = "written"
                /\ doc2' = Document(prod, src)
                /\ pc' = "rewritten" /\ UNCHANGED <<prod, src, doc, back, fvars>>
\* the document goes to its reader
Read == /\ pc = "rewritten"
        /\ back' = Reader(prod, doc)
        /\ pc' = "read" /\ UNCHANGED <<prod, src, doc, doc2, fvars>>

Emit == /\ EMIT /\ pc = "picked"
        /\ \/ prod \notin {"alloc", "die"} /\ PrintT(ToJson([prod |-> prod, src |-> src, op |-> "none"]))
           \/ prod = "alloc" /\ \A op \in AllocOps : PrintT(ToJson([prod |-> prod, src |-> src, op |-> op]))
           \/ prod = "die" /\ \A op \in {"none", "split"} : PrintT(ToJson([prod |-> prod, src |-> src, op |-> op]))
        /\ pc' = "emitted" /\ UNCHANGED <<prod, src, doc, doc2, back, fvars>>

(***************************************************************************)
(* THE FILE STORE: documents travel between the stages as files, and a     *)
(* path is written again whenever the object has changed (the allocation   *)
(* after refine, the die after split, a netlist after a change).  A read   *)
(* of a path must describe the object LAST written to it ("any number of   *)
(* repeated writes").  StartStore picks a producer that writes to a path   *)
(* and one of a few small objects; WriteTo(f) produces the document of the *)
(* current object into f, Change makes the next object current, ReadFrom(f)*)
(* gives f to the reader.  TLC explores every interleaving over 1-2 paths. *)
(***************************************************************************)
StoreProducers == {"die", "alloc", "netgen", "floorset_fpef", "rect_netlist", "rect_solution"}
Cell1(m) == << <<0, 0, 4, 2, Ground, 0, m>> >>
SmallNet(S, ns) == [mods |-> ModSeq(S), nets |-> ns]
StoreObjs(p) ==
  CASE p = "die" -> << [w |-> DieW, h |-> DieH, regs |-> <<>>], [w |-> DieW, h |-> DieH, regs |-> << <<0, 0, 1, 1, Blockage>> >>],
                       [w |-> DieW, h |-> DieH, regs |-> << <<1, 0, 3, 2, "dsp">> >>] >>
    [] p = "alloc" -> << Cell1(<< <<"A", 2>> >>), Cell1(<< <<"A", 1>>, <<"B", 2>> >>), << <<0, 0, 2, 2, "dsp", 1, << <<"B", 4>> >> >>, <<2, 0, 4, 2, Ground, 1, <<>> >> >> >>
    [] p = "netgen" -> << <<"chain", <<2>>>>, <<"ring", <<3>>>>, <<"star", <<4>>>> >>
    [] p = "floorset_fpef" -> << [blocks |-> <<Block(1, 1, "soft")>>, pins |-> << <<12, 6>> >>, b2b |-> <<>>, p2b |-> << <<0, 0, One>> >>, dens |-> <<>>, unit |-> <<1, 1>>],
                                 [blocks |-> <<Block(1, 2, "hard")>>, pins |-> << <<12, 6>> >>, b2b |-> <<>>, p2b |-> << <<0, 0, W52>> >>, dens |-> <<>>, unit |-> <<1, 1>>],
                                 [blocks |-> <<Block(1, 1, "soft"), Block(2, 3, "fixed")>>, pins |-> << <<0, 6>>, <<12, 2>> >>,
                                  b2b |-> << <<0, 1, W52>> >>, p2b |-> << <<1, 1, One>> >>, dens |-> <<>>, unit |-> <<1, 1>>] >>
    [] p = "rect_netlist" -> << Cell1(<< <<"A", 2>> >>), Cell1(<< <<"A", 1>>, <<"B", 2>> >>), Cell1(<< <<"B", 4>> >>) >>
    [] p = "rect_solution" -> << [net |-> SmallNet({1}, <<>>), result |-> SolvedA],
                                 [net |-> SmallNet({1, 4}, << Net(<<"A", "H">>, W52) >>), result |-> SolvedA],
                                 [net |-> SmallNet({2, 6}, << Net(<<"B", "F">>, One) >>), result |-> <<>>] >>
MaxOps == IF Thorough THEN 6 ELSE 5
Record(op) == hist' = IF EMIT THEN Append(hist, op) ELSE hist
StartStore == /\ pc = "pick"
              /\ \E p \in StoreProducers : prod' = p /\ src' = StoreObjs(p)[1]
              /\ pc' = "store" /\ UNCHANGED <<doc, doc2, back, fvars>>
WriteTo(f) == /\ pc = "store"
              /\ store' = [store EXCEPT ![f] = [doc |-> Document(prod, src), obj |-> src]]
              /\ UNCHANGED <<pc, prod, src, doc, doc2, back, seen>>
\* the object has changed: another object is current (ChangeTo) -- in the model, the next one of the list
ChangeTo(o) == /\ pc = "store" /\ src' = o
               /\ UNCHANGED <<pc, prod, doc, doc2, back, store, seen>>
NextObj == LET os == StoreObjs(prod)  i == CHOOSE k \in DOMAIN os : os[k] = src IN os[(i % Len(os)) + 1]
ReadFrom(f) == /\ pc = "store" /\ store[f] # Nothing
               /\ seen' = [path |-> f, want |-> Design(prod, store[f].obj), got |-> Reader(prod, store[f].doc)]
               /\ UNCHANGED <<pc, prod, src, doc, doc2, back, store>>
StoreStep == /\ pc = "store" /\ (EMIT => Len(hist) < MaxOps)
             /\ \/ \E f \in Paths : WriteTo(f) /\ Record([op |-> "write", path |-> f])
                \/ (IF hist = <<>> THEN TRUE ELSE hist[Len(hist)].op # "change") /\ ChangeTo(NextObj) /\ Record([op |-> "change", path |-> ""])
                \/ \E f \in Paths : ReadFrom(f) /\ Record([op |-> "read", path |-> f])
\* behaviour generation: the histories of MaxOps operations in which a path is read, written again after a change
\* of the object, and read again at the end
ReadRewrittenRead(f) == \E i \in DOMAIN hist : \E c \in DOMAIN hist : \E j \in DOMAIN hist :
                           /\ i < c /\ c < j /\ j < MaxOps
                           /\ hist[i].op = "read" /\ hist[i].path = f /\ hist[c].op = "change" /\ hist[j].op = "write" /\ hist[j].path = f
EmitStore == /\ EMIT /\ pc = "store" /\ Len(hist) = MaxOps /\ hist[1].op = "write"
             /\ hist[MaxOps].op = "read" /\ ReadRewrittenRead(hist[MaxOps].path)
             /\ PrintT(ToJson([prod |-> "store", producer |-> prod, objs |-> StoreObjs(prod), ops |-> hist]))
             /\ pc' = "emitted" /\ UNCHANGED <<prod, src, doc, doc2, back, fvars>>

Next == StartStore \/ StoreStep \/ EmitStore \/ Pick \/ WriteDieA \/ WriteAllocA \/ Gen \/ ConvertFloorSet \/ EmitRectNetlist \/ EmitRectSolution \/ EmitLegalNetlist
        \/ ProduceAgain \/ Read \/ Emit
Spec == Init /\ [][Next]_vars

(***************************************************************************)
(* INVARIANTS                                                              *)
(***************************************************************************)
TypeOK == pc \in {"pick", "picked", "written", "rewritten", "read", "emitted", "store"} /\ prod \in Producers \cup {""}
\* a read of a path is accepted and describes the object last written to that path
InvReadLastWrite == (pc = "store" /\ seen # Nothing) => seen.got.ok /\ SameDesign(prod, seen.want, seen.got.obj)
InQuantifier == prod # "netgen" \/ Defined(src[1], src[2])
\* every document is accepted by its reader ...
InvAccepted == (pc = "read" /\ InQuantifier) => back.ok
\* ... and describes the design that was written
InvSameDesign == (pc = "read" /\ InQuantifier) => SameDesign(prod, Design(prod, src), back.obj)
\* producing twice gives identical documents (the object being unchanged is the UNCHANGED src of Produce)
InvRepeat == pc \in {"rewritten", "read"} => doc2 = doc
SrcUnchanged == [][(pc \in {"picked", "written", "rewritten"}) => (src' = src)]_vars
\* the generator: the document is accepted exactly for the sizes for which the topology is defined;
\* these are all sizes from 1 on, except ring-star and one-net, which start at 2
InvDefined == (pc = "read" /\ prod = "netgen") => (back.ok <=> Defined(src[1], src[2]))
InvDefinedSizes == (pc = "picked" /\ prod = "netgen") =>
                      (Defined(src[1], src[2]) <=> ~(src[1] \in {"ring-star", "one-net"} /\ src[2][1] = 1))

(***************************************************************************)
(* JUDGING OBSERVATIONS OF THE REAL CODE (used by DocsTrace)               *)
(* Observed numbers are integers in 1/K lattice units (coordinates,        *)
(* lengths), 1/K lattice units squared (areas) or 1/K (ratios, weights).   *)
(*   observed die        [w, h, regs <<x1,y1,x2,y2,tag>>]                  *)
(*   observed allocation << [r <<x1,y1,x2,y2>>, tag, depth, ratio << <<name, v>> >>] >> *)
(*   observed netlist    [mods << [name, kind, area, center <<>> | <<x,y>>, rects << <<x1,y1,x2,y2,region>> >>] >>, *)
(*                        nets << [pins, w] >>]                            *)
(***************************************************************************)
Near(a, b) == Abs(a - b) <= 1
\* observed o equals the rational n/d within one unit of 1/K
NearQ(o, n, d) == Abs(o * d - n * K) <= d
SameDieObs(a, b) == Near(a.w, b.w) /\ Near(a.h, b.h) /\ SameBag(a.regs, b.regs)
DieObsOf(o) == [w |-> o.w * K, h |-> o.h * K, regs |-> [i \in DOMAIN o.regs |-> <<o.regs[i][1] * K, o.regs[i][2] * K, o.regs[i][3] * K, o.regs[i][4] * K, o.regs[i][5]>>]]
ObsCellKey(c) == <<c.r, c.tag, c.depth, Range(c.ratio)>>
SameAllocObs(a, b) == SameBag([i \in DOMAIN a |-> ObsCellKey(a[i])], [i \in DOMAIN b |-> ObsCellKey(b[i])])
AllocObsOf(o) == [i \in DOMAIN o |-> [r |-> <<o[i][1] * K, o[i][2] * K, o[i][3] * K, o[i][4] * K>>, tag |-> o[i][5], depth |-> o[i][6],
                                      ratio |-> [k \in DOMAIN o[i][7] |-> <<o[i][7][k][1], o[i][7][k][2] * (K \div DEN)>>]]]
\* expected module e (lattice, rationals) against observed module m
ModMatches(e, m) ==
  /\ e.name = m.name /\ SubSeq(e.kind, 1, 3) = SubSeq(m.kind, 1, 3)
  /\ (e.kind[1] = 0 => NearQ(m.area, e.area[1], e.area[2]))
  /\ (e.rects = <<>> /\ e.center # <<>> => /\ Len(m.center) = 2
                                           /\ NearQ(m.center[1], e.center[1], e.center[3])
                                           /\ NearQ(m.center[2], e.center[2], e.center[3]))
  /\ SameBag([k \in DOMAIN e.rects |-> <<e.rects[k][1] * K, e.rects[k][2] * K, e.rects[k][3] * K, e.rects[k][4] * K>>],
             [k \in DOMAIN m.rects |-> SubSeq(m.rects[k], 1, 4)])
ObsNetKey(x) == <<[nm \in Range(x.pins) |-> Count(x.pins, nm)], x.w>>
ExpNetKey(x) == <<[nm \in Range(x.pins) |-> Count(x.pins, nm)], (x.w[1] * K) \div x.w[2]>>
\* the clause "same modules, kinds, shapes" / "same nets and weights", separately (for the reports)
SameModsObs(e, o) == /\ Len(e.mods) = Len(o.mods)
                     /\ \A i \in DOMAIN e.mods : \E j \in DOMAIN o.mods : ModMatches(e.mods[i], o.mods[j])
\* the fourth component of the kind (the module may be flipped) is judged on its own
SameFlipObs(e, o) == \A i \in DOMAIN e.mods : \A j \in DOMAIN o.mods : e.mods[i].name = o.mods[j].name => e.mods[i].kind[4] = o.mods[j].kind[4]
\* (weights within one unit of 1/K: density-scaled weights are not multiples of 1/K)
NetNear(x, y) == [nm \in Range(x.pins) |-> Count(x.pins, nm)] = [nm \in Range(y.pins) |-> Count(y.pins, nm)] /\ NearQ(y.w, x.w[1], x.w[2])
NetsMatch(en, on) == /\ Len(en) = Len(on)
                     /\ \A i \in DOMAIN en : Cardinality({ j \in DOMAIN on : NetNear(en[i], on[j]) })
                                             >= Cardinality({ j \in DOMAIN en : en[j] = en[i] })
                     /\ \A j \in DOMAIN on : \E i \in DOMAIN en : NetNear(en[i], on[j])
\* (the expected nets are worked out once: a bound variable holds a value)
SameNetsObs(e, o) == \A en \in { e.nets } : NetsMatch(en, o.nets)
\* finer than the statement (model conformance only): region tags of the rectangles, order of modules and nets
TagsAndOrder(e, o) == /\ [i \in DOMAIN e.mods |-> e.mods[i].name] = [i \in DOMAIN o.mods |-> o.mods[i].name]
                      /\ \A i \in DOMAIN e.mods : \A j \in DOMAIN o.mods : e.mods[i].name = o.mods[j].name =>
                            SameBag([k \in DOMAIN e.mods[i].rects |-> e.mods[i].rects[k][5]], [k \in DOMAIN o.mods[j].rects |-> o.mods[j].rects[k][5]])
                      /\ [i \in DOMAIN e.nets |-> e.nets[i].pins] = [i \in DOMAIN o.nets |-> o.nets[i].pins]
=============================================================================
