SPECIFICATION TraceSpec
CONSTANTS
  RMAX = 40
  NC = 100
  JUMP = 100000
  EMIT = FALSE
CHECK_DEADLOCK FALSE
