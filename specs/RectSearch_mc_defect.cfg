\* NEGATIVE run: the border exclusions as implemented today (literal 0, int(Width)) on a grid with origin (5,2). TLC must report a violation of EncSound (a branch on the border that abuts nothing).
SPECIFICATION Spec
CONSTANTS
  GRIDS <- DefectGrids
  SGRIDS <- McSolveGrids
  AGRIDS <- TinyGrids
  KMAX = 2
  DEN = 2
  OCCVALS = {0, 1, 2}
  FNUM = 100
  FDEN = 1
  RATIO = 2
  MODES = {"enc"}
  BORDER = "literal"
  UNIT = 1
  EMIT = FALSE
INVARIANT TypeOK
INVARIANT InputIsGrid
INVARIANT GenIsDecl
INVARIANT GenClosed
INVARIANT EncSound
INVARIANT EncComplete
INVARIANT SolveMeetsProperty
INVARIANT LoopOptimal
INVARIANT TableIsObj
INVARIANT FastIsTable
INVARIANT LoopNoShapes
PROPERTY BoundGrows
PROPERTY StrictlyGrows
CHECK_DEADLOCK FALSE
