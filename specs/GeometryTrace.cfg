SPECIFICATION TraceSpec
CONSTANTS
  N = 4
  K = 24
  EMIT = FALSE
CHECK_DEADLOCK FALSE
