\* behaviour generation (quick): the quick universe in the 4 in-language styles
SPECIFICATION Spec
CONSTANTS
  MaxBlocks = 2
  MaxTerms = 2
  MaxNets = 1
  SoftChoices <- SoftQ
  HardChoices <- HardQ
  PlChoices <- PlQ
  Styles <- InLanguage
  EMIT = TRUE
CHECK_DEADLOCK FALSE
