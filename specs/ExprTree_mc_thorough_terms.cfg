\* Universe T (thorough): terms of <= 2 operator applications over the larger catalogues (constants 3, 1/4 and a 2 that lives in GEKKO model 2; Python numbers 2, -1/2, 0; a raw GEKKO variable), two initial valuations; deeper terms come from the random driver.
SPECIFICATION Spec
CONSTANTS
  Consts <- ConstsB
  Scals <- ScalsB
  Vals <- ValsB
  Inits <- InitsB
  BinOps <- AllBin
  WithSqrt = TRUE
  WithRaw = TRUE
  SameNames = {0}
  MaxBuild = 2
  MaxOps = 0
  OpKinds = {}
  RehomeTargets = {}
  EqCmps = {}
  EqEps <- EpsA
  STACKUNDO = FALSE
  EMIT = FALSE
INVARIANT InvShape
INVARIANT InvVarList
INVARIANT InvUndo
INVARIANT InvUndoTerm
INVARIANT InvRehome
INVARIANT InvCheckpoint
INVARIANT InvEquation
CHECK_DEADLOCK FALSE
