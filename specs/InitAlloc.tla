----------------------------- MODULE InitAlloc -----------------------------
(***************************************************************************)
(* C03 -- The initial allocation equals the exact geometric overlap.       *)
(*                                                                         *)
(* Model of create_initial_allocation(die, include_area_zero).             *)
(*   AddRegion   die description: at most MAXR regions tagged "#", "R1"    *)
(*               or "F" (a rectangle of a fixed module), valid by          *)
(*               construction                                              *)
(*   AddModule   movable modules: soft with rectangles, soft without (a    *)
(*               square of the module's area around its centre), hard;     *)
(*               shapes may overlap other modules and stick out of the die *)
(*   Allocate    the occupancy maps: for a refinable cell and a module the *)
(*               covered fraction <<covered area, cell area>>; a fixed     *)
(*               cell is fully owned by its module; entries with zero      *)
(*               numerator are listed iff `zero`                           *)
(* The statement holds for ANY exact cover of the die by cells; the model  *)
(* uses the unit lattice cells (the trace specification judges the cells   *)
(* the real Die reported).  All coordinates in metric micro-units (KU per  *)
(* lattice step).                                                          *)
(***************************************************************************)
EXTENDS DieOps, TLC, Json

CONSTANTS DW, DH, KU, OUT, MAXR, MAXM, SIDES, EMIT

VARIABLES pc,      \* "die" | "mods" | "done" | "emitted"
          regs,    \* die description: set of <<x1,y1,x2,y2,tag>> (micro-units)
          mods,    \* sequence of <<kind, rects>>: kind in {"soft","softsq","hard"}, rects = tuple of <<x1,y1,x2,y2>>
          zero,    \* the include-zero option
          alloc    \* result: set of <<cellrect, fixedflag, owner, entries>>, entries = set of <<module index, num, den>>
vars == <<pc, regs, mods, zero, alloc>>

DieR == Rect(0, 0, DW * KU, DH * KU)
Lines(n) == { KU * i : i \in 0..n }
UnitCells == { Rect(KU * i, KU * j, KU * (i + 1), KU * (j + 1)) : i \in 0..(DW - 1), j \in 0..(DH - 1) }
RegionRects == { r \in RectsOn(0, DW, 0, DH) : TRUE }
ScaleK(r) == Rect(KU * r.x1, KU * r.y1, KU * r.x2, KU * r.y2)
Tup(r) == <<r.x1, r.y1, r.x2, r.y2>>

\* shapes of movable modules: one lattice rectangle (may stick out by OUT steps), or a square of side s around a lattice point (also on the die border: the square then sticks out)
ShapeRects == { ScaleK(r) : r \in RectsOn(0, DW + OUT, 0, DH + OUT) }
Squares == { Rect(KU * i - s \div 2, KU * j - s \div 2, KU * i + s \div 2, KU * j + s \div 2) :
               i \in 0..DW, j \in 0..DH, s \in SIDES }
KeyR(t) == (((t[1] * 64 + t[2]) * 64 + t[3]) * 64 + t[4])
MaxKeyR(d) == IF d = {} THEN -1 ELSE Max({ KeyR(t) : t \in d })

Init == pc = "die" /\ regs = {} /\ mods = <<>> /\ zero \in {0, 1} /\ alloc = {}

AddRegion == /\ pc = "die" /\ Cardinality(regs) < MAXR
             /\ \E r \in RegionRects : \E tag \in {"#", "R1", "F"} :
                  LET t == <<KU * r.x1, KU * r.y1, KU * r.x2, KU * r.y2, tag>> IN
                  /\ KeyR(t) > MaxKeyR(regs)
                  /\ ValidIn(regs \cup {t}, DieR)
                  /\ regs' = regs \cup {t}
             /\ UNCHANGED <<pc, mods, zero, alloc>>

DieDone == pc = "die" /\ pc' = "mods" /\ UNCHANGED <<regs, mods, zero, alloc>>

AddModule == /\ pc = "mods" /\ Len(mods) < MAXM
             /\ \/ \E r \in ShapeRects : \E k \in {"soft", "hard"} : mods' = Append(mods, <<k, <<Tup(r)>>>>)
                \/ \E q \in Squares : mods' = Append(mods, <<"softsq", <<Tup(q)>>>>)
             /\ UNCHANGED <<pc, regs, zero, alloc>>

(***************************************************************************)
(* The specified allocation over a given exact cover                       *)
(***************************************************************************)
ShapeOf(m) == { RectOf(m[2][k]) : k \in DOMAIN m[2] }
FixedRegs == { t \in regs : t[5] = "F" }
Blocked == { TRect(t) : t \in { u \in regs : u[5] = "#" } }
\* refinable cells of the model's cover: unit cells not under a blockage or a fixed rectangle
RefCells == { c \in UnitCells : \A t \in regs : t[5] \in {"#", "F"} => ~Overlaps(c, TRect(t)) }
Entries(c) == { <<i, CoveredArea(c, ShapeOf(mods[i])), Area(c)>> : i \in DOMAIN mods }
Listed(c) == IF zero = 1 THEN Entries(c) ELSE { e \in Entries(c) : e[2] > 0 }

Allocate == /\ pc = "mods" /\ ~EMIT
            /\ alloc' = { <<Tup(c), 0, 0, Listed(c)>> : c \in RefCells }
                        \cup { <<Tup(TRect(t)), 1, KeyR(t), {}>> : t \in FixedRegs }
            /\ pc' = "done" /\ UNCHANGED <<regs, mods, zero>>

Emit == /\ EMIT /\ pc = "mods" /\ Len(mods) >= 1 /\ pc' = "emitted"
        /\ PrintT(ToJson([regs |-> SetToSeq(regs), mods |-> mods, zero |-> zero, dw |-> DW * KU, dh |-> DH * KU]))
        /\ UNCHANGED <<regs, mods, zero, alloc>>

Next == AddRegion \/ DieDone \/ AddModule \/ Allocate \/ Emit
Spec == Init /\ [][Next]_vars

(***************************************************************************)
(* Invariants: consequences the statement draws ("Hence ...")              *)
(***************************************************************************)
Done == pc = "done"
RatiosInRange == Done => \A a \in alloc : \A e \in a[4] : 0 <= e[2] /\ e[2] <= e[3]
\* the area allocated to a movable module equals the area of its shape lying on refinable cells
AreaOnCells == Done => \A i \in DOMAIN mods :
   FoldSet(LAMBDA a, acc : acc + FoldSet(LAMBDA e, s : IF e[1] = i THEN s + e[2] ELSE s, 0, a[4]), 0, alloc)
   = FoldSet(LAMBDA r, acc : acc + CoveredArea(r, RefCells), 0, ShapeOf(mods[i]))
ListedOnlyIfCovering == Done /\ zero = 0 => \A a \in alloc : \A e \in a[4] : e[2] > 0
ListedAllIfZero == Done /\ zero = 1 => \A a \in alloc : a[2] = 0 => Cardinality(a[4]) = Len(mods)
FixedOwnCells == Done => { a[1] : a \in { b \in alloc : b[2] = 1 } } = { Tup(TRect(t)) : t \in FixedRegs }
CoverIsExact == Done => Tiles(RefCells \cup Blocked \cup { TRect(t) : t \in FixedRegs }, DieR)
=============================================================================
