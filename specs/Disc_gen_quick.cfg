SPECIFICATION Spec
CONSTANTS
  RMAX = 6
  NC = 12
  JUMP = 60
  EMIT = TRUE
CHECK_DEADLOCK FALSE
