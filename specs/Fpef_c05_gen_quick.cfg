\* C05: behaviour generation -- print every document of the universe with all its defect injections
SPECIFICATION Spec
CONSTANTS
  UNIVERSE = "quick"
  EMIT = TRUE
  DEFECTS = TRUE
CHECK_DEADLOCK FALSE
