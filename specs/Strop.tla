-------------------------------- MODULE Strop --------------------------------
(***************************************************************************)
(* C15 -- Grid orthogon decomposition finds exactly the single-trunk       *)
(* decompositions.                                                         *)
(*                                                                         *)
(* Subject: tools/floorset_parser/floor_set_manager/strop.py               *)
(*   Strop(matrix): _get_potential_trunks (prime rectangles by rows and by *)
(*   columns, empty corners), StropInstance (side histograms, the cell     *)
(*   count validity test, branch extraction), is_strop, instances();       *)
(* and utils.strop_decomposition(vertices), which rasterises a polygon on  *)
(* the grid of its own vertex coordinates, runs Strop on it and turns the  *)
(* first instance back into [cx, cy, w, h] rectangles.                     *)
(*                                                                         *)
(* A polygon drawn on a grid is the set g of its cells <<row, col>>, rows  *)
(* numbered from the TOP (as the code does), both from 0.  A grid          *)
(* rectangle is the tuple <<r1, r2, c1, c2>> of two inclusive intervals    *)
(* (StropRectangle.rows / .columns).                                       *)
(*                                                                         *)
(* Layers:                                                                 *)
(*  1. DECLARATIVE  DeclStog(g): there are a trunk rectangle and a         *)
(*     partition of the remaining cells into rectangles, each abutting one *)
(*     side of the trunk within that side's extent (exact cover search).   *)
(*  2. SHADOW       ShadowStog(g): the efficient characterisation (the     *)
(*     cell count of trunk + side histograms equals the cell count of g).  *)
(*     TLC proves DeclStog = ShadowStog on every grid of the small cfg.    *)
(*  3. ALGORITHM    PotentialTrunks / Valid / Instance: the code, pass by  *)
(*     pass.  TLC proves that it reports an instance exactly when          *)
(*     DeclStog holds and that every instance is a partition into trunk +  *)
(*     abutting branches.                                                  *)
(*  4. STATE MACHINE  the grid is drawn cell by cell (SetCell, row-major,  *)
(*     so that TLC's search visits every 0/1 grid of every size up to the  *)
(*     bound exactly once), then Analyse = the constructor Strop(matrix).  *)
(*                                                                         *)
(* The vertex interface (strop_decomposition) is judged by the operators   *)
(* of the last section (shoelace area, recognition through module Stog).   *)
(*                                                                         *)
(* Configurations: Strop_mc_vacuity (sides <= 3, <= 6 cells, coverage),    *)
(* Strop_mc_quick (sides <= 4, <= 12 cells: 3x4, 4x3, ... all 9 418 grids),*)
(* Strop_mc_thorough (sides <= 5, <= 16 cells: 4x4, 3x5, 5x3, ... 142 602  *)
(* grids); DECLCELLS = 12 everywhere.  Strop_gen_* = the same with EMIT.   *)
(* Largest intermediate value: a shoelace sum (<= 2 * 64 * 64).            *)
(***************************************************************************)
EXTENDS Geometry, TLC, Json

CONSTANTS MAXROWS, MAXCOLS,   \* grids of 1..MAXROWS by 1..MAXCOLS cells ...
          MAXCELLS,           \* ... with at most MAXCELLS cells
          DECLCELLS,          \* DeclStog (exact cover search) is compared with ShadowStog on grids of at most DECLCELLS cells
          EMIT                \* TRUE: behaviour generation

VARIABLES pc,       \* "draw" | "analysed" | "emitted"
          nr, nc,   \* size of the grid
          pos,      \* number of cells already decided (row-major)
          g,        \* the cells set to 1 so far
          trunks,   \* Strop._get_potential_trunks()
          inst      \* Strop._instances: the valid instances, each <<trunk, north.., south.., east.., west..>>
svars == <<pc, nr, nc, pos, g, trunks, inst>>

(***************************************************************************)
(* Grid rectangles                                                         *)
(***************************************************************************)
GR(r1, r2, c1, c2) == <<r1, r2, c1, c2>>
GCells(q) == { <<r, c>> : r \in q[1]..q[2], c \in q[3]..q[4] }
GArea(q) == (q[2] - q[1] + 1) * (q[4] - q[3] + 1)
GProper(q, rows, cols) == 0 <= q[1] /\ q[1] <= q[2] /\ q[2] < rows /\ 0 <= q[3] /\ q[3] <= q[4] /\ q[4] < cols
AllGRects(rows, cols) == { GR(r1, r2, c1, c2) : r1 \in 0..(rows - 1), r2 \in 0..(rows - 1), c1 \in 0..(cols - 1), c2 \in 0..(cols - 1) }
GRects(rows, cols) == { q \in AllGRects(rows, cols) : q[1] <= q[2] /\ q[3] <= q[4] }
Full(gr, q) == GCells(q) \subseteq gr

\* b abuts side s of t within the extent of that side (rows grow downwards: north = smaller rows)
GAbutsOn(t, b, s) ==
  CASE s = "N" -> b[2] = t[1] - 1 /\ t[3] <= b[3] /\ b[4] <= t[4]
    [] s = "S" -> b[1] = t[2] + 1 /\ t[3] <= b[3] /\ b[4] <= t[4]
    [] s = "W" -> b[4] = t[3] - 1 /\ t[1] <= b[1] /\ b[2] <= t[2]
    [] s = "E" -> b[3] = t[4] + 1 /\ t[1] <= b[1] /\ b[2] <= t[2]
GBranch(t, b) == \E s \in {"N", "S", "E", "W"} : GAbutsOn(t, b, s)

(***************************************************************************)
(* 1. DECLARATIVE: a trunk and an exact cover of the rest by branches      *)
(***************************************************************************)
\* least cell in row-major order
FirstCell(cs) == CHOOSE x \in cs : \A y \in cs : x[1] < y[1] \/ (x[1] = y[1] /\ x[2] <= y[2])
\* the cells `left` can be partitioned into rectangles taken from `cands`
RECURSIVE Tileable(_, _)
Tileable(left, cands) ==
  left = {} \/ LET x == FirstCell(left) IN
               \E b \in cands : x \in GCells(b) /\ GCells(b) \subseteq left /\ Tileable(left \ GCells(b), cands)
DeclStogWith(gr, rows, cols, t) ==
  Full(gr, t) /\ Tileable(gr \ GCells(t), { b \in GRects(rows, cols) : GBranch(t, b) })
DeclStog(gr, rows, cols) == \E t \in GRects(rows, cols) : DeclStogWith(gr, rows, cols, t)

(***************************************************************************)
(* 2. SHADOW / histograms (StropInstance.__init__)                         *)
(***************************************************************************)
\* number of consecutive cells of gr met when walking from <<r, c>> (excluded) in direction <<dr, dc>>
RECURSIVE Walk(_, _, _, _, _)
Walk(gr, r, c, dr, dc) == IF <<r + dr, c + dc>> \in gr THEN 1 + Walk(gr, r + dr, c + dc, dr, dc) ELSE 0
HNorth(gr, t, c) == Walk(gr, t[1], c, -1, 0)
HSouth(gr, t, c) == Walk(gr, t[2], c, 1, 0)
HWest(gr, t, r) == Walk(gr, r, t[3], 0, -1)
HEast(gr, t, r) == Walk(gr, r, t[4], 0, 1)
SumOver(S, f(_)) == FoldSet(LAMBDA x, acc : acc + f(x), 0, S)
\* "total": area of the trunk plus everything the four histograms reach
Reached(gr, t) == GArea(t) + SumOver(t[3]..t[4], LAMBDA c : HNorth(gr, t, c) + HSouth(gr, t, c))
                           + SumOver(t[1]..t[2], LAMBDA r : HWest(gr, t, r) + HEast(gr, t, r))
\* self._valid = self._num_cells == total
Valid(gr, t) == Cardinality(gr) = Reached(gr, t)
ShadowStog(gr, rows, cols) == \E t \in GRects(rows, cols) : Full(gr, t) /\ Valid(gr, t)

\* branch extraction: maximal stretches of equal non-zero histogram value, in increasing position
Stretches(lo, hi, h(_)) ==
  LET starts == { a \in lo..hi : h(a) # 0 /\ (a = lo \/ h(a - 1) # h(a)) }
      EndOf(a) == Max({ b \in a..hi : \A k \in a..b : h(k) = h(a) })
  IN [ i \in 1..Cardinality(starts) |-> LET a == SetToSortSeq(starts, <)[i] IN <<a, EndOf(a), h(a)>> ]
\* the instance as rectangles(): trunk, then north, south, east, west branches
Instance(gr, t) ==
  LET n == Stretches(t[3], t[4], LAMBDA c : HNorth(gr, t, c))
      s == Stretches(t[3], t[4], LAMBDA c : HSouth(gr, t, c))
      e == Stretches(t[1], t[2], LAMBDA r : HEast(gr, t, r))
      w == Stretches(t[1], t[2], LAMBDA r : HWest(gr, t, r))
  IN <<t>> \o [i \in DOMAIN n |-> GR(t[1] - n[i][3], t[1] - 1, n[i][1], n[i][2])]
          \o [i \in DOMAIN s |-> GR(t[2] + 1, t[2] + s[i][3], s[i][1], s[i][2])]
          \o [i \in DOMAIN e |-> GR(e[i][1], e[i][2], t[4] + 1, t[4] + e[i][3])]
          \o [i \in DOMAIN w |-> GR(w[i][1], w[i][2], t[3] - w[i][3], t[3] - 1)]

(***************************************************************************)
(* 3. Potential trunks (Strop._get_trunks_matrix, _get_potential_trunks)   *)
(***************************************************************************)
NONE == <<-1, -1>>                                   \* EMPTY_INTERVAL
\* _row_interval: the single run of the row, NONE if the row is empty or has two runs
RowRun(gr, cols, r) == LET cs == { c \in 0..(cols - 1) : <<r, c>> \in gr } IN
                       IF cs = {} THEN NONE
                       ELSE IF cs = Min(cs)..Max(cs) THEN <<Min(cs), Max(cs)>> ELSE NONE
Meet(a, b) == IF a = NONE \/ b = NONE THEN NONE
              ELSE LET lo == Mx(a[1], b[1])  hi == Mn(a[2], b[2]) IN IF lo <= hi THEN <<lo, hi>> ELSE NONE
\* rect[row][column] after the triangle is filled: the recurrence rect[row+1][column] /\ rect[row][column-1]
\* is the intersection of the runs of rows row..column
RECURSIVE Common(_, _, _, _)
Common(gr, cols, i, j) == IF i = j THEN RowRun(gr, cols, i) ELSE Meet(RowRun(gr, cols, i), Common(gr, cols, i + 1, j))
\* "remove the non-prime rectangles by rows": same interval when one more row is added below
Pass1(gr, rows, cols, i, j) ==
  IF j < rows - 1 /\ Common(gr, cols, i, j) = Common(gr, cols, i, j + 1) THEN NONE ELSE Common(gr, cols, i, j)
\* "remove the non-prime rectangles by columns": same interval as the entry one row above, AS LEFT BY PASS 1
Pass2(gr, rows, cols, i, j) ==
  IF i >= 1 /\ Pass1(gr, rows, cols, i, j) = Pass1(gr, rows, cols, i - 1, j) THEN NONE ELSE Pass1(gr, rows, cols, i, j)
TrunksByRows(gr, rows, cols) ==
  LET tri == { p \in (0..(rows - 1)) \X (0..(rows - 1)) : p[1] <= p[2] }
      kept == { <<p[1], p[2], Pass2(gr, rows, cols, p[1], p[2])>> : p \in tri }
  IN { GR(q[1], q[2], q[3][1], q[3][2]) : q \in { k \in kept : k[3] # NONE } }
Transpose(gr) == { <<x[2], x[1]>> : x \in gr }
EmptyCorners(gr, t) == \A x \in gr : ~((x[1] < t[1] \/ x[1] > t[2]) /\ (x[2] < t[3] \/ x[2] > t[4]))
PotentialTrunks(gr, rows, cols) ==
  { t \in TrunksByRows(gr, rows, cols) \cap { GR(q[3], q[4], q[1], q[2]) : q \in TrunksByRows(Transpose(gr), cols, rows) } :
      EmptyCorners(gr, t) }
\* the constructor: one StropInstance per potential trunk, the valid ones are kept
Instances(gr, rows, cols) == { Instance(gr, t) : t \in { t \in PotentialTrunks(gr, rows, cols) : Valid(gr, t) } }

(***************************************************************************)
(* THE PROPERTY on an observation of Strop(matrix):                        *)
(*   is    = Strop.is_strop (0/1)                                          *)
(*   insts = every instance offered, as the list of its rectangles()       *)
(***************************************************************************)
B2I(x) == IF x THEN 1 ELSE 0
\* "a decomposition exists": DeclStog, evaluated through ShadowStog -- InvShadowIsDecl proves the two equal on
\* every grid of at most DECLCELLS cells in the same run that uses this operator as the judge
Exists(gr, rows, cols) == ShadowStog(gr, rows, cols)

\* "reports a decomposition exactly when one exists"
ClExists(gr, rows, cols, is, insts) == is = B2I(Exists(gr, rows, cols)) /\ (is = 1 <=> Len(insts) >= 1)
\* "every decomposition it offers partitions the polygon's cells into a trunk rectangle plus branch rectangles"
PartitionOK(gr, rows, cols, I) ==
  /\ Len(I) >= 1
  /\ \A k \in DOMAIN I : GProper(I[k], rows, cols)
  /\ \A k \in DOMAIN I : \A m \in DOMAIN I : k < m => GCells(I[k]) \cap GCells(I[m]) = {}
  /\ UNION { GCells(I[k]) : k \in DOMAIN I } = gr
ClPartition(gr, rows, cols, insts) == \A n \in DOMAIN insts : PartitionOK(gr, rows, cols, insts[n])
\* "each branch abutting the trunk on one side within the trunk's extent"
AbutOK(I) == \A k \in DOMAIN I : k > 1 => GBranch(I[1], I[k])
ClAbut(insts) == \A n \in DOMAIN insts : Len(insts[n]) >= 1 => AbutOK(insts[n])

GridClauses(gr, rows, cols, is, insts) ==
  [ exists    |-> ClExists(gr, rows, cols, is, insts),
    partition |-> ClPartition(gr, rows, cols, insts),
    abut      |-> ClAbut(insts) ]
GridClauseNames == {"exists", "partition", "abut"}

(***************************************************************************)
(* 4. STATE MACHINE                                                        *)
(***************************************************************************)
Init == /\ pc = "draw" /\ nr \in 1..MAXROWS /\ nc \in 1..MAXCOLS /\ nr * nc <= MAXCELLS
        /\ pos = 0 /\ g = {} /\ trunks = {} /\ inst = {}

\* the next cell (row-major) is left empty or filled
SetCell == /\ pc = "draw" /\ pos < nr * nc
           /\ \E b \in {0, 1} : g' = IF b = 1 THEN g \cup {<<pos \div nc, pos % nc>>} ELSE g
           /\ pos' = pos + 1
           /\ UNCHANGED <<pc, nr, nc, trunks, inst>>

\* Strop(matrix) on the finished drawing
AnalyseOn(gr, rows, cols) == /\ trunks' = PotentialTrunks(gr, rows, cols)
                             /\ inst' = Instances(gr, rows, cols)
Analyse == /\ ~EMIT /\ pc = "draw" /\ pos = nr * nc
           /\ AnalyseOn(g, nr, nc)
           /\ pc' = "analysed" /\ UNCHANGED <<nr, nc, pos, g>>

Matrix == [ r \in 1..nr |-> [ c \in 1..nc |-> B2I(<<r - 1, c - 1>> \in g) ] ]
Emit == /\ EMIT /\ pc = "draw" /\ pos = nr * nc
        /\ PrintT(ToJson([grid |-> Matrix]))
        /\ pc' = "emitted" /\ UNCHANGED <<nr, nc, pos, g, trunks, inst>>

Next == SetCell \/ Analyse \/ Emit
Spec == Init /\ [][Next]_svars

(***************************************************************************)
(* INVARIANTS                                                              *)
(***************************************************************************)
TypeOK == /\ pc \in {"draw", "analysed", "emitted"} /\ pos \in 0..(nr * nc)
          /\ g \subseteq (0..(nr - 1)) \X (0..(nc - 1))
Analysed == pc = "analysed"
InstSeq == SetToSeq(inst)
\* the three clauses hold for the algorithm as specified
InvExists    == Analysed => ClExists(g, nr, nc, B2I(inst # {}), InstSeq)
InvPartition == Analysed => ClPartition(g, nr, nc, InstSeq)
InvAbut      == Analysed => ClAbut(InstSeq)
\* the two characterisations coincide (checked on the grids of at most DECLCELLS cells)
InvShadowIsDecl == (Analysed /\ nr * nc <= DECLCELLS) => (ShadowStog(g, nr, nc) <=> DeclStog(g, nr, nc))
\* restricting the search to the "prime" potential trunks loses nothing
InvTrunksSuffice == Analysed => (inst # {} <=> ShadowStog(g, nr, nc))
\* every potential trunk is a full rectangle
InvTrunksFull == Analysed => \A t \in trunks : GProper(t, nr, nc) /\ Full(g, t)
\* ... and already passes the cell count test: single runs through the trunk's rows and columns plus empty
\* corners leave nothing for the test to reject (so weakening that test alone changes no result)
LemmaTrunksValid == Analysed => \A t \in trunks : Valid(g, t)

(***************************************************************************)
(* THE VERTEX INTERFACE strop_decomposition(vertices)                      *)
(*   verts = the vertex list handed in, <<x, y>> lattice coordinates       *)
(*   rects = the rectangles returned, <<x1, y1, x2, y2>>                   *)
(*   loaded = the same rectangles after being loaded as a module of a      *)
(*            netlist: <<x1, y1, x2, y2, role>> in the module's order      *)
(***************************************************************************)
\* twice the signed area of the polygon (shoelace formula)
Shoelace2(verts) == LET n == Len(verts) IN
  FoldSet(LAMBDA i, acc : acc + verts[i][1] * verts[(i % n) + 1][2] - verts[(i % n) + 1][1] * verts[i][2], 0, 1..n)
RectArea(t) == (t[3] - t[1]) * (t[4] - t[2])
SumRectArea(rects) == FoldSet(LAMBDA i, acc : acc + RectArea(rects[i]), 0, DOMAIN rects)
\* "the resulting rectangles have the polygon's area"
ClPolyArea(verts, rects) == 2 * SumRectArea(rects) = Abs(Shoelace2(verts))

\* recognition is judged with the definitions of module Stog (C06); its state machine is not used here
StogDefs == INSTANCE Stog WITH NX <- 0, NY <- 0, MAXR <- 0, HISTLEN <- 0, EMIT <- FALSE,
                               pc <- "", rects <- <<>>, roles <- <<>>, given <- <<>>, result <- 0, net <- <<>>, ops <- <<>>
\* "loaded as a module, are recognised as a single-trunk orthogon with the trunk first"
ClPolyRecognised(ok, loaded) ==
  /\ ok = 1 /\ Len(loaded) >= 1 /\ loaded[1][5] = "T"
  /\ StogDefs!TrunkAt([k \in DOMAIN loaded |-> <<loaded[k][1], loaded[k][2], loaded[k][3], loaded[k][4]>>], 1)
=============================================================================
