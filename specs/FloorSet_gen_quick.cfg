SPECIFICATION Spec
CONSTANTS
  UNIVERSE = "quick"
  EMIT = TRUE
CHECK_DEADLOCK FALSE
