SPECIFICATION Spec
CONSTANTS
  RMAX = 12
  NC = 24
  JUMP = 100
  EMIT = FALSE
INVARIANT TypeOK
INVARIANT CasePartition
INVARIANT SpecSymmetric
INVARIANT BranchAgrees
INVARIANT AcosDomain
INVARIANT Bounded
INVARIANT ClosedInsideLipschitz
INVARIANT ModelMeetsProperty
PROPERTY SweepRankMonotone
PROPERTY SweepEnclosureMonotone
PROPERTY SweepEnclosureLipschitz
CHECK_DEADLOCK FALSE
