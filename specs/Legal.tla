------------------------------- MODULE Legal -------------------------------
(***************************************************************************)
(* C09 -- The legaliser's constraint system admits exactly the legal       *)
(* floorplans.                                                             *)
(*                                                                         *)
(* Subject: tools/legalfloor (legalfloor.py, model.py, expression_tree.py).*)
(* For a netlist of single-trunk orthogons (STOGs), a die and an           *)
(* aspect-ratio limit, `Model(...)` builds named groups of equations over  *)
(* the variables x, y, w, h (centre and size) of every rectangle:          *)
(*                                                                         *)
(*    Bounds  Shapes  Area  Attach  Intra  Inter  Fix                      *)
(*                                                                         *)
(* The property: a configuration (a value for every variable) satisfies    *)
(* all of them  <=>  it is a legal floorplan.                              *)
(*                                                                         *)
(* This module has two independent halves and a state machine:             *)
(*                                                                         *)
(*  1. `Clauses(w, n, c)`  -- legality, written from the property          *)
(*     statement: one boolean per sentence of the statement, from corner   *)
(*     coordinates only.                                                   *)
(*  2. `System(w, n, c)`   -- the equation system, transcribed from the    *)
(*     code (same groups, same centre/size form, same loops), evaluated    *)
(*     with slack epsilon = 0 on the integer lattice.                      *)
(*  3. `PlaceModule` / `Attach` build a netlist that is a legal floorplan; *)
(*     `Edits` are the single-edit neighbours of a configuration; `Move`   *)
(*     takes a neighbour that is still legal, `Perturb(cl)` a neighbour in *)
(*     which exactly the clause `cl` is false (by >= 1 lattice unit; a     *)
(*     deep overlap for the smoothed no-overlap equation), `Wild` a        *)
(*     neighbour with several false clauses (outside the property's        *)
(*     quantifier: only used to check halves 1 and 2 against each other).  *)
(*                                                                         *)
(* TLC checks (Legal_mc_*.cfg):                                            *)
(*    InvBuiltLegal   the construction only builds legal floorplans        *)
(*    InvSystemExact  System met <=> no false clause, in EVERY state       *)
(*    InvGroups       which equation group refuses which clause            *)
(*    InvPerturbOne   Perturb(cl) falsifies cl and only cl, clearly        *)
(*    InvWild         Wild states are outside the quantifier               *)
(*    InvShape        nets and configurations stay well formed             *)
(* Legal_mc_coded_*.cfg must FAIL: they transcribe Model.fix as it is      *)
(* coded today (FIXMODEL) and TLC exhibits the defect on the model.        *)
(* With EMIT = TRUE (Legal_gen_*.cfg) the same machine prints one case per *)
(* netlist: the netlist and every in-quantifier configuration around it    *)
(* (behaviour generation).  LegalTrace.tla re-uses Clauses/System to judge *)
(* what the real `Equation.is_equation_met()` answered.                    *)
(*                                                                         *)
(* Values are JSON-shaped.  A rectangle is the tuple <<x1,y1,x2,y2>> of    *)
(* lattice corner coordinates.  A module is                                *)
(*    [kind  |-> "soft" | "hard" | "fixed",                                *)
(*     area  |-> required area (soft: the `area:` attribute;               *)
(*               hard/fixed: sum of its rectangles, as Module.setup does), *)
(*     slack |-> area of the original rectangles minus `area`,             *)
(*     rects |-> <<trunk, branch, ...>>   (the original floorplan),        *)
(*     roles |-> <<"T", "N"|"S"|"E"|"W", ...>>]                            *)
(* a netlist is a sequence of modules, a configuration a sequence (one per *)
(* module) of sequences of rectangles, a world `w` the record              *)
(* [dw, dh, rp, rq] (die width/height, ratio limit rp/rq).                 *)
(*                                                                         *)
(* Largest intermediate value: Q1*Q2 (see Deep) <= (2*40)^4 < 2^31 for     *)
(* lattices up to 40 units; ratio products <= 40*40*(25+4).                *)
(***************************************************************************)
EXTENDS Geometry, TLC, Json

CONSTANTS DW, DH,        \* die (lattice units); its origin is (0,0) as in FRAME
          RP, RQ,        \* aspect-ratio limit RP/RQ  (--max_ratio)
          TXS, TYS,      \* lower-left corners allowed for trunks (coarse sub-lattice)
          TrunkSizes,    \* set of <<w, h>>
          BranchSizes,   \* set of <<length along the trunk side, depth away from it>>
          BranchOffs,    \* offsets of a branch from the low end of the side (99 = flush with the high end)
          Kinds,         \* subset of {"soft", "hard", "fixed"}
          Slacks,        \* soft modules: area of the given rectangles minus the required area (negative: drawn too small)
          MaxMods, MaxBr, MaxRects,
          Deltas,        \* translations <<dx,dy>> of a whole module
          Slides,        \* translations <<dx,dy>> of a single branch, or of the trunk alone
          EdgeDs,        \* displacements of a single edge
          CHAIN,         \* TRUE: Perturb/Wild also start from a moved (legal) configuration
          WILD,          \* TRUE: explore the multi-violation neighbours too
          FIXMODEL,      \* "intended" | "coded_float" | "coded_int"  (see SysFix)
          ANYRATIO,      \* TRUE: hard and fixed modules may be GIVEN with rectangles beyond the ratio limit
          BASEMOD,       \* generation: neighbours of a moved base for one netlist in BASEMOD
          EMIT           \* TRUE: behaviour generation

VARIABLES pc,      \* "build" | "moved" | "perturbed" | "wild" | "emitted"
          net,     \* the netlist = the original floorplan
          cfg,     \* the candidate configuration
          broken   \* the clause falsified by Perturb, or "none"
vars == <<pc, net, cfg, broken>>

World == [dw |-> DW, dh |-> DH, rp |-> RP, rq |-> RQ]

(***************************************************************************)
(* Rectangles as tuples                                                    *)
(***************************************************************************)
TW(t) == t[3] - t[1]
TH(t) == t[4] - t[2]
TCx2(t) == t[1] + t[3]                   \* doubled centre: stays integral
TCy2(t) == t[2] + t[4]
TArea(t) == TW(t) * TH(t)
Proper(t) == t[1] < t[3] /\ t[2] < t[4]
TOverlaps(a, b) == Overlaps(RectOf(a), RectOf(b))
Shift4(t, d) == <<t[1] + d[1], t[2] + d[2], t[3] + d[1], t[4] + d[2]>>
SumArea4(s) == FoldSeq(LAMBDA t, acc : acc + TArea(t), 0, s)

Sides == <<"N", "S", "E", "W">>          \* the order of legalfloor's InputModule tuple
SideSet == {"N", "S", "E", "W"}
SideIdx(s) == CHOOSE k \in 1..4 : Sides[k] = s
Horizontal(s) == s \in {"N", "S"}        \* the trunk side runs along x
\* interval occupied along the trunk side, and its doubled midpoint
Lo(t, s) == IF Horizontal(s) THEN t[1] ELSE t[2]
Hi(t, s) == IF Horizontal(s) THEN t[3] ELSE t[4]
Mid2(t, s) == Lo(t, s) + Hi(t, s)
Along(t, s) == Hi(t, s) - Lo(t, s)
\* branch b sits on side s of trunk t
AttachedTo(t, b, s) == CASE s = "N" -> b[2] = t[4]
                         [] s = "S" -> b[4] = t[2]
                         [] s = "E" -> b[1] = t[3]
                         [] s = "W" -> b[3] = t[1]
WithinExtent(t, b, s) == Lo(t, s) <= Lo(b, s) /\ Hi(b, s) <= Hi(t, s)
\* the branch of length len and depth dp on side s of t, starting at lo along the side
BranchAt(t, s, lo, len, dp) ==
  CASE s = "N" -> <<lo, t[4], lo + len, t[4] + dp>>
    [] s = "S" -> <<lo, t[2] - dp, lo + len, t[2]>>
    [] s = "E" -> <<t[3], lo, t[3] + dp, lo + len>>
    [] s = "W" -> <<t[1] - dp, lo, t[1], lo + len>>

(***************************************************************************)
(* Netlists and configurations                                             *)
(***************************************************************************)
Mods(n) == 1..Len(n)
Idx(n, m) == 1..Len(n[m].rects)
Brs(n, m) == 2..Len(n[m].rects)
Role(n, m, i) == n[m].roles[i]
IsHard(n, m) == n[m].kind \in {"hard", "fixed"}
NRects(n) == FoldSeq(LAMBDA md, acc : acc + Len(md.rects), 0, n)
Orig(n) == [m \in Mods(n) |-> n[m].rects]
\* <<module, rectangle>> index pairs of a configuration
RectIds(c) == UNION { { <<m, i>> : i \in 1..Len(c[m]) } : m \in 1..Len(c) }
BranchIds(c) == { p \in RectIds(c) : p[2] >= 2 }
\* pairs of rectangles of different modules (m < k)
CrossIds(c) == { pq \in RectIds(c) \X RectIds(c) : pq[1][1] < pq[2][1] }
At(c, p) == c[p[1]][p[2]]
\* branch i precedes branch j along a common side of the ORIGINAL floorplan
Before(n, m, i, j) == /\ Role(n, m, i) = Role(n, m, j)
                      /\ Lo(n[m].rects[i], Role(n, m, i)) < Lo(n[m].rects[j], Role(n, m, i))

(***************************************************************************)
(* The quantifier on netlists: every module is a single-trunk orthogon     *)
(* whose trunk is rects[1] with the recorded roles, no other rectangle     *)
(* could serve as trunk (a branch is strictly shorter than the side it     *)
(* sits on), and the required area is positive.                            *)
(***************************************************************************)
ModuleOK(md) ==
  /\ Len(md.rects) >= 1 /\ Len(md.roles) = Len(md.rects) /\ md.roles[1] = "T"
  /\ md.kind \in {"soft", "hard", "fixed"} /\ md.area > 0
  /\ md.area = SumArea4(md.rects) - md.slack
  /\ (md.kind # "soft" => md.slack = 0)
  /\ \A i \in 1..Len(md.rects) : Proper(md.rects[i])
  /\ \A i \in 2..Len(md.rects) :
       /\ md.roles[i] \in SideSet
       /\ AttachedTo(md.rects[1], md.rects[i], md.roles[i])
       /\ WithinExtent(md.rects[1], md.rects[i], md.roles[i])
       /\ Along(md.rects[i], md.roles[i]) < Along(md.rects[1], md.roles[i])
  /\ \A i \in 1..Len(md.rects) : \A j \in 1..Len(md.rects) : i < j => ~TOverlaps(md.rects[i], md.rects[j])
NetOK(n) == Len(n) >= 1 /\ \A m \in Mods(n) : ModuleOK(n[m])
\* a configuration for n: same shape, proper rectangles
CfgOK(n, c) == /\ Len(c) = Len(n)
               /\ \A m \in Mods(n) : Len(c[m]) = Len(n[m].rects) /\ \A i \in Idx(n, m) : Proper(c[m][i])

(***************************************************************************)
(* 1. Legality, from the property statement                                *)
(***************************************************************************)
ClauseNames == {"inDie", "ratio", "area", "attached", "withinExtent", "sideOrder",
                "intraDisjoint", "interDisjoint", "hardCongruent", "fixedInPlace"}

Clauses(w, n, c) ==
  [ \* every rectangle inside the die
    inDie |-> \A p \in RectIds(c) :
                 0 <= At(c, p)[1] /\ 0 <= At(c, p)[2] /\ At(c, p)[3] <= w.dw /\ At(c, p)[4] <= w.dh,
    \* ... and within the aspect-ratio limit
    ratio |-> \A p \in RectIds(c) : ARLeq(RectOf(At(c, p)), w.rp, w.rq),
    \* soft modules at least their required area
    area |-> \A m \in Mods(n) : n[m].kind = "soft" => SumArea4(c[m]) >= n[m].area,
    \* branches attached to their trunk ...
    attached |-> \A p \in BranchIds(c) : AttachedTo(c[p[1]][1], At(c, p), Role(n, p[1], p[2])),
    \* ... within its extent
    withinExtent |-> \A p \in BranchIds(c) : WithinExtent(c[p[1]][1], At(c, p), Role(n, p[1], p[2])),
    \* ... in their original order along each side
    sideOrder |-> \A m \in Mods(n) : \A i \in Brs(n, m) : \A j \in Brs(n, m) :
                     Before(n, m, i, j) => Mid2(c[m][i], Role(n, m, i)) <= Mid2(c[m][j], Role(n, m, i)),
    \* ... and not overlapping (no two rectangles of one module overlap)
    intraDisjoint |-> \A m \in Mods(n) : \A i \in Idx(n, m) : \A j \in Idx(n, m) :
                         i < j => ~TOverlaps(c[m][i], c[m][j]),
    \* no overlap between different modules
    interDisjoint |-> \A pq \in CrossIds(c) : ~TOverlaps(At(c, pq[1]), At(c, pq[2])),
    \* hard modules congruent to their original shape (a translate of it: sizes and offsets from the trunk)
    hardCongruent |-> \A p \in RectIds(c) : IsHard(n, p[1]) =>
                         LET o == n[p[1]].rects  k == c[p[1]]  i == p[2] IN
                         /\ TW(k[i]) = TW(o[i]) /\ TH(k[i]) = TH(o[i])
                         /\ TCx2(k[i]) - TCx2(k[1]) = TCx2(o[i]) - TCx2(o[1])
                         /\ TCy2(k[i]) - TCy2(k[1]) = TCy2(o[i]) - TCy2(o[1]),
    \* fixed modules at their original place
    fixedInPlace |-> \A m \in Mods(n) : n[m].kind = "fixed" =>
                         TCx2(c[m][1]) = TCx2(n[m].rects[1]) /\ TCy2(c[m][1]) = TCy2(n[m].rects[1]) ]

FalseClauses(w, n, c) == LET cl == Clauses(w, n, c) IN { k \in ClauseNames : ~cl[k] }
Legal(w, n, c) == FalseClauses(w, n, c) = {}

(***************************************************************************)
(* "By a clear margin".  On the lattice every violated linear clause is    *)
(* violated by >= 1 unit.  The no-overlap equation is smoothed:            *)
(*    smax(t1, t2, tau) >= 0,  t1 = dx^2 - ((w1+w2)/2)^2, t2 likewise in y,*)
(* which is false  <=>  t1 < 0 /\ t2 < 0 /\ t1*t2 > tau^2,                 *)
(* tau = 0.01*min(W,H)/#modules.  In doubled coordinates Q = 4t.  An       *)
(* overlap is "deep" when t1*t2 >= 4 lattice units^4.  The harness only    *)
(* uses embeddings with tau^2 < 0.4 lattice units^4, for which the         *)
(* smoothed equation is false for EVERY lattice overlap (t1*t2 >= 1) and   *)
(* true for every lattice non-overlap (t1 >= 0 or t2 >= 0).                *)
(***************************************************************************)
Q1(a, b) == (TCx2(a) - TCx2(b)) * (TCx2(a) - TCx2(b)) - (TW(a) + TW(b)) * (TW(a) + TW(b))
Q2(a, b) == (TCy2(a) - TCy2(b)) * (TCy2(a) - TCy2(b)) - (TH(a) + TH(b)) * (TH(a) + TH(b))
Deep(a, b) == Q1(a, b) < 0 /\ Q2(a, b) < 0 /\ Q1(a, b) * Q2(a, b) >= 64
Clear(n, c, cl) == cl = "interDisjoint" => \E pq \in CrossIds(c) : Deep(At(c, pq[1]), At(c, pq[2]))
\* the configurations the property quantifies over
InQuantifier(w, n, c) ==
  LET F == FalseClauses(w, n, c) IN
  F = {} \/ (Cardinality(F) = 1 /\ \A cl \in F : Clear(n, c, cl))

(***************************************************************************)
(* 2. The equation system, transcribed from legalfloor.py                  *)
(*                                                                         *)
(* Variables are centres and sizes; everything is doubled here so that it  *)
(* stays integral: 2x = TCx2, 2*(w/2) = TW.  An equation is a record       *)
(* [g |-> group, id |-> <<name, m, i, k, j>>, ok |-> it is met].           *)
(***************************************************************************)
Eq(g, name, m, i, k, j, ok) == [g |-> g, id |-> <<name, m, i, k, j>>, ok |-> ok]

\* ModelModule._define_vars: "the box must stay inside the dice"
SysBounds(w, n, c) ==
  UNION { LET t == At(c, p) IN
          { Eq("Bounds", "left", p[1], p[2], 0, 0, TCx2(t) - TW(t) >= 0),
            Eq("Bounds", "bottom", p[1], p[2], 0, 0, TCy2(t) - TH(t) >= 0),
            Eq("Bounds", "right", p[1], p[2], 0, 0, TCx2(t) + TW(t) <= 2 * w.dw),
            Eq("Bounds", "top", p[1], p[2], 0, 0, TCy2(t) + TH(t) <= 2 * w.dh) }
          : p \in RectIds(c) }
\* ModelModule._define_vars: "the ratio cannot exceed a maximum value"
\*   thin(w,h) = w*h/(w*w+h*h) >= thin(R,1),  R = rp/rq   <=>   w*h*(rp^2+rq^2) >= rp*rq*(w^2+h^2)
SysShapes(w, n, c) ==
  { LET t == At(c, p) IN
    Eq("Shapes", "ratio", p[1], p[2], 0, 0,
       TW(t) * TH(t) * (w.rp * w.rp + w.rq * w.rq) >= w.rp * w.rq * (TW(t) * TW(t) + TH(t) * TH(t)))
    : p \in RectIds(c) }
\* first_build_model: "minimal area requirements" -- for EVERY module (al[m] = module.area())
SysArea(w, n, c) == { Eq("Area", "min_area", m, 0, 0, 0, SumArea4(c[m]) >= n[m].area) : m \in Mods(n) }
\* add_rect_north/south/east/west ("keep the box attached"), e.g. north:
\*   y_b = y_0 + h_0/2 + h_b/2,   x_0 - w_0/2 + w_b/2 <= x_b <= x_0 + w_0/2 - w_b/2
SysAttach(w, n, c) ==
  UNION { LET t == c[p[1]][1]  b == At(c, p)  s == Role(n, p[1], p[2])
              \* doubled centre / size along the normal of the side (N,S: y,h; E,W: x,w) and along the side
              cn2(r) == IF Horizontal(s) THEN TCy2(r) ELSE TCx2(r)
              sn(r) == IF Horizontal(s) THEN TH(r) ELSE TW(r)
              ca2(r) == IF Horizontal(s) THEN TCx2(r) ELSE TCy2(r)
              sa(r) == IF Horizontal(s) THEN TW(r) ELSE TH(r)
              sg == IF s \in {"N", "E"} THEN 1 ELSE -1
          IN { Eq("Attach", "attach", p[1], p[2], 0, 0, cn2(b) = cn2(t) + sg * sn(t) + sg * sn(b)),
               Eq("Attach", "border0", p[1], p[2], 0, 0, ca2(b) >= ca2(t) - sa(t) + sa(b)),
               Eq("Attach", "border1", p[1], p[2], 0, 0, ca2(b) <= ca2(t) + sa(t) - sa(b)) }
          : p \in BranchIds(c) }
\* first_build_model: "no intra-module intersection": the branches of each side sorted by their INITIAL
\* centre; for consecutive ones i, j:   x_i + w_i/2 <= x_j - w_j/2   (N,S;  y,h for E,W)
SideSeq(n, m, s) == SetToSortSeq({ i \in Brs(n, m) : Role(n, m, i) = s },
                                 LAMBDA i, j : Mid2(n[m].rects[i], s) < Mid2(n[m].rects[j], s))
SysIntra(w, n, c) ==
  UNION { LET m == ms[1]  s == ms[2]  sq == SideSeq(n, m, s) IN
          { Eq("Intra", s, m, sq[k], 0, sq[k + 1],
               Mid2(c[m][sq[k]], s) + Along(c[m][sq[k]], s) <= Mid2(c[m][sq[k + 1]], s) - Along(c[m][sq[k + 1]], s))
            : k \in 1..(Len(sq) - 1) }
          : ms \in Mods(n) \X SideSet }
\* first_build_model: "no inter-module intersection": smax(t1, t2, tau) >= 0 for every pair of rectangles
\* of different modules; on the lattice (see Clear) this is  ~(t1 < 0 /\ t2 < 0)
SysInter(w, n, c) ==
  { Eq("Inter", "overlap", pq[1][1], pq[1][2], pq[2][1], pq[2][2],
       ~(Q1(At(c, pq[1]), At(c, pq[2])) < 0 /\ Q2(At(c, pq[1]), At(c, pq[2])) < 0))
    : pq \in CrossIds(c) }
\* netlist_to_utils + Model.fix: "fixed/hard modules".
\*   hard (and fixed): w and h of every rectangle are pinned (wl, hl);
\*   fixed: x and y of the trunk are pinned (xl[m][0], yl[m][0]);
\*   branches of hard modules: x and y are pinned RELATIVE TO THE TRUNK VARIABLE.
\* FIXMODEL = "intended": the branch keeps its original offset from the trunk (what "hard" means).
\* The other two values transcribe what the code does today (DESIGN 9, row 10), so that TLC can exhibit
\* the defect on the model (Legal_mc_coded_*.cfg must FAIL):
\*   "coded_float": xl holds the ABSOLUTE branch coordinate and fix() adds the trunk variable to it;
\*   "coded_int":   isinstance(x_get, float) is false, the absolute coordinate is pinned as such.
SysFix(w, n, c) ==
  UNION { LET m == p[1]  i == p[2]  o == n[m].rects  k == c[m] IN
          (IF IsHard(n, m) THEN { Eq("Fix", "fix_w", m, i, 0, 0, TW(k[i]) = TW(o[i])),
                                  Eq("Fix", "fix_h", m, i, 0, 0, TH(k[i]) = TH(o[i])) } ELSE {})
          \cup
          (IF n[m].kind = "fixed" /\ i = 1
             THEN { Eq("Fix", "fix_x", m, i, 0, 0, TCx2(k[1]) = TCx2(o[1])),
                    Eq("Fix", "fix_y", m, i, 0, 0, TCy2(k[1]) = TCy2(o[1])) } ELSE {})
          \cup
          (IF IsHard(n, m) /\ i > 1
             THEN CASE FIXMODEL = "intended" ->
                         { Eq("Fix", "fix_x", m, i, 0, 0, TCx2(k[i]) = (TCx2(o[i]) - TCx2(o[1])) + TCx2(k[1])),
                           Eq("Fix", "fix_y", m, i, 0, 0, TCy2(k[i]) = (TCy2(o[i]) - TCy2(o[1])) + TCy2(k[1])) }
                    [] FIXMODEL = "coded_float" ->
                         { Eq("Fix", "fix_x", m, i, 0, 0, TCx2(k[i]) = TCx2(o[i]) + TCx2(k[1])),
                           Eq("Fix", "fix_y", m, i, 0, 0, TCy2(k[i]) = TCy2(o[i]) + TCy2(k[1])) }
                    [] FIXMODEL = "coded_int" ->
                         { Eq("Fix", "fix_x", m, i, 0, 0, TCx2(k[i]) = TCx2(o[i])),
                           Eq("Fix", "fix_y", m, i, 0, 0, TCy2(k[i]) = TCy2(o[i])) }
             ELSE {})
          : p \in RectIds(c) }

System(w, n, c) == SysBounds(w, n, c) \cup SysShapes(w, n, c) \cup SysArea(w, n, c) \cup SysAttach(w, n, c)
                   \cup SysIntra(w, n, c) \cup SysInter(w, n, c) \cup SysFix(w, n, c)
Groups == {"Bounds", "Shapes", "Area", "Attach", "Intra", "Inter", "Fix"}
\* the groups holding an equation that is not met
BadGroups(w, n, c) == { q.g : q \in { e \in System(w, n, c) : ~e.ok } }
AllMet(w, n, c) == BadGroups(w, n, c) = {}

\* which group is responsible for which clause (the per-group diagnostics of the harness)
GroupOf(cl) == CASE cl = "inDie" -> "Bounds" [] cl = "ratio" -> "Shapes" [] cl = "area" -> "Area"
                 [] cl \in {"attached", "withinExtent"} -> "Attach"
                 [] cl \in {"sideOrder", "intraDisjoint"} -> "Intra"
                 [] cl = "interDisjoint" -> "Inter"
                 [] cl \in {"hardCongruent", "fixedInPlace"} -> "Fix"

(***************************************************************************)
(* Catalogues for the configuration files (a .cfg cannot write tuples):    *)
(* used as  TrunkSizes <- TrunkSizesA  etc.                                *)
(***************************************************************************)
TrunkSizes1 == {<<4, 4>>}
TrunkSizesS == {<<4, 4>>, <<4, 2>>}
TrunkSizesA == {<<4, 4>>, <<4, 2>>, <<2, 4>>}
TrunkSizesB == {<<4, 4>>, <<4, 2>>, <<2, 4>>, <<3, 3>>, <<6, 3>>, <<3, 5>>}
BranchSizesS == {<<1, 1>>, <<2, 1>>}
BranchSizes1 == {<<2, 1>>}
BranchSizesA == {<<1, 1>>, <<2, 1>>, <<1, 2>>}
BranchSizesB == {<<1, 1>>, <<2, 1>>, <<1, 2>>, <<2, 2>>, <<3, 2>>}
\* +-3 carries the central trunk across each border of the 8x8 die; +-2 brings it flush with it
DeltasA == {<<1, 0>>, <<-1, 0>>, <<0, 1>>, <<0, -1>>, <<2, 0>>, <<-2, 0>>, <<0, 2>>, <<0, -2>>, <<1, 1>>, <<-2, -2>>,
            <<3, 0>>, <<-3, 0>>, <<0, 3>>, <<0, -3>>}
EdgeDsA == {-1, 1}
\* a long side with a short and a long branch next to each other (the order of the branches of a side is decided by
\* their centres, not by an edge or by centre minus size: lengths 1 and 4, ratio > 3)
TrunkSizes6 == {<<6, 6>>}
BranchSizesL == {<<1, 1>>, <<4, 2>>}
\* very elongated dies (tau = 0.01 * min(W, H) / n, not max): two 2x2 modules next to each other
TrunkSizes2 == {<<2, 2>>}
\* drawn versus declared area of a soft module: drawn with slack (+2) and with a deficit (-1, -2: the given
\* configuration itself violates exactly `area`; configurations between the two values must be refused)
SlacksN == {-2, -1, 2}
\* hard / fixed modules given beyond the ratio limit 2: a 6x2 trunk, a 3x1 branch
TrunkSizesX == {<<6, 2>>, <<4, 4>>}
BranchSizesX == {<<3, 1>>, <<2, 1>>}
\* catalogues for LegalPost.tla: a trunk large enough for a branch to be fused into it, a 1x1 neighbour for the notch
TrunkSizesP == {<<4, 5>>, <<1, 1>>}
BranchSizesP == {<<3, 1>>, <<1, 1>>, <<1, 2>>}
\* two branches of the same depth that tile their bounding box, one of them below the turn-off threshold
BranchSizesP2 == {<<1, 2>>, <<2, 2>>}
\* thinner catalogues for Verifier.tla (every run of the real verifier parses three YAML documents)
DeltasV == {<<1, 0>>, <<0, -1>>, <<-2, -2>>, <<3, 0>>, <<-3, 0>>, <<0, 3>>, <<0, -3>>}
SlidesV == {<<1, 0>>, <<-1, 0>>, <<0, 1>>, <<0, -1>>, <<2, 0>>}
SlidesA == {<<1, 0>>, <<-1, 0>>, <<0, 1>>, <<0, -1>>, <<2, 0>>, <<0, 2>>}

(***************************************************************************)
(* 3. The state machine                                                    *)
(***************************************************************************)
Trunks == { t \in { <<x, y, x + s[1], y + s[2]>> : x \in TXS, y \in TYS, s \in TrunkSizes } :
              t[3] <= DW /\ t[4] <= DH /\ (ANYRATIO \/ ARLeq(RectOf(t), RP, RQ)) }
\* A rectangle beyond the aspect-ratio limit may only be given for a hard or fixed module (ANYRATIO): its shape cannot
\* change, so the netlist has NO legal configuration; its own configuration violates exactly the clause `ratio`.
RatioOK(k, t) == ARLeq(RectOf(t), RP, RQ) \/ (ANYRATIO /\ k # "soft")
TKey(t) == t[1] * 1000 + t[2]
\* candidate branches on side s of trunk t (strictly shorter than the side)
BranchCands(t, s) ==
  { BranchAt(t, s, Lo(t, s) + (IF so[2] = 99 THEN Along(t, s) - so[1][1] ELSE so[2]), so[1][1], so[1][2]) :
      so \in { x \in BranchSizes \X BranchOffs : x[1][1] < Along(t, s) /\ (x[2] = 99 \/ x[2] + x[1][1] <= Along(t, s)) } }
BKey(b, s) == SideIdx(s) * 1000 + Lo(b, s)
AllRects(c) == { At(c, p) : p \in RectIds(c) }
InDie4(t) == 0 <= t[1] /\ 0 <= t[2] /\ t[3] <= DW /\ t[4] <= DH

Init == pc = "build" /\ net = <<>> /\ cfg = <<>> /\ broken = "none"

\* A new module (kind k, trunk t, slack sl): modules are added by increasing trunk key (each set of modules
\* is built once); the trunk overlaps nothing that is already there.
PlaceModule(k, t, sl) ==
  /\ pc = "build" /\ Len(net) < MaxMods /\ NRects(net) < MaxRects
  /\ (Len(net) > 0 => TKey(net[Len(net)].rects[1]) < TKey(t))
  /\ \A r \in AllRects(Orig(net)) : ~TOverlaps(r, t)
  /\ (k = "soft" \/ sl = 0) /\ sl < TArea(t) /\ RatioOK(k, t)
  /\ net' = Append(net, [kind |-> k, area |-> TArea(t) - sl, slack |-> sl, rects |-> <<t>>, roles |-> <<"T">>])
  /\ cfg' = Orig(net')
  /\ UNCHANGED <<pc, broken>>

\* A new branch b on side s of the LAST module: branches are added by increasing (side, position) key,
\* after the branches already on that side; inside the die, within the ratio, overlapping nothing.
Attach(s, b) ==
  /\ pc = "build" /\ Len(net) > 0 /\ NRects(net) < MaxRects
  /\ LET M == Len(net)  md == net[M]  L == Len(md.rects) IN
       /\ L - 1 < MaxBr
       /\ b \in BranchCands(md.rects[1], s)
       /\ InDie4(b) /\ RatioOK(md.kind, b)
       /\ (L > 1 => BKey(md.rects[L], md.roles[L]) < BKey(b, s))
       /\ \A i \in 2..L : md.roles[i] = s => Hi(md.rects[i], s) <= Lo(b, s)
       /\ \A r \in AllRects(Orig(net)) : ~TOverlaps(r, b)
       /\ net' = [net EXCEPT ![M] = [md EXCEPT !.rects = Append(@, b), !.roles = Append(@, s),
                                                !.area = @ + TArea(b)]]
  /\ cfg' = Orig(net')
  /\ UNCHANGED <<pc, broken>>

(***************************************************************************)
(* Single edits of a configuration c (value level: shared by Move,         *)
(* Perturb, Wild, the emitted cases and the trace specification).          *)
(***************************************************************************)
\* a whole module translated
Translations(n, c) == { [c EXCEPT ![m] = [i \in DOMAIN c[m] |-> Shift4(c[m][i], d)]] : m \in Mods(n), d \in Deltas }
\* one branch translated
BranchSlides(n, c) == { [c EXCEPT ![p[1]][p[2]] = Shift4(@, d)] : p \in BranchIds(c), d \in Slides }
\* the trunk alone translated (its branches stay where they are)
TrunkSlides(n, c) == { [c EXCEPT ![m][1] = Shift4(@, d)] : m \in { mm \in Mods(n) : Len(c[mm]) > 1 }, d \in Slides }
\* one edge of one rectangle displaced (e = 1..4: left, bottom, right, top)
EdgeMoves(n, c) == { [c EXCEPT ![p[1]][p[2]][e] = @ + d] : p \in RectIds(c), e \in 1..4, d \in EdgeDs }
\* one edge of a trunk displaced together with the branches sitting on it
EdgeSide(e) == CASE e = 1 -> "W" [] e = 2 -> "S" [] e = 3 -> "E" [] e = 4 -> "N"
EdgeDir(e, d) == IF e \in {1, 3} THEN <<d, 0>> ELSE <<0, d>>
EdgeDrags(n, c) ==
  { [c EXCEPT ![m] = [i \in DOMAIN c[m] |->
                        IF i = 1 THEN [c[m][1] EXCEPT ![e] = @ + d]
                        ELSE IF Role(n, m, i) = EdgeSide(e) THEN Shift4(c[m][i], EdgeDir(e, d)) ELSE c[m][i]]]
    : m \in { mm \in Mods(n) : Len(c[mm]) > 1 }, e \in 1..4, d \in EdgeDs }
\* two branches of one side exchange their places (they keep their sizes and stay inside the span they occupied)
Swaps(n, c) ==
  { LET m == mij[1]  i == mij[2]  j == mij[3]  s == Role(n, m, i)
        lo == Lo(c[m][i], s)  hi == Hi(c[m][j], s)
        place(r, l) == IF Horizontal(s) THEN <<l, r[2], l + Along(r, s), r[4]>> ELSE <<r[1], l, r[3], l + Along(r, s)>>
    IN [c EXCEPT ![m][i] = place(c[m][i], hi - Along(c[m][i], s)), ![m][j] = place(c[m][j], lo)]
    : mij \in { x \in Mods(n) \X (2..MaxRects) \X (2..MaxRects) :
                  /\ x[2] \in Brs(n, x[1]) /\ x[3] \in Brs(n, x[1]) /\ Before(n, x[1], x[2], x[3])
                  /\ Hi(c[x[1]][x[2]], Role(n, x[1], x[2])) <= Lo(c[x[1]][x[3]], Role(n, x[1], x[2])) } }
Edits(n, c) == { e \in Translations(n, c) \cup BranchSlides(n, c) \cup TrunkSlides(n, c) \cup EdgeMoves(n, c)
                       \cup EdgeDrags(n, c) \cup Swaps(n, c) : e # c /\ CfgOK(n, e) }

LegalMoves(w, n, c) == { e \in Edits(n, c) : Legal(w, n, e) }
Perturbed(w, n, c, cl) == { e \in Edits(n, c) : FalseClauses(w, n, e) = {cl} /\ Clear(n, e, cl) }
WildOnes(w, n, c) == { e \in Edits(n, c) : Cardinality(FalseClauses(w, n, e)) >= 2 }

Move == /\ ~EMIT /\ pc = "build" /\ Len(net) > 0
        /\ cfg' \in LegalMoves(World, net, cfg)
        /\ pc' = "moved" /\ UNCHANGED <<net, broken>>
\* Perturb(cl): a neighbour in which exactly the clause cl is false, by a clear margin
Perturb(cl) == /\ ~EMIT /\ Len(net) > 0 /\ (pc = "build" \/ (CHAIN /\ pc = "moved"))
               /\ cfg' \in Perturbed(World, net, cfg, cl)
               /\ broken' = cl /\ pc' = "perturbed" /\ UNCHANGED net
\* the same thing as  \E cl \in ClauseNames : Perturb(cl),  written so that TLC evaluates the clauses of a
\* neighbour once instead of once per clause name
PerturbAny == /\ ~EMIT /\ Len(net) > 0 /\ (pc = "build" \/ (CHAIN /\ pc = "moved"))
              /\ \E e \in Edits(net, cfg) :
                    LET F == FalseClauses(World, net, e) IN
                    /\ Cardinality(F) = 1
                    /\ LET cl == CHOOSE k \in F : TRUE IN Clear(net, e, cl) /\ broken' = cl
                    /\ cfg' = e
              /\ pc' = "perturbed" /\ UNCHANGED net
Wild == /\ WILD /\ ~EMIT /\ Len(net) > 0 /\ (pc = "build" \/ (CHAIN /\ pc = "moved"))
        /\ cfg' \in WildOnes(World, net, cfg)
        /\ pc' = "wild" /\ UNCHANGED <<net, broken>>

(***************************************************************************)
(* Behaviour generation: one case per netlist.  Its events are the         *)
(* original configuration, every in-quantifier neighbour of it, and every  *)
(* in-quantifier neighbour of ONE legal neighbour (the "base", picked by a *)
(* hash of the netlist so that all kinds of moves serve as base; BASEMOD    *)
(* thins this second half: only netlists with Hash % BASEMOD = 0).  `tag`   *)
(* is bookkeeping for the harness (coverage per clause); the judgement is  *)
(* recomputed by LegalTrace from net and cfg alone.                        *)
(***************************************************************************)
TagOf(w, n, c) == LET F == FalseClauses(w, n, c) IN IF F = {} THEN "legal" ELSE CHOOSE k \in F : TRUE
Around(w, n, c) == { e \in Edits(n, c) : InQuantifier(w, n, e) }
Hash(n) == FoldSeq(LAMBDA md, acc : acc + 7 * Len(md.rects) + FoldSeq(LAMBDA t, a : a + 3 * t[1] + 5 * t[2] + t[3] + t[4], 0, md.rects), 0, n)
BaseOf(w, n) == LET L == SetToSeq(LegalMoves(w, n, Orig(n))) IN
                IF Len(L) = 0 THEN Orig(n) ELSE L[(Hash(n) % Len(L)) + 1]
EventsOf(w, n) ==
  LET o == Orig(n)  b == BaseOf(w, n)
      cs == {o} \cup Around(w, n, o) \cup (IF b = o \/ Hash(n) % BASEMOD # 0 THEN {} ELSE Around(w, n, b))
  IN SetToSeq({ [cfg |-> c, tag |-> TagOf(w, n, c)] : c \in cs })
EmitNet == /\ EMIT /\ pc = "build" /\ Len(net) > 0
           /\ pc' = "emitted" /\ UNCHANGED <<net, cfg, broken>>
           /\ PrintT(ToJson([w |-> World, net |-> net, events |-> EventsOf(World, net)]))

AttachAny == Len(net) > 0 /\ \E s \in SideSet : \E b \in BranchCands(net[Len(net)].rects[1], s) : Attach(s, b)
Next == \/ \E k \in Kinds, t \in Trunks, sl \in Slacks : PlaceModule(k, t, sl)
        \/ AttachAny
        \/ Move
        \/ PerturbAny           \* = \E cl \in ClauseNames : Perturb(cl)
        \/ Wild
        \/ EmitNet
Spec == Init /\ [][Next]_vars

(***************************************************************************)
(* Invariants                                                              *)
(***************************************************************************)
\* nets stay inside the quantifier, configurations stay well formed
InvShape == Len(net) > 0 => NetOK(net) /\ CfgOK(net, cfg)
\* PlaceModule / Attach build only legal floorplans: the input configuration of the netlist is legal,
\* and so is every moved configuration
\* (or it violates exactly `ratio` through a hard / fixed rectangle given beyond the limit (ANYRATIO), or exactly
\* `area` through a soft module drawn below its declared area (negative slack))
Deficit == \E m \in Mods(net) : net[m].slack < 0
InvBuiltLegal == (Len(net) > 0 /\ pc \in {"build", "moved", "emitted"}) =>
                    \/ Legal(World, net, cfg)
                    \/ (ANYRATIO /\ pc # "moved" /\ FalseClauses(World, net, cfg) = {"ratio"})
                    \/ (Deficit /\ pc # "moved" /\ FalseClauses(World, net, cfg) = {"area"})
\* THE PROPERTY, at design level: the equation system is met <=> the configuration is legal
InvSystemExact == Len(net) > 0 => (AllMet(World, net, cfg) <=> Legal(World, net, cfg))
\* finer: when a single clause is false, exactly the responsible group has an unmet equation
\* (a hard module that is not congruent may also have lost area: min_area is posted for hard modules too)
AlsoBad(cl) == IF cl = "hardCongruent" THEN {"Area"} ELSE {}
InvGroups == (Len(net) > 0 /\ pc = "perturbed") =>
                LET B == BadGroups(World, net, cfg) IN
                GroupOf(broken) \in B /\ B \subseteq ({GroupOf(broken)} \cup AlsoBad(broken))
\* Perturb(cl) falsifies cl and only cl, by a clear margin (so the state is inside the quantifier)
InvPerturbOne == (pc = "perturbed") => (FalseClauses(World, net, cfg) = {broken} /\ Clear(net, cfg, broken))
\* Wild states are outside the quantifier (they only serve InvSystemExact)
InvWild == (pc = "wild") => Cardinality(FalseClauses(World, net, cfg)) >= 2
=============================================================================
