\* trace validation: the universe constants are unused (canvas and design come from the trace)
SPECIFICATION TraceSpec
CONSTANTS
  Dies = {}
  Widths = {}
  Heights = {}
  Frames = {}
  Default = 1000
  ModuleCat = {}
  MaxMods = 0
  MaxNets = 0
  Scenes = {}
  NameAlphabet = {}
  MaxName = 0
  EMIT = FALSE
CHECK_DEADLOCK FALSE
