\* behaviour generation: one case per (window, segment)
SPECIFICATION Spec
CONSTANTS
  N = 5
  WINDOWS <- QuickWindows
  DEFECTS = {}
  EMIT = TRUE
CHECK_DEADLOCK FALSE
