\* exhaustive: Gen and Enc on all quick grids, k = 1..3
SPECIFICATION Spec
CONSTANTS
  GRIDS <- QuickGrids
  KMAX = 3
  DEN = 2
  OCCVALS = {0, 1, 2}
  FNUM = 100
  FDEN = 1
  RATIO = 2
  MODES = {"gen", "enc"}
  BORDER = "grid"
  UNIT = 1
  EMIT = FALSE
INVARIANT TypeOK
INVARIANT InputIsGrid
INVARIANT GenIsDecl
INVARIANT GenClosed
INVARIANT EncSound
INVARIANT EncComplete
CHECK_DEADLOCK FALSE
