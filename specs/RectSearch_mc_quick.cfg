\* exhaustive: Gen/Enc on 7 grids up to 3x3 and 2x4 (uniform, non-uniform, origin (3,-1)), k = 1..3; solve loop on grids up to 2x2 with every occupancy in {0, 1/2, 1}^cells.  Largest integer: 2 * 100 * 4 cells < 2^31
SPECIFICATION Spec
CONSTANTS
  GRIDS <- QuickMcGrids
  SGRIDS <- McSolveGrids
  AGRIDS <- QuickAllocGrids
  KMAX = 3
  DEN = 2
  OCCVALS = {0, 1, 2}
  FNUM = 100
  FDEN = 1
  RATIO = 2
  MODES = {"gen", "enc", "solve", "alloc"}
  BORDER = "grid"
  UNIT = 1
  EMIT = FALSE
INVARIANT TypeOK
INVARIANT InputIsGrid
INVARIANT GenIsDecl
INVARIANT GenClosed
INVARIANT EncSound
INVARIANT EncComplete
INVARIANT SolveMeetsProperty
INVARIANT LoopOptimal
INVARIANT TableIsObj
INVARIANT FastIsTable
INVARIANT LoopNoShapes
INVARIANT FrontEndOK
INVARIANT EndToEndExact
PROPERTY BoundGrows
PROPERTY StrictlyGrows
CHECK_DEADLOCK FALSE
