\* Universe S (quick): ONE module, trunk 4x4 in the middle of an 8x8 die, up to two branches
\* (1x1, 2x1; flush with either end of the side), all kinds, soft with slack 0 and 2, ratio limit 2.
SPECIFICATION Spec
CONSTANTS
  DW = 8
  DH = 8
  RP = 2
  RQ = 1
  TXS = {2}
  TYS = {2}
  TrunkSizes <- TrunkSizes1
  BranchSizes <- BranchSizesS
  BranchOffs = {0, 99}
  Kinds = {"soft", "hard", "fixed"}
  Slacks = {0, 2}
  MaxMods = 1
  MaxBr = 2
  MaxRects = 3
  Deltas <- DeltasA
  Slides <- SlidesA
  EdgeDs <- EdgeDsA
  CHAIN = FALSE
  WILD = FALSE
  FIXMODEL = "intended"
  ANYRATIO = FALSE
  BASEMOD = 2
  EMIT = TRUE
CHECK_DEADLOCK FALSE
