SPECIFICATION Spec
CONSTANTS
  NX = 3
  NY = 2
  MAXR = 4
  HISTLEN = 4
  EMIT = TRUE

CHECK_DEADLOCK FALSE
