----------------------------- MODULE LegalTrace -----------------------------
(***************************************************************************)
(* C09, code -> spec: batch validation of what the real legaliser answered.*)
(*                                                                         *)
(* One trace = one netlist + die + ratio limit for which the harness built *)
(* the real `Model(...)` (tools/legalfloor), and a list of events; each    *)
(* event is one configuration assigned to the model's variables together   *)
(* with what `Equation.is_equation_met()` said: `met` (1 = every equation  *)
(* of the legality groups met) and `bad` (the groups with an unmet         *)
(* equation).  One TLC initial state per trace; every step evaluates the   *)
(* specification's own `Clauses` (property) and `System` (model) on the    *)
(* event's configuration.                                                  *)
(*                                                                         *)
(* Property clauses (only these produce VIOLATION), for configurations     *)
(* inside the quantifier (legal, or exactly one false clause by a clear    *)
(* margin) of a netlist inside the quantifier (NetOK):                     *)
(*    refuses_legal    legal, but some equation is not met                 *)
(*    admits_illegal   one clause false, yet every equation is met         *)
(* Model conformance (MODEL-DRIFT only): the groups with an unmet equation *)
(* differ from the ones the transcribed System predicts; the roles FRAME   *)
(* assigned differ from the recorded ones.                                 *)
(* Events outside the quantifier are listed (`outq`), never judged.        *)
(* Verdicts are total: Step never blocks.                                  *)
(***************************************************************************)
EXTENDS Legal, IOUtils

Batch == JsonDeserialize(IOEnv.TRACE_FILE)

VARIABLES tid, l, fails, drift, outq
tvars == <<vars, tid, l, fails, drift, outq>>

T == Batch[tid]
SetOf(s) == { s[k] : k \in DOMAIN s }

TraceInit == /\ tid \in 1..Len(Batch) /\ l = 1 /\ fails = {} /\ outq = {}
             /\ drift = IF Batch[tid].rolesok = 1 THEN {} ELSE {<<0, "roles", "none">>}
             /\ pc = "trace" /\ net = Batch[tid].net /\ cfg = Orig(Batch[tid].net) /\ broken = "none"

Step == /\ l <= Len(T.events)
        /\ LET e == T.events[l]
               ok == NetOK(net) /\ CfgOK(net, e.cfg)
               F == IF ok THEN FalseClauses(T.w, net, e.cfg) ELSE {}
               inq == ok /\ (F = {} \/ (Cardinality(F) = 1 /\ \A cl \in F : Clear(net, e.cfg, cl)))
               which == IF F = {} THEN "none" ELSE CHOOSE k \in F : TRUE
           IN /\ cfg' = e.cfg
              /\ broken' = which
              /\ fails' = IF ~inq THEN fails
                          ELSE IF F = {} /\ e.met = 0 THEN fails \cup {<<l, "refuses_legal", "none">>}
                          ELSE IF F # {} /\ e.met = 1 THEN fails \cup {<<l, "admits_illegal", which>>}
                          ELSE fails
              /\ drift' = IF inq /\ SetOf(e.bad) # BadGroups(T.w, net, e.cfg)
                          THEN drift \cup {<<l, "groups", which>>} ELSE drift
              /\ outq' = IF inq THEN outq ELSE outq \cup {l}
        /\ l' = l + 1 /\ UNCHANGED <<pc, net, tid>>

Done == /\ l = Len(T.events) + 1
        /\ l' = l + 1
        /\ PrintT(ToJson([tag |-> "VERDICT", id |-> T.id, fails |-> fails, drift |-> drift, outq |-> outq]))
        /\ UNCHANGED <<vars, tid, fails, drift, outq>>

TraceNext == Step \/ Done
TraceSpec == TraceInit /\ [][TraceNext]_tvars
=============================================================================
