----------------------------- MODULE LegalPost -----------------------------
(***************************************************************************)
(* LEGALPOST -- the legaliser's rectangle post-processing keeps the        *)
(* floorplan.  Grows Legal.tla (C09).                                      *)
(*                                                                         *)
(* Subject: ModelModule.turn_off_rects / fuse_rects (legalfloor.py) as     *)
(* called by ModelWrapper.solve (model.py) before every solver call:       *)
(*     turn_off_rects(0.1);  fuse_rects(0.05)                              *)
(* Both work on the CURRENT values of the variables and on a flag `enable` *)
(* per rectangle (a disabled rectangle gets the "Rid" equations w = h = 0  *)
(* and is not written to the result).                                      *)
(*   turn_off_rects(p): every branch whose area is <= p * (area of the     *)
(*       module) is disabled.                                              *)
(*   fuse_rects(p): for every side (N, S, E, W), for every branch b of the *)
(*       side in its initial order, first with the trunk and then with the *)
(*       next branch of the side as partner r: if                          *)
(*       (area(b) + area(r)) / area(bounding box of b and r) > 1 - p,      *)
(*       b is disabled and r BECOMES the bounding box.                     *)
(*                                                                         *)
(* `TurnOffM` / `FuseM` transcribe the two loops (same order, same state   *)
(* threading).  The contract of a post-processing step on a legal          *)
(* configuration (`PostClauses`):                                          *)
(*     hardKept      hard and fixed modules are left alone (any change     *)
(*                   breaks the congruence the legaliser promises)         *)
(*     trunkKept     the trunk is never disabled                           *)
(*     covered       nothing is lost: every rectangle that was enabled     *)
(*                   lies inside an enabled rectangle afterwards, except   *)
(*                   the branches below the turn-off threshold             *)
(*     areaWithin    the area stays within the stated percentages          *)
(*     stillAttached every enabled branch is still attached to the trunk,  *)
(*                   within its extent                                     *)
(*     noOverlap     no overlap has been introduced: enabled rectangles of *)
(*                   a module are disjoint, different modules are          *)
(*                   disjoint, everything is inside the die                *)
(* TLC decides which of these clauses the transcribed loops guarantee on   *)
(* every legal configuration of the bounded universe (LegalPost_mc_*.cfg); *)
(* the ones they do not guarantee (noOverlap, stillAttached: the trunk     *)
(* that absorbs a branch also fills the notch beside it) are listed in     *)
(* LegalPost_mc_fails*.cfg (must FAIL) with TLC's counterexample, and the  *)
(* harness reports the same clauses on the real methods.                   *)
(***************************************************************************)
EXTENDS Legal

CONSTANTS OFFN, OFFD,     \* turn-off threshold OFFN/OFFD   (0.1 in ModelWrapper.solve)
          FUSN, FUSD,     \* fuse tolerance FUSN/FUSD       (0.05, the default of fuse_rects)
          SKIPHARD        \* TRUE: the intended behaviour (hard and fixed modules are left alone);
                          \* FALSE: as coded today (every module is processed)

VARIABLES after,    \* configuration after post-processing
          en,       \* per module: the set of enabled rectangle indices
          ppc       \* "none" | "done"
pvars == <<vars, after, en, ppc>>

(***************************************************************************)
(* The two loops, per module (rs = current rectangles of the module)       *)
(***************************************************************************)
Processed(n, m) == ~(SKIPHARD /\ IsHard(n, m))
\* turn_off_rects: for i in range(1, len(enable)): if w*h/current_area <= perc: enable[i] = False
TurnOffM(rs, e) == { i \in e : i = 1 \/ TArea(rs[i]) * OFFD > OFFN * SumArea4(rs) }
\* some branch sits exactly on the threshold (the float comparison may go either way under inexact embeddings)
TurnOffTie(rs) == \E i \in 2..Len(rs) : TArea(rs[i]) * OFFD = OFFN * SumArea4(rs)

\* fuse_rects: the (branch, partner) pairs in the order of the nested loops
FuseSteps(n, m) ==
  LET ofSide(s) == LET sq == SideSeq(n, m, s) IN
                   FoldLeft(LAMBDA acc, k : acc \o <<<<sq[k], 1>>>> \o (IF k < Len(sq) THEN <<<<sq[k], sq[k + 1]>>>> ELSE <<>>),
                            <<>>, [k \in 1..Len(sq) |-> k])
  IN ofSide("N") \o ofSide("S") \o ofSide("E") \o ofSide("W")
BBox4(a, b) == <<Mn(a[1], b[1]), Mn(a[2], b[2]), Mx(a[3], b[3]), Mx(a[4], b[4])>>
FuseStep(st, step) ==
  LET b == st.rs[step[1]]  r == st.rs[step[2]]  bb == BBox4(b, r)
      a1 == TArea(b) + TArea(r)  a2 == TArea(bb)
  IN IF a1 * FUSD > a2 * (FUSD - FUSN)
     THEN [rs |-> [st.rs EXCEPT ![step[2]] = bb], e |-> st.e \ {step[1]}, tie |-> st.tie, n |-> st.n + 1]
     ELSE [st EXCEPT !.tie = @ \/ (a1 * FUSD = a2 * (FUSD - FUSN))]
FuseM(n, m, rs, e) == FoldLeft(FuseStep, [rs |-> rs, e |-> e, tie |-> FALSE, n |-> 0], FuseSteps(n, m))

\* ModelWrapper.solve: turn_off_rects(0.1) then fuse_rects() on every macro
PostM(n, m, rs) ==
  IF Processed(n, m)
  THEN LET off == TurnOffM(rs, 1..Len(rs))  f == FuseM(n, m, rs, off) IN
       [rs |-> f.rs, e |-> f.e, off |-> off, tie |-> f.tie \/ TurnOffTie(rs), fused |-> f.n]
  ELSE [rs |-> rs, e |-> 1..Len(rs), off |-> 1..Len(rs), tie |-> FALSE, fused |-> 0]
Post(n, c) == [m \in Mods(n) |-> PostM(n, m, c[m])]

(***************************************************************************)
(* The contract, on observed values: c before, a after, e enabled sets,    *)
(* off = enabled sets after turn_off only, fused = number of fusions       *)
(***************************************************************************)
PostClauseNames == {"hardKept", "trunkKept", "covered", "areaWithin", "stillAttached", "noOverlap"}
In4(r, s) == s[1] <= r[1] /\ s[2] <= r[2] /\ r[3] <= s[3] /\ r[4] <= s[4]
EnArea(rs, e) == FoldSet(LAMBDA i, acc : acc + TArea(rs[i]), 0, e)
\* a branch may be turned off only when it is at most the threshold share of the module
Small(rs, i) == TArea(rs[i]) * OFFD <= OFFN * SumArea4(rs)
PostClauses(w, n, c, a, e) ==
  [ hardKept |-> \A m \in Mods(n) : IsHard(n, m) => a[m] = c[m] /\ e[m] = 1..Len(c[m]),
    trunkKept |-> \A m \in Mods(n) : 1 \in e[m],
    covered |-> \A m \in Mods(n) : \A i \in 1..Len(c[m]) :
                   \/ (i > 1 /\ Small(c[m], i))
                   \/ \E j \in e[m] : In4(c[m][i], a[m][j]),
    \* turn-off removes at most OFFN/OFFD of the module per disabled branch; every fusion adds at most
    \* FUSN/FUSD of the bounding box it creates (bounded by the area afterwards), and a branch is fused at most
    \* twice (with the trunk, with the next branch of its side): stated on the observed values only
    areaWithin |-> \A m \in Mods(n) :
                     LET A0 == SumArea4(c[m])  A1 == EnArea(a[m], e[m])  k == Len(c[m]) - Cardinality(e[m]) IN
                     /\ A1 * OFFD >= A0 * OFFD - k * OFFN * A0
                     /\ (A1 - A0) * FUSD <= 2 * k * FUSN * A1,
    stillAttached |-> \A m \in Mods(n) : \A i \in e[m] \ {1} :
                        AttachedTo(a[m][1], a[m][i], Role(n, m, i)) /\ WithinExtent(a[m][1], a[m][i], Role(n, m, i)),
    noOverlap |-> /\ \A m \in Mods(n) : \A i \in e[m] : \A j \in e[m] : i < j => ~TOverlaps(a[m][i], a[m][j])
                  /\ \A m \in Mods(n) : \A k \in Mods(n) : m < k =>
                        \A i \in e[m] : \A j \in e[k] : ~TOverlaps(a[m][i], a[k][j])
                  /\ \A m \in Mods(n) : \A i \in e[m] :
                        0 <= a[m][i][1] /\ 0 <= a[m][i][2] /\ a[m][i][3] <= w.dw /\ a[m][i][4] <= w.dh ]
PostFalse(w, n, c, a, e) == LET cl == PostClauses(w, n, c, a, e) IN { k \in PostClauseNames : ~cl[k] }

(***************************************************************************)
(* State machine: Legal's construction (and one legal move), then the      *)
(* post-processing step on the current configuration                       *)
(***************************************************************************)
PInit == Init /\ after = <<>> /\ en = <<>> /\ ppc = "none"
PBuild == /\ ppc = "none"
          /\ (\E k \in Kinds, t \in Trunks, sl \in Slacks : PlaceModule(k, t, sl)) \/ AttachAny \/ (CHAIN /\ Move)
          /\ UNCHANGED <<after, en, ppc>>
PostProcess == /\ ~EMIT /\ ppc = "none" /\ Len(net) > 0 /\ pc \in {"build", "moved"}
               /\ LET p == Post(net, cfg) IN after' = [m \in Mods(net) |-> p[m].rs] /\ en' = [m \in Mods(net) |-> p[m].e]
               /\ ppc' = "done" /\ UNCHANGED vars
\* behaviour generation: the netlist, its configuration and (CHAIN) its legal neighbours as starting points
PEmit == /\ EMIT /\ ppc = "none" /\ pc = "build" /\ Len(net) > 0
         /\ ppc' = "emitted" /\ UNCHANGED <<vars, after, en>>
         /\ PrintT(ToJson([w |-> World, net |-> net,
                           events |-> SetToSeq({ [cfg |-> c] : c \in {Orig(net)} \cup LegalMoves(World, net, Orig(net)) })]))
PNext == PBuild \/ PostProcess \/ PEmit
PSpec == PInit /\ [][PNext]_pvars

Holds(cl) == (ppc = "done") => PostClauses(World, net, cfg, after, en)[cl]
InvHardKept == Holds("hardKept")
InvTrunkKept == Holds("trunkKept")
InvCovered == Holds("covered")
InvAreaWithin == Holds("areaWithin")
InvStillAttached == Holds("stillAttached")
InvNoOverlap == Holds("noOverlap")
\* the step only ever starts from a legal configuration
InvStartLegal == (ppc = "done") => Legal(World, net, cfg)
=============================================================================
