\* MUST FAIL (InvSystemExact): Model.fix transcribed as coded for float inputs (absolute branch coordinate + trunk variable).
SPECIFICATION Spec
CONSTANTS
  DW = 8
  DH = 8
  RP = 2
  RQ = 1
  TXS = {2}
  TYS = {2}
  TrunkSizes <- TrunkSizes1
  BranchSizes <- BranchSizes1
  BranchOffs = {0}
  Kinds = {"soft", "hard", "fixed"}
  Slacks = {0}
  MaxMods = 1
  MaxBr = 1
  MaxRects = 2
  Deltas <- DeltasA
  Slides <- SlidesA
  EdgeDs <- EdgeDsA
  CHAIN = FALSE
  WILD = FALSE
  FIXMODEL = "coded_float"
  ANYRATIO = FALSE
  BASEMOD = 2
  EMIT = FALSE
INVARIANT InvShape
INVARIANT InvBuiltLegal
INVARIANT InvSystemExact
INVARIANT InvGroups
INVARIANT InvPerturbOne
INVARIANT InvWild
CHECK_DEADLOCK FALSE
