---------------------------- MODULE AllocTrace ----------------------------
(***************************************************************************)
(* C02 / C12, code -> spec: batch validation of observed refinement        *)
(* behaviours of real frame.allocation.Allocation objects.                 *)
(*                                                                         *)
(* A trace = an initial allocation and the sequence of public calls made   *)
(* on it (refine / uniform_refinement_depth / griddify, the iterations of  *)
(* the refine-while-needed loop appear as refine events), each with what   *)
(* was observed: must_be_refined before the call, the resulting cells,     *)
(* area(m) and center(m).  `cur` is the allocation the object holds; every *)
(* event is judged on (cur, observed result) with the operators of         *)
(* AllocOps; verdicts are total.                                           *)
(***************************************************************************)
EXTENDS AllocOps, TLC, Json, IOUtils

Batch == JsonDeserialize(IOEnv.TRACE_FILE)

VARIABLES tid, l, cur, fails, drift
tvars == <<tid, l, cur, fails, drift>>

T == Batch[tid]
SeqToSet(s) == { s[k] : k \in DOMAIN s }
Bad(cl) == { k \in DOMAIN cl : ~cl[k] }

TraceInit == /\ tid \in 1..Len(Batch) /\ l = 1
             /\ cur = SeqToSet(Batch[tid].cells0)
             /\ fails = {} /\ drift = {}

\* observed accessors: area(m) * den, and 20 * centre (doubled centre times 10), rounded to integers
AccessorsOK(e, after) ==
  \A m \in DOMAIN e.areas :
     /\ e.areas[m] = ModArea(after, m)
     /\ ModArea(after, m) > 0 =>
          /\ Abs(e.cx[m] * ModArea(after, m) - 10 * ModMx(after, m)) <= ModArea(after, m)
          /\ Abs(e.cy[m] * ModArea(after, m) - 10 * ModMy(after, m)) <= ModArea(after, m)

Clauses(e) ==
  LET after == SeqToSet(e.after)
      ok == e.ok = 1
      den == T.den
  IN [ \* ---- C02
       succeeds |-> ok,
       same_tiling |-> (ok => Len(e.after) = Cardinality(after) /\ SameTiling(cur, after)),
       same_areas |-> (ok => SameAreas(cur, after)),
       same_centroids |-> (ok => SameCentroids(cur, after)),
       inherits |-> (ok => Inherits(cur, after)),
       fixed_uncut |-> (ok => FixedUncut(cur, after)),
       accessors |-> (ok => AccessorsOK(e, after)),
       \* ---- C12
       mbr_iff_changes |-> (ok /\ e.op = "refine" => ((e.mbr = 1) <=> (after # cur))),
       \* (not judged on near-tie traces, where one occupancy was moved one unit in the last place off the threshold:
       \*  the lattice cannot represent that; there the predicate/operation agreement above is the whole point)
       refine_exact |-> (ok /\ e.op = "refine" /\ e.neartie = 0 => RefineExact(cur, after, e.tn, e.td, den, e.lv)),
       uniform_exact |-> (ok /\ e.op = "uniform" => UniformExact(cur, after)),
       aligned |-> (ok /\ e.op = "griddify" => Aligned(cur, after)) ]

\* the model's own prediction (model conformance only)
Predicted(e) == CASE e.op = "refine" -> RefineResult(cur, e.tn, e.td, T.den, e.lv)
                  [] e.op = "uniform" -> UniformResult(cur)
                  [] e.op = "griddify" -> GriddifyResult(cur)

Step == /\ l <= Len(T.events)
        /\ LET e == T.events[l] IN
             /\ fails' = fails \cup { <<l, k>> : k \in Bad(Clauses(e)) }
             /\ drift' = IF e.ok = 1 /\ e.predict = 1 /\ e.neartie = 0 /\ SeqToSet(e.after) # Predicted(e)
                         THEN drift \cup {<<l, e.op>>} ELSE drift
             /\ cur' = IF e.ok = 1 THEN SeqToSet(e.after) ELSE cur
        /\ l' = l + 1 /\ UNCHANGED tid

Done == /\ l = Len(T.events) + 1 /\ l' = l + 1
        /\ PrintT(ToJson([tag |-> "VERDICT", id |-> T.id, fails |-> fails, drift |-> drift]))
        /\ UNCHANGED <<tid, cur, fails, drift>>

TraceNext == Step \/ Done
TraceSpec == TraceInit /\ [][TraceNext]_tvars
=============================================================================
