\* NETAPI: behaviour generation -- print every action sequence of length 4
SPECIFICATION Spec
CONSTANTS
  MAXLEN = 4
  EMIT = TRUE
  ASIS = FALSE
CHECK_DEADLOCK FALSE
