SPECIFICATION Spec
CONSTANTS
  UNIVERSE = "thorough"
  EMIT = FALSE
INVARIANT TypeOK
INVARIANT LemmaModules
INVARIANT LemmaAreas
INVARIANT LemmaNets
INVARIANT LemmaDensity
INVARIANT LemmaDie
INVARIANT LemmaOrderFree
CHECK_DEADLOCK FALSE
