# Generator of the SatLayer_*.cfg / SatTrace*.cfg files (constants of the bounded universes); run: bash SatLayer_mkcfg.sh
cd /verif/specs
mks() { # name spec vars fams clausemax amoseq amomax amopols heuleks pbshape pbterms pbpols pbneg pbpos pbbound pbops maxmgrs maxposts emit
cat > $1.cfg <<EOF
SPECIFICATION $2
CONSTANTS
  Vars = $3
  Fams = $4
  ClauseMax = $5
  AmoSeq = $6
  AmoMax = $7
  AmoPols = $8
  HeuleKs = $9
  PbShape = "${10}"
  PbTerms = ${11}
  PbPols = ${12}
  PbNeg = ${13}
  PbPos = ${14}
  PbBound = ${15}
  PbOps = ${16}
  MaxMgrs = ${17}
  MaxPosts = ${18}
  EMIT = ${19}
  PROBE = ${20:-FALSE}
  ACKinds = ${21:-{\}}
  RDecs = {TRUE, FALSE}
  RTerms = 0
  RCoef = 0
  RBound = 0
  RBuilds = 0
  CoefNeg = 0
  CoefPos = 0
  ConstMax = 0
  MulNeg = 0
  MulPos = 0
  CMax = 0
  KMax = 0
  CMax2 = 0
  KMax2 = 0
CHECK_DEADLOCK FALSE
EOF
if [ "$2" = SSpec ]; then for i in ${22:-AllowedIsConjunction Exact NeverDropped StoreCanonical LastDiagram}; do echo "INVARIANT $i" >> $1.cfg; done; fi; }
ALLOPS='{">=", "<=", ">", "<", "="}'
V2='{"a", "b"}'; V3='{"a", "b", "c"}'; V4='{"a", "b", "c", "d"}'; V6='{"a", "b", "c", "d", "e", "f"}'; V7='{"a", "b", "c", "d", "e", "f", "g"}'; ALLF='{"clause", "imply", "amo", "pb"}'
B='{0, 1}'
mks SatLayer_quick_wide SSpec "$V2" "$ALLF" 2 2 2 "$B" '{2, 3}' raw 2 "$B" 1 2 2 "$ALLOPS" 1 1 TRUE
mks SatLayer_quick_amo  SSpec "$V6" '{"amo"}' 0 0 6 "$B" '{2, 3, 4}' raw 0 "$B" 0 0 0 '{">="}' 1 1 TRUE
mks SatLayer_quick_seq  SSpec "$V3" '{"amo", "pb"}' 0 0 3 "$B" '{}' ordered 3 '{1}' 0 1 3 '{">=", ">"}' 2 2 TRUE
mks SatLayer_thorough_wide SSpec "$V3" "$ALLF" 2 2 3 "$B" '{2, 3}' raw 2 "$B" 1 3 3 "$ALLOPS" 1 1 TRUE
mks SatLayer_thorough_amo  SSpec "$V7" '{"amo"}' 0 2 7 "$B" '{2, 3, 4, 5}' raw 0 "$B" 0 0 0 '{">="}' 1 1 TRUE
mks SatLayer_thorough_amo2 SSpec "$V7" '{"amo"}' 0 0 7 '{1}' '{3, 4}' raw 0 "$B" 0 0 0 '{">="}' 2 2 TRUE
mks SatLayer_thorough_seq  SSpec "$V3" '{"clause", "amo", "pb"}' 1 0 3 "$B" '{3}' ordered 3 '{1}' 0 2 3 '{">=", ">"}' 2 2 TRUE
mks SatLayer_thorough_seq3 SSpec "$V3" '{"pb"}' 0 0 0 "$B" '{}' ordered 3 '{1}' 0 1 2 '{">="}' 3 3 TRUE
# propagation strength (thorough only): one constraint, every partial assignment probed with unit propagation
V5='{"a", "b", "c", "d", "e"}'
HOLD='{"clause", "imply", "amo_quadratic", "amo_heule", "pb_clause"}'
DIAG='{"pb_plain", "pb_decomposition"}'
mks SatLayer_ac_hold     SSpec "$V3" "$ALLF" 2 2 3 "$B" '{3}' ordered 3 "$B" 0 3 8 '{">="}' 1 1 TRUE TRUE "$HOLD" "ProbeSound ProbeDetectsInconsistency ProbeArcConsistent"
mks SatLayer_ac_amo      SSpec "$V5" '{"amo"}' 0 0 5 "$B" '{3, 4}' raw 0 "$B" 0 0 0 '{">="}' 1 1 TRUE TRUE "$HOLD" "ProbeSound ProbeDetectsInconsistency ProbeArcConsistent"
# the diagrams: the plain construction refutes every inconsistent partial assignment by propagation alone ...
mks SatLayer_ac_plain_detects SSpec "$V3" '{"pb"}' 0 0 0 "$B" '{}' ordered 3 "$B" 0 3 8 '{">="}' 1 1 FALSE TRUE '{"pb_plain"}' "ProbeSound ProbeDetectsInconsistency"
# ... the coefficient decomposition does not (TLC MUST report a violation: 3~a + 3~b + 3~c >= 7) ...
mks SatLayer_ac_dec_detects_mustfail SSpec "$V3" '{"pb"}' 0 0 0 "$B" '{}' ordered 3 "$B" 0 3 8 '{">="}' 1 1 FALSE TRUE '{"pb_decomposition"}' "ProbeDetectsInconsistency"
# ... and neither derives every entailed literal (one-directional Tseitin; TLC MUST report a violation)
mks SatLayer_ac_plain_complete_mustfail SSpec "$V3" '{"pb"}' 0 0 0 "$B" '{}' ordered 3 "$B" 0 3 8 '{">="}' 1 1 FALSE TRUE '{"pb_plain"}' "ProbeArcConsistent"
mks SatTrace TraceSpec "$V7" '{}' 0 0 0 "$B" '{}' raw 0 "$B" 0 0 0 '{">="}' 0 0 FALSE
mks SatTrace3 TraceSpec "$V3" '{}' 0 0 0 "$B" '{}' raw 0 "$B" 0 0 0 '{">="}' 0 0 FALSE
