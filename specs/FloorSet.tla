------------------------------ MODULE FloorSet ------------------------------
(***************************************************************************)
(* FLOORSET -- the FloorSet converter                                      *)
(* tools/floorset_parser/floor_set_manager/manager.py (FloorSetInstance:   *)
(* _parse_modules with terminals_as_modules on / off, _parse_connections,  *)
(* shape / modules / nets / density_percentage, write_yaml_FPEF / _DIEF),  *)
(* utils.compute_centroid / compute_perimeter / weight_sum, and the        *)
(* padding of loaders/collate.py.                                          *)
(*                                                                         *)
(* A FloorSet instance, as abstract data on the integer lattice:           *)
(*   blocks  << [shape, area, hard, preplaced, boundary] >>                *)
(*           shape = the polygon as a sequence of disjoint rectangles      *)
(*           <<x1,y1,x2,y2>> (a single-trunk orthogon; one rectangle for   *)
(*           the (w, h, x, y) form), area = the target area, flags 0/1     *)
(*   form    "prime" (vertex lists padded with -1) | "lite" ((n, 4) array  *)
(*           of [w, h, x, y], README)                                      *)
(*   pins    << <<x, y>> >>                                                *)
(*   b2b     << <<block, block, w>> >>,  p2b << <<pin, block, w>> >>       *)
(*           0-based indices, w = <<n, 2>> (halves), 0 allowed             *)
(*   dens    <<>> (None) | <<n, d>> in (0, 1];  tam  terminals_as_modules  *)
(*   unit    length of one lattice unit <<n, d>> (1 in the model; the      *)
(*           embedding step in the trace: alpha has the unit of a length)  *)
(*                                                                         *)
(* Convert(inst) is the design the written FPEF has to describe and        *)
(* ConvertDie(inst) the DIEF, clause by clause from the sources:           *)
(*   README            block i is identified by its position; constraints  *)
(*                     [hard, fixed, ...]: "Hard: can translate and rotate *)
(*                     but not change shape; Fixed: like pre-placed";      *)
(*                     vertex_blocks in either form; the density factor    *)
(*                     alpha = d * P_k / W_k of the most congested block   *)
(*   manager.py        comment table "Pre-placed -> fixed, Fixed -> hard", *)
(*                     "Hard (and consequently fixed) cannot have area,    *)
(*                     center and must have at least one rectangle";       *)
(*                     constructor docstring "terminals pins as modules    *)
(*                     with rectangle of size 10^-3"; "# For the die of    *)
(*                     the current floorplan" (the extent of the pins);    *)
(*                     `wei if wei > 0 else 1`                             *)
(*   usage             floorset_handler.py: one FPEF + one DIEF per        *)
(*                     instance, read by Netlist / Die                     *)
(* What no source fixes (weight 0 -> 1, a block joined to itself, repeated *)
(* connections kept as separate nets) is specified as the code does it.    *)
(*                                                                         *)
(* State machine: AddBlock / AddPin / AddB2B / AddP2B build an instance,   *)
(* Configure picks density and terminal mode, Convert is the constructor   *)
(* FloorSetInstance(data, density, terminals_as_modules).  Two sub-        *)
(* universes keep the product finite: "blocks" (every shape x flag         *)
(* combination, canonical wiring) and "wiring" (canonical blocks, every    *)
(* wiring).  Lemmas (invariants) on the mapping are listed at the end.     *)
(*                                                                         *)
(* Numbers: weights are halves <<n, 2>>; alpha and scaled weights are      *)
(* rationals <<n, d>>; the largest intermediate value is a cross product   *)
(* weight * perimeter * density (< 10^6).                                  *)
(***************************************************************************)
EXTENDS Geometry, TLC, Json

CONSTANTS UNIVERSE,   \* "quick" | "thorough"
          EMIT

VARIABLES pc,      \* "build" | "configured" | "converted" | "emitted"
          mode,    \* "blocks" | "wiring"
          inst,    \* the instance under construction
          design,  \* Convert(inst)
          die      \* ConvertDie(inst)
vars == <<pc, mode, inst, design, die>>

Thorough == UNIVERSE = "thorough"
RectT(t) == RectOf(t)
Count(s, x) == Cardinality({ i \in DOMAIN s : s[i] = x })
SameBag(s, t) == Len(s) = Len(t) /\ \A i \in DOMAIN s : Count(s, s[i]) = Count(t, s[i])
Flat(ss) == FoldLeft(LAMBDA acc, x : acc \o x, <<>>, ss)

(***************************************************************************)
(* Polygons                                                                *)
(***************************************************************************)
ShapeArea(sh) == FoldLeft(LAMBDA acc, t : acc + Area(RectT(t)), 0, sh)
ShapeMx(sh) == FoldLeft(LAMBDA acc, t : acc + Area(RectT(t)) * Cx2(RectT(t)), 0, sh)
ShapeMy(sh) == FoldLeft(LAMBDA acc, t : acc + Area(RectT(t)) * Cy2(RectT(t)), 0, sh)
\* length of the boundary two disjoint rectangles share
Shared(a, b) == IF a.x2 = b.x1 \/ b.x2 = a.x1 THEN Mx(0, OvH(a, b))
                ELSE IF a.y2 = b.y1 \/ b.y2 = a.y1 THEN Mx(0, OvW(a, b)) ELSE 0
\* perimeter of the polygon: the perimeters of its rectangles minus twice every shared boundary
Perimeter(sh) == FoldLeft(LAMBDA acc, t : acc + 2 * (W(RectT(t)) + H(RectT(t))), 0, sh)
                 - 2 * FoldLeft(LAMBDA acc, p : acc + Shared(RectT(sh[p[1]]), RectT(sh[p[2]])), 0,
                                SetToSeq({ q \in (DOMAIN sh) \X (DOMAIN sh) : q[1] < q[2] }))
Extent(sh) == [x |-> Max({ sh[k][3] : k \in DOMAIN sh }), y |-> Max({ sh[k][4] : k \in DOMAIN sh })]

(***************************************************************************)
(* The expected design                                                     *)
(***************************************************************************)
Soft == <<0, 0, 0>>        \* kind = <<hard, fixed, terminal>>
Hard == <<1, 0, 0>>
Fixed == <<1, 1, 0>>
Terminal == <<1, 0, 1>>
BName(i) == "M" \o ToString(i)
PName(j) == "T" \o ToString(j)
\* README: [hard, fixed, ...]; manager.py: pre-placed (column 1) -> fixed, else FloorSet-fixed (column 0) -> hard
KindOf(b) == IF b.preplaced = 1 THEN Fixed ELSE IF b.hard = 1 THEN Hard ELSE Soft
\* a module: [name, kind, area <<n,d>> (soft only), center <<xn,yn,d>> | <<>>, shape, pin <<x,y>> | <<>>]
BlockModule(i, b) ==
  [name |-> BName(i), kind |-> KindOf(b),
   area |-> IF KindOf(b) = Soft THEN <<b.area, 1>> ELSE <<ShapeArea(b.shape), 1>>,
   center |-> <<ShapeMx(b.shape), ShapeMy(b.shape), 2 * ShapeArea(b.shape)>>,
   shape |-> b.shape, pin |-> <<>>]
\* a pin: a terminal at its position, or (terminals_as_modules) a fixed module holding a 1e-3 square at the pin
PinModule(j, p, tam) ==
  [name |-> PName(j), kind |-> IF tam THEN Fixed ELSE Terminal, area |-> <<0, 1>>, center |-> <<2 * p[1], 2 * p[2], 2>>,
   shape |-> <<>>, pin |-> p]

\* total weight of the connections of block i (weight_sum), in halves
WeightOf(ins, i) == FoldLeft(LAMBDA acc, e : acc + (IF e[1] = i \/ e[2] = i THEN e[3][1] ELSE 0), 0, ins.b2b)
                    + FoldLeft(LAMBDA acc, e : acc + (IF e[2] = i THEN e[3][1] ELSE 0), 0, ins.p2b)
Blocks(ins) == 0..(Len(ins.blocks) - 1)
PerimOf(ins, i) == Perimeter(ins.blocks[i + 1].shape)
\* README: the block with the highest congestion W_i / P_i
MostCongested(ins) == CHOOSE k \in Blocks(ins) : \A i \in Blocks(ins) : WeightOf(ins, i) * PerimOf(ins, k) <= WeightOf(ins, k) * PerimOf(ins, i)
\* alpha = d * P_k / W_k  (W_k in halves: W_k = WeightOf / 2); 1 without density; undefined (here: 1) when nothing is connected
RECURSIVE GCD(_, _)
GCD(a, b) == IF b = 0 THEN a ELSE GCD(b, a % b)
Reduced(n, d) == LET g == GCD(n, d) IN <<n \div g, d \div g>>
Alpha(ins) == IF ins.dens = <<>> \/ Len(ins.blocks) = 0 THEN <<1, 1>>
              ELSE LET k == MostCongested(ins) IN
                   IF WeightOf(ins, k) = 0 THEN <<1, 1>>
                   \* (a perimeter is a length: in a design whose lattice unit is ins.unit the factor scales with it)
                   ELSE Reduced(2 * ins.dens[1] * PerimOf(ins, k) * ins.unit[1], ins.dens[2] * WeightOf(ins, k) * ins.unit[2])
\* weight of a net: w * alpha, and 1 when that is 0 (`wei if wei > 0 else 1`)
NetWeight(ins, w) == IF w[1] = 0 THEN <<1, 1>> ELSE Reduced(w[1] * Alpha(ins)[1], w[2] * Alpha(ins)[2])
Net(p, w) == [pins |-> p, w |-> w]

Convert(ins) ==
  [mods |-> [i \in DOMAIN ins.blocks |-> BlockModule(i - 1, ins.blocks[i])]
            \o [j \in DOMAIN ins.pins |-> PinModule(j - 1, ins.pins[j], ins.tam)],
   nets |-> [k \in DOMAIN ins.b2b |-> Net(<<BName(ins.b2b[k][1]), BName(ins.b2b[k][2])>>, NetWeight(ins, ins.b2b[k][3]))]
            \o [k \in DOMAIN ins.p2b |-> Net(<<PName(ins.p2b[k][1]), BName(ins.p2b[k][2])>>, NetWeight(ins, ins.p2b[k][3]))]]
\* the die: the bounding extent of the floorplan from the origin (the pins of a FloorSet instance lie on the die
\* boundary, so this is the extent of the pins whenever there are any)
ConvertDie(ins) ==
  LET xs == { ins.pins[j][1] : j \in DOMAIN ins.pins } \cup { Extent(ins.blocks[i].shape).x : i \in DOMAIN ins.blocks }
      ys == { ins.pins[j][2] : j \in DOMAIN ins.pins } \cup { Extent(ins.blocks[i].shape).y : i \in DOMAIN ins.blocks }
  IN [w |-> Max(xs), h |-> Max(ys)]

(***************************************************************************)
(* The bounded universe                                                    *)
(***************************************************************************)
Shapes == << << <<0, 0, 2, 2>> >>,
             << <<0, 0, 2, 2>>, <<2, 0, 3, 1>> >>,
             << <<0, 1, 3, 2>>, <<1, 2, 2, 3>>, <<1, 0, 2, 1>> >> >>
Shift(sh, dx) == [k \in DOMAIN sh |-> <<sh[k][1] + dx, sh[k][2], sh[k][3] + dx, sh[k][4]>>]
Block(slot, s, hd, pp, bd) == [shape |-> Shift(Shapes[s], 4 * (slot - 1)), area |-> ShapeArea(Shapes[s]) + (IF hd + pp = 0 THEN slot - 1 ELSE 0),
                               hard |-> hd, preplaced |-> pp, boundary |-> bd]
MaxBlocks == IF Thorough THEN 3 ELSE 2
W1 == <<2, 2>>
W52 == <<5, 2>>
W0 == <<0, 2>>
Weights == {W1, W52, W0}
\* pins on the boundary of a 12 x 6 die: a corner, a border point, the far corner; or none at all
PinSeqs == { <<>>, << <<12, 6>> >>, << <<0, 6>>, <<12, 2>> >>, << <<12, 6>>, <<5, 0>> >>, << <<0, 0>>, <<12, 6>> >> }
Densities == { <<>>, <<1, 2>>, <<1, 1>> }
Empty == [blocks |-> <<>>, form |-> "prime", pins |-> <<>>, b2b |-> <<>>, p2b |-> <<>>, dens |-> <<>>, tam |-> FALSE, unit |-> <<1, 1>>]
Canonical == [Empty EXCEPT !.blocks = <<Block(1, 1, 0, 0, 0), Block(2, 2, 1, 0, 1), Block(3, 3, 0, 1, 0)>>, !.pins = << <<0, 6>>, <<12, 2>> >>]

Init == /\ pc = "build" /\ mode \in {"blocks", "wiring"} /\ design = <<>> /\ die = <<>>
        /\ inst = IF mode = "blocks" THEN Empty ELSE Canonical

\* mode "blocks": every shape and every combination of the hard / pre-placed / boundary flags, slot by slot
\* (the third block a square, soft or pre-placed; the boundary flag only on the first: keeps the product small)
FlagChoices(slot) == { <<hd, pp, bd>> : hd \in (IF slot = 3 THEN {0} ELSE {0, 1}), pp \in {0, 1},
                                       bd \in (IF Thorough /\ slot = 1 THEN {0, 1} ELSE {0}) }
AddBlock == /\ pc = "build" /\ mode = "blocks" /\ Len(inst.blocks) < MaxBlocks /\ inst.pins = <<>> /\ inst.form = "prime"
            /\ \E s \in (IF Len(inst.blocks) = 2 THEN {1} ELSE DOMAIN Shapes), f \in FlagChoices(Len(inst.blocks) + 1) :
                  inst' = [inst EXCEPT !.blocks = Append(@, Block(Len(inst.blocks) + 1, s, f[1], f[2], f[3]))]
            /\ UNCHANGED <<pc, mode, design, die>>
\* the (w, h, x, y) form exists for rectangles only
MakeLite == /\ pc = "build" /\ mode = "blocks" /\ inst.form = "prime" /\ Len(inst.blocks) >= 1 /\ inst.pins = <<>>
            /\ \A i \in DOMAIN inst.blocks : Len(inst.blocks[i].shape) = 1
            /\ inst' = [inst EXCEPT !.form = "lite"]
            /\ UNCHANGED <<pc, mode, design, die>>
\* mode "blocks": a pin sequence and the canonical wiring (first and last block, weight 5/2; every pin to block 0)
AddPins == /\ pc = "build" /\ mode = "blocks" /\ Len(inst.blocks) >= 1 /\ inst.pins = <<>> /\ inst.b2b = <<>>
           /\ \E ps \in PinSeqs :
                 inst' = [inst EXCEPT !.pins = ps,
                                      !.b2b = IF Len(inst.blocks) >= 2 THEN << <<0, Len(inst.blocks) - 1, W52>> >> ELSE <<>>,
                                      !.p2b = [j \in DOMAIN ps |-> <<j - 1, 0, W1>>]]
           /\ pc' = "wired" /\ UNCHANGED <<mode, design, die>>
\* mode "wiring": up to MaxConns connections of either kind, in any order: self connections, repetitions, weight 0
MaxConns == IF Thorough THEN 3 ELSE 2
AddB2B == /\ pc = "build" /\ mode = "wiring" /\ Len(inst.b2b) + Len(inst.p2b) < MaxConns /\ inst.p2b = <<>>
          /\ \E a \in Blocks(inst), b \in Blocks(inst), w \in {W52, W0} :
                (a < b \/ (a = 0 /\ b = 0)) /\ inst' = [inst EXCEPT !.b2b = Append(@, <<a, b, w>>)]
          /\ UNCHANGED <<pc, mode, design, die>>
AddP2B == /\ pc = "build" /\ mode = "wiring" /\ Len(inst.b2b) + Len(inst.p2b) < MaxConns
          /\ \E p \in 0..(Len(inst.pins) - 1), b \in Blocks(inst), w \in {W1, W0} :
                inst' = [inst EXCEPT !.p2b = Append(@, <<p, b, w>>)]
          /\ UNCHANGED <<pc, mode, design, die>>
EndWiring == /\ pc = "build" /\ mode = "wiring"
             /\ pc' = "wired" /\ UNCHANGED <<mode, inst, design, die>>
\* density and terminal mode
Configs == IF mode = "wiring" THEN { <<<<>>, FALSE>>, <<<<1, 2>>, FALSE>>, <<<<1, 1>>, FALSE>>, <<<<1, 2>>, TRUE>> }
           ELSE { <<<<>>, FALSE>>, <<<<1, 2>>, FALSE>>, <<<<>>, TRUE>>, <<<<1, 1>>, TRUE>> }
Configure == /\ pc = "wired"
             /\ \E c \in Configs : inst' = [inst EXCEPT !.dens = c[1], !.tam = c[2]]
             /\ pc' = "configured" /\ UNCHANGED <<mode, design, die>>
\* FloorSetInstance(data, density, terminals_as_modules)
ConvertStep == /\ ~EMIT /\ pc = "configured"
               /\ design' = Convert(inst) /\ die' = ConvertDie(inst)
               /\ pc' = "converted" /\ UNCHANGED <<mode, inst>>
Emit == /\ EMIT /\ pc = "configured"
        /\ PrintT(ToJson([inst |-> [inst EXCEPT !.tam = IF inst.tam THEN 1 ELSE 0], mode |-> mode]))
        /\ pc' = "emitted" /\ UNCHANGED <<mode, inst, design, die>>

Next == AddBlock \/ MakeLite \/ AddPins \/ AddB2B \/ AddP2B \/ EndWiring \/ Configure \/ ConvertStep \/ Emit
Spec == Init /\ [][Next]_vars

(***************************************************************************)
(* LEMMAS on the mapping                                                   *)
(***************************************************************************)
TypeOK == pc \in {"build", "wired", "configured", "converted", "emitted"} /\ mode \in {"blocks", "wiring"}
Conv == pc = "converted"
Names(d) == [i \in DOMAIN d.mods |-> d.mods[i].name]
\* every block is exactly one module and every pin exactly one, under distinct names, blocks first, in order
LemmaModules == Conv => /\ Len(design.mods) = Len(inst.blocks) + Len(inst.pins)
                        /\ \A i \in DOMAIN design.mods : \A j \in DOMAIN design.mods : i # j => design.mods[i].name # design.mods[j].name
                        /\ \A i \in DOMAIN inst.blocks : design.mods[i].name = BName(i - 1) /\ design.mods[i].shape = inst.blocks[i].shape
\* areas: a soft module has the target area, a hard / fixed one the area of its polygon; the kind follows the table
LemmaAreas == Conv => \A i \in DOMAIN inst.blocks : LET m == design.mods[i]  b == inst.blocks[i] IN
                        /\ (m.kind = Soft <=> b.hard = 0 /\ b.preplaced = 0) /\ (m.kind = Fixed <=> b.preplaced = 1)
                        /\ m.area = IF m.kind = Soft THEN <<b.area, 1>> ELSE <<ShapeArea(b.shape), 1>>
\* nets: one per connection, in order (b2b first), naming existing modules only
LemmaNets == Conv => /\ Len(design.nets) = Len(inst.b2b) + Len(inst.p2b)
                     /\ \A k \in DOMAIN design.nets : \A q \in DOMAIN design.nets[k].pins :
                           \E i \in DOMAIN design.mods : design.mods[i].name = design.nets[k].pins[q]
                     /\ \A k \in DOMAIN design.nets : design.nets[k].w[1] > 0 /\ design.nets[k].w[2] > 0
\* density: after scaling, the most congested block has congestion exactly d and no block has more
\* (connections of weight 0 become weight 1 AFTER scaling and are left out of this statement)
Scaled(w) == <<w[1] * Alpha(inst)[1], w[2] * Alpha(inst)[2]>>
LemmaDensity == (Conv /\ inst.dens # <<>> /\ WeightOf(inst, MostCongested(inst)) > 0) =>
   LET a == Alpha(inst) IN
   \A i \in Blocks(inst) :
      \* W_i * alpha / P_i <= d, with equality for the most congested block   (W_i in halves)
      /\ WeightOf(inst, i) * a[1] * inst.dens[2] <= 2 * a[2] * PerimOf(inst, i) * inst.dens[1]
      /\ (i = MostCongested(inst) => WeightOf(inst, i) * a[1] * inst.dens[2] = 2 * a[2] * PerimOf(inst, i) * inst.dens[1])
\* the die contains every block and every pin
LemmaDie == Conv => /\ \A j \in DOMAIN inst.pins : inst.pins[j][1] <= die.w /\ inst.pins[j][2] <= die.h
                    /\ \A i \in DOMAIN inst.blocks : Extent(inst.blocks[i].shape).x <= die.w /\ Extent(inst.blocks[i].shape).y <= die.h
\* the same design whichever order the blocks are listed in: listing them in reverse order (indices of the
\* connections renumbered accordingly) gives the same modules and nets up to the renaming M_i -> M_(n-1-i)
Rev(ins) == LET n == Len(ins.blocks) IN
            [ins EXCEPT !.blocks = [i \in 1..n |-> ins.blocks[n + 1 - i]],
                        !.b2b = [k \in DOMAIN ins.b2b |-> <<n - 1 - ins.b2b[k][1], n - 1 - ins.b2b[k][2], ins.b2b[k][3]>>],
                        !.p2b = [k \in DOMAIN ins.p2b |-> <<ins.p2b[k][1], n - 1 - ins.p2b[k][2], ins.p2b[k][3]>>]]
Rename(nm, n) == IF \E i \in 0..(n - 1) : nm = BName(i) THEN BName(n - 1 - (CHOOSE i \in 0..(n - 1) : nm = BName(i))) ELSE nm
LemmaOrderFree == Conv => LET n == Len(inst.blocks)  r == Convert(Rev(inst)) IN
   /\ \A i \in 1..n : r.mods[n + 1 - i] = [design.mods[i] EXCEPT !.name = Rename(design.mods[i].name, n)]
   /\ \A k \in DOMAIN design.nets : r.nets[k] = [design.nets[k] EXCEPT !.pins = [q \in DOMAIN design.nets[k].pins |-> Rename(design.nets[k].pins[q], n)]]
   /\ ConvertDie(Rev(inst)) = die

(***************************************************************************)
(* JUDGING OBSERVATIONS (used by FloorSetTrace).  Observed numbers are     *)
(* integers in 1/K lattice units (K = 1000; weights in 1/K).               *)
(*   observed netlist  [mods << [name, kind <<hard,fixed,terminal,flip>>,  *)
(*                       area, center <<>>|<<x,y>>, rects <<x1,y1,x2,y2,r>>] >>, *)
(*                      nets << [pins, w] >>]   (as in Docs.tla)           *)
(*   observed die      [w, h, regs]                                        *)
(*   eps               1e-3 in 1/K lattice units under the embedding used  *)
(***************************************************************************)
K == 1000
Near(a, b, tol) == Abs(a - b) <= tol
NearQ(o, n, d) == Abs(o * d - n * K) <= d
ObsRects(m) == { Rect(m.rects[k][1], m.rects[k][2], m.rects[k][3], m.rects[k][4]) : k \in DOMAIN m.rects }
ScaleShape(sh) == { Rect(sh[k][1] * K, sh[k][2] * K, sh[k][3] * K, sh[k][4] * K) : k \in DOMAIN sh }
ByName(o, nm) == { j \in DOMAIN o.mods : o.mods[j].name = nm }
\* block module e against observed module m
BlockMatches(e, m) ==
  /\ SubSeq(m.kind, 1, 3) = e.kind
  /\ NearQ(m.area, e.area[1], e.area[2])
  /\ Len(m.rects) >= 1 /\ PairwiseDisjoint(ObsRects(m)) /\ Cardinality(ObsRects(m)) = Len(m.rects)
  /\ SameRegion(ObsRects(m), ScaleShape(e.shape))
\* pin module: a terminal at the pin, or (terminals_as_modules) a fixed module with one eps x eps square whose centre is
\* within eps of the pin and which lies inside the die
PinMatches(e, m, tam, eps, dw, dh) ==
  IF ~tam THEN /\ SubSeq(m.kind, 1, 3) = Terminal /\ m.rects = <<>> /\ Len(m.center) = 2
               /\ Near(m.center[1], e.pin[1] * K, 1) /\ Near(m.center[2], e.pin[2] * K, 1)
  ELSE /\ SubSeq(m.kind, 1, 3) = Fixed /\ Len(m.rects) = 1
       /\ LET r == m.rects[1] IN
            /\ Near(r[3] - r[1], eps, 1) /\ Near(r[4] - r[2], eps, 1)
            /\ Abs(r[1] + r[3] - 2 * e.pin[1] * K) <= 2 * eps + 2 /\ Abs(r[2] + r[4] - 2 * e.pin[2] * K) <= 2 * eps + 2
            /\ r[1] >= -1 /\ r[2] >= -1 /\ r[3] <= dw * K + 1 /\ r[4] <= dh * K + 1
ObsNetKey(x) == <<[nm \in Range(x.pins) |-> Count(x.pins, nm)], x.w>>
\* expected weights rounded to 1/K (floor and ceiling both accepted: compared within one unit below)
NetNear(e, x) == /\ [nm \in Range(x.pins) |-> Count(x.pins, nm)] = [nm \in Range(e.pins) |-> Count(e.pins, nm)]
                 /\ NearQ(x.w, e.w[1], e.w[2])
\* the members alone: the same bag of pin bags
PinBag(x) == [nm \in Range(x.pins) |-> Count(x.pins, nm)]
NetMembersMatch(d, o) == SameBag([k \in DOMAIN d.nets |-> PinBag(d.nets[k])], [k \in DOMAIN o.nets |-> PinBag(o.nets[k])])
\* the observed nets are the expected ones, one for one, in the expected order (the order of the connection lists)
NetsMatch(d, o) == Len(o.nets) = Len(d.nets) /\ \A k \in DOMAIN d.nets : NetNear(d.nets[k], o.nets[k])
\* ... or at least as a bag (when only the order differs, it is model drift)
NetsMatchAsBag(d, o) == /\ Len(o.nets) = Len(d.nets)
                        /\ \A k \in DOMAIN d.nets : Cardinality({ j \in DOMAIN o.nets : NetNear(d.nets[k], o.nets[j]) })
                                                  >= Cardinality({ j \in DOMAIN d.nets : d.nets[j] = d.nets[k] })
=============================================================================
