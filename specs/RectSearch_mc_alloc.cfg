\* exhaustive: the front end + improvement loop ("alloc" mode): every 0/1 allocation of module 1 on the grids of AGRIDS,
\* k = 1..3, loop started at bound 1; every result of every call is explored
SPECIFICATION Spec
CONSTANTS
  GRIDS <- TinyGrids
  SGRIDS <- TinyGrids
  AGRIDS <- ThoroughAllocGrids
  KMAX = 3
  DEN = 2
  OCCVALS = {0, 1, 2}
  FNUM = 100
  FDEN = 1
  RATIO = 2
  MODES = {"alloc"}
  BORDER = "grid"
  UNIT = 1
  EMIT = FALSE
INVARIANT TypeOK
INVARIANT InputIsGrid
INVARIANT FrontEndOK
INVARIANT EndToEndExact
INVARIANT SolveMeetsProperty
INVARIANT LoopOptimal
INVARIANT LoopNoShapes
INVARIANT TableIsObj
PROPERTY BoundGrows
PROPERTY StrictlyGrows
CHECK_DEADLOCK FALSE
