\* coordinate map on 6 windows x 3 image sizes x (0..6)^2 + half points; deep colour universe
SPECIFICATION CSpec
CONSTANTS
  CN = 6
  CWINDOWS <- CThoroughWindows
  SIZES <- ThoroughSizes
  DEEP = TRUE
  CEMIT = FALSE
INVARIANT LawInterp
INVARIANT LawRgb
INVARIANT LawMix
INVARIANT LawHex
INVARIANT LawRoundTrip
CHECK_DEADLOCK FALSE
