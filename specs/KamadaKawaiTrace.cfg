SPECIFICATION TraceSpec
CONSTANTS
  NMAX = 8
  MAXNETS = 8
  NM = 8
  DW = 10
  DH = 10
  PTC = {0}
  KINDS = {"soft"}
  EMIT = FALSE
CHECK_DEADLOCK FALSE
