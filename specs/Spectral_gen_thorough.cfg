\* behaviour generation (spec -> code): the netlists of the generation universe, one JSON line each
SPECIFICATION Spec
CONSTANTS
  HalfSet <- GenHalfT
  Profiles <- GenProf
  AreaProfiles <- GenArea
  Graphs <- GenGraphs
  FixSet <- GenFix
  TrialSet = {1, 2, 5}
  MaxIter = 1
  GS = 2
  G = 1
  Rounds = 1
  TOL = 0
  EMIT = TRUE
CHECK_DEADLOCK FALSE
