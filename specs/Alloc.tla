------------------------------- MODULE Alloc -------------------------------
(***************************************************************************)
(* C02 -- Refining an allocation conserves tiling, module area, centroid   *)
(* C12 -- Refinement decisions are consistent, exact and terminate         *)
(*                                                                         *)
(* State machine over an allocation (set of cells, see AllocOps):          *)
(*   CutLayout   build a guillotine layout of a UxU square (<= MAXC cells) *)
(*   Decorate    give every cell an occupancy map, a depth, maybe `fixed`  *)
(*   DoRefine(t, levels) / DoUniform / DoGriddify                          *)
(*               one action per public refinement call, any composition    *)
(*   LoopStep    body of the refine-while-needed loop                      *)
(* Every operation is enabled on every valid allocation (no precondition   *)
(* beyond the depth bound that keeps halving exact on the integer lattice).*)
(* Properties are ACTION properties: each step conserves (C02) and is      *)
(* exact (C12).                                                            *)
(***************************************************************************)
EXTENDS AllocOps, TLC, Json

CONSTANTS U,        \* the layout is a square of U lattice steps
          KU,       \* micro-units per lattice step (power of two: bounds the halving depth)
          MAXC,     \* maximal number of cells of the initial layout
          RV,       \* occupancy maps used by Decorate: set of ratio tuples (numerators over DEN, -1 = absent)
          OWNER,    \* the occupancy map of a fixed cell (its module fully owns it)
          DEN,
          DEPTHS,   \* recorded depths used by Decorate
          THR,      \* thresholds <<tn, td>>
          LEVELS,   \* level counts
          MAXOPS,   \* length of the operation sequences explored
          EMIT

VARIABLES pc,     \* "layout" | "ops" | "emitted"
          cells,  \* the allocation
          init,   \* the decorated initial allocation (history variable, for behaviour generation)
          hist    \* operations applied so far (history variable)
vars == <<pc, cells, init, hist>>

Side == U * KU
Rat0 == CHOOSE rv \in RV : TRUE

Init == /\ pc = "layout" /\ cells = { Cell(Rect(0, 0, Side, Side), 0, 0, Rat0) }
        /\ init = {} /\ hist = <<>>

\* one guillotine cut of one cell at a lattice line
CutLayout == /\ pc = "layout" /\ Cardinality(cells) < MAXC
             /\ \E c \in cells : \E k \in 1..(U - 1) :
                  \/ /\ StrictlyInX(CRect(c), k * KU)
                     /\ cells' = (cells \ {c}) \cup Pieces(c, {CutX(CRect(c), k * KU)[1], CutX(CRect(c), k * KU)[2]}, 0)
                  \/ /\ StrictlyInY(CRect(c), k * KU)
                     /\ cells' = (cells \ {c}) \cup Pieces(c, {CutY(CRect(c), k * KU)[1], CutY(CRect(c), k * KU)[2]}, 0)
             /\ UNCHANGED <<pc, init, hist>>

\* occupancy maps, depths and at most one fixed cell (which its module owns completely)
Decorate == /\ pc = "layout"
            /\ \E f \in [cells -> RV \X DEPTHS \X {0, 1}] :
                 /\ Cardinality({ c \in cells : f[c][3] = 1 }) <= 1
                 /\ \A c \in cells : f[c][3] = 1 => f[c][1] = OWNER
                 /\ cells' = { Cell(CRect(c), f[c][2], f[c][3], f[c][1]) : c \in cells }
            /\ init' = cells' /\ pc' = "ops" /\ hist' = <<>>

DoRefine == /\ pc = "ops" /\ Len(hist) < MAXOPS
            /\ \E t \in THR : \E lv \in LEVELS :
                 /\ RefineEnabled(cells, t[1], t[2], DEN, lv)
                 /\ cells' = RefineResult(cells, t[1], t[2], DEN, lv)
                 /\ hist' = Append(hist, <<"refine", t[1], t[2], lv>>)
            /\ UNCHANGED <<pc, init>>

DoUniform == /\ pc = "ops" /\ Len(hist) < MAXOPS
             /\ UniformEnabled(cells)
             /\ cells' = UniformResult(cells)
             /\ hist' = Append(hist, <<"uniform", 0, 1, 0>>)
             /\ UNCHANGED <<pc, init>>

DoGriddify == /\ pc = "ops" /\ Len(hist) < MAXOPS
              /\ cells' = GriddifyResult(cells)
              /\ hist' = Append(hist, <<"griddify", 0, 1, 0>>)
              /\ UNCHANGED <<pc, init>>

\* one line per explored behaviour: the initial allocation and the operation sequence
Emit == /\ EMIT /\ pc = "ops" /\ Len(hist) = MAXOPS /\ pc' = "emitted"
        /\ PrintT(ToJson([cells |-> SetToSeq(init), ops |-> hist, den |-> DEN]))
        /\ UNCHANGED <<cells, init, hist>>

Next == CutLayout \/ Decorate \/ DoRefine \/ DoUniform \/ DoGriddify \/ Emit
Spec == Init /\ [][Next]_vars

(***************************************************************************)
(* Properties                                                              *)
(***************************************************************************)
IsOp == pc = "ops" /\ pc' = "ops" /\ hist' # hist
LastOp == hist'[Len(hist')]
\* C02: every refinement step conserves tiling, areas, centroids, inheritance; fixed cells are never cut
StepConserves == [][IsOp => Conserves(cells, cells')]_vars
\* C12: every step is exact
StepExact == [][IsOp =>
                 CASE LastOp[1] = "refine" -> RefineExact(cells, cells', LastOp[2], LastOp[3], DEN, LastOp[4])
                   [] LastOp[1] = "uniform" -> UniformExact(cells, cells')
                   [] LastOp[1] = "griddify" -> Aligned(cells, cells')]_vars
\* C12: the predicate agrees with the operation (so refine-while-needed never spins without changing the allocation)
PredicateAgrees == pc = "ops" => \A t \in THR :
                      RefineEnabled(cells, t[1], t[2], DEN, 1) =>
                         (MustBeRefined(cells, t[1], t[2], DEN) <=> RefineResult(cells, t[1], t[2], DEN, 1) # cells)
AlwaysValid == pc = "ops" => ValidAlloc(cells)
\* griddify is idempotent on its own result (the end state is a fixed point)
GriddifyStable == pc = "ops" => GriddifyResult(GriddifyResult(cells)) = GriddifyResult(cells)
=============================================================================
