--------------------------- MODULE LegalPostTrace ---------------------------
(***************************************************************************)
(* LEGALPOST, code -> spec: batch validation of what the real              *)
(* turn_off_rects / fuse_rects did.                                        *)
(*                                                                         *)
(* One trace = one netlist + die for which the harness built the real      *)
(* `Model`; each event is one legal configuration assigned to the model's  *)
(* variables, then `model.gekko.turn_off_rects(OFFN/OFFD)` and             *)
(* `model.gekko.fuse_rects(FUSN/FUSD)` as ModelWrapper.solve calls them,   *)
(* observed as `after` (the rectangles, pulled back to the lattice) and    *)
(* `en` (per module, the indices of the rectangles still enabled).         *)
(* Every step evaluates the contract `PostClauses` on the observed values  *)
(* (property clauses: hardKept, trunkKept, covered, areaWithin,            *)
(* stillAttached, noOverlap) and compares them with the transcribed loops  *)
(* `Post` (model conformance; not when a decision sits exactly on a        *)
(* threshold).  Events that do not start from a legal configuration are    *)
(* listed in `outq` and not judged.  Total verdicts.                       *)
(***************************************************************************)
EXTENDS LegalPost, IOUtils

Batch == JsonDeserialize(IOEnv.TRACE_FILE)

VARIABLES tid, l, fails, drift, outq
tvars == <<pvars, tid, l, fails, drift, outq>>

T == Batch[tid]
SetOf(s) == { s[k] : k \in DOMAIN s }

TraceInit == /\ tid \in 1..Len(Batch) /\ l = 1 /\ fails = {} /\ drift = {} /\ outq = {}
             /\ pc = "trace" /\ net = Batch[tid].net /\ cfg = Orig(Batch[tid].net) /\ broken = "none"
             /\ after = <<>> /\ en = <<>> /\ ppc = "trace"

Step == /\ l <= Len(T.events)
        /\ LET e == T.events[l]
               ens == [m \in Mods(net) |-> SetOf(e.en[m])]
               ok == /\ NetOK(net) /\ CfgOK(net, e.cfg) /\ Legal(T.w, net, e.cfg)
                     /\ Len(e.after) = Len(net) /\ Len(e.en) = Len(net)
                     /\ \A m \in Mods(net) : Len(e.after[m]) = Len(net[m].rects) /\ ens[m] \subseteq 1..Len(net[m].rects)
               p == Post(net, e.cfg)
               F == IF ok THEN PostFalse(T.w, net, e.cfg, e.after, ens) ELSE {}
               tie == \E m \in Mods(net) : p[m].tie
               same == \A m \in Mods(net) : ens[m] = p[m].e /\ \A i \in ens[m] : e.after[m][i] = p[m].rs[i]
           IN /\ cfg' = e.cfg /\ after' = e.after /\ en' = ens
              /\ fails' = fails \cup { <<l, cl>> : cl \in F }
              /\ drift' = IF ok /\ ~tie /\ ~same THEN drift \cup {<<l, "post">>} ELSE drift
              /\ outq' = IF ok THEN outq ELSE outq \cup {l}
        /\ l' = l + 1 /\ UNCHANGED <<pc, net, broken, ppc, tid>>

Done == /\ l = Len(T.events) + 1
        /\ l' = l + 1
        /\ PrintT(ToJson([tag |-> "VERDICT", id |-> T.id, fails |-> fails, drift |-> drift, outq |-> outq]))
        /\ UNCHANGED <<pvars, tid, fails, drift, outq>>

TraceNext == Step \/ Done
TraceSpec == TraceInit /\ [][TraceNext]_tvars
=============================================================================
