------------------------------- MODULE NetApi -------------------------------
(***************************************************************************)
(* NETAPI -- the loaded netlist as a MUTABLE OBJECT.                       *)
(*                                                                         *)
(* frame.netlist.Netlist / Module are not only the result of reading a     *)
(* document (Fpef.tla, C04/C05): the tools keep the object and mutate it   *)
(* (spectral/force/glbfloor set centres and recentre rectangles,           *)
(* allocation calls create_squares, rect/legalfloor assign rectangles) and *)
(* read derived views of it, some of which are cached inside the object.   *)
(* This module specifies that stateful API.                                *)
(*                                                                         *)
(* ABSTRACT STATE  st = [mods, nets]; per module                            *)
(*   [name, kind = <<hard, fixed, terminal, flip>>, areas = <<<<region,a>>>>,*)
(*    center = <<>> | <<xn,xd,yn,yd>>,                                     *)
(*    rects = << <<x1,y1,x2,y2, region, fixed, hard, loc>> >>]             *)
(*   (corner coordinates on the integer lattice, loc in T N S E W no: the  *)
(*   role in the single-trunk orthogon).  nets never change.               *)
(*                                                                         *)
(* ACTIONS (one per public call; Apply = what the call does to st and what *)
(* it returns, Enabled = the precondition its documentation states)        *)
(*   create_squares   assign_rectangles(m2r)   create_stogs                *)
(*   set_center(i,p)  set_fixed(i,v)                                       *)
(*   add_rectangle(i,r)  clear_rectangles(i)  create_square(i)             *)
(*   recenter_rectangles(i)  calc_center(i)                                *)
(*   write_yaml  (no effect; the text read back must give the same state)  *)
(*   read_views  (no effect: reading a view never changes the state)       *)
(*                                                                         *)
(* DERIVED VIEWS, all functions of the CURRENT st (View* below):           *)
(*   netlist.rectangles / num_rectangles / fixed_rectangles() /            *)
(*   wire_length / all_soft_modules_have_stogs(),                          *)
(*   module.area_rectangles / area() / has_stog.                           *)
(*                                                                         *)
(* CACHES.  The object memoises rectangles (Netlist._rectangles) and       *)
(* area_rectangles (Module._area_rectangles).  `cache` is that hidden      *)
(* state; every mutator says which entries it invalidates.  With ASIS =    *)
(* FALSE the discipline is the coherent one (every change of a module's    *)
(* rectangle list drops both entries) and TLC proves InvCacheCoherent;     *)
(* with ASIS = TRUE it is the discipline of the code as it stands          *)
(* (clear_rectangles keeps the module entry, the Module-level mutators     *)
(* cannot reach the netlist entry) and TLC produces the shortest           *)
(* counterexample -- the design-level statement of the staleness that the  *)
(* conformance run then observes on the real objects.                      *)
(*                                                                         *)
(* The value-level operators of Fpef.tla (Read, Write, Centroid, the trunk *)
(* choice of create_stog, the wire-length bracket) are reused through F!.  *)
(***************************************************************************)
EXTENDS Geometry, TLC, Json

CONSTANTS MAXLEN,   \* longest action sequence after Load
          EMIT,     \* TRUE: behaviour generation (print every maximal action sequence)
          ASIS      \* FALSE: coherent cache discipline;  TRUE: the discipline of the code as it stands

VARIABLES d,        \* which initial document (index into Docs)
          st,       \* abstract state
          prev,     \* abstract state before the last action
          last,     \* the last action [op, arg, ret]
          hist,     \* the actions taken so far
          cache     \* hidden memo state [net |-> -1 | cached concatenation, ar |-> per module -1 | cached area]
vars == <<d, st, prev, last, hist, cache>>

EmptyDoc == [mods |-> <<>>, nets |-> <<>>, extra |-> <<>>]
EmptyNl == [mods |-> <<>>, nets |-> <<>>]
F == INSTANCE Fpef WITH UNIVERSE <- "quick", EMIT <- FALSE, DEFECTS <- FALSE,
                        phase <- "", lvl <- "", doc <- EmptyDoc, n <- EmptyNl, y <- EmptyDoc,
                        n2 <- EmptyNl, y2 <- EmptyDoc,
                        inj <- [cls |-> "", variant |-> "", at |-> "", i |-> 0, val |-> <<>>]

(***************************************************************************)
(* Rectangles with their flags                                             *)
(***************************************************************************)
Mk8(r, fx, hd, loc) == <<r[1], r[2], r[3], r[4], r[5], fx, hd, loc>>
R5(r) == <<r[1], r[2], r[3], r[4], r[5]>>
SetLoc(r, loc) == <<r[1], r[2], r[3], r[4], r[5], r[6], r[7], loc>>
SetFx(r, fx) == <<r[1], r[2], r[3], r[4], r[5], fx, r[7], r[8]>>
Move(r, dx, dy) == <<r[1] + dx, r[2] + dy, r[3] + dx, r[4] + dy, r[5], r[6], r[7], r[8]>>
Core(r) == <<r[1], r[2], r[3], r[4], r[5], r[6], r[7]>>      \* everything but the STOG role

\* create_stog on a module's list: the trunk chosen by F!BestTrunk moves to the front, every rectangle gets its role
Relabel(rs) ==
  IF rs = <<>> THEN rs
  ELSE IF Len(rs) = 1 THEN <<SetLoc(rs[1], "T")>>
  ELSE LET bt == F!BestTrunk(rs, 1, 0) IN
       IF bt = 0 THEN [j \in DOMAIN rs |-> SetLoc(rs[j], "no")]
       ELSE LET o == F!Swap(rs, 1, bt) IN
            [j \in DOMAIN o |-> SetLoc(o[j], IF j = 1 THEN "T" ELSE F!Loc(o[1], o[j]))]

TotalArea(m) == F!SeqSum([j \in DOMAIN m.areas |-> m.areas[j][2]])
MHard(m) == m.kind[1] = 1
MFixed(m) == m.kind[2] = 1
MTerminal(m) == m.kind[3] = 1

\* the square create_square builds: side sqrt(area) around the centre, ground region, no flags, no role.
\* It is on the lattice only if the area is a perfect square and centre -+ side/2 is integral.
Side(m) == F!ISqrt(TotalArea(m))
SquareOK(m) ==
  /\ m.center # <<>> /\ TotalArea(m) > 0 /\ Side(m) * Side(m) = TotalArea(m)
  /\ (2 * m.center[1] - Side(m) * m.center[2]) % (2 * m.center[2]) = 0
  /\ (2 * m.center[3] - Side(m) * m.center[4]) % (2 * m.center[4]) = 0
SquareOf(m) ==
  LET s == Side(m)
      x1 == (2 * m.center[1] - s * m.center[2]) \div (2 * m.center[2])
      y1 == (2 * m.center[3] - s * m.center[4]) \div (2 * m.center[4])
  IN <<x1, y1, x1 + s, y1 + s, F!Ground, 0, 0, "no">>

\* recenter_rectangles: translate so that the centroid lands on the centre (on the lattice only for integral shifts)
ShiftNum(m) == LET c == F!Centroid(m.rects) IN
  <<m.center[1] * c[2] - c[1] * m.center[2], m.center[2] * c[2], m.center[3] * c[4] - c[3] * m.center[4], m.center[4] * c[4]>>
RecenterOK(m) == /\ MHard(m) /\ ~MFixed(m) /\ m.center # <<>> /\ m.rects # <<>>
                 /\ ShiftNum(m)[1] % ShiftNum(m)[2] = 0 /\ ShiftNum(m)[3] % ShiftNum(m)[4] = 0

(***************************************************************************)
(* Loading: the state of Netlist(doc)                                      *)
(***************************************************************************)
Lift(nl) == [mods |-> [i \in DOMAIN nl.mods |->
                 LET m == nl.mods[i] IN
                 [name |-> m.name, kind |-> m.kind, areas |-> m.areas, center |-> m.center,
                  rects |-> Relabel([j \in DOMAIN m.rects |-> Mk8(m.rects[j], m.kind[2], m.kind[1], "no")])]],
             nets |-> nl.nets]
Strip(s) == [mods |-> [i \in DOMAIN s.mods |->
                 LET m == s.mods[i] IN
                 [name |-> m.name, kind |-> m.kind, areas |-> m.areas, center |-> m.center, aspect |-> <<>>,
                  rects |-> [j \in DOMAIN m.rects |-> R5(m.rects[j])]]],
             nets |-> s.nets]
LoadState(doc) == Lift(F!Read(doc).n)

(***************************************************************************)
(* Views: functions of the current state                                   *)
(***************************************************************************)
ViewRectangles(s) == F!Concat([i \in DOMAIN s.mods |-> s.mods[i].rects])
ViewNumRectangles(s) == Len(ViewRectangles(s))
ViewFixedRectangles(s) == SelectSeq(ViewRectangles(s), LAMBDA r : r[6] = 1)
ViewAreaRectangles(m) == F!RectsArea(m.rects)
ViewArea(m) == TotalArea(m)
ViewHasStog(m) == m.rects # <<>> /\ m.rects[1][8] = "T"
ViewAllSoftHaveStogs(s) == \A i \in DOMAIN s.mods : MHard(s.mods[i]) \/ ViewHasStog(s.mods[i])
ViewWLDefined(s) == \A k \in DOMAIN s.nets : F!NetDefined(s.mods, s.nets[k])
ViewWL(s) == F!TotalWL(s.mods, s.nets)          \* bracket <<lo, hi>> in units of 1/(RES*WD)

(***************************************************************************)
(* Actions on values.  arg = [i, c, r, v, m2r] (unused fields 0 / <<>>).   *)
(***************************************************************************)
Arg(i, c, r, v, m2r) == [i |-> i, c |-> c, r |-> r, v |-> v, m2r |-> m2r]
NoArg == Arg(0, <<>>, <<>>, 0, <<>>)
Res(ok, s, ret) == [ok |-> ok, st |-> s, ret |-> ret]
SetMod(s, i, m) == [s EXCEPT !.mods[i] = m]
IndexOf(s, nm) == CHOOSE i \in DOMAIN s.mods : s.mods[i].name = nm
Known(s, nm) == \E i \in DOMAIN s.mods : s.mods[i].name = nm
Assigned(s, m2r, i) == \E q \in DOMAIN m2r : m2r[q][1] = s.mods[i].name
AssignedList(s, m2r, i) == m2r[CHOOSE q \in DOMAIN m2r : m2r[q][1] = s.mods[i].name][2]

Apply(s, op, a) ==
  CASE op = "create_squares" ->
         \* a square for each module without rectangles; returns those modules (in module order)
         LET idx == {i \in DOMAIN s.mods : s.mods[i].rects = <<>>} IN
         IF \A i \in idx : SquareOK(s.mods[i])
         THEN Res(TRUE, [s EXCEPT !.mods = [i \in DOMAIN s.mods |->
                            IF i \in idx THEN [s.mods[i] EXCEPT !.rects = <<SquareOf(s.mods[i])>>] ELSE s.mods[i]]],
                  LET sel == SelectSeq(s.mods, LAMBDA m : m.rects = <<>>) IN [q \in DOMAIN sel |-> sel[q].name])
         ELSE Res(FALSE, s, <<>>)
    [] op = "assign_rectangles" ->
         \* the named modules get exactly the listed rectangles, fixed / hard as the module is, no role yet
         IF /\ \A q \in DOMAIN a.m2r : Known(s, a.m2r[q][1])
            /\ \A q \in DOMAIN a.m2r : \A j \in DOMAIN a.m2r[q][2] :
                  LET m == s.mods[IndexOf(s, a.m2r[q][1])] IN F!RectOK(a.m2r[q][2][j], MFixed(m) \/ MHard(m))
         THEN Res(TRUE, [s EXCEPT !.mods = [i \in DOMAIN s.mods |->
                            IF Assigned(s, a.m2r, i)
                            THEN [s.mods[i] EXCEPT !.rects = LET rs == AssignedList(s, a.m2r, i) IN
                                    [j \in DOMAIN rs |-> Mk8(rs[j], s.mods[i].kind[2], s.mods[i].kind[1], "no")]]
                            ELSE s.mods[i]]], <<>>)
         ELSE Res(FALSE, s, <<>>)
    [] op = "create_stogs" ->
         \* every module's rectangles are labelled (modules without rectangles have nothing to label)
         Res(TRUE, [s EXCEPT !.mods = [i \in DOMAIN s.mods |-> [s.mods[i] EXCEPT !.rects = Relabel(s.mods[i].rects)]]], <<>>)
    [] op = "set_center" -> Res(TRUE, SetMod(s, a.i, [s.mods[a.i] EXCEPT !.center = a.c]), <<>>)
    [] op = "set_fixed" ->
         \* the flag, and (when it changes) the flag of every rectangle of the module
         LET m == s.mods[a.i] IN
         Res(TRUE, SetMod(s, a.i, [m EXCEPT !.kind = <<m.kind[1], a.v, m.kind[3], m.kind[4]>>,
                                            !.rects = IF m.kind[2] = a.v THEN m.rects
                                                      ELSE [j \in DOMAIN m.rects |-> SetFx(m.rects[j], a.v)]]), <<>>)
    [] op = "add_rectangle" ->
         LET m == s.mods[a.i] IN
         IF W(RectOf(a.r)) > 0 /\ H(RectOf(a.r)) > 0
         THEN Res(TRUE, SetMod(s, a.i, [m EXCEPT !.rects = Append(m.rects, Mk8(a.r, m.kind[2], m.kind[1], "no"))]), <<>>)
         ELSE Res(FALSE, s, <<>>)
    [] op = "clear_rectangles" -> Res(TRUE, SetMod(s, a.i, [s.mods[a.i] EXCEPT !.rects = <<>>]), <<>>)
    [] op = "create_square" ->
         IF SquareOK(s.mods[a.i]) THEN Res(TRUE, SetMod(s, a.i, [s.mods[a.i] EXCEPT !.rects = <<SquareOf(s.mods[a.i])>>]), <<>>)
         ELSE Res(FALSE, s, <<>>)
    [] op = "recenter_rectangles" ->
         LET m == s.mods[a.i] IN
         IF RecenterOK(m)
         THEN LET sh == ShiftNum(m)  dx == sh[1] \div sh[2]  dy == sh[3] \div sh[4] IN
              Res(TRUE, SetMod(s, a.i, [m EXCEPT !.rects = [j \in DOMAIN m.rects |-> Move(m.rects[j], dx, dy)]]), <<>>)
         ELSE Res(FALSE, s, <<>>)
    [] op = "calc_center" ->
         LET m == s.mods[a.i] IN
         IF m.rects # <<>> THEN Res(TRUE, SetMod(s, a.i, [m EXCEPT !.center = F!Centroid(m.rects)]), F!Centroid(m.rects))
         ELSE Res(FALSE, s, <<>>)
    [] op \in {"write_yaml", "read_views"} -> Res(TRUE, s, <<>>)

(***************************************************************************)
(* The documented effect of each call, as a relation between the state     *)
(* before, the state after and the value returned -- written without       *)
(* reference to Apply (which is ONE way to meet it: the trunk choice and   *)
(* the order of the branches are not part of the contract).                *)
(***************************************************************************)
SameBut(p, q, S) ==        \* the modules outside S are untouched; names, areas, nets never change
  /\ Len(q.mods) = Len(p.mods) /\ q.nets = p.nets
  /\ \A i \in DOMAIN p.mods : q.mods[i].name = p.mods[i].name /\ q.mods[i].areas = p.mods[i].areas
  /\ \A i \in DOMAIN p.mods \ S : q.mods[i] = p.mods[i]
IsSquareFor(m, r) ==       \* r is the square of m's area centred on m's centre, a plain ground rectangle
  /\ W(RectOf(r)) = H(RectOf(r)) /\ Area(RectOf(r)) = TotalArea(m)
  /\ Cx2(RectOf(r)) * m.center[2] = 2 * m.center[1] /\ Cy2(RectOf(r)) * m.center[4] = 2 * m.center[3]
  /\ r[5] = F!Ground /\ r[6] = 0 /\ r[7] = 0
LabelledStog(rs) ==        \* the roles are those of SOME valid trunk in front, or all "no" when there is none
  IF rs = <<>> THEN TRUE
  ELSE IF F!IsStog(rs)
       THEN /\ rs[1][8] = "T" /\ F!ValidTrunk(rs, 1)
            /\ \A j \in 2..Len(rs) : rs[j][8] = F!Loc(rs[1], rs[j])
       ELSE \A j \in DOMAIN rs : rs[j][8] = "no"
CoreSeq(rs) == [j \in DOMAIN rs |-> Core(rs[j])]
Documented(p, op, a, q, ret) ==
  CASE op = "create_squares" ->
         LET idx == {i \in DOMAIN p.mods : p.mods[i].rects = <<>>} IN
         /\ SameBut(p, q, idx)
         /\ \A i \in idx : /\ q.mods[i].kind = p.mods[i].kind /\ q.mods[i].center = p.mods[i].center
                           /\ Len(q.mods[i].rects) = 1 /\ IsSquareFor(p.mods[i], q.mods[i].rects[1])
         /\ F!SameBag(ret, LET sel == SelectSeq(p.mods, LAMBDA m : m.rects = <<>>) IN [k \in DOMAIN sel |-> sel[k].name])
    [] op = "assign_rectangles" ->
         LET S == {i \in DOMAIN p.mods : Assigned(p, a.m2r, i)} IN
         /\ SameBut(p, q, S)
         /\ \A i \in S : /\ q.mods[i].kind = p.mods[i].kind /\ q.mods[i].center = p.mods[i].center
                         /\ CoreSeq(q.mods[i].rects) =
                              LET rs == AssignedList(p, a.m2r, i) IN
                              [j \in DOMAIN rs |-> Core(Mk8(rs[j], p.mods[i].kind[2], p.mods[i].kind[1], "no"))]
    [] op = "create_stogs" ->
         /\ SameBut(p, q, DOMAIN p.mods)
         /\ \A i \in DOMAIN p.mods : /\ q.mods[i].kind = p.mods[i].kind /\ q.mods[i].center = p.mods[i].center
                                     /\ F!SameBag(CoreSeq(q.mods[i].rects), CoreSeq(p.mods[i].rects))
                                     /\ LabelledStog(q.mods[i].rects)
    [] op = "set_center" ->
         /\ SameBut(p, q, {a.i}) /\ q.mods[a.i] = [p.mods[a.i] EXCEPT !.center = a.c]
    [] op = "set_fixed" ->
         /\ SameBut(p, q, {a.i})
         /\ q.mods[a.i].kind = <<p.mods[a.i].kind[1], a.v, p.mods[a.i].kind[3], p.mods[a.i].kind[4]>>
         /\ q.mods[a.i].center = p.mods[a.i].center /\ Len(q.mods[a.i].rects) = Len(p.mods[a.i].rects)
         /\ \A j \in DOMAIN p.mods[a.i].rects :
               q.mods[a.i].rects[j] = IF p.mods[a.i].kind[2] = a.v THEN p.mods[a.i].rects[j] ELSE SetFx(p.mods[a.i].rects[j], a.v)
    [] op = "add_rectangle" ->
         /\ SameBut(p, q, {a.i})
         /\ q.mods[a.i] = [p.mods[a.i] EXCEPT !.rects = Append(p.mods[a.i].rects, Mk8(a.r, p.mods[a.i].kind[2], p.mods[a.i].kind[1], "no"))]
    [] op = "clear_rectangles" ->
         /\ SameBut(p, q, {a.i}) /\ q.mods[a.i] = [p.mods[a.i] EXCEPT !.rects = <<>>]
    [] op = "create_square" ->
         /\ SameBut(p, q, {a.i})
         /\ q.mods[a.i].kind = p.mods[a.i].kind /\ q.mods[a.i].center = p.mods[a.i].center
         /\ Len(q.mods[a.i].rects) = 1 /\ IsSquareFor(p.mods[a.i], q.mods[a.i].rects[1])
    [] op = "recenter_rectangles" ->
         /\ SameBut(p, q, {a.i})
         /\ q.mods[a.i].kind = p.mods[a.i].kind /\ q.mods[a.i].center = p.mods[a.i].center
         /\ Len(q.mods[a.i].rects) = Len(p.mods[a.i].rects)
         /\ F!Centroid(q.mods[a.i].rects) = p.mods[a.i].center                     \* the centroid is now the centre
         /\ LET dx == q.mods[a.i].rects[1][1] - p.mods[a.i].rects[1][1]                 \* by one rigid translation
                dy == q.mods[a.i].rects[1][2] - p.mods[a.i].rects[1][2]
            IN \A j \in DOMAIN p.mods[a.i].rects : q.mods[a.i].rects[j] = Move(p.mods[a.i].rects[j], dx, dy)
    [] op = "calc_center" ->
         /\ SameBut(p, q, {a.i})
         /\ q.mods[a.i] = [p.mods[a.i] EXCEPT !.center = F!Centroid(p.mods[a.i].rects)]
         /\ ret = F!Centroid(p.mods[a.i].rects)
    [] op \in {"write_yaml", "read_views"} -> q = p

(***************************************************************************)
(* write_yaml followed by Netlist(text).  Reading normalises (centre :=    *)
(* centroid when there are rectangles, hard area := rectangle area, flags  *)
(* of the rectangles := flags of the module, roles recomputed), so "the    *)
(* same state comes back" is claimed for NORMAL states: those that are the *)
(* image of a document.  A state that is not normal (a centre set apart    *)
(* from its rectangles, a hard module whose rectangles were cleared) has   *)
(* no document of its own; what the reader then returns is not specified.  *)
(***************************************************************************)
Normal(s) ==
  /\ \A i \in DOMAIN s.mods :
        LET m == s.mods[i] IN
        /\ (m.rects # <<>> => m.center = F!Centroid(m.rects))
        /\ \A j \in DOMAIN m.rects : m.rects[j][6] = m.kind[2] /\ m.rects[j][7] = m.kind[1]
        /\ (MHard(m) => m.areas = << <<F!Ground, F!RectsArea(m.rects)>> >>)
        /\ (MFixed(m) => MHard(m))
  /\ F!InLanguage(F!Write(Strip(s))) /\ F!WellFormed(F!Write(Strip(s)))
SameDesign(p, q) ==      \* the comparison of C04: kinds, areas, centres, rectangles with regions and flags (as multisets)
  /\ Len(p.mods) = Len(q.mods) /\ p.nets = q.nets
  /\ \A i \in DOMAIN p.mods :
        /\ p.mods[i].name = q.mods[i].name /\ p.mods[i].kind = q.mods[i].kind
        /\ F!SameBag(p.mods[i].areas, q.mods[i].areas) /\ p.mods[i].center = q.mods[i].center
        /\ F!SameBag(CoreSeq(p.mods[i].rects), CoreSeq(q.mods[i].rects))
ReadBack(s) == F!Read(F!Write(Strip(s)))

(***************************************************************************)
(* Caches (hidden state of the object)                                     *)
(***************************************************************************)
NoCache(s) == [net |-> -1, netval |-> <<>>, ar |-> [i \in DOMAIN s.mods |-> -1]]
\* what the implementation answers: the memo if there is one
ImplRectangles(s, c) == IF c.net = 1 THEN c.netval ELSE ViewRectangles(s)
ImplAreaRectangles(s, c, i) == IF c.ar[i] >= 0 THEN c.ar[i] ELSE ViewAreaRectangles(s.mods[i])
\* reading all views fills every memo.  (Netlist(doc) itself fills the netlist memo; area_rectangles stays unread.)
Filled(s) == [net |-> 1, netval |-> ViewRectangles(s), ar |-> [i \in DOMAIN s.mods |-> ViewAreaRectangles(s.mods[i])]]
AfterLoad(s) == [net |-> 1, netval |-> ViewRectangles(s), ar |-> [i \in DOMAIN s.mods |-> -1]]
DropNet(c) == [c EXCEPT !.net = -1, !.netval = <<>>]
DropAr(c, S) == [c EXCEPT !.ar = [i \in DOMAIN c.ar |-> IF i \in S THEN -1 ELSE c.ar[i]]]
Invalidate(p, c, op, a) ==
  CASE op = "create_squares" ->
         LET idx == {i \in DOMAIN p.mods : p.mods[i].rects = <<>>} IN IF idx = {} THEN c ELSE DropNet(DropAr(c, idx))
    [] op = "assign_rectangles" ->
         LET S == {i \in DOMAIN p.mods : Assigned(p, a.m2r, i)} IN
         \* as it stands: clear_rectangles + add_rectangle per module -- a module given the empty list keeps its memo
         DropNet(DropAr(c, IF ASIS THEN {i \in S : AssignedList(p, a.m2r, i) # <<>>} ELSE S))
    [] op \in {"add_rectangle", "create_square"} -> IF ASIS THEN DropAr(c, {a.i}) ELSE DropNet(DropAr(c, {a.i}))
    [] op = "clear_rectangles" -> IF ASIS THEN c ELSE DropNet(DropAr(c, {a.i}))
    \* these change rectangles in place (shared objects) or do not touch them: the memos stay right
    [] op \in {"create_stogs", "recenter_rectangles", "set_fixed"} ->
         \* the memoised list shares the rectangle objects, so in-place changes show through it (if it was right before)
         IF c.net = 1 /\ F!SameBag(c.netval, ViewRectangles(p)) THEN [c EXCEPT !.netval = ViewRectangles(Apply(p, op, a).st)] ELSE c
    [] OTHER -> c

(***************************************************************************)
(* The bounded universe: three small netlists, a fixed action alphabet     *)
(***************************************************************************)
Rc(x1, y1, x2, y2) == <<x1, y1, x2, y2, F!Ground>>
SoftM(nm, a, c, rs) == [name |-> nm, area |-> [form |-> "s", ent |-> << <<F!Ground, a>> >>], center |-> c,
                        aspect |-> F!NoAspect, flags |-> F!NoFlags,
                        rects |-> IF rs = <<>> THEN F!NoRects ELSE [form |-> "list", rs |-> rs], extra |-> <<>>]
HardM(nm, fl, c, rs) == [name |-> nm, area |-> F!NoArea, center |-> c, aspect |-> F!NoAspect, flags |-> fl,
                         rects |-> IF rs = <<>> THEN F!NoRects ELSE [form |-> "list", rs |-> rs], extra |-> <<>>]
Net(pins, w) == [pins |-> pins, w |-> w]
Docs == <<
  \* soft without rectangles; soft whose trunk is listed second (centroid (7/2, 9/2)); hard square
  [mods |-> << SoftM("A", 16, F!C2(6, 6), <<>>),
               SoftM("B", 16, <<>>, <<Rc(2, 4, 4, 8), Rc(2, 2, 6, 4)>>),
               HardM("C", F!FHard, <<>>, <<Rc(8, 0, 12, 4)>>) >>,
   nets |-> << Net(<<"A", "B", "C">>, <<>>), Net(<<"A", "C">>, <<2, 1>>) >>, extra |-> <<>>],
  \* fixed, terminal with a centre, small soft without rectangles
  [mods |-> << HardM("F", F!FFixed, <<>>, <<Rc(0, 8, 4, 12)>>),
               HardM("T", F!FTerm, F!C2(12, 12), <<>>),
               SoftM("S", 4, F!C2(8, 8), <<>>) >>,
   nets |-> << Net(<<"F", "T", "S">>, <<5, 2>>) >>, extra |-> <<>>],
  \* hard two-rectangle STOG (centroid (3, 5)); soft with a region rectangle and a stated centre that loading overrides
  [mods |-> << HardM("H", F!FHard, <<>>, <<Rc(0, 4, 4, 12), Rc(0, 0, 8, 4)>>),
               SoftM("D", 4, F!C2(9, 9), <<<<8, 6, 10, 8, "dsp">>>>) >>,
   nets |-> << Net(<<"H", "D">>, <<>>) >>, extra |-> <<>> ] >>

Centers == { F!C2(6, 6), F!C2(9, 3) }
NewRects == { Rc(6, 2, 8, 4), Rc(10, 10, 12, 12) }
M2Rs(s) == { << <<s.mods[1].name, <<Rc(0, 0, 4, 4)>>>> >>,
             << <<s.mods[2].name, <<>>>> >>,
             << <<s.mods[Len(s.mods)].name, <<Rc(4, 4, 8, 6), Rc(4, 6, 6, 10)>>>>, <<s.mods[1].name, <<Rc(10, 10, 14, 14)>>>> >> }
Alphabet(s) ==
  { <<"create_squares", NoArg>>, <<"create_stogs", NoArg>>, <<"write_yaml", NoArg>>, <<"read_views", NoArg>> }
  \cup { <<"assign_rectangles", Arg(0, <<>>, <<>>, 0, m)>> : m \in M2Rs(s) }
  \cup { <<"set_center", Arg(i, c, <<>>, 0, <<>>)>> : i \in DOMAIN s.mods, c \in Centers }
  \cup { <<"set_fixed", Arg(i, <<>>, <<>>, 1 - s.mods[i].kind[2], <<>>)>> : i \in {j \in DOMAIN s.mods : MHard(s.mods[j]) /\ ~MTerminal(s.mods[j])} }
  \cup { <<"add_rectangle", Arg(i, <<>>, r, 0, <<>>)>> : i \in {j \in DOMAIN s.mods : ~MTerminal(s.mods[j])}, r \in NewRects }
  \cup { <<o, Arg(i, <<>>, <<>>, 0, <<>>)>> : o \in {"clear_rectangles", "create_square", "recenter_rectangles", "calc_center"},
                                               i \in {j \in DOMAIN s.mods : ~MTerminal(s.mods[j])} }

(***************************************************************************)
(* State machine                                                           *)
(***************************************************************************)
NoAct == [op |-> "load", arg |-> NoArg, ret |-> <<>>]
Init == /\ d \in DOMAIN Docs
        /\ st = LoadState(Docs[d]) /\ prev = LoadState(Docs[d]) /\ last = NoAct /\ hist = <<>>
        /\ cache = AfterLoad(LoadState(Docs[d]))

Do(op, a) == LET r == Apply(st, op, a) IN
  /\ r.ok
  /\ st' = r.st /\ prev' = st /\ last' = [op |-> op, arg |-> a, ret |-> r.ret]
  /\ hist' = Append(hist, [op |-> op, arg |-> a])
  /\ cache' = IF op = "read_views" THEN Filled(st) ELSE Invalidate(st, cache, op, a)
  /\ UNCHANGED d
Act == /\ Len(hist) < MAXLEN /\ \E oa \in Alphabet(st) : Do(oa[1], oa[2])
Emit == /\ EMIT /\ Len(hist) = MAXLEN /\ last.op # "emitted"
        /\ PrintT(ToJson([doc |-> Docs[d], steps |-> hist]))
        /\ last' = [last EXCEPT !.op = "emitted"] /\ UNCHANGED <<d, st, prev, hist, cache>>
Next == Act \/ Emit
Spec == Init /\ [][Next]_vars

(***************************************************************************)
(* Invariants                                                              *)
(***************************************************************************)
Acted == last.op \notin {"load", "emitted"}
\* every call has its documented effect (Apply is an instance of the contract)
InvDocumented == Acted => Documented(prev, last.op, last.arg, st, last.ret)
\* cache coherence: whatever was read or changed before, the object answers every view from the current state
InvCacheCoherent == /\ ImplRectangles(st, cache) = ViewRectangles(st)
                    /\ \A i \in DOMAIN st.mods : ImplAreaRectangles(st, cache, i) = ViewAreaRectangles(st.mods[i])
\* view consistency: the views are mutually consistent functions of the state
InvViews == /\ ViewNumRectangles(st) = F!SeqSum([i \in DOMAIN st.mods |-> Len(st.mods[i].rects)])
            /\ \A k \in DOMAIN ViewFixedRectangles(st) : ViewFixedRectangles(st)[k][6] = 1
            /\ Len(ViewFixedRectangles(st)) = Cardinality({k \in DOMAIN ViewRectangles(st) : ViewRectangles(st)[k][6] = 1})
            /\ (ViewAllSoftHaveStogs(st) <=> \A i \in DOMAIN st.mods : MHard(st.mods[i]) \/ ViewHasStog(st.mods[i]))
            /\ (ViewWLDefined(st) => ViewWL(st)[1] <= ViewWL(st)[2])
\* reading and writing leave the state alone
InvPure == (Acted /\ last.op \in {"read_views", "write_yaml"}) => st = prev
\* the loaded state is normal, and a normal state written and read back is the same design
InvLoadNormal == hist = <<>> => Normal(st)
\* (evaluated in the states a write_yaml call ends in: every state within the bound has such a successor)
InvWriteRead == ((hist = <<>> \/ last.op = "write_yaml") /\ Normal(st)) => /\ ReadBack(st).ok /\ SameDesign(Lift(ReadBack(st).n), st)
\* the wire length follows the centres: only calls that move a centre of a net member can change its bracket
InvWLFollowsCentres == (Acted /\ \A i \in DOMAIN st.mods : st.mods[i].center = prev.mods[i].center)
                          => (ViewWLDefined(st) = ViewWLDefined(prev) /\ (ViewWLDefined(st) => ViewWL(st) = ViewWL(prev)))
\* roles are only ever T/N/S/E/W/no, flags 0/1, and rectangles proper
InvTypes == \A i \in DOMAIN st.mods : \A j \in DOMAIN st.mods[i].rects :
               LET r == st.mods[i].rects[j] IN
               /\ IsRect(RectOf(r)) /\ r[6] \in {0, 1} /\ r[7] \in {0, 1} /\ r[8] \in {"T", "N", "S", "E", "W", "no"}
=============================================================================
