SPECIFICATION RSpec
CONSTANTS
  Vars = {"a", "b", "c"}
  RTerms = 3
  RCoef = 3
  RBound = 8
  RBuilds = 1
  RDecs = {TRUE}
  CoefNeg = 0
  CoefPos = 0
  ConstMax = 0
  MulNeg = 0
  MulPos = 0
  CMax = 0
  KMax = 0
  CMax2 = 0
  KMax2 = 0
  EMIT = FALSE
CHECK_DEADLOCK FALSE
INVARIANT UnitPropagationDetects
