SPECIFICATION FSpec
CONSTANTS
  TYPES = {}
  SIZES = {}
  GRIDS = {}
  HLEVELS = {}
  EDITS = {}
  GCELLS = {}
  DIESEL = {404, 603}
  POSSEL = {0, 1612, 2424}
  TOL = 0
  COMTOL = 0
  NOISE = 1
  VISFOR = {"two", "mixed", "allfixed"}
  DESIGNS = {"mixed", "allfixed", "one", "nonets", "pinnets", "two", "coincident", "border", "hardmov", "movpin", "nocentre"}
  EMIT = FALSE
INVARIANT FTypeOK
INVARIANT RejectedWritesNothing
INVARIANT RejectedIffUnservable
INVARIANT DesignInMemory
INVARIANT FixedNeverMove
INVARIANT ModelAsDocumented
INVARIANT SolvedInsideBounds
INVARIANT InDieAfterRelocation
INVARIANT EndState
INVARIANT NothingWrittenEarly
PROPERTY InputFileUntouched
CHECK_DEADLOCK FALSE
