---------------------------- MODULE PBExprTrace ----------------------------
(***************************************************************************)
(* C16, code -> spec: batch validation of observed executions of the real  *)
(* Literal / Term / Expr / Ineq classes of tools/rect/pseudobool.py.       *)
(*                                                                         *)
(* A trace is a sequence of events.  Each event is one public operation    *)
(* applied to the two registers (Python objects) e1, e2:                   *)
(*    [op, v, s, k, cmp,      the operation and its arguments (PBExpr!Do)  *)
(*     keep,                  1: the result replaces e1 (cumulative build) *)
(*                            0: the result is only observed ("fan": many  *)
(*                               operations tried on the same state)       *)
(*     exc,                   1: the call raised                           *)
(*     ord,                   1: the term order of the result is comparable*)
(*                               with the model's (0 for commuted spellings*)
(*                               such as Literal + Expr)                   *)
(*     obs = [c, t, rhs, op], what the call returned: Expr.c, Expr.t as    *)
(*                            << <<var, sign, coef>> .. >>; for "cmp" the  *)
(*                            Ineq's lhs.c, lhs.t, rhs, op                 *)
(*     o1, o2 = [c, t]]       e1 and e2 re-observed AFTER the call         *)
(*                                                                         *)
(* The step replays the event through the specification's own operator Do  *)
(* (so sem1/sem2 are the truth tables "computed directly from how it was   *)
(* built") and judges the observation.  Property clauses (-> `fails`):     *)
(*    raises             the operation raised                              *)
(*    value              Eval(obs, a) = sem1'[a] for every assignment      *)
(*    coef_positive      obs carries a coefficient <= 0                    *)
(*    one_per_var        obs carries a variable twice                      *)
(*    ineq               Holds(obs, a) <=> sem1[a] (cmp) sem2[a], whichever of  *)
(*                       the five operators the observed inequality carries *)
(*    operand_preserved  the operands still evaluate to sem1 / sem2 after  *)
(*                       the call (an expression built earlier keeps the   *)
(*                       value it was built with)                          *)
(* Model conformance (-> `drift`): obs is exactly the model's normal form  *)
(* (same constant, same terms in the same dictionary order).               *)
(* Verdicts are total: Step never blocks.                                  *)
(***************************************************************************)
EXTENDS PBExpr, IOUtils

Batch == JsonDeserialize(IOEnv.TRACE_FILE)

VARIABLES tid, l, fails, drift,
          p1, p2     \* the latest observation of the objects e1 / e2 (already judged when it was made)
tvars == <<vars, tid, l, fails, drift, p1, p2>>

T == Batch[tid]

TraceInit == /\ tid \in 1..Len(Batch) /\ l = 1 /\ fails = {} /\ drift = {}
             /\ pc = "trace" /\ second = FALSE /\ ineq = NoIneq
             /\ e1 = Empty /\ e2 = Empty /\ sem1 = Zero /\ sem2 = Zero
             /\ p1 = Empty /\ p2 = Empty

\* an observed normal form can only be evaluated if it is built from known variables and 0/1 signs
Readable(o) == \A i \in DOMAIN o.t : o.t[i][1] \in Vars /\ o.t[i][2] \in {0, 1}
AsNF(o) == [c |-> o.c, t |-> o.t]
ValueOK(o, sem) == Readable(o) /\ SemAgrees(AsNF(o), sem)
TermSet(e) == {e.t[i] : i \in DOMAIN e.t}
SameNF(o, e, ord) == o.c = e.c /\ (IF ord = 1 THEN o.t = e.t ELSE TermSet(o) = TermSet(e) /\ Len(o.t) = Len(e.t))

\* An operand re-read after the call must still have the value it was built with.  If the reading is
\* identical to the previous reading of the same object (which was judged by `value` when it was made, or
\* is the empty expression) nothing needs to be evaluated again; otherwise it is evaluated in full.
Preserved(e) == /\ (e.o1 = p1 \/ ValueOK(e.o1, sem1))
                /\ (e.o2 = p2 \/ ValueOK(e.o2, sem2))

Clauses(e, R) ==
  IF e.exc = 1 THEN [raises |-> FALSE]
  ELSE IF e.op = "cmp"
  THEN [ineq |-> /\ Readable(e.obs) /\ e.obs.op \in CmpOps
                 /\ IneqAgrees([lhs |-> AsNF(e.obs), rhs |-> e.obs.rhs, op |-> e.obs.op], sem1, e.cmp, sem2),
        coef_positive |-> CoefsPositive(e.obs),
        one_per_var |-> VarsOnce(e.obs),
        operand_preserved |-> Preserved(e)]
  ELSE [value |-> ValueOK(e.obs, R.s1),
        coef_positive |-> CoefsPositive(e.obs),
        one_per_var |-> VarsOnce(e.obs),
        operand_preserved |-> Preserved(e)]

Conforms(e, R) ==
  \/ e.exc = 1
  \/ IF e.op = "cmp"
     THEN LET q == OutIneq(Cur, e.cmp) IN SameNF(e.obs, q.lhs, e.ord) /\ e.obs.rhs = q.rhs /\ e.obs.op = q.op
     ELSE SameNF(e.obs, R.e1, e.ord)

Step == /\ l <= Len(T.events)
        /\ LET e == T.events[l]
               R0 == Do(Cur, e.op, e.v, e.s, e.k, e.cmp)
               \* a commuted spelling (Literal + Expr) leaves the dictionary order of the result open:
               \* the model adopts the observed order when the terms are the model's
               R == IF e.exc = 0 /\ e.ord = 0 /\ e.op # "cmp" /\ SameNF(e.obs, R0.e1, 0)
                    THEN [R0 EXCEPT !.e1 = AsNF(e.obs)] ELSE R0
               cl == Clauses(e, R)
           IN /\ fails' = fails \cup { <<l, c>> : c \in { d \in DOMAIN cl : ~cl[d] } }
              /\ drift' = IF Conforms(e, R) THEN drift ELSE drift \cup {<<l, e.op>>}
              /\ IF e.keep = 1 /\ e.exc = 0 /\ e.op # "cmp"
                 THEN /\ Set(R)
                      /\ p1' = AsNF(e.obs)
                      /\ p2' = IF e.op = "push" THEN e.o1 ELSE e.o2
                 ELSE /\ UNCHANGED <<e1, e2, sem1, sem2>>
                      /\ p1' = e.o1 /\ p2' = e.o2
        /\ l' = l + 1 /\ UNCHANGED <<pc, second, ineq, tid>>

Done == /\ l = Len(T.events) + 1
        /\ l' = l + 1
        /\ PrintT(ToJson([tag |-> "VERDICT", id |-> T.id, fails |-> fails, drift |-> drift]))
        /\ UNCHANGED <<vars, tid, fails, drift, p1, p2>>

TraceNext == Step \/ Done
TraceSpec == TraceInit /\ [][TraceNext]_tvars
=============================================================================
