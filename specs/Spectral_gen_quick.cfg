\* behaviour generation (spec -> code): the netlists of the generation universe, one JSON line each
SPECIFICATION Spec
CONSTANTS
  HalfSet <- GenHalf
  Profiles <- GenProf
  AreaProfiles <- GenArea
  Graphs <- GenGraphs
  FixSet <- GenFixQ
  TrialSet = {1, 3}
  MaxIter = 1
  GS = 2
  G = 1
  Rounds = 1
  TOL = 0
  EMIT = TRUE
CHECK_DEADLOCK FALSE
