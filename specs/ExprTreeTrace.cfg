\* Everything comes from the traces; the generation constants are unused.
SPECIFICATION TraceSpec
CONSTANTS
  Consts = {}
  Scals = {}
  Vals = {}
  Inits = {}
  BinOps = {}
  WithSqrt = FALSE
  WithRaw = FALSE
  SameNames = {}
  MaxBuild = 0
  MaxOps = 0
  OpKinds = {}
  RehomeTargets = {}
  EqCmps = {}
  EqEps = {}
  STACKUNDO = FALSE
  EMIT = FALSE
CHECK_DEADLOCK FALSE
