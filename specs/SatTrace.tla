------------------------------ MODULE SatTrace ------------------------------
(***************************************************************************)
(* C07, code -> spec: batch validation of what real SATManager objects did.*)
(*                                                                         *)
(* One trace = one PROCESS (one forked interpreter starting from a         *)
(* pristine pseudobool store): managers are created and constraints posted *)
(* to them in some order; everything an earlier manager encoded is the     *)
(* "history" of the later ones.  Trace fields:                             *)
(*   vars    the user variables of the trace, in the bit order the driver  *)
(*           uses for assignment numbers (bit i-1 of n = value of vars[i]) *)
(*   detail  1: also replay the specified encoding (store, diagrams) and   *)
(*           compare the real store with it (model conformance only)       *)
(*   events  [ev, m, c, refused, proj, sat, model, negs, probes, evals,    *)
(*            store, root]                                                 *)
(*     ev = "new"    a manager is created (m = its number)                 *)
(*     ev = "post"   constraint c posted to manager m; refused = 1 if the  *)
(*                   call raised; proj = the assignment numbers that       *)
(*                   extend to a model of the manager's REAL clause list   *)
(*                   after the call (pysat, unit assumptions);             *)
(*                   store/root = pseudobool.memory[2:] and the diagram id *)
(*     ev = "solve"  sat = what solve() returned; model[i] = value(vars[i])*)
(*                   negs[i] = value(-vars[i]); evals[j] = evalexpr of     *)
(*                   the expression with normal form probes[j]             *)
(*                                                                         *)
(* The step recomputes `allowed` with SatLayer's own Post / SatSet and     *)
(* judges the observation.  Property clauses (-> fails):                   *)
(*   sound              a projected model violates a posted constraint     *)
(*   complete           an assignment satisfying everything posted does    *)
(*                      not extend to a model of the CNF                   *)
(*   refused_encodable  the call raised for a constraint the layer is      *)
(*                      documented to encode                               *)
(*   sat_iff            solve() # (allowed # {})                           *)
(*   model_ok           satisfiable but the exposed model (value()) is not *)
(*                      0/1, inconsistent for -v, or violates a constraint *)
(*   evalexpr_ok        evalexpr(expr) # value of expr under that model    *)
(*     ev = "prop"   propagation probe (extension, thorough tier): rho = a *)
(*                   partial assignment << <<var, 0|1|2>> .. >>; conflict, *)
(*                   implied = what pysat's propagate() reports for the    *)
(*                   manager's REAL clause list under rho (user literals)  *)
(*   propagation_sound  propagate() reports a conflict although an allowed *)
(*                      assignment extends rho, or implies a literal some  *)
(*                      allowed extension contradicts (a consequence of    *)
(*                      exactness, hence a property clause)                *)
(* Model conformance (-> drift): refusal as specified (also: a clause-     *)
(* shaped strict inequality refused; a record accepted earlier in the      *)
(* process refused now -- the statement leaves refusals free); store and   *)
(* diagram id as specified by Robdd!Build; propagation result as UnitProp yields   *)
(* on the specified CNF.                                                   *)
(* Information only (-> ac, printed with the verdict, no claim attached):  *)
(* for every probe whether propagation was complete ("undetected": rho has *)
(* no allowed extension but no conflict was found; "incomplete": some      *)
(* entailed literal was not derived).                                      *)
(***************************************************************************)
EXTENDS SatLayer, IOUtils

Batch == JsonDeserialize(IOEnv.TRACE_FILE)

VARIABLES tid, l, fails, drift, ac
tvars == <<allvars, tid, l, fails, drift, ac>>

T == Batch[tid]

TraceInit == /\ tid \in 1..Len(Batch) /\ l = 1 /\ fails = {} /\ drift = {} /\ ac = {}
             /\ SInit

\* the driver's number of TLC's assignment a, and TLC's assignment of an exposed model
HIdx(a) == SumSeq([i \in DOMAIN T.vars |-> BitOf(T.vars[i], a) * 2 ^ (i - 1)])
ObsAllowed(e) == LET P == { e.proj[i] : i \in DOMAIN e.proj } IN { a \in Assigns : HIdx(a) \in P }
IsBits(s) == \A i \in DOMAIN s : s[i] \in {0, 1}
MIdx(model) == SumSeq([i \in DOMAIN T.vars |-> Weight[T.vars[i]] * model[i]])

PostClauses(e, mg) ==
  LET expected == IF e.refused = 1 THEN mg.allowed ELSE mg.allowed \cap SatSet(e.c)
      obs == ObsAllowed(e)
  IN [sound |-> obs \subseteq expected,
      complete |-> expected \subseteq obs,
      refused_encodable |-> e.refused = 1 => Refusable(e.c)]
\* observations about refusals that the statement leaves free (a refusal is never a silent drop): drift only
RefusalDrift(e) ==
  IF e.refused = 0 THEN {}
  ELSE (IF RefusedAsCoded(e.c) THEN {} ELSE {"refusal_of_clause_shaped"})
       \cup (IF \E i \in DOMAIN mgrs : \E j \in DOMAIN mgrs[i].posted : mgrs[i].posted[j] = e.c THEN {"refusal_inconsistent"} ELSE {})

SolveClauses(e, mg) ==
  LET good == e.sat = 1 /\ Len(e.model) = Len(T.vars) /\ IsBits(e.model) IN
  [sat_iff |-> e.sat \in {0, 1} /\ (e.sat = 1 <=> mg.allowed # {}),
   model_ok |-> e.sat = 1 => /\ good /\ Len(e.negs) = Len(T.vars)
                             /\ \A i \in DOMAIN T.vars : e.negs[i] = 1 - e.model[i]
                             /\ MIdx(e.model) \in mg.allowed,
   evalexpr_ok |-> good => \A j \in DOMAIN e.probes : e.evals[j] = Eval(e.probes[j], MIdx(e.model))]

ObsImplied(e) == { IF e.implied[i][2] = 1 THEN UVar(e.implied[i][1]) ELSE -UVar(e.implied[i][1]) : i \in DOMAIN e.implied }
PropClauses(e, mg) ==
  LET Sr == { a \in mg.allowed : Extends(a, e.rho) } IN
  [propagation_sound |-> (e.conflict = 1 => Sr = {}) /\ (Sr # {} => ObsImplied(e) \subseteq Entailed(mg.allowed, e.rho))]
PropStrength(e, mg) ==
  LET Sr == { a \in mg.allowed : Extends(a, e.rho) } IN
  IF Sr = {} THEN (IF e.conflict = 1 THEN "ok" ELSE "undetected")
  ELSE IF Entailed(mg.allowed, e.rho) \subseteq ObsImplied(e) THEN "ok" ELSE "incomplete"
PropConforms(e, mg) ==
  LET U == UPOn(mg.cnf, e.rho) IN
  (e.conflict = 1) = U.conflict /\ (~U.conflict => ObsImplied(e) = U.implied)

Record(cl) == fails' = fails \cup { <<l, c>> : c \in { d \in DOMAIN cl : ~cl[d] } }

Step == /\ l <= Len(T.events)
        /\ LET e == T.events[l] IN
           CASE e.ev = "new" ->
                  /\ mgrs' = Append(mgrs, NewMgr)
                  /\ drift' = IF e.m = Len(mgrs) + 1 THEN drift ELSE drift \cup {<<l, "manager_number">>}
                  /\ UNCHANGED <<fails, store, root, lastq, lastdec, nb, lastm, lastc, lastref>>
             [] e.ev = "post" ->
                  LET mg == mgrs[e.m] IN
                  /\ Record(PostClauses(e, mg))
                  /\ IF T.detail = 1
                     THEN LET P == Post(e.c, mg, store)
                              \* ACCEPTANCE IS OBSERVED, never taken from the model: a post that returned is part
                              \* of the posted set (whatever its operator), a post that raised is not.  Only the
                              \* detail fields (cnf, cod, aux) follow the model.
                              acc == e.refused = 0
                          IN
                          /\ mgrs' = [mgrs EXCEPT ![e.m] = [P.m EXCEPT
                                          !.allowed = IF acc THEN mg.allowed \cap SatSet(e.c) ELSE mg.allowed,
                                          !.posted = IF acc THEN Append(mg.posted, e.c) ELSE mg.posted]]
                          /\ store' = P.store
                          /\ drift' = drift \cup { <<l, d>> : d \in RefusalDrift(e) }
                                \cup (IF (e.refused = 1) = P.refused THEN {} ELSE {<<l, "refusal">>})
                                \cup (IF e.store = P.store /\ (P.root >= 0 => e.root = P.root) THEN {} ELSE {<<l, "store">>})
                     ELSE \* property level only: allowed follows the definition, nothing else is replayed
                          /\ mgrs' = [mgrs EXCEPT ![e.m].allowed = IF e.refused = 1 THEN @ ELSE @ \cap SatSet(e.c),
                                                   ![e.m].posted = IF e.refused = 1 THEN @ ELSE Append(@, e.c)]
                          /\ drift' = drift \cup { <<l, d>> : d \in RefusalDrift(e) }
                          /\ UNCHANGED store
                  /\ lastm' = e.m /\ lastc' = e.c /\ lastref' = (e.refused = 1)
                  /\ UNCHANGED <<root, lastq, lastdec, nb>>
             [] e.ev = "prop" ->
                  LET mg == mgrs[e.m] IN
                  /\ Record(PropClauses(e, mg))
                  /\ drift' = IF T.detail = 0 \/ PropConforms(e, mg) THEN drift ELSE drift \cup {<<l, "propagation">>}
                  /\ UNCHANGED <<mgrs, store, root, lastq, lastdec, nb, lastm, lastc, lastref>>
             [] OTHER ->      \* "solve"
                  /\ Record(SolveClauses(e, mgrs[e.m]))
                  /\ UNCHANGED <<mgrs, drift, store, root, lastq, lastdec, nb, lastm, lastc, lastref>>
        /\ ac' = IF T.events[l].ev = "prop" /\ PropStrength(T.events[l], mgrs[T.events[l].m]) # "ok"
                 THEN ac \cup {<<l, PropStrength(T.events[l], mgrs[T.events[l].m])>>} ELSE ac
        /\ l' = l + 1 /\ UNCHANGED <<vars, hist, tid>>

Done == /\ l = Len(T.events) + 1
        /\ l' = l + 1
        /\ PrintT(ToJson([tag |-> "VERDICT", id |-> T.id, fails |-> fails, drift |-> drift, ac |-> ac]))
        /\ UNCHANGED <<allvars, tid, fails, drift, ac>>

TraceNext == Step \/ Done
TraceSpec == TraceInit /\ [][TraceNext]_tvars
=============================================================================
