------------------------------ MODULE ForceTool ------------------------------
(***************************************************************************)
(* FORCETOOL -- the command-line stage `frame force` (tools/force/force.py)*)
(* and the GEKKO glue it is built on (tools/force/gekko_common.py).        *)
(*                                                                         *)
(*   main(prog, args):                                                     *)
(*       options = parse_options(prog, args)      --netlist (required),    *)
(*                   -d/--die (required), -v, --visualize NAME,            *)
(*                   --out-netlist FILE           (there is NO --kind:     *)
(*                   the stage always runs the same three steps)           *)
(*       netlist = Netlist(options.netlist); die = Die(options.die, netlist)*)
(*       die = add_noise(die)                     gaussian noise, sd 0.01  *)
(*       die = kamada_kawai_layout(die)           gekko_common.Model(die), *)
(*                                                solve, extract_solution  *)
(*       die = force_algorithm(die)               C13 (Force.tla)          *)
(*       if visualize: save NAME.gif                                       *)
(*       if out_netlist: die.netlist.write_yaml(out_netlist)               *)
(*                                                                         *)
(* The stage is a state machine over the documents of Pipeline.tla (same   *)
(* JSON shapes, same operators; this module EXTENDS Pipeline and uses its  *)
(* variables `die`, `base` = the design as loaded, `net` = the netlist in  *)
(* memory; Pipeline's remaining variables are frozen).  Actions:           *)
(*   ParseArgs -> Load -> AddNoise -> BuildModel -> SolveKK -> ExtractKK   *)
(*             -> ForceAlgorithm -> SaveGif -> Write                       *)
(* The two relocation steps are CONTRACTS (Kamada-Kawai: any values inside *)
(* the bounds of the model; force_algorithm: the C13 contract), everything *)
(* around them -- option handling, what is loaded, what the GEKKO model    *)
(* contains, what is written where, what is left untouched -- is modelled  *)
(* exactly.  Where the clauses come from:                                  *)
(*   help of force.py   "--out-netlist: output netlist file (if not        *)
(*                      present, no file is produced)", "--visualize: name *)
(*                      of the GIF ... (if not present, no visualization   *)
(*                      is produced)", "--netlist", "-d/--die" required;   *)
(*                      "Relocate the modules of the netlist ... to obtain *)
(*                      better initial values for the next stages"         *)
(*   add_noise          "Add some noise to the positions of the modules"   *)
(*   gekko_common       Model "Constructs the GEKKO object" (a variable    *)
(*                      pair per module that is not fixed, bounded by the  *)
(*                      die's bounding box; fixed modules are constants);  *)
(*                      get_value "v: a variable or a value -> the value   *)
(*                      of v"; extract_solution "die with netlist with the *)
(*                      centroids of the modules updated"                  *)
(*   FPEF / C13 / PIPELINE  `fixed: true` modules do not move; the design  *)
(*                      (modules, kinds, areas, nets) is not changed by a  *)
(*                      placement stage; placed centres lie in the die     *)
(***************************************************************************)
EXTENDS Pipeline

CONSTANTS DESIGNS,   \* names of the small designs offered (see Design)
          VISFOR,    \* designs for which --visualize is offered (the GIF path is slow: seconds per run)
          NOISE      \* largest displacement add_noise is modelled with (length units; it may leave the die)

VARIABLES pc,      \* "args" | "load" | "noise" | "model" | "solve" | "extract" | "fr" | "gif" | "write" | "done" | "rejected" | "failed"
          opts,    \* [nl, dieopt: "ok" | "absent" | "nofile" (dieopt also "bad"), out, vis, unk: 0/1]  the command line
          design,  \* name of the design in the input file
          infile,  \* content of the input netlist file (must never change)
          model,   \* the GEKKO model of the Kamada-Kawai step: <<isvar, lbx, ubx, lby, uby, x, y>> per module
          files,   \* files the stage has written: subset of {"out", "gif"}
          outdoc   \* content of the output netlist file (NoNet if none)
fvars == <<vars, pc, opts, design, infile, model, files, outdoc>>
Frozen == UNCHANGED <<stage, flow, edit, alloc>>     \* Pipeline's variables that have no meaning inside one stage

(***************************************************************************)
(* 1. Designs (coordinates are fractions of the die D = <<W, H, S>>)       *)
(***************************************************************************)
SoftAt(nm, a, x, y) == <<nm, "soft", a, 1, x, y>>
FPinAt(nm, x, y) == <<nm, "fpin", 0, 1, x, y>>
BlockAt(nm, D, per, x, y) == <<nm, "block", BlockArea(D, per), 1, x, y>>       \* W/4 x H/4
Net2(w, a, b) == <<w, <<a, b>>>>
Design(nm, D, per) ==
  LET W == D[1]  H == D[2]
      A == SoftAt("A", 1000, W \div 4, H \div 4)
      B == SoftAt("B", 2000, W - W \div 4, H \div 4)
      C == SoftAt("C", 1000, W \div 2, H - H \div 4)
      P == FPinAt("P", 0, H \div 2)
      K == BlockAt("K", D, per, W - W \div 8, H - H \div 8)
  IN CASE nm = "mixed" -> [mods |-> <<A, B, C, P, K>>,
                           nets |-> <<Net2(1000, "A", "B"), Net2(2000, "B", "C"), Net2(1000, "P", "A"), Net2(1000, "K", "C"),
                                      <<1000, <<"A", "B", "C">>>> >>]
       [] nm = "allfixed" -> [mods |-> <<P, K, BlockAt("L", D, per, W \div 4, H \div 4)>>,
                              nets |-> <<Net2(1000, "P", "K"), Net2(1000, "K", "L")>>]
       [] nm = "one" -> [mods |-> <<A>>, nets |-> <<>>]
       [] nm = "nonets" -> [mods |-> <<A, B>>, nets |-> <<>>]
       [] nm = "pinnets" -> [mods |-> <<A, B, P, FPinAt("Q", W, H \div 2)>>, nets |-> <<Net2(1000, "P", "Q")>>]
       [] nm = "two" -> [mods |-> <<A, B>>, nets |-> <<Net2(1000, "A", "B")>>]
       [] nm = "coincident" -> [mods |-> <<SoftAt("A", 1000, W \div 2, H \div 2), SoftAt("B", 2000, W \div 2, H \div 2),
                                           SoftAt("C", 1000, W \div 2, H \div 2)>>,
                                nets |-> <<Net2(1000, "A", "B"), Net2(1000, "B", "C")>>]
       [] nm = "border" -> [mods |-> <<SoftAt("A", 1000, 0, 0), SoftAt("B", 2000, W, H), SoftAt("C", 1000, W, 0)>>,
                            nets |-> <<Net2(1000, "A", "B"), Net2(1000, "B", "C")>>]
       \* a hard module that may move: two W/4 x H/4 rectangles stacked at the die centre, centroid (W/2, 5H/8)
       [] nm = "hardmov" -> [mods |-> <<A, <<"H", "hard", 2 * BlockArea(D, per), 1, W \div 2, (5 * H) \div 8>>>>,
                             nets |-> <<Net2(1000, "A", "H")>>]
       [] nm = "movpin" -> [mods |-> <<A, B, <<"T", "pin", 0, 1, W, 0>>>>, nets |-> <<Net2(1000, "A", "B"), Net2(1000, "T", "B")>>]
       [] nm = "nocentre" -> [mods |-> <<<<"A", "soft", 1000, 0, 0, 0>>, B>>, nets |-> <<Net2(1000, "A", "B")>>]

(***************************************************************************)
(* 2. Contracts (value level, shared with ForceToolTrace)                  *)
(***************************************************************************)
\* what the stage needs from the netlist it loads: a readable FPEF in which every module has a centre
KINDS5 == {"soft", "block", "fpin", "pin", "hard"}
Readable(d) == /\ Len(d.mods) > 0
               /\ \A i, j \in DOMAIN d.mods : i # j => MName(d.mods[i]) # MName(d.mods[j])
               /\ \A i \in DOMAIN d.mods : MKind(d.mods[i]) \in KINDS5
               /\ \A i \in DOMAIN d.nets : d.nets[i][1] > 0 /\ Len(d.nets[i][2]) >= 2
                                           /\ \A j \in DOMAIN d.nets[i][2] : d.nets[i][2][j] \in Names(d)
LoadPre(d) == Readable(d) /\ AllHaveCentres(d)
OptsOK(o) == o.unk = 0 /\ o.nl # "absent" /\ o.dieopt # "absent"          \* argparse level
FilesOK(o) == o.nl = "ok" /\ o.dieopt = "ok"                               \* the named files / die string are usable

\* add_noise: "some noise": every centre moves by at most NOISE per coordinate; a fixed module does not move
NoisePost(rd, wr) ==
  [ noise_keeps_design |-> SameModules(rd, wr) /\ SameKinds(rd, wr) /\ SameAreas(rd, wr) /\ SameNets(rd, wr),
    noise_is_small |-> \A nm \in Names(rd) \cap Names(wr) : LET p == ModOf(rd, nm)  q == ModOf(wr, nm) IN
                          MHas(q) = 1 /\ Abs(MX(q) - MX(p)) <= NOISE + TOL /\ Abs(MY(q) - MY(p)) <= NOISE + TOL,
    noise_leaves_fixed_modules |-> FixedUnmoved(rd, wr) ]

\* gekko_common.Model(die): one row per module, in order; a module that is not fixed is a variable pair with the
\* bounds of the die and its centre as initial value; a fixed module is the pair of constants of its centre
ModelOf(d, D) == [ i \in DOMAIN d.mods |->
                     IF IsFixedKind(MKind(d.mods[i])) THEN <<0, 0, 0, 0, 0, MX(d.mods[i]), MY(d.mods[i])>>
                     ELSE <<1, 0, D[1], 0, D[2], MX(d.mods[i]), MY(d.mods[i])>> ]
ModelShape(m, d, D) ==
  [ model_row_per_module |-> Len(m) = Len(d.mods),
    model_variables_are_the_movable_modules |->
        Len(m) = Len(d.mods) => \A i \in DOMAIN m : (m[i][1] = 1) = ~IsFixedKind(MKind(d.mods[i])),
    model_bounds_are_the_die |->
        \A i \in DOMAIN m : m[i][1] = 1 => /\ Abs(m[i][2]) <= TOL /\ Abs(m[i][3] - D[1]) <= TOL
                                            /\ Abs(m[i][4]) <= TOL /\ Abs(m[i][5] - D[2]) <= TOL,
    model_values_are_the_centres |->
        Len(m) = Len(d.mods) => \A i \in DOMAIN m : Abs(m[i][6] - MX(d.mods[i])) <= TOL /\ Abs(m[i][7] - MY(d.mods[i])) <= TOL ]
\* extract_solution(model, die): the centre of every module that is not fixed := the value of its variables
ExtractOf(m, d) == [mods |-> [ i \in DOMAIN d.mods |->
                                 IF m[i][1] = 1 THEN <<MName(d.mods[i]), MKind(d.mods[i]), MArea(d.mods[i]), 1, m[i][6], m[i][7]>>
                                 ELSE d.mods[i] ],
                    nets |-> d.nets]
SameCentres(a, b) == \A nm \in Names(a) \cap Names(b) : LET p == ModOf(a, nm)  q == ModOf(b, nm) IN
                        MHas(p) = MHas(q) /\ Abs(MX(p) - MX(q)) <= TOL /\ Abs(MY(p) - MY(q)) <= TOL
\* a relocation step (Kamada-Kawai solve + extract, force_algorithm): PlacePost of Pipeline.tla
RelocPost(rd, wr, D, bs) == PlacePost(rd, wr, D, bs)

\* what the stage leaves behind when it ends normally
WritePost(o, mem, od, fs, bs, D) ==
  [ output_file_iff_requested |-> ("out" \in fs) = (o.out = 1),
    gif_iff_requested |-> ("gif" \in fs) = (o.vis = 1),
    output_readable_by_next_stage |-> o.out = 1 => LoadPre(od),
    output_same_design |-> o.out = 1 => (SameModules(bs, od) /\ SameKinds(bs, od) /\ SameAreas(bs, od) /\ SameNets(bs, od)),
    output_fixed_unmoved |-> o.out = 1 => FixedUnmoved(bs, od),
    output_movable_in_die |-> o.out = 1 => MovablePlaced(od, D),
    \* the file says where the stage put the modules: the next reader finds every centre the stage computed
    output_conveys_relocation |-> o.out = 1 => SameCentres(mem, od) ]

(***************************************************************************)
(* 3. The state machine                                                    *)
(***************************************************************************)
FP == POS        \* positions a relocation step may give a movable module (model only): Pipeline's POSSEL
OPTS == [nl : {"ok", "absent", "nofile"}, dieopt : {"ok", "absent", "nofile", "bad"}, out : {0, 1}, vis : {0, 1}, unk : {0, 1}]

FInit == /\ Init /\ pc = "args" /\ opts = [nl |-> "ok", dieopt |-> "ok", out |-> 0, vis |-> 0, unk |-> 0] /\ design = ""
         /\ infile = NoNet /\ model = <<>> /\ files = {} /\ outdoc = NoNet

\* the invocation: a command line, an input file, a die
Invoke(o, nm, D) == /\ pc = "args" /\ design = ""
                    /\ opts' = o /\ design' = nm /\ die' = D /\ infile' = Design(nm, D, 8)
                    /\ UNCHANGED <<pc, base, net, model, files, outdoc>> /\ Frozen
PickInvocation == \E o \in OPTS, nm \in DESIGNS, D \in DIES :
             /\ (o.nl # "ok" \/ o.dieopt # "ok" \/ o.unk = 1) => (o.out = 1 /\ o.vis = 0 /\ nm = "two")     \* one design suffices for the rejections
             /\ o.vis = 1 => nm \in VISFOR
             /\ Invoke(o, nm, D)

Reject == pc' = "rejected" /\ UNCHANGED <<opts, design, infile, die, base, net, model, files, outdoc>> /\ Frozen
AcceptArgs == pc' = "load" /\ UNCHANGED <<opts, design, infile, die, base, net, model, files, outdoc>> /\ Frozen
ParseArgs == /\ ~EMIT /\ pc = "args" /\ design # ""
             /\ IF OptsOK(opts) THEN AcceptArgs ELSE Reject
\* Netlist(file), Die(die, netlist)
LoadTo(doc) == /\ pc = "load" /\ net' = doc /\ base' = doc /\ pc' = "noise"
               /\ UNCHANGED <<opts, design, infile, die, model, files, outdoc>> /\ Frozen
Load == /\ ~EMIT /\ pc = "load"
        /\ IF FilesOK(opts) /\ LoadPre(infile) THEN LoadTo(infile) ELSE Reject

StepTo(p, doc) == /\ net' = doc /\ pc' = p /\ UNCHANGED <<opts, design, infile, die, base, model, files, outdoc>> /\ Frozen
\* add_noise: movable modules shift by at most NOISE (here: not at all, or by NOISE in x -- possibly out of the die)
AddNoise == /\ ~EMIT /\ pc = "noise"
            /\ \E s \in {-NOISE, 0, NOISE} :
                 StepTo("model", [mods |-> [ i \in DOMAIN net.mods |->
                                               IF IsMovable(net.mods[i])
                                               THEN <<MName(net.mods[i]), MKind(net.mods[i]), MArea(net.mods[i]), 1, MX(net.mods[i]) + s, MY(net.mods[i])>>
                                               ELSE net.mods[i] ],
                                   nets |-> net.nets])
\* kamada_kawai_layout, part 1: m = Model(die)
BuildModelTo(m) == /\ pc = "model" /\ model' = m /\ pc' = "solve"
                   /\ UNCHANGED <<opts, design, infile, die, base, net, files, outdoc>> /\ Frozen
BuildModel == ~EMIT /\ BuildModelTo(ModelOf(net, die))
\* part 2: GEKKO gives every variable a value inside its bounds (a model without variables has nothing to solve), or
\* reports that it found no solution and the stage fails
Fail == pc' = "failed" /\ UNCHANGED <<opts, design, infile, die, base, net, model, files, outdoc>> /\ Frozen
SolveTo(m) == /\ pc = "solve" /\ model' = m /\ pc' = "extract"
              /\ UNCHANGED <<opts, design, infile, die, base, net, files, outdoc>> /\ Frozen
SolveKK == /\ ~EMIT /\ pc = "solve"
           /\ \/ \E f \in [ { i \in DOMAIN model : model[i][1] = 1 } -> { p \in FP : p[1] <= die[1] /\ p[2] <= die[2] } ] :
                    SolveTo([ i \in DOMAIN model |-> IF model[i][1] = 1
                                                      THEN <<1, model[i][2], model[i][3], model[i][4], model[i][5], f[i][1], f[i][2]>>
                                                      ELSE model[i] ])
              \/ Fail
\* part 3: extract_solution(m, die)
ExtractKK == ~EMIT /\ pc = "extract" /\ StepTo("fr", ExtractOf(model, net))
\* force_algorithm: the C13 contract
RelocTo(doc) == pc = "fr" /\ StepTo(IF opts.vis = 1 THEN "gif" ELSE "write", doc)
ForceAlgorithm == ~EMIT /\ pc = "fr" /\ \E doc \in Placed(net, die) : RelocTo(doc)
SaveGif == /\ ~EMIT /\ pc = "gif" /\ files' = files \cup {"gif"} /\ pc' = "write"
           /\ UNCHANGED <<opts, design, infile, die, base, net, model, outdoc>> /\ Frozen
WriteTo(fs, od) == /\ pc = "write" /\ files' = fs /\ outdoc' = od /\ pc' = "done"
                   /\ UNCHANGED <<opts, design, infile, die, base, net, model>> /\ Frozen
Write == ~EMIT /\ (IF opts.out = 1 THEN WriteTo(files \cup {"out"}, net) ELSE WriteTo(files, NoNet))

EmitF == /\ EMIT /\ pc = "args" /\ design # "" /\ pc' = "emitted"
         /\ UNCHANGED <<opts, design, infile, die, base, net, model, files, outdoc>> /\ Frozen
         /\ PrintT(ToJson([ opts |-> opts, design |-> design, die |-> <<die[1] \div 8, die[2] \div 8>> ]))

FNext == PickInvocation \/ ParseArgs \/ Load \/ AddNoise \/ BuildModel \/ SolveKK \/ ExtractKK \/ ForceAlgorithm \/ SaveGif
         \/ Write \/ EmitF
FSpec == FInit /\ [][FNext]_fvars

(***************************************************************************)
(* 4. Invariants: the frame conditions of the stage                        *)
(***************************************************************************)
Loaded == pc \in {"noise", "model", "solve", "extract", "fr", "gif", "write", "done", "failed"}
FTypeOK == /\ pc \in {"args", "load", "noise", "model", "solve", "extract", "fr", "gif", "write", "done", "rejected", "failed", "emitted"}
           /\ files \subseteq {"out", "gif"}
\* the input file is never written
InputFileUntouched == [][design # "" => infile' = infile]_fvars
\* an invocation that cannot be served is rejected before anything is written; a failed solve writes nothing either
RejectedWritesNothing == pc \in {"rejected", "failed"} => files = {} /\ outdoc = NoNet
RejectedIffUnservable == /\ (pc = "rejected" => ~(OptsOK(opts) /\ FilesOK(opts) /\ LoadPre(infile)))
                         /\ (Loaded => (OptsOK(opts) /\ FilesOK(opts) /\ LoadPre(infile)))
\* what is in memory is always the loaded design with other centres; fixed modules never move
DesignInMemory == Loaded => /\ SameModules(base, net) /\ SameKinds(base, net) /\ SameAreas(base, net) /\ SameNets(base, net)
                            /\ base = infile
FixedNeverMove == Loaded => FixedUnmoved(base, net)
\* the GEKKO model has exactly the documented shape, and extracting from a model that was not solved changes nothing
ModelAsDocumented == pc = "solve" => Failing(ModelShape(model, net, die)) = {} /\ ExtractOf(model, net) = net
SolvedInsideBounds == pc = "extract" => \A i \in DOMAIN model : model[i][1] = 1 =>
                         /\ model[i][2] <= model[i][6] /\ model[i][6] <= model[i][3] /\ model[i][4] <= model[i][7] /\ model[i][7] <= model[i][5]
\* after the Kamada-Kawai step and after force_algorithm every movable module is inside the die (the noise may have left it)
InDieAfterRelocation == pc \in {"fr", "gif", "write", "done"} => MovablePlaced(net, die)
\* the stage ends with exactly the files that were asked for, and the output file is the netlist in memory
EndState == pc = "done" => /\ Failing(WritePost(opts, net, outdoc, files, base, die)) = {}
                           /\ (opts.out = 1 => outdoc = net)
NothingWrittenEarly == pc \notin {"write", "done"} => outdoc = NoNet /\ "out" \notin files
=============================================================================
