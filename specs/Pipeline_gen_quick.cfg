SPECIFICATION Spec
CONSTANTS
  TYPES = {"chain", "ring", "star", "ring-star", "one-net"}
  SIZES = {5}
  GRIDS = {203}
  HLEVELS = {2}
  DIESEL = {404, 603}
  EDITS = {"none", "fpin", "block", "fpin+block", "pin"}
  GCELLS = {1}
  POSSEL = {0}
  TOL = 0
  COMTOL = 0
  EMIT = TRUE
CHECK_DEADLOCK FALSE
