SPECIFICATION Spec
CONSTANTS
  MAXROWS = 5
  MAXCOLS = 5
  MAXCELLS = 16
  DECLCELLS = 12
  EMIT = TRUE

CHECK_DEADLOCK FALSE
