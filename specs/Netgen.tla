------------------------------- MODULE Netgen -------------------------------
(***************************************************************************)
(* NETGEN -- tools/netgen/netgen.py, the netlist generator.                *)
(*                                                                         *)
(* What the tool promises is spread over its help text, its README and the *)
(* docstrings of its gen_* functions; this module turns that into ONE      *)
(* definition: Design(case) = the design the command line `case` must      *)
(* produce, as TLA+ sets.                                                  *)
(*   README        "size can be followed by one or two positive integers,  *)
(*                  indicating the number of modules"; grid = rows columns *)
(*   module_name   "M<i>" / "M<i>_<j>"                                     *)
(*   gen_modules   "area of each module" (main passes 1); centres only for *)
(*                 grids: ((0.5+c) * W/columns, (0.5+r) * H/rows) + noise  *)
(*   gen_chain / gen_ring / gen_star "one node in the middle, n = total    *)
(*   number of modules" / gen_ring_star "a ring, including one node in the *)
(*   middle connected to all the other nodes" / gen_one_net "only one net  *)
(*   that connects all nodes" / gen_grid / gen_htree "number of levels"    *)
(*   help          --add-centers "only supported for grid type, and        *)
(*                 requires to specify the die"; --add-noise / --seed /    *)
(*                 --die "used only if --add-centers is present"           *)
(* The H-tree has no more documentation than its name and "levels": its    *)
(* shape (a centre, two arms, four sub-trees hanging from the centre and   *)
(* from the arms, edge weights doubling per level) is taken from the code  *)
(* as the definition of record and said so in the as-built note.           *)
(*                                                                         *)
(* A net is <<set of module names, weight>>; a design is                   *)
(*   [mods |-> <<names in generation order>>, nets |-> set of nets,        *)
(*    centers |-> <<>> | << <<xn,xd,yn,yd>> per module >>]  (area 1 each). *)
(*                                                                         *)
(* Three classes of command lines:                                         *)
(*   Nonsense    wrong number of sizes, a size <= 0, --add-centers on a    *)
(*               non-grid / without die / with a negative deviation:       *)
(*               must be REJECTED, not answered with some document         *)
(*   Degenerate  positive sizes for which the topology is not a proper     *)
(*               graph (ring of 1-2, ring-star of 1-3, one net of 1 pin):  *)
(*               rejected, or at least a PROPER design (no self-loop, no   *)
(*               repeated net, >= 2 distinct declared pins per net)        *)
(*   Defined     everything else: the output is Design(case), is loaded by *)
(*               the reader, and the same command line gives the same file *)
(*                                                                         *)
(* State machine: Choose a command line, Build its design; TLC checks the  *)
(* structural lemmas on every built design and (EMIT) prints the cases.    *)
(***************************************************************************)
EXTENDS Integers, FiniteSets, Sequences, FiniteSetsExt, SequencesExt, TLC, Json

CONSTANTS NMAX,      \* largest size of the one-parameter topologies
          GMAX,      \* largest number of rows / columns
          LMAX,      \* largest number of H-tree levels
          EMIT

VARIABLES phase, case, design
vars == <<phase, case, design>>

(***************************************************************************)
(* Names and nets                                                          *)
(***************************************************************************)
M(i) == "M" \o ToString(i)
MG(r, c) == "M" \o ToString(r) \o "_" \o ToString(c)
E(a, b, w) == <<{a, b}, w>>
Types1 == {"chain", "ring", "star", "ring-star", "one-net", "htree"}

\* the H-tree of the code: centre f, arms f+1 / f+2, four sub-trees; weight w on this level, 2w below
RECURSIVE HT(_, _, _)
HT(L, w, f) ==
  IF L = 1 THEN [mods |-> <<M(f)>>, nets |-> {}, next |-> f + 1]
  ELSE LET s1 == HT(L - 1, 2 * w, f + 3)
           s2 == HT(L - 1, 2 * w, s1.next)
           s3 == HT(L - 1, 2 * w, s2.next)
           s4 == HT(L - 1, 2 * w, s3.next)
           cs == <<f + 3, s1.next, s2.next, s3.next>>
       IN [mods |-> <<M(f), M(f + 1), M(f + 2)>> \o s1.mods \o s2.mods \o s3.mods \o s4.mods,
           nets |-> {E(M(f + 1), M(f), w), E(M(f + 2), M(f), w)}
                    \cup {E(M(f), M(cs[k]), w) : k \in 1..4}
                    \cup {E(M(f + 1), M(cs[1]), w), E(M(f + 1), M(cs[2]), w), E(M(f + 2), M(cs[3]), w), E(M(f + 2), M(cs[4]), w)}
                    \cup s1.nets \cup s2.nets \cup s3.nets \cup s4.nets,
           next |-> s4.next]

Topology(typ, size) ==
  LET n == size[1] IN
  CASE typ = "chain" -> [mods |-> [i \in 1..n |-> M(i - 1)], nets |-> {E(M(i), M(i + 1), 1) : i \in 0..(n - 2)}]
    [] typ = "ring" -> [mods |-> [i \in 1..n |-> M(i - 1)], nets |-> {E(M(i), M((i + 1) % n), 1) : i \in 0..(n - 1)}]
    [] typ = "star" -> [mods |-> [i \in 1..n |-> M(i - 1)], nets |-> {E(M(0), M(i), 1) : i \in 1..(n - 1)}]
    [] typ = "ring-star" -> [mods |-> [i \in 1..n |-> M(i - 1)],
                             nets |-> {E(M(0), M(i), 1) : i \in 1..(n - 1)}
                                      \cup {E(M(i), M(IF i = n - 1 THEN 1 ELSE i + 1), 1) : i \in 1..(n - 1)}]
    [] typ = "one-net" -> [mods |-> [i \in 1..n |-> M(i - 1)], nets |-> { <<{M(i) : i \in 0..(n - 1)}, 1>> }]
    [] typ = "htree" -> LET t == HT(n, 1, 0) IN [mods |-> t.mods, nets |-> t.nets]
    [] typ = "grid" ->
         LET rows == size[1]  cols == size[2] IN
         [mods |-> [k \in 1..(rows * cols) |-> MG((k - 1) \div cols, (k - 1) % cols)],
          nets |-> {E(MG(r, c), MG(r, c + 1), 1) : r \in 0..(rows - 1), c \in 0..(cols - 2)}
                   \cup {E(MG(r, c), MG(r + 1, c), 1) : r \in 0..(rows - 2), c \in 0..(cols - 1)}]

(***************************************************************************)
(* Command lines.  case = [typ, size, centers (0/1), die = <<>> | <<Wn,Wd,  *)
(* Hn,Hd>>, dieform, noise = [form "none"|"flag"|"value", v <<n,d>>],      *)
(* seed (-1 = absent)]                                                     *)
(***************************************************************************)
Arity(typ) == IF typ = "grid" THEN 2 ELSE 1
Sd(c) == IF c.noise.form = "none" THEN <<0, 1>> ELSE IF c.noise.form = "flag" THEN <<1, 10>> ELSE c.noise.v
Nonsense(c) ==
  \/ Len(c.size) # Arity(c.typ)
  \/ \E k \in DOMAIN c.size : c.size[k] <= 0
  \/ (c.centers = 1 /\ (c.typ # "grid" \/ c.die = <<>> \/ Sd(c)[1] < 0))
Degenerate(c) == /\ ~Nonsense(c)
                 /\ \/ c.typ = "ring" /\ c.size[1] < 3
                    \/ c.typ = "ring-star" /\ c.size[1] < 4
                    \/ c.typ = "one-net" /\ c.size[1] < 2
Defined(c) == ~Nonsense(c) /\ ~Degenerate(c)

\* centre of grid cell (r, c): ((2c+1) W / (2 columns), (2r+1) H / (2 rows)) as fractions (not reduced)
GridCenter(c, r, col) == <<(2 * col + 1) * c.die[1], 2 * c.size[2] * c.die[2], (2 * r + 1) * c.die[3], 2 * c.size[1] * c.die[4]>>
Design(c) ==
  LET t == Topology(c.typ, c.size) IN
  [mods |-> t.mods, nets |-> t.nets,
   \* --add-noise / --seed / --die are "used only if --add-centers is present"
   centers |-> IF c.centers = 1
               THEN [k \in 1..Len(t.mods) |-> GridCenter(c, (k - 1) \div c.size[2], (k - 1) % c.size[2])]
               ELSE <<>>]
NoDesign == [mods |-> <<>>, nets |-> {}, centers |-> <<>>]

(***************************************************************************)
(* Graph notions                                                           *)
(***************************************************************************)
Nodes(g) == {g.mods[i] : i \in DOMAIN g.mods}
Adj(g, S) == S \cup UNION {e[1] : e \in {x \in g.nets : x[1] \cap S # {}}}
RECURSIVE Reach(_, _)
Reach(g, S) == LET T == Adj(g, S) IN IF T = S THEN S ELSE Reach(g, T)
Connected(g) == Nodes(g) = {} \/ Reach(g, {g.mods[1]}) = Nodes(g)
Degree(g, v) == Cardinality({e \in g.nets : v \in e[1]})
\* a proper design: distinct names, every net joins >= 2 distinct declared modules (sets cannot repeat a net or a pin)
Proper(g) == /\ Cardinality(Nodes(g)) = Len(g.mods)
             /\ \A e \in g.nets : Cardinality(e[1]) >= 2 /\ e[1] \subseteq Nodes(g) /\ e[2] > 0
RECURSIVE Pow(_, _)
Pow(b, k) == IF k = 0 THEN 1 ELSE b * Pow(b, k - 1)

(***************************************************************************)
(* The universe of command lines                                           *)
(***************************************************************************)
NoNoise == [form |-> "none", v |-> <<0, 1>>]
Plain(typ, size) == [typ |-> typ, size |-> size, centers |-> 0, die |-> <<>>, dieform |-> "none", noise |-> NoNoise, seed |-> -1]
Dies == { <<8, 1, 6, 1>>, <<15, 2, 3, 1>> }          \* "8x6", "7.5x3"
Noises == { NoNoise, [form |-> "flag", v |-> <<1, 10>>], [form |-> "value", v |-> <<1, 2>>] }
Cases ==
  \* every one-parameter topology at every size from -1 (nonsense) up
  { Plain(t, <<k>>) : t \in Types1 \ {"htree"}, k \in -1..NMAX }
  \cup { Plain("htree", <<k>>) : k \in -1..LMAX }
  \cup { Plain("grid", <<r, c>>) : r \in 0..GMAX, c \in 0..GMAX }
  \* wrong number of sizes
  \cup { Plain("grid", <<3>>), Plain("grid", <<2, 2, 2>>), Plain("chain", <<3, 2>>), Plain("htree", <<2, 2>>) }
  \* centres on grids: die given as WxH or as a file, with / without noise, seeds
  \cup { [Plain("grid", <<r, c>>) EXCEPT !.centers = 1, !.die = dd, !.dieform = df, !.noise = nz, !.seed = sd] :
            r \in 1..3, c \in 1..3, dd \in Dies, df \in {"WxH", "file"}, nz \in Noises, sd \in {-1, 7} }
  \* nonsense around --add-centers
  \cup { [Plain("ring", <<4>>) EXCEPT !.centers = 1, !.die = <<8, 1, 6, 1>>, !.dieform = "WxH"],
         [Plain("grid", <<2, 2>>) EXCEPT !.centers = 1],
         [Plain("grid", <<2, 2>>) EXCEPT !.centers = 1, !.die = <<8, 1, 6, 1>>, !.dieform = "WxH", !.noise = [form |-> "value", v |-> <<-1, 2>>]] }
  \* options that are "used only if --add-centers is present" given without it: no effect
  \cup { [Plain("grid", <<2, 3>>) EXCEPT !.die = <<8, 1, 6, 1>>, !.dieform = "WxH", !.noise = [form |-> "value", v |-> <<1, 2>>], !.seed = 7],
         [Plain("star", <<5>>) EXCEPT !.noise = [form |-> "flag", v |-> <<1, 10>>], !.seed = 3] }

(***************************************************************************)
(* State machine                                                           *)
(***************************************************************************)
Init == phase = "choose" /\ case = Plain("chain", <<1>>) /\ design = NoDesign
Choose == /\ phase = "choose" /\ \E c \in Cases : case' = c
          /\ phase' = "chosen" /\ UNCHANGED design
Build == /\ phase = "chosen" /\ ~EMIT /\ Defined(case)
         /\ design' = Design(case) /\ phase' = "built" /\ UNCHANGED case
Refuse == /\ phase = "chosen" /\ ~EMIT /\ ~Defined(case)
          /\ phase' = (IF Nonsense(case) THEN "refused" ELSE "degenerate") /\ UNCHANGED <<case, design>>
Emit == /\ phase = "chosen" /\ EMIT /\ phase' = "emitted" /\ UNCHANGED <<case, design>>
        /\ PrintT(ToJson([case |-> case, class |-> IF Nonsense(case) THEN "nonsense" ELSE IF Degenerate(case) THEN "degenerate" ELSE "defined"]))
Next == Choose \/ Build \/ Refuse \/ Emit
Spec == Init /\ [][Next]_vars

(***************************************************************************)
(* Structural lemmas on every defined design                               *)
(***************************************************************************)
Built == phase = "built"
n1 == case.size[1]
InvProper == Built => Proper(design)
InvConnected == Built => Connected(design)
InvCounts == Built =>
  CASE case.typ = "chain" -> Len(design.mods) = n1 /\ Cardinality(design.nets) = n1 - 1
    [] case.typ = "ring" -> Len(design.mods) = n1 /\ Cardinality(design.nets) = n1
    [] case.typ = "star" -> Len(design.mods) = n1 /\ Cardinality(design.nets) = n1 - 1
    [] case.typ = "ring-star" -> Len(design.mods) = n1 /\ Cardinality(design.nets) = 2 * (n1 - 1)
    [] case.typ = "one-net" -> Len(design.mods) = n1 /\ Cardinality(design.nets) = 1
    [] case.typ = "htree" -> /\ Len(design.mods) = 2 * Pow(4, n1 - 1) - 1
                             /\ 3 * Cardinality(design.nets) = 10 * (Pow(4, n1 - 1) - 1)
    [] case.typ = "grid" -> /\ Len(design.mods) = case.size[1] * case.size[2]
                            /\ Cardinality(design.nets) = case.size[1] * (case.size[2] - 1) + case.size[2] * (case.size[1] - 1)
InvDegrees == Built => \A v \in Nodes(design) :
  CASE case.typ = "chain" -> Degree(design, v) <= 2 /\ (n1 > 1 => Degree(design, v) >= 1)
    [] case.typ = "ring" -> Degree(design, v) = 2
    [] case.typ = "star" -> IF v = M(0) THEN Degree(design, v) = n1 - 1 ELSE Degree(design, v) = 1
    [] case.typ = "ring-star" -> IF v = M(0) THEN Degree(design, v) = n1 - 1 ELSE Degree(design, v) = 3
    [] case.typ = "one-net" -> Degree(design, v) = 1
    [] case.typ = "htree" -> Degree(design, v) <= 8
    [] case.typ = "grid" -> Degree(design, v) <= 4
\* all nets are two-pin nets of weight 1, except the single net of one-net and the level weights 2^k of the H-tree
InvWeights == Built => \A e \in design.nets :
  /\ (case.typ # "one-net" => Cardinality(e[1]) = 2)
  /\ (case.typ # "htree" => e[2] = 1)
  /\ (case.typ = "htree" => \E k \in 0..(n1 - 2) : e[2] = Pow(2, k))
\* grid centres lie strictly inside the die, one per module, rows bottom-up and columns left to right
InvCenters == Built =>
  IF case.centers = 0 THEN design.centers = <<>>
  ELSE /\ Len(design.centers) = Len(design.mods)
       /\ \A k \in DOMAIN design.centers :
             LET p == design.centers[k] IN
             /\ 0 < p[1] /\ p[1] * case.die[2] < case.die[1] * p[2]
             /\ 0 < p[3] /\ p[3] * case.die[4] < case.die[3] * p[4]
\* the three classes partition the command lines, and each is inhabited (checked by the driver on the emitted cases)
InvClasses == phase \in {"built", "refused", "degenerate"} =>
  /\ (phase = "built" <=> Defined(case)) /\ (phase = "refused" <=> Nonsense(case)) /\ (phase = "degenerate" <=> Degenerate(case))
=============================================================================
