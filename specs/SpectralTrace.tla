--------------------------- MODULE SpectralTrace ---------------------------
(***************************************************************************)
(* C14, code -> spec: batch validation of observed runs of                 *)
(* Spectral.spectral_layout.                                               *)
(*                                                                         *)
(* One TLC initial state per recorded run.  The harness logs, through      *)
(* wrappers on tools.spectral.spectral.spectral_layout_die and             *)
(* tools.spectral.spectral_algorithm.normalize, the events of the machine  *)
(* of Spectral.tla, every number quantised to integer micro-units          *)
(* (1e-6 of the larger die side):                                          *)
(*                                                                         *)
(*   seed      a, b = the x / y vectors handed to the first normalize       *)
(*   norm      d, a = vector before, b = vector after the call before the   *)
(*             loop of dimension d                                          *)
(*   step      d, k, a, b = k-th loop body: a = what the power iteration    *)
(*             produced (before normalize), b = after.  Only a sample of    *)
(*             the up to 10000 iterations is logged; the machine allows     *)
(*             any vector in between, so skipping is sound                  *)
(*   enddim                                                                 *)
(*   endtrial  a, b = the coordinates returned, w = wire length             *)
(*   commit    T.final = centres, rectangles, areas, nets after the call    *)
(*                                                                         *)
(* Each event is consumed by the step that mirrors the action of Spectral  *)
(* (same variables, same value-level contract operators); the verdict is   *)
(* TOTAL: a false property clause is added to `fails`, a false conformance *)
(* item ("d_...") to `drift`, and the machine goes on with the observed    *)
(* values.  TOL (cfg) absorbs the quantisation: every observed number is   *)
(* rounded to the nearest micro-unit, so sums of two differ by <= 1.       *)
(***************************************************************************)
EXTENDS Spectral, IOUtils

Batch == JsonDeserialize(IOEnv.TRACE_FILE)

VARIABLES tid, l, fails, drift, results
tvars == <<vars, tid, l, fails, drift, results>>

T == Batch[tid]
NetOf(t) == [ half |-> t.half, kind |-> t.kind, area |-> t.area, rad |-> t.rad, rects |-> t.rects, p0 |-> t.p0,
              edges |-> t.edges, trials |-> t.trials, round |-> 1 ]

TraceInit == /\ tid \in 1..Len(Batch) /\ l = 1 /\ fails = {} /\ drift = {} /\ results = <<>>
             /\ net = NetOf(Batch[tid])
             /\ pc = "seed" /\ trial = 1 /\ dim = 1 /\ iter = 0 /\ pre = <<>> /\ coord = <<>>
             /\ best = NoBest /\ pos = <<>>
             /\ rects = net.rects /\ area = net.area /\ edges = net.edges

\* a record of booleans -> the names that are false, split into property clauses and conformance items
Bad(cl) == { k \in DOMAIN cl : ~cl[k] }
IsDrift(k) == k \in { "d_fixed_kept", "d_sign", "d_monotone", "d_tight", "d_seed_range", "d_commit_is_best", "d_order", "d_input",
                      "d_returned_last", "d_radius", "d_soft_rects_kept" }
Judge(cl) == /\ fails' = fails \cup { <<l, k>> : k \in { kk \in Bad(cl) : ~IsDrift(kk) } }
             /\ drift' = drift \cup { <<l, k>> : k \in { kk \in Bad(cl) : IsDrift(kk) } }
\* the order of events is only meaningful when the per-step wrappers were installed (T.steps = 1)
Ordered(b) == T.steps = 0 \/ b

ConsumeSeed(e) ==
  /\ Judge(SeedClauses(net, <<e.a, e.b>>, TOL) @@ ("d_order" :> Ordered(pc = "seed")))
  /\ coord' = <<e.a, e.b>> /\ pc' = "norm" /\ dim' = 1 /\ iter' = 0 /\ pre' = <<>>
  /\ UNCHANGED <<net, trial, best, pos, rects, area, edges, results>>

\* NormalizeTo(e.a) of the machine, with the observed result instead of NormalizeResult
ConsumeNorm(e) ==
  /\ Judge(NormalizeClauses(e.a, e.b, Span(net, e.d), FixedOf(net), TOL)
           @@ ("d_order" :> Ordered(pc = "norm" /\ dim = e.d))
           @@ ("d_input" :> (Len(coord) = 2 => e.a = coord[e.d])))
  /\ pre' = e.a /\ coord' = [ d \in 1..2 |-> IF d = e.d THEN e.b ELSE IF Len(coord) = 2 THEN coord[d] ELSE e.b ]
  /\ pc' = "iter" /\ dim' = e.d /\ iter' = 0
  /\ UNCHANGED <<net, trial, best, pos, rects, area, edges, results>>

\* Step of the machine: e.a is the vector the loop body produced; it must keep the fixed coordinates
ConsumeStep(e) ==
  LET cl == NormalizeClauses(e.a, e.b, Span(net, e.d), FixedOf(net), TOL) IN
  /\ Judge([ cl EXCEPT !.d_fixed_kept = @ /\ (Len(coord) = 2 => \A i \in FixedOf(net) : e.a[i] = coord[e.d][i]) ]
           @@ ("d_order" :> Ordered(pc = "iter" /\ dim = e.d /\ e.k > iter)))
  /\ pre' = e.a /\ coord' = [ d \in 1..2 |-> IF d = e.d THEN e.b ELSE IF Len(coord) = 2 THEN coord[d] ELSE e.b ]
  /\ iter' = e.k /\ pc' = "iter" /\ dim' = e.d
  /\ UNCHANGED <<net, trial, best, pos, rects, area, edges, results>>

ConsumeEndDim(e) ==
  /\ Judge([ d_order |-> Ordered(pc = "iter" /\ dim = 1) ])
  /\ dim' = 2 /\ iter' = 0 /\ pc' = "norm"
  /\ UNCHANGED <<net, trial, pre, coord, best, pos, rects, area, edges, results>>

\* EndTrialImprove / EndTrialKeep with the observed wire length
ConsumeEndTrial(e) ==
  LET c == <<e.a, e.b>> IN
  /\ Judge(TrialClauses(net, c, TOL)
           @@ ("d_order" :> Ordered(pc = "iter" /\ dim = 2))
           @@ ("d_returned_last" :> (T.steps = 1 /\ Len(coord) = 2 => c = coord)))
  /\ coord' = c
  /\ best' = IF ~best.has \/ e.w < best.wl THEN [ has |-> TRUE, wl |-> e.w, coord |-> c ] ELSE best
  /\ results' = Append(results, [ wl |-> e.w, coord |-> c ])
  /\ IF trial < net.trials THEN trial' = trial + 1 /\ pc' = "seed" ELSE trial' = trial /\ pc' = "commit"
  /\ UNCHANGED <<net, dim, iter, pre, pos, rects, area, edges>>

\* wire lengths are compared as quantised integers: every trial within one unit of the minimum may be "the best"
MinWl == Min({ results[t].wl : t \in DOMAIN results })
IsBestTrial(p) == \E t \in DOMAIN results :
                     /\ results[t].wl <= MinWl + 1
                     /\ \A i \in Nodes(net) : \A d \in 1..2 : Abs(p[i][d] - (results[t].coord[d][i] + net.half[d])) <= TOL
\* the radius supplied by the harness (sqrt(area/pi), which TLC cannot compute) is cross-checked coarsely against
\* the area FRAME reports: pi * r^2 ~ area, in units of 1000 micro-units (r) and 10^6 micro-units^2 (area[i][1] is in 10^3)
RadiusPlausible == \A i \in Nodes(net) :
   LET r == net.rad[i] \div 1000  a == net.area[i][1] \div 1000 IN
   355 * Mx(r - 1, 0) * Mx(r - 1, 0) <= 113 * (a + 1) /\ 113 * a <= 355 * (r + 2) * (r + 2)

ConsumeCommit(e) ==
  LET F == T.final
      cl == CommitClauses(net, F.pos, F.rects, F.area, F.edges, NoBest, TOL) IN
  /\ Judge([ cl EXCEPT !.d_commit_is_best = (results = <<>> \/ IsBestTrial(F.pos)) ]
           @@ ("d_order" :> Ordered(pc = "commit"))
           @@ ("d_radius" :> RadiusPlausible))
  /\ pos' = F.pos /\ rects' = F.rects /\ area' = F.area /\ edges' = F.edges /\ pc' = "done"
  /\ UNCHANGED <<net, trial, dim, iter, pre, coord, best, results>>

TStep == /\ l <= Len(T.events)
         /\ LET e == T.events[l] IN
              CASE e.t = "seed" -> ConsumeSeed(e)
                [] e.t = "norm" -> ConsumeNorm(e)
                [] e.t = "step" -> ConsumeStep(e)
                [] e.t = "enddim" -> ConsumeEndDim(e)
                [] e.t = "endtrial" -> ConsumeEndTrial(e)
                [] OTHER -> ConsumeCommit(e)
         /\ l' = l + 1 /\ UNCHANGED tid

Done == /\ l = Len(T.events) + 1
        /\ l' = l + 1
        /\ PrintT(ToJson([ tag |-> "VERDICT", id |-> T.id, fails |-> fails, drift |-> drift ]))
        /\ UNCHANGED <<vars, tid, fails, drift, results>>

TraceNext == TStep \/ Done
TraceSpec == TraceInit /\ [][TraceNext]_tvars
=============================================================================
