------------------------- MODULE KamadaKawaiTrace -------------------------
(***************************************************************************)
(* KK, code -> spec: batch validation of observed executions of            *)
(* tools/force/kamada_kawai.py.                                            *)
(*                                                                         *)
(* Two kinds of trace (field `kind`):                                      *)
(*  "setup"  netlist_to_matrix and get_all_shortest_path_lengths on a real *)
(*           Netlist (called directly, or seen by harness-side wrappers    *)
(*           inside kamada_kawai_layout).  The trace is consumed by the    *)
(*           graph machine's own actions CliqueStep ; PathsStep on the     *)
(*           observed netlist; Done judges the observed matrices with      *)
(*           JudgeSetup (docstring promises) and compares them with the    *)
(*           specification's matrices for the code as written (SetupDrift).*)
(*  "run"    one call of kamada_kawai_layout (executed twice on equal      *)
(*           inputs).  Consumed by Declare ; OptimizeTo(returned centres)  *)
(*           ; Commit of the layout machine -- a result outside the bounds *)
(*           Model declared is not a behaviour of the contract (drift) --  *)
(*           and judged by JudgeRun (property clauses).                    *)
(* Coordinates arrive in units of 1e-6 * max(W, H); matrix entries in 1/60 *)
(* (-1 = infinity).  Verdicts are total.                                   *)
(***************************************************************************)
EXTENDS KamadaKawai, IOUtils

Batch == JsonDeserialize(IOEnv.TRACE_FILE)

VARIABLES tid, l, fails, drift
tvars == <<vars, tid, l, fails, drift>>

T == Batch[tid]
IsSetup == T.kind = "setup"
Returned == T.kind = "run" /\ T.ret = 1
InBounds == \A j \in DOMAIN T.fin : Within(decl[j], T.fin[j])

TraceInit ==
  /\ tid \in 1..Len(Batch) /\ l = 1 /\ fails = {} /\ drift = {}
  /\ graph = NoMatrix /\ dist = NoMatrix /\ decl = <<>> /\ sig0 = "S" /\ sig = "S"
  /\ IF Batch[tid].kind = "setup"
     THEN LET o == Batch[tid] IN
          /\ pc = "nets" /\ n = o.n /\ nets = o.nets
          /\ W = 0 /\ H = 0 /\ kind = <<>> /\ pos0 = <<>> /\ pos = <<>>
     ELSE LET o == Batch[tid] IN
          /\ pc = "placed" /\ W = o.W /\ H = o.H
          /\ kind = [ j \in DOMAIN o.fx |-> IF o.fx[j] = 1 THEN "fixed" ELSE "soft" ]
          /\ pos0 = o.p0 /\ pos = o.p0
          /\ n = 0 /\ nets = <<>>

Step ==
  /\ l <= 3
  /\ IF IsSetup
     THEN CASE l = 1 -> CliqueStep
            [] l = 2 -> PathsStep
            [] OTHER -> UNCHANGED vars
     ELSE CASE l = 1 -> Declare
            [] l = 2 -> IF Returned /\ InBounds THEN OptimizeTo(T.fin) ELSE UNCHANGED vars
            [] OTHER -> IF pc = "optimized" THEN Commit ELSE UNCHANGED vars
  /\ l' = l + 1 /\ UNCHANGED <<tid, fails, drift>>

Done ==
  /\ l = 4
  /\ l' = l + 1
  /\ LET f == IF IsSetup THEN Failing(JudgeSetup(T, dist)) ELSE Failing(JudgeRun(T))
         d == IF IsSetup THEN SetupDrift(T) ELSE RunDrift(T)
     IN PrintT(ToJson([tag |-> "VERDICT", id |-> T.id,
                       fails |-> fails \cup { <<l, c>> : c \in f },
                       drift |-> drift \cup { <<l, c>> : c \in d }]))
  /\ UNCHANGED <<vars, tid, fails, drift>>

TraceNext == Step \/ Done
TraceSpec == TraceInit /\ [][TraceNext]_tvars
=============================================================================
