\* NETGEN: behaviour generation -- print every command line with its class (nonsense / degenerate / defined)
SPECIFICATION Spec
CONSTANTS
  NMAX = 24
  GMAX = 8
  LMAX = 5
  EMIT = TRUE
CHECK_DEADLOCK FALSE
