SPECIFICATION TraceSpec
CONSTANTS
  MAXROWS = 8
  MAXCOLS = 8
  MAXCELLS = 64
  DECLCELLS = 12
  EMIT = FALSE
CHECK_DEADLOCK FALSE
