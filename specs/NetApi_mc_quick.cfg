\* NETAPI: every action sequence of length <= 3 on the three netlists of NetApi!Docs, coherent cache discipline
SPECIFICATION Spec
CONSTANTS
  MAXLEN = 3
  EMIT = FALSE
  ASIS = FALSE
INVARIANT InvDocumented
INVARIANT InvCacheCoherent
INVARIANT InvViews
INVARIANT InvPure
INVARIANT InvLoadNormal
INVARIANT InvWriteRead
INVARIANT InvWLFollowsCentres
INVARIANT InvTypes
CHECK_DEADLOCK FALSE
