--------------------------- MODULE GeometryTrace ---------------------------
(***************************************************************************)
(* C18, code -> spec: batch validation of observed Rectangle operations.   *)
(* One TLC initial state per recorded trace; every event is consumed by    *)
(* the spec's own action Apply (so `res'` is the specified value) and the  *)
(* observed value is judged by Holds (property clauses, total verdict) and *)
(* compared with `res'` (model conformance only).                          *)
(***************************************************************************)
EXTENDS GeometryOps, IOUtils

Batch == JsonDeserialize(IOEnv.TRACE_FILE)

VARIABLES tid, l, fails, drift
tvars == <<vars, tid, l, fails, drift>>

T == Batch[tid]

TraceInit == /\ tid \in 1..Len(Batch) /\ l = 1 /\ fails = {} /\ drift = {}
             /\ pc = "ops" /\ a = Batch[tid].a /\ b = Batch[tid].b
             /\ op = "" /\ arg = <<>> /\ res = <<>>

Step == /\ l <= Len(T.events)
        /\ LET e == T.events[l] IN
             IF e.op = "move"
             THEN MoveA(e.arg[1], e.arg[2]) /\ UNCHANGED <<fails, drift>>
             ELSE /\ Apply(e.op, e.arg)
                  /\ fails' = IF Holds(a, b, e.op, e.arg, e.res, T.exact = 1, T.small = 1) THEN fails ELSE fails \cup {<<l, e.op>>}
                  /\ drift' = IF e.res = res' THEN drift ELSE drift \cup {<<l, e.op>>}
        /\ l' = l + 1 /\ UNCHANGED <<pc, tid>>

Done == /\ l = Len(T.events) + 1
        /\ l' = l + 1
        /\ PrintT(ToJson([tag |-> "VERDICT", id |-> T.id, fails |-> fails, drift |-> drift]))
        /\ UNCHANGED <<vars, tid, fails, drift>>

TraceNext == Step \/ Done
TraceSpec == TraceInit /\ [][TraceNext]_tvars
=============================================================================
