------------------------------- MODULE UscsMC -------------------------------
(* Constant values for the TLC configurations of Uscs.tla (cfg files cannot hold tuples or records). *)
EXTENDS Uscs

St(sep, cmt, hdr, extra, pinx, num, ws) == [ sep |-> sep, cmt |-> cmt, hdr |-> hdr, extra |-> extra, pinx |-> pinx, num |-> num, ws |-> ws ]
\* rendering styles inside the parser's input language
GsrcStyle == St("sp", 1, "std", 0, 1, "int", "clean")          \* as the files under tools/uscs_parser/examples
TabStyle == St("tab", 2, "mix", 1, 0, "dot", "clean")           \* tabs, comment + empty line before every line, shuffled headers
WideStyle == St("sp3", 3, "none", 0, 0, "exp", "clean")         \* runs of blanks, empty lines only, no headers, 7.000e+00
BareStyle == St("sp", 0, "none", 1, 1, "int", "clean")          \* nothing but the content
InLanguage == { GsrcStyle, TabStyle, WideStyle, BareStyle }
\* probes outside the language (applied to the text by the harness; only "not silently mis-parsed" is required)
Probes == { St("sp", 1, "std", 0, 1, "int", w) : w \in { "trail", "lead", "wsline", "crlf", "tightcolon", "compactvertex", "indentcomment", "leadpin" } }
           \cup { St("sp", 0, "none", 0, 0, "int", w) : w \in { "trail", "wsline", "crlf" } }

\* soft blocks <<area, a1, a2>>: interval around 1, given the other way round, a square only, and one FPEF cannot express
SoftQ == { <<6, 500, 2000>>, <<40, 3000, 333>> }
SoftT == SoftQ \cup { <<9, 1000, 1000>>, <<8, 1500, 2000>> }
\* quads: the GSRC vertex order from the origin, and another order away from it
QuadA == << <<0, 0>>, <<0, 2>>, <<4, 2>>, <<4, 0>> >>
QuadB == << <<4, 7>>, <<4, 2>>, <<1, 2>>, <<1, 7>> >>
HardQ == { QuadA }
HardT == { QuadA, QuadB }
PlQ == { <<0, 5>> }
PlT == { <<0, 5>>, <<7, 0>> }
=============================================================================
