\* NETGEN: structural lemmas on Design(case) for every command line of the universe (sizes -1..6, grids 0..4 x 0..4, H-trees to 3 levels)
SPECIFICATION Spec
CONSTANTS
  NMAX = 6
  GMAX = 4
  LMAX = 3
  EMIT = FALSE
INVARIANT InvProper
INVARIANT InvConnected
INVARIANT InvCounts
INVARIANT InvDegrees
INVARIANT InvWeights
INVARIANT InvCenters
INVARIANT InvClasses
CHECK_DEADLOCK FALSE
