SPECIFICATION SSpec
CONSTANTS
  Vars = {"a", "b", "c"}
  Fams = {"pb"}
  ClauseMax = 0
  AmoSeq = 0
  AmoMax = 0
  AmoPols = {0, 1}
  HeuleKs = {}
  PbShape = "ordered"
  PbTerms = 3
  PbPols = {0, 1}
  PbNeg = 0
  PbPos = 3
  PbBound = 8
  PbOps = {">="}
  MaxMgrs = 1
  MaxPosts = 1
  EMIT = FALSE
  PROBE = TRUE
  ACKinds = {"pb_decomposition"}
  RDecs = {TRUE, FALSE}
  RTerms = 0
  RCoef = 0
  RBound = 0
  RBuilds = 0
  CoefNeg = 0
  CoefPos = 0
  ConstMax = 0
  MulNeg = 0
  MulPos = 0
  CMax = 0
  KMax = 0
  CMax2 = 0
  KMax2 = 0
CHECK_DEADLOCK FALSE
INVARIANT ProbeDetectsInconsistency
