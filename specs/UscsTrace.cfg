\* trace validation: the universe constants are unused (the benchmark comes from the trace)
SPECIFICATION TraceSpec
CONSTANTS
  MaxBlocks = 0
  MaxTerms = 0
  MaxNets = 0
  SoftChoices = {}
  HardChoices = {}
  PlChoices = {}
  Styles = {}
  EMIT = FALSE
CHECK_DEADLOCK FALSE
