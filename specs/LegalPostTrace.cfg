\* The die, the ratio limit and the netlist come from each trace (field w); the generation constants are unused.
SPECIFICATION TraceSpec
CONSTANTS
  DW = 8
  DH = 8
  RP = 2
  RQ = 1
  TXS = {}
  TYS = {}
  TrunkSizes = {}
  BranchSizes = {}
  BranchOffs = {}
  Kinds = {}
  Slacks = {}
  MaxMods = 0
  MaxBr = 0
  MaxRects = 0
  Deltas = {}
  Slides = {}
  EdgeDs = {}
  CHAIN = FALSE
  WILD = FALSE
  FIXMODEL = "intended"
  ANYRATIO = FALSE
  BASEMOD = 2
  OFFN = 1
  OFFD = 10
  FUSN = 1
  FUSD = 20
  SKIPHARD = TRUE
  EMIT = FALSE
CHECK_DEADLOCK FALSE
