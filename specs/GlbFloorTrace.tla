--------------------------- MODULE GlbFloorTrace ---------------------------
(***************************************************************************)
(* C10, code -> spec: batch validation of observed runs of                 *)
(* tools.glbfloor.optimization.glbfloor.                                   *)
(*                                                                         *)
(* One TLC initial state per recorded run.  The harness wraps the          *)
(* module-level names create_initial_allocation and optimize_allocation    *)
(* of tools.glbfloor.optimization and the method Allocation.refine, and    *)
(* logs a snapshot after each of them and of what glbfloor returns:        *)
(*                                                                         *)
(*   init      cells, ratio                       (InitAlloc)              *)
(*   optimize  cells, ratio, centre, mrects       (Optimize ; Extract)     *)
(*   refine    cells, ratio                       (Refine)                 *)
(*   return    cells, ratio, centre, mrects       (Stop)                   *)
(*                                                                         *)
(* Coordinates are integer quanta (1/4096 of the instance's length unit:   *)
(* cells are dyadic fractions of the die, so they are exact), ratios are   *)
(* in 1/Den with Den = 10000.  Every snapshot that glbfloor could return   *)
(* (each optimize, and return) is judged by Clauses of GlbFloor (property  *)
(* clauses -> fails); the step relation is judged by ExtractConforms /     *)
(* RefineConforms (conformance -> drift).  The verdict is total.           *)
(***************************************************************************)
EXTENDS GlbFloor, IOUtils

Batch == JsonDeserialize(IOEnv.TRACE_FILE)

VARIABLES tid, l, fails, drift
tvars == <<vars, tid, l, fails, drift>>

T == Batch[tid]
InstOf(t) == [ die |-> t.die, cells |-> <<>>, owner |-> <<>>, mods |-> t.mods, thr |-> t.thr, maxiter |-> t.maxiter,
               variant |-> "trace", ascale |-> 0, alpha |-> 0, init |-> "none" ]

TraceInit == /\ tid \in 1..Len(Batch) /\ l = 1 /\ fails = {} /\ drift = {}
             /\ inst = InstOf(Batch[tid])
             /\ phase = "init" /\ iter = 0 /\ cells = <<>> /\ ratio = <<>> /\ sol = <<>>
             /\ centre = [ m \in ModsOf(inst) |-> inst.mods[m].c0 ]
             /\ mrects = [ m \in ModsOf(inst) |-> inst.mods[m].rects ]

Bad(cl) == { k \in DOMAIN cl : ~cl[k] }
IsDrift(k) == k \in { "d_no_unwanted_mirror", "d_order", "d_init_fixed_owns", "d_extract", "d_refine", "d_return_is_last",
                      "d_iterations" }
Judge(cl) == /\ fails' = fails \cup { <<l, k>> : k \in { kk \in Bad(cl) : ~IsDrift(kk) } }
             /\ drift' = drift \cup { <<l, k>> : k \in { kk \in Bad(cl) : IsDrift(kk) } }

\* InitAlloc: a fixed module has ratio 1 exactly in the cells that are its rectangles
ConsumeInit(e) ==
  /\ Judge([ d_order |-> phase = "init",
             d_init_fixed_owns |-> \A f \in FixedMods(inst) : \A k \in DOMAIN inst.mods[f].rects :
                                     \E c \in DOMAIN e.cells : e.cells[c] = inst.mods[f].rects[k] /\ e.ratio[c][f] = Den ])
  /\ cells' = e.cells /\ ratio' = e.ratio /\ phase' = "ready"
  /\ UNCHANGED <<inst, iter, centre, mrects, sol>>

\* Optimize ; Extract: the snapshot is a state glbfloor may return
ConsumeOptimize(e) ==
  /\ Judge(Clauses(inst, e.cells, e.ratio, e.centre, e.mrects, TOLR, TOLP)
           @@ ("d_order" :> (phase = "ready"))
           @@ ("d_extract" :> ExtractConforms(cells, e.cells, e.ratio, inst.thr, TOLR)))
  /\ cells' = e.cells /\ ratio' = e.ratio /\ centre' = e.centre /\ mrects' = e.mrects
  /\ iter' = iter + 1 /\ phase' = "extracted"
  /\ UNCHANGED <<inst, sol>>

ConsumeRefine(e) ==
  /\ Judge([ d_order |-> phase = "extracted" /\ iter < inst.maxiter,
             d_refine |-> RefineConforms(cells, ratio, e.cells, e.ratio, inst.thr, 1) ])
  /\ cells' = e.cells /\ ratio' = e.ratio /\ phase' = "ready"
  /\ UNCHANGED <<inst, iter, centre, mrects, sol>>

\* Stop: what glbfloor returned
ConsumeReturn(e) ==
  /\ Judge(Clauses(inst, e.cells, e.ratio, e.centre, e.mrects, TOLR, TOLP)
           @@ ("d_order" :> (phase = "extracted"))
           @@ ("d_iterations" :> (iter >= 1 /\ iter <= inst.maxiter))
           @@ ("d_return_is_last" :> (e.cells = cells /\ e.ratio = ratio /\ e.centre = centre /\ e.mrects = mrects)))
  /\ cells' = e.cells /\ ratio' = e.ratio /\ centre' = e.centre /\ mrects' = e.mrects
  /\ phase' = "returned"
  /\ UNCHANGED <<inst, iter, sol>>

TStep == /\ l <= Len(T.events)
         /\ LET e == T.events[l] IN
              CASE e.t = "init" -> ConsumeInit(e)
                [] e.t = "optimize" -> ConsumeOptimize(e)
                [] e.t = "refine" -> ConsumeRefine(e)
                [] OTHER -> ConsumeReturn(e)
         /\ l' = l + 1 /\ UNCHANGED tid

Done == /\ l = Len(T.events) + 1
        /\ l' = l + 1
        /\ PrintT(ToJson([ tag |-> "VERDICT", id |-> T.id, fails |-> fails, drift |-> drift ]))
        /\ UNCHANGED <<vars, tid, fails, drift>>

TraceNext == TStep \/ Done
TraceSpec == TraceInit /\ [][TraceNext]_tvars
=============================================================================
