SPECIFICATION Spec
CONSTANTS
  NMAX = 5
  MAXNETS = 2
  NM = 4
  DW = 10
  DH = 10
  PTC = {0, 505, 1005, 304}
  KINDS = {"soft", "hard", "term", "fixed", "fterm"}
  EMIT = TRUE

CHECK_DEADLOCK FALSE
