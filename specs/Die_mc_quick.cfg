SPECIFICATION Spec
CONSTANTS
  DW = 3
  DH = 3
  OUT = 1
  MAXR = 2
  TAGS <- Tags3
  XS <- XSu
  YS <- XSu
  SPLITS = {}
  GRIDS = {}
  EMIT = FALSE
INVARIANT VerdictIffValid
INVARIANT AllInside
INVARIANT NoOverlap
INVARIANT AreaSum
INVARIANT CoverExact
INVARIANT GroundFree
INVARIANT SplitMeetsPost
INVARIANT GridMeetsPost
INVARIANT SplitLoopInv
CHECK_DEADLOCK FALSE
