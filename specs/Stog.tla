-------------------------------- MODULE Stog --------------------------------
(***************************************************************************)
(* C06 -- Single-trunk orthogon (STOG) recognition is sound and complete.  *)
(*                                                                         *)
(* Subject: frame/geometry/geometry.py  create_stog(rectangles) with       *)
(* Rectangle.find_location, reached through Module.create_stog /           *)
(* Module.has_stog and run by Netlist on every module it loads.            *)
(*                                                                         *)
(* The specification has three layers that share one set of definitions:   *)
(*                                                                         *)
(*  1. DECLARATIVE: what a single-trunk orthogon is (IsStog), written      *)
(*     directly from the property statement, position-wise: "every other   *)
(*     rectangle" means every other POSITION of the list, so a rectangle   *)
(*     that occurs twice is "another rectangle" and, being equal to the    *)
(*     trunk, overlaps it.                                                 *)
(*  2. ALGORITHM: a transcription of create_stog / find_location           *)
(*     (candidate loop with its `break`, largest-area preference, swap of  *)
(*     the trunk to the front, labelling relative to the new front).       *)
(*  3. STATE MACHINE: a module's rectangle list under construction.        *)
(*     AddRect appends a rectangle (Module.add_rectangle), Permute         *)
(*     reorders the list, Recognise is one call of create_stog.  Roles     *)
(*     are attributes of the rectangle objects, so they travel with the    *)
(*     rectangles and a later call sees the roles an earlier call left     *)
(*     (stale roles).  TLC's breadth-first search over AddRect is the      *)
(*     exhaustive enumeration of all lists, in every order, with           *)
(*     repetitions, up to the bound.                                       *)
(*                                                                         *)
(* The property (one INVARIANT per clause of the statement) is proved for  *)
(* the algorithm layer on the whole bounded universe; StogTrace.tla        *)
(* re-uses Recognise and Clauses to judge what the real code returned.     *)
(*                                                                         *)
(* Values are JSON-shaped: a rectangle is the tuple <<x1,y1,x2,y2>> of     *)
(* lattice coordinates, a role is a one-letter string.  The largest        *)
(* intermediate value is an area (<= 64 * 64), far below 2^31.             *)
(*                                                                         *)
(* Configurations: Stog_mc_vacuity (2x2, <= 3, with coverage: every action *)
(* is taken), Stog_mc_quick (3x2, <= 3), Stog_mc_mid (3x3, <= 3),          *)
(* Stog_mc_tall (3x2, <= 4, history after calls on <= 3 rectangles);       *)
(* Stog_gen_* = the same universes with EMIT, Stog_gen_wide = 4x4, <= 2.   *)
(***************************************************************************)
EXTENDS Geometry, TLC, Json

CONSTANTS NX, NY,  \* the lattice is 0..NX by 0..NY
          MAXR,    \* longest list explored
          HISTLEN, \* a call on a list of at most HISTLEN rectangles may be followed by further edits and calls
          EMIT     \* TRUE: behaviour generation (print every multiset of rectangles once)

VARIABLES pc,      \* "build" (list being edited) | "done" (just after a call) | "emitted"
          rects,   \* the module's list of rectangles, in list order
          roles,   \* roles[k] = Rectangle.location of the object at position k
          given,   \* the last call: the list and the roles as handed in, and src (where each object came from)
          result,  \* what the last call returned (1 / 0), -1 = no call since the last edit
          net,     \* netlist machine: the modules, each [rects, roles, ok, cur] (see section 4)
          ops      \* netlist machine: the operations so far
nvars == <<net, ops>>
vars == <<pc, rects, roles, given, result, net, ops>>

(***************************************************************************)
(* Roles (Rectangle.StogLocation)                                          *)
(***************************************************************************)
TRUNK  == "T"
NORTH  == "N"
SOUTH  == "S"
EAST   == "E"
WEST   == "W"
NOPOLY == "X"      \* StogLocation.NO_POLYGON: "carries no role"
Sides == {NORTH, SOUTH, EAST, WEST}
Roles == Sides \cup {TRUNK, NOPOLY}

R(t) == RectOf(t)                         \* tuple -> record of module Geometry
Tup(r) == <<r.x1, r.y1, r.x2, r.y2>>
B2I(x) == IF x THEN 1 ELSE 0

(***************************************************************************)
(* 1. DECLARATIVE DEFINITION (from the statement)                          *)
(*                                                                         *)
(* b abuts side s of t "within that side's extent": b's edge lies on the   *)
(* line of that side and b's span along the side is inside t's span.       *)
(***************************************************************************)
AbutsOn(t, b, s) ==
  CASE s = NORTH -> b.y1 = t.y2 /\ t.x1 <= b.x1 /\ b.x2 <= t.x2
    [] s = SOUTH -> b.y2 = t.y1 /\ t.x1 <= b.x1 /\ b.x2 <= t.x2
    [] s = EAST  -> b.x1 = t.x2 /\ t.y1 <= b.y1 /\ b.y2 <= t.y2
    [] s = WEST  -> b.x2 = t.x1 /\ t.y1 <= b.y1 /\ b.y2 <= t.y2

\* b can be a branch of trunk t: abuts one of the four sides within its extent, without overlapping t
Branch(t, b) == ~Overlaps(t, b) /\ \E s \in Sides : AbutsOn(t, b, s)
SideOf(t, b) == CHOOSE s \in Sides : AbutsOn(t, b, s)        \* only used when Branch(t, b)

\* position i can serve as trunk of the list rs: EVERY OTHER POSITION holds a branch of rs[i]
TrunkAt(rs, i) == \A j \in DOMAIN rs : j # i => Branch(R(rs[i]), R(rs[j]))
IsStog(rs) == \E i \in DOMAIN rs : TrunkAt(rs, i)

(***************************************************************************)
(* 2. THE ALGORITHM (create_stog, find_location), line by line             *)
(***************************************************************************)
\* Rectangle.find_location(self = t, r = b) on the lattice (the tolerances only absorb rounding):
\*   overlap -> NO_POLYGON; then the FIRST matching common side (if / elif chain, in this order);
\*   then the interval test on that side only.
FindLocation(t, b) ==
  IF OverlapArea(t, b) > 0 THEN NOPOLY
  ELSE LET loc == IF t.y2 = b.y1 THEN NORTH
                  ELSE IF t.y1 = b.y2 THEN SOUTH
                  ELSE IF t.x2 = b.x1 THEN EAST
                  ELSE IF t.x1 = b.x2 THEN WEST
                  ELSE NOPOLY
       IN IF loc = NOPOLY THEN NOPOLY
          ELSE IF loc \in {NORTH, SOUTH}
               THEN (IF b.x1 >= t.x1 /\ b.x2 <= t.x2 THEN loc ELSE NOPOLY)
               ELSE (IF b.y1 >= t.y1 /\ b.y2 <= t.y2 THEN loc ELSE NOPOLY)

\* the candidate test of the loop body: `all(... for r in rectangles)`, the candidate itself being skipped.
\* NOTE (finding C06-duplicate-trunk): the code skips with `r == trunk` (VALUE equality, so every copy of
\* the candidate is skipped too); the specification skips the candidate's own POSITION, which is what
\* "every other rectangle" says.  The two differ exactly on lists that repeat the trunk.
GoodTrunk(rs, i) == \A j \in DOMAIN rs : j = i \/ FindLocation(R(rs[i]), R(rs[j])) # NOPOLY

\* for i, trunk in enumerate(rectangles):
\*     if best_trunk >= 0 and trunk.area <= rectangles[best_trunk].area: break
\*     if all(...): best_trunk = i
\* (positions are 1-based here, best = 0 plays the role of -1)
RECURSIVE Scan(_, _, _)
Scan(rs, i, best) ==
  IF i > Len(rs) THEN best
  ELSE IF best > 0 /\ Area(R(rs[i])) <= Area(R(rs[best])) THEN best            \* break
  ELSE Scan(rs, i + 1, IF GoodTrunk(rs, i) THEN i ELSE best)

SwapIdx(n, i, j) == [k \in 1..n |-> IF k = i THEN j ELSE IF k = j THEN i ELSE k]

\* One call create_stog(rs); ro = roles the objects carry before the call.
\* Returns the return value, the list after the call, the roles after the call, and src (src[k] = position,
\* before the call, of the object now at position k).
CreateStog(rs, ro) ==
  LET n == Len(rs) IN
  IF n = 1 THEN [ok |-> 1, rects |-> rs, roles |-> <<TRUNK>>, src |-> <<1>>]         \* early return
  ELSE LET best == Scan(rs, 1, 0) IN                  \* (all roles were reset to NO_POLYGON before the loop)
       IF best = 0
       THEN [ok |-> 0, rects |-> rs, roles |-> [k \in 1..n |-> NOPOLY], src |-> [k \in 1..n |-> k]]
       ELSE LET p == SwapIdx(n, 1, best)                                  \* swap the trunk to the front
                sw == [k \in 1..n |-> rs[p[k]]]
            IN [ok |-> 1, rects |-> sw, src |-> p,
                roles |-> [k \in 1..n |-> IF k = 1 THEN TRUNK ELSE FindLocation(R(sw[1]), R(sw[k]))]]

(***************************************************************************)
(* THE PROPERTY, clause by clause, on an observation of one call:          *)
(*   in  = the list handed to the call                                     *)
(*   ok  = what was reported (1 = single-trunk orthogon)                   *)
(*   out = the list afterwards, out[k] = <<x1,y1,x2,y2, role, src>> with   *)
(*         src = position in `in` of the same object (0 = identity not     *)
(*         observable: the list was built inside Netlist; -1 = an object   *)
(*         that was not in the list handed in)                             *)
(* Nothing but the sentences of the statement: WHICH trunk is chosen when  *)
(* two rectangles qualify is not a clause (model conformance only).        *)
(***************************************************************************)
OutRects(out) == [k \in DOMAIN out |-> <<out[k][1], out[k][2], out[k][3], out[k][4]>>]
Count(s, e) == Cardinality({k \in DOMAIN s : s[k] = e})
SameMultiset(s, t) == Len(s) = Len(t) /\ \A k \in DOMAIN s : Count(s, s[k]) = Count(t, s[k])
IsPermutation(p, n) == Len(p) = n /\ \A v \in 1..n : \E k \in 1..n : p[k] = v

\* shared by the clauses: rectangles, roles and object identities of an observed list
OutRole(out) == [k \in DOMAIN out |-> out[k][5]]
OutSrc(out) == [k \in DOMAIN out |-> out[k][6]]
RightlyYes(in, ok) == ok = 1 /\ IsStog(in)

\* "reported as a single-trunk orthogon exactly when some rectangle can serve as trunk ..."
ClVerdict(in, ok, out) == ok = B2I(IsStog(in))
\* "when so reported the trunk is listed first"
ClTrunkFirst(in, ok, out) ==
  RightlyYes(in, ok) => (Len(out) >= 1 /\ OutRole(out)[1] = TRUNK /\ TrunkAt(OutRects(out), 1))
\* "... and every other rectangle carries the side it abuts"
ClSides(in, ok, out) ==
  RightlyYes(in, ok) => LET o == OutRects(out)  role == OutRole(out) IN
                          \A k \in DOMAIN out : k > 1 => (role[k] \in Sides /\ AbutsOn(R(o[1]), R(o[k]), role[k]))
\* "otherwise no rectangle carries a role"
ClNoRoles(in, ok, out) == ok # 1 => \A k \in DOMAIN out : OutRole(out)[k] = NOPOLY
\* "only reorders the rectangles and never alters, drops or duplicates them"
ClReorderOnly(in, ok, out) ==
  LET o == OutRects(out)  src == OutSrc(out) IN
    /\ SameMultiset(in, o)
    /\ (\A k \in DOMAIN out : src[k] # 0) =>
            (IsPermutation(src, Len(in)) /\ \A k \in DOMAIN out : o[k] = in[src[k]])

Clauses(in, ok, out) ==
  [ verdict      |-> ClVerdict(in, ok, out),
    trunk_first  |-> ClTrunkFirst(in, ok, out),
    sides        |-> ClSides(in, ok, out),
    no_roles     |-> ClNoRoles(in, ok, out),
    reorder_only |-> ClReorderOnly(in, ok, out) ]

ClauseNames == {"verdict", "trunk_first", "sides", "no_roles", "reorder_only"}

(***************************************************************************)
(* 3. STATE MACHINE                                                        *)
(***************************************************************************)
LatticeRects == { Tup(r) : r \in RectsOn(0, NX, 0, NY) }
\* total order on rectangles, used only to emit every multiset once (behaviour generation)
Key(t) == ((t[1] * (NY + 1) + t[2]) * (NX + 1) + t[3]) * (NY + 1) + t[4]

NoCall == [rects |-> <<>>, roles |-> <<>>, src |-> <<>>]
InitList == pc = "build" /\ rects = <<>> /\ roles = <<>> /\ given = NoCall /\ result = -1 /\ net = <<>> /\ ops = <<>>

\* Module.add_rectangle: a new object, which carries NO_POLYGON (Rectangle.__init__), is appended.
\* May follow a call: the older objects then keep the roles that call gave them.
AddRect == /\ pc = "build" \/ (pc = "done" /\ Len(rects) <= HISTLEN)
           /\ Len(rects) < MAXR
           /\ \E t \in LatticeRects :
                 /\ (EMIT /\ rects # <<>>) => Key(t) >= Key(rects[Len(rects)])     \* EMIT: non-decreasing keys
                 /\ rects' = Append(rects, t)
           /\ roles' = Append(roles, NOPOLY)
           /\ pc' = "build" /\ given' = NoCall /\ result' = -1 /\ UNCHANGED nvars

\* The caller reorders the list (two neighbours change places; every order is reachable by repetition,
\* and AddRect already builds every order from scratch); roles stay with their objects.
Permute == /\ ~EMIT /\ pc = "done" /\ Len(rects) >= 2 /\ Len(rects) <= HISTLEN
           /\ \E i \in 1..(Len(rects) - 1) :
                 LET p == SwapIdx(Len(rects), i, i + 1) IN
                 /\ rects' = [k \in 1..Len(rects) |-> rects[p[k]]]
                 /\ roles' = [k \in 1..Len(rects) |-> roles[p[k]]]
           /\ pc' = "build" /\ given' = NoCall /\ result' = -1 /\ UNCHANGED nvars

\* One call of create_stog on the list rs whose objects carry the roles ro.
RecogniseOn(rs, ro) == LET c == CreateStog(rs, ro) IN
                         /\ rects' = c.rects /\ roles' = c.roles /\ result' = c.ok
                         /\ given' = [rects |-> rs, roles |-> ro, src |-> c.src]
Recognise == /\ ~EMIT /\ pc = "build" /\ Len(rects) >= 1          \* create_stog asserts a non-empty list
             /\ RecogniseOn(rects, roles)
             /\ pc' = "done" /\ UNCHANGED nvars

\* behaviour generation: every multiset of 1..MAXR lattice rectangles exactly once (as its sorted list);
\* the harness runs it in every order, fresh and after a call on the list without its last element.
Emit == /\ EMIT /\ pc = "build" /\ Len(rects) >= 1
        /\ PrintT(ToJson([rects |-> rects]))
        /\ pc' = "emitted" /\ UNCHANGED <<rects, roles, given, result, nvars>>

(***************************************************************************)
(* 4. NETLIST MACHINE: recognition on LIVE objects                          *)
(*                                                                         *)
(* A loaded netlist holds modules whose rectangles have been recognised     *)
(* (Netlist runs create_stog on every module it loads).  Flows then change  *)
(* the rectangles IN PLACE through the public objects -- Module.            *)
(* recenter_rectangles does `r.center.x += ..`, the flip of glbfloor does   *)
(* `r.center.x = ..`, Netlist.assign_rectangles installs new unlabelled     *)
(* rectangles -- and run recognition again, for one module                  *)
(* (Module.create_stog) or for all (Netlist.create_stogs).  The property    *)
(* has to hold for the CURRENT geometry: after a recognition every module   *)
(* it covered carries the roles its current rectangles deserve.            *)
(* A module is [rects, roles, ok (has_stog: 1 / 0), cur (1: recognised     *)
(* since its geometry last changed)].                                      *)
(***************************************************************************)
NMODS == 2
MAXNOPS == IF MAXR >= 4 THEN 2 ELSE 1          \* geometry changes before the final recognition (thorough / quick)
Shapes == << << <<0, 0, 2, 2>>, <<2, 0, 3, 1>> >>,                    \* trunk with a branch on its east side
             << <<0, 0, 1, 1>>, <<2, 2, 3, 3>> >>,                    \* two separate squares: no orthogon
             << <<0, 1, 3, 2>>, <<1, 2, 2, 3>>, <<1, 0, 2, 1>> >>,    \* bar with a north and a south branch
             << <<1, 0, 3, 2>>, <<0, 0, 1, 1>> >>,                    \* trunk with a branch on its west side
             << <<0, 0, 2, 2>> >> >>                                  \* a single rectangle: its own trunk
Loaded(rs) == LET c == CreateStog(rs, [k \in DOMAIN rs |-> NOPOLY]) IN [rects |-> c.rects, roles |-> c.roles, ok |-> c.ok, cur |-> 1]
Fresh(rs) == [rects |-> rs, roles |-> [k \in DOMAIN rs |-> NOPOLY], ok |-> 0, cur |-> 0]
Geometry(n) == [m \in DOMAIN n |-> n[m].rects]
InitNet == /\ pc = "net" /\ rects = <<>> /\ roles = <<>> /\ given = NoCall /\ result = -1
           /\ \E f \in [1..NMODS -> DOMAIN Shapes] :
                 /\ net = [m \in 1..NMODS |-> Loaded(Shapes[f[m]])]
                 /\ ops = << [op |-> "load", mods |-> [m \in 1..NMODS |-> Shapes[f[m]]]] >>
Init == InitList \/ InitNet

Shifted(t, d) == <<t[1] + d[1], t[2] + d[2], t[3] + d[1], t[4] + d[2]>>
\* one rectangle of module m moves by d in place: it keeps the role it carries
MoveOn(m, k, d) == /\ pc = "net"
                   /\ net' = [net EXCEPT ![m].rects[k] = Shifted(@, d), ![m].cur = 0]
                   /\ UNCHANGED <<pc, rects, roles, given, result>>
\* module m is mirrored about the vertical axis of its bounding box (the flip): x -> X1 + X2 - x
MirrorOn(m) == /\ pc = "net"
               /\ LET rs == net[m].rects
                      sum == Min({ rs[k][1] : k \in DOMAIN rs }) + Max({ rs[k][3] : k \in DOMAIN rs })
                  IN net' = [net EXCEPT ![m].rects = [k \in DOMAIN rs |-> <<sum - rs[k][3], rs[k][2], sum - rs[k][1], rs[k][4]>>], ![m].cur = 0]
               /\ UNCHANGED <<pc, rects, roles, given, result>>
\* Netlist.assign_rectangles: module m gets new, unlabelled rectangles
AssignOn(m, rs) == /\ pc = "net"
                   /\ net' = [net EXCEPT ![m] = Fresh(rs)]
                   /\ UNCHANGED <<pc, rects, roles, given, result>>
Recognised(md) == LET c == CreateStog(md.rects, md.roles) IN [rects |-> c.rects, roles |-> c.roles, ok |-> c.ok, cur |-> 1]
\* Module.create_stog() on module m
RecModOn(m) == /\ pc = "net"
               /\ net' = [net EXCEPT ![m] = Recognised(net[m])]
               /\ UNCHANGED <<pc, rects, roles, given, result>>
\* Netlist.create_stogs(): every module
RecAllOn == /\ pc = "net"
            /\ net' = [m \in DOMAIN net |-> Recognised(net[m])]
            /\ UNCHANGED <<pc, rects, roles, given, result>>

GeoOps == Cardinality({ k \in DOMAIN ops : ops[k].op \in {"move", "mirror", "assign"} })
Ended == ops[Len(ops)].op \in {"rec", "recall"}
NetStep == /\ pc = "net" /\ ~Ended
           /\ \/ /\ GeoOps < MAXNOPS
                 /\ \E m \in DOMAIN net : \E k \in {1, Len(net[m].rects)} : \E d \in {<<1, 0>>, <<0, 1>>} :
                       MoveOn(m, k, d) /\ ops' = Append(ops, [op |-> "move", m |-> m, k |-> k, dx |-> d[1], dy |-> d[2]])
              \/ /\ GeoOps < MAXNOPS
                 /\ \E m \in DOMAIN net : MirrorOn(m) /\ ops' = Append(ops, [op |-> "mirror", m |-> m])
              \/ /\ GeoOps < MAXNOPS
                 /\ \E m \in DOMAIN net : \E s \in {1, 2, 5} : AssignOn(m, Shapes[s]) /\ ops' = Append(ops, [op |-> "assign", m |-> m, rects |-> Shapes[s]])
              \/ /\ GeoOps >= 1
                 /\ \E m \in DOMAIN net : RecModOn(m) /\ ops' = Append(ops, [op |-> "rec", m |-> m])
              \/ /\ GeoOps >= 1
                 /\ RecAllOn /\ ops' = Append(ops, [op |-> "recall"])
EmitNet == /\ EMIT /\ pc = "net" /\ Ended
           /\ PrintT(ToJson([kind |-> "net", ops |-> ops]))
           /\ pc' = "emitted" /\ UNCHANGED <<rects, roles, given, result, nvars>>

Next == AddRect \/ Permute \/ Recognise \/ Emit \/ NetStep \/ EmitNet
Spec == Init /\ [][Next]_vars

(***************************************************************************)
(* INVARIANTS                                                              *)
(***************************************************************************)
TypeOK == /\ pc \in {"build", "done", "emitted", "net"}
          /\ Len(rects) <= MAXR /\ Len(roles) = Len(rects)
          /\ \A k \in DOMAIN rects : rects[k] \in LatticeRects /\ roles[k] \in Roles
          /\ result \in {-1, 0, 1}

\* the state after a call, seen as an observation of that call
ModelOut == [k \in DOMAIN rects |-> rects[k] \o <<roles[k], given.src[k]>>]

\* one invariant per clause of the statement
InvVerdict     == pc = "done" => ClVerdict(given.rects, result, ModelOut)
InvTrunkFirst  == pc = "done" => ClTrunkFirst(given.rects, result, ModelOut)
InvSides       == pc = "done" => ClSides(given.rects, result, ModelOut)
InvNoRoles     == pc = "done" => ClNoRoles(given.rects, result, ModelOut)
InvReorderOnly == pc = "done" => ClReorderOnly(given.rects, result, ModelOut)

\* netlist machine: a module recognised since its geometry last changed carries what its CURRENT rectangles deserve
ModuleCurrent(md) ==
  /\ md.ok = B2I(IsStog(md.rects))
  /\ (md.ok = 1 => /\ md.roles[1] = TRUNK /\ TrunkAt(md.rects, 1)
                   /\ \A k \in DOMAIN md.rects : k > 1 => (md.roles[k] \in Sides /\ AbutsOn(R(md.rects[1]), R(md.rects[k]), md.roles[k])))
  /\ (md.ok = 0 => \A k \in DOMAIN md.rects : md.roles[k] = NOPOLY)
InvNetCurrent == pc = "net" => \A m \in DOMAIN net : net[m].cur = 1 => ModuleCurrent(net[m])
\* after Netlist.create_stogs() every module is current; after Module.create_stog() the module is
InvRecAllCovers == (pc = "net" /\ ops[Len(ops)].op = "recall") => \A m \in DOMAIN net : net[m].cur = 1

\* lemmas that tie the two definitions together.  They speak about ordered pairs of rectangles; every
\* ordered pair of lattice rectangles is the two-element list of some state, so checking there is exhaustive.
PairLemma(P(_, _)) == (pc = "build" /\ Len(rects) = 2) => P(R(rects[1]), R(rects[2]))
\* find_location decides Branch and names the abutted side
LemmaFindLocation == PairLemma(LAMBDA t, b : FindLocation(t, b) = IF Branch(t, b) THEN SideOf(t, b) ELSE NOPOLY)
\* a rectangle abuts at most one side within its extent, and abutting excludes overlapping
LemmaOneSide == PairLemma(LAMBDA t, b : /\ Cardinality({s \in Sides : AbutsOn(t, b, s)}) <= 1
                                        /\ (\E s \in Sides : AbutsOn(t, b, s)) => ~Overlaps(t, b))
\* with three or more rectangles the trunk is unique
LemmaUniqueTrunk == (pc = "build" /\ Len(rects) >= 3) => Cardinality({i \in DOMAIN rects : TrunkAt(rects, i)}) <= 1
\* the docstring's promise: among the possible trunks one of largest area is chosen (despite the `break`)
LemmaLargestTrunk == (pc = "done" /\ result = 1) =>
                        \A i \in DOMAIN given.rects : TrunkAt(given.rects, i) => Area(R(given.rects[i])) <= Area(R(rects[1]))
\* calling again changes nothing
LemmaStable == pc = "done" => LET c == CreateStog(rects, roles) IN
                        c.ok = result /\ c.rects = rects /\ c.roles = roles
=============================================================================
