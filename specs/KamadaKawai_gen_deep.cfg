SPECIFICATION Spec
CONSTANTS
  NMAX = 4
  MAXNETS = 3
  NM = 2
  DW = 10
  DH = 10
  PTC = {0, 505}
  KINDS = {"soft", "hard", "term", "fixed", "fterm"}
  EMIT = TRUE
CHECK_DEADLOCK FALSE
