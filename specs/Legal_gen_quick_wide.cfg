\* Universe W: a 400x4 die (aspect 100:1): two 2x2 modules next to each other; the smoothing tolerance is 0.01*min(W,H)/n.
SPECIFICATION Spec
CONSTANTS
  DW = 400
  DH = 4
  RP = 2
  RQ = 1
  TXS = {10, 12}
  TYS = {1}
  TrunkSizes <- TrunkSizes2
  BranchSizes <- BranchSizes1
  BranchOffs = {0}
  Kinds = {"soft", "hard"}
  Slacks = {0}
  MaxMods = 2
  MaxBr = 0
  MaxRects = 2
  Deltas <- DeltasA
  Slides <- SlidesA
  EdgeDs <- EdgeDsA
  CHAIN = FALSE
  WILD = FALSE
  FIXMODEL = "intended"
  ANYRATIO = FALSE
  BASEMOD = 2
  EMIT = TRUE
CHECK_DEADLOCK FALSE
