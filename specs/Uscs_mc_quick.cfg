\* USCS design-level check (quick): <= 2 blocks (2 soft shapes, 1 quad), <= 2 terminals, <= 1 net, placements at one point, 4 styles
SPECIFICATION Spec
CONSTANTS
  MaxBlocks = 2
  MaxTerms = 2
  MaxNets = 1
  SoftChoices <- SoftQ
  HardChoices <- HardQ
  PlChoices <- PlQ
  Styles <- InLanguage
  EMIT = FALSE
INVARIANT RoundTrip
INVARIANT RoundTripByClause
INVARIANT AllConsumed
INVARIANT AcceptedIff
INVARIANT HardIsItsQuad
CHECK_DEADLOCK FALSE
