SPECIFICATION Spec
CONSTANTS
  U = 3
  KU = 16
  MAXC = 3
  RV <- RV3
  OWNER <- Owner
  DEN = 4
  DEPTHS = {0, 1}
  THR <- Thr2
  LEVELS = {1, 2}
  MAXOPS = 2
  EMIT = FALSE
PROPERTY StepConserves
PROPERTY StepExact
INVARIANT PredicateAgrees
INVARIANT AlwaysValid
CHECK_DEADLOCK FALSE
