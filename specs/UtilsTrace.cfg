SPECIFICATION TraceSpec
CONSTANTS
  NEWLINE_TEXT = FALSE
  Alpha = {"a"}
  MaxLen = 0
  EMIT = FALSE
CHECK_DEADLOCK FALSE
