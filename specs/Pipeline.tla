------------------------------ MODULE Pipeline ------------------------------
(***************************************************************************)
(* PIPELINE -- the stage flow of tools/all/all.py as a state machine.      *)
(*                                                                         *)
(*   frame netgen   --type T --size N -o n.yml          (producer)         *)
(*   (the user adds his fixed parts: IO pins, a pre-placed block)          *)
(*   frame spectral n.yml --die D --outfile s.yml                          *)
(*   frame force    --netlist s.yml --die D --out-netlist f.yml            *)
(*   frame glbfloor --netlist f.yml --die D --out-netlist g.yml            *)
(*                  --out-allocation a.yml --max-iter .. -r .. -n ..       *)
(*   frame rect / frame legalfloor : NOT modelled as executable stages --   *)
(*   tools/rect loads a Windows DLL and cannot run here; the flow stops    *)
(*   after glbfloor (what rect would read is still checked: g.yml, a.yml). *)
(*                                                                         *)
(* The stages are separate processes that communicate ONLY through         *)
(* documents (YAML files).  The state of this specification is therefore   *)
(* the set of documents in flight -- the netlist as the next reader sees   *)
(* it, the die, the allocation -- plus the name of the stage that wrote    *)
(* last.  One action per stage: it consumes the documents the previous     *)
(* stage wrote and produces new ones.  What a stage computes (eigenvectors,*)
(* forces, a GEKKO optimum) is NOT modelled; each action is the stage's    *)
(* CONTRACT: precondition on the documents it reads (Pre), relation        *)
(* between what it read and what it writes (Post).  TLC shows that the     *)
(* contracts compose: every document a stage may write satisfies the       *)
(* precondition of the next stage (HandOff), and the design -- module set, *)
(* kinds, areas, nets -- and the fixed parts are the same in every         *)
(* document of the flow.  PipelineTrace.tla replays the documents written  *)
(* by the REAL stage entry points through the same actions and judges them *)
(* with the same Post operators (total verdicts).                          *)
(*                                                                         *)
(* Documents (JSON-shaped):                                                *)
(*   module  <<name, kind, area, has, x, y>>                               *)
(*           kind  "soft"  movable, has an area (all netgen modules)       *)
(*                 "block" fixed: true + rectangle (pre-placed macro)      *)
(*                 "fpin"  terminal: true, fixed: true, center (IO pin)    *)
(*                 "pin"   terminal: true, center (movable pin, as the     *)
(*                         FloorSet converter writes them)                 *)
(*           area  in 1/1000; has = 1 iff the READER of the next stage     *)
(*                 finds a centre (given, or computed from rectangles);    *)
(*                 x, y the centre it finds (0, 0 if none)                 *)
(*   net     <<weight in 1/1000, <<member names>>>>                        *)
(*   netlist [mods |-> <<module..>>, nets |-> <<net..>>]                   *)
(*   die     <<W, H, S>> (lower-left corner at the origin; W, H in length  *)
(*           units, S = the larger side in 1/1000 die units: areas are in  *)
(*           die units, so S converts them)                                *)
(*   alloc   [cells |-> <<<<x1, y1, x2, y2>>..>>,                          *)
(*            shares |-> <<<<cell index, module name, ratio in 1/1000>>..>>]*)
(* Lengths: model-checked instances use 1/8 of a die unit; PipelineTrace   *)
(* uses 1e-6 of the larger die side.  TOL is the coordinate tolerance in   *)
(* those units (0 in the model).                                           *)
(***************************************************************************)
EXTENDS Integers, Sequences, FiniteSets, TLC, Json, SequencesExt, FiniteSetsExt

CONSTANTS TYPES,   \* netgen topologies with one size parameter offered, subset of {"chain","ring","star","ring-star","one-net"}
          SIZES,   \* their sizes
          GRIDS,   \* grid sizes offered, coded 100 * rows + columns (a cfg file cannot hold tuples)
          HLEVELS, \* h-tree levels offered
          DIESEL,  \* dies offered, coded 100 * W + H in die units (a cfg file cannot hold tuples)
          EDITS,   \* user edits offered, subset of {"none", "fpin", "block", "fpin+block", "pin"}
          GCELLS,  \* cells of the model's glbfloor grid a soft module may be given to (model only), subset of 1..6
          POSSEL,  \* centres a movable module may be given by a stage (model only), coded 100 * x + y in 1/8 die units
          TOL,     \* coordinate tolerance (length units of the instance)
          COMTOL,  \* tolerance of "centre = centre of mass of the allocation", in 1/1000 of the larger die side
          EMIT     \* TRUE: print the flows (behaviour generation)

VARIABLES stage,   \* "start" | "netgen" | "user" | "spectral" | "force" | "glbfloor" | "stopped" | "emitted"
          flow,    \* the netgen invocation <<type, size1, size2>>
          edit,    \* the user edit
          die,     \* <<W, H>>
          base,    \* the netlist handed to the flow (after the user's edit): the design
          net,     \* the netlist document in flight (as the next reader sees it)
          alloc    \* the allocation document in flight, NoAlloc before glbfloor
vars == <<stage, flow, edit, die, base, net, alloc>>

Mn(a, b) == IF a <= b THEN a ELSE b
Mx(a, b) == IF a >= b THEN a ELSE b
Abs(x) == IF x >= 0 THEN x ELSE -x
\* floor(x * y / z) for x, y >= 0 < z without overflow when (z - 1) * y and the result fit in 31 bits
MulDiv(x, y, z) == (x \div z) * y + ((x % z) * y) \div z
NoAlloc == [cells |-> <<>>, shares |-> <<>>]
NoNet == [mods |-> <<>>, nets |-> <<>>]

(***************************************************************************)
(* 1. Reading documents                                                    *)
(***************************************************************************)
MName(m) == m[1]
MKind(m) == m[2]
MArea(m) == m[3]
MHas(m) == m[4]
MX(m) == m[5]
MY(m) == m[6]
IsFixedKind(k) == k \in {"block", "fpin"}       \* `fixed: true`
IsMovable(m) == ~IsFixedKind(MKind(m))
Names(d) == { MName(d.mods[i]) : i \in DOMAIN d.mods }
ModOf(d, nm) == d.mods[CHOOSE i \in DOMAIN d.mods : MName(d.mods[i]) = nm]
NetSet(d) == { <<d.nets[i][1], { d.nets[i][2][j] : j \in DOMAIN d.nets[i][2] }>> : i \in DOMAIN d.nets }
InDie(x, y, D) == -TOL <= x /\ x <= D[1] + TOL /\ -TOL <= y /\ y <= D[2] + TOL

\* what every netlist reader (frame.netlist.Netlist) demands of a document
WellFormed(d) ==
  /\ Len(d.mods) > 0
  /\ \A i, j \in DOMAIN d.mods : i # j => MName(d.mods[i]) # MName(d.mods[j])
  /\ \A i \in DOMAIN d.mods : LET m == d.mods[i] IN
        /\ MKind(m) \in {"soft", "block", "fpin", "pin"}
        /\ (MKind(m) \in {"soft", "block"} => MArea(m) > 0)
        /\ (MKind(m) \in {"fpin", "pin"} => MArea(m) = 0)
        /\ (IsFixedKind(MKind(m)) => MHas(m) = 1)                 \* a fixed module says where it is
  /\ \A i \in DOMAIN d.nets : /\ d.nets[i][1] > 0 /\ Len(d.nets[i][2]) >= 2
                              /\ \A j \in DOMAIN d.nets[i][2] : d.nets[i][2][j] \in Names(d)

(***************************************************************************)
(* 2. The producer: frame netgen, exactly as written (area 1 per module)   *)
(***************************************************************************)
N1(i) == "M" \o ToString(i)
N2(i, j) == "M" \o ToString(i) \o "_" \o ToString(j)
Soft(nm) == <<nm, "soft", 1000, 0, 0, 0>>
E2(a, b) == <<1000, <<a, b>>>>
Line(n) == [ i \in 1..n |-> Soft(N1(i - 1)) ]

Chain(n) == [mods |-> Line(n), nets |-> [ i \in 1..(n - 1) |-> E2(N1(i - 1), N1(i)) ]]
Ring(n) == [mods |-> Line(n), nets |-> [ i \in 1..n |-> E2(N1(i - 1), N1(i % n)) ]]
Star(n) == [mods |-> Line(n), nets |-> [ i \in 1..(n - 1) |-> E2(N1(0), N1(i)) ]]
RingStar(n) == [mods |-> Line(n),
                nets |-> [ i \in 1..(n - 2) |-> E2(N1(i), N1(i + 1)) ] \o << E2(N1(n - 1), N1(1)) >>
                         \o [ i \in 1..(n - 1) |-> E2(N1(0), N1(i)) ]]
OneNet(n) == [mods |-> Line(n), nets |-> << <<1000, [ i \in 1..n |-> N1(i - 1) ]>> >>]
Grid(r, c) == [mods |-> [ k \in 1..(r * c) |-> Soft(N2((k - 1) \div c, (k - 1) % c)) ],
               nets |-> [ k \in 1..(r * (c - 1)) |-> E2(N2((k - 1) \div (c - 1), (k - 1) % (c - 1)),
                                                        N2((k - 1) \div (c - 1), ((k - 1) % (c - 1)) + 1)) ]
                        \o [ k \in 1..((r - 1) * c) |-> E2(N2((k - 1) \div c, (k - 1) % c), N2(((k - 1) \div c) + 1, (k - 1) % c)) ]]
\* gen_htree_rec(nlevels, area, weight, first_module): indices of the modules, nets <<weight, a, b>>, next free index
RECURSIVE HT(_, _, _)
HT(l, w, f) ==
  IF l = 1 THEN [ms |-> <<f>>, es |-> <<>>, nxt |-> f + 1]
  ELSE LET c1 == HT(l - 1, 2 * w, f + 3)
           c2 == HT(l - 1, 2 * w, c1.nxt)
           c3 == HT(l - 1, 2 * w, c2.nxt)
           c4 == HT(l - 1, 2 * w, c3.nxt)
       IN [ms |-> <<f, f + 1, f + 2>> \o c1.ms \o c2.ms \o c3.ms \o c4.ms,
           es |-> << <<w, f + 1, f>>, <<w, f + 2, f>> >>
                  \o << <<w, f, f + 3>> >> \o c1.es \o << <<w, f, c1.nxt>> >> \o c2.es
                  \o << <<w, f, c2.nxt>> >> \o c3.es \o << <<w, f, c3.nxt>> >> \o c4.es
                  \o << <<w, f + 1, f + 3>>, <<w, f + 1, c1.nxt>>, <<w, f + 2, c2.nxt>>, <<w, f + 2, c3.nxt>> >>,
           nxt |-> c4.nxt]
HTree(l) == LET t == HT(l, 1000, 0) IN
            [mods |-> [ i \in DOMAIN t.ms |-> Soft(N1(t.ms[i])) ],
             nets |-> [ i \in DOMAIN t.es |-> <<t.es[i][1], <<N1(t.es[i][2]), N1(t.es[i][3])>>>> ]]

NetgenDoc(f) == CASE f[1] = "chain" -> Chain(f[2])        [] f[1] = "ring" -> Ring(f[2])
                  [] f[1] = "star" -> Star(f[2])          [] f[1] = "ring-star" -> RingStar(f[2])
                  [] f[1] = "one-net" -> OneNet(f[2])     [] f[1] = "grid" -> Grid(f[2], f[3])
                  [] f[1] = "htree" -> HTree(f[2])

(***************************************************************************)
(* 3. The user's part of the input netlist (all.py starts from a netlist   *)
(*    the user supplies): fixed IO pin on the left border, a pre-placed    *)
(*    block in the upper-right corner region, a movable pin in the         *)
(*    lower-right corner.  Coordinates are fractions of the die.           *)
(***************************************************************************)
FPin(D) == <<"P0", "fpin", 0, 1, 0, D[2] \div 2>>
Pin(D) == <<"T0", "pin", 0, 1, D[1], 0>>
FirstMod(d) == MName(d.mods[1])
LastMod(d) == MName(d.mods[Len(d.mods)])
Edited(d, e, D, barea) ==
  LET blk == <<"B0", "block", barea, 1, D[1] - D[1] \div 8, D[2] - D[2] \div 8>> IN
  CASE e = "none" -> d
    [] e = "fpin" -> [mods |-> Append(d.mods, FPin(D)), nets |-> Append(d.nets, <<1000, <<"P0", FirstMod(d)>>>>)]
    [] e = "block" -> [mods |-> Append(d.mods, blk), nets |-> Append(d.nets, <<2000, <<"B0", LastMod(d)>>>>)]
    [] e = "fpin+block" -> [mods |-> d.mods \o <<FPin(D), blk>>,
                            nets |-> d.nets \o << <<1000, <<"P0", FirstMod(d)>>>>, <<2000, <<"B0", LastMod(d)>>>> >>]
    [] e = "pin" -> [mods |-> Append(d.mods, Pin(D)), nets |-> Append(d.nets, <<1000, <<"T0", FirstMod(d)>>>>)]

(***************************************************************************)
(* 4. Stage contracts (value-level: shared by the model and the trace spec)*)
(***************************************************************************)
\* the design is the same in two netlist documents: module set, kinds, areas, nets (members and weights)
SameModules(a, b) == Names(a) = Names(b) /\ Len(a.mods) = Len(b.mods)
SameKinds(a, b) == \A nm \in Names(a) \cap Names(b) : MKind(ModOf(a, nm)) = MKind(ModOf(b, nm))
SameAreas(a, b) == \A nm \in Names(a) \cap Names(b) : Abs(MArea(ModOf(a, nm)) - MArea(ModOf(b, nm))) <= 1
SameNets(a, b) == NetSet(a) = NetSet(b) /\ Len(a.nets) = Len(b.nets)
\* `fixed: true` modules (blocks and fixed pins) are where they were
FixedUnmoved(a, b) == \A nm \in Names(a) \cap Names(b) :
                         LET p == ModOf(a, nm)  q == ModOf(b, nm) IN
                         IsFixedKind(MKind(p)) => /\ MHas(q) = 1
                                                  /\ Abs(MX(q) - MX(p)) <= TOL /\ Abs(MY(q) - MY(p)) <= TOL
\* every movable module has a centre inside the die
MovablePlaced(b, D) == \A i \in DOMAIN b.mods : IsMovable(b.mods[i]) =>
                          MHas(b.mods[i]) = 1 /\ InDie(MX(b.mods[i]), MY(b.mods[i]), D)
AllHaveCentres(d) == \A i \in DOMAIN d.mods : MHas(d.mods[i]) = 1
NumMovable(d) == Cardinality({ i \in DOMAIN d.mods : IsMovable(d.mods[i]) })
OnSomeNet(d) == \A nm \in Names(d) : \E i \in DOMAIN d.nets : \E j \in DOMAIN d.nets[i][2] : d.nets[i][2][j] = nm

\* preconditions: what each stage's reader and algorithm need from the documents it is handed
SpectralPre(d) == WellFormed(d) /\ NumMovable(d) >= 4 /\ OnSomeNet(d)
ForcePre(d) == WellFormed(d) /\ AllHaveCentres(d)
GlbfloorPre(d) == WellFormed(d) /\ AllHaveCentres(d)
RectPre(d, a) == WellFormed(d) /\ AllHaveCentres(d) /\ Len(a.cells) > 0       \* what `frame rect` would be handed

\* a placement stage (spectral, force): same design, fixed parts untouched, movable modules placed in the die
PlacePost(rd, wr, D, bs) ==
  [ same_modules |-> SameModules(bs, wr), same_kinds |-> SameKinds(bs, wr), same_areas |-> SameAreas(bs, wr),
    same_nets |-> SameNets(bs, wr), fixed_unmoved |-> FixedUnmoved(bs, wr),
    movable_placed_in_die |-> MovablePlaced(wr, D) ]

\* the allocation document
CellInDie(c, D) == -TOL <= c[1] /\ c[1] < c[3] /\ c[3] <= D[1] + TOL /\ -TOL <= c[2] /\ c[2] < c[4] /\ c[4] <= D[2] + TOL
Disjoint(c, e) == c[3] <= e[1] + TOL \/ e[3] <= c[1] + TOL \/ c[4] <= e[2] + TOL \/ e[4] <= c[2] + TOL
AllocNames(a) == { a.shares[i][2] : i \in DOMAIN a.shares }
WithArea(d) == { MName(d.mods[i]) : i \in { j \in DOMAIN d.mods : MArea(d.mods[j]) > 0 } }
\* centre of mass of a module's shares against its centre, in coarse units (1/500 of the larger die side, so that
\* every sum stays below 2^31): weight = cell area * ratio; sum weight * 2 cx = 2 X * sum weight within COMTOL
Coarse(v, D) == (v * 500) \div Mx(D[1], D[2])
ComOK(d, a, D, nm) ==
  LET idx == { i \in DOMAIN a.shares : a.shares[i][2] = nm }
      w(i) == LET c == a.cells[a.shares[i][1]] IN
              ((Coarse(c[3], D) - Coarse(c[1], D)) * (Coarse(c[4], D) - Coarse(c[2], D)) * a.shares[i][3]) \div 1000
      cx2(i) == LET c == a.cells[a.shares[i][1]] IN Coarse(c[1], D) + Coarse(c[3], D)
      cy2(i) == LET c == a.cells[a.shares[i][1]] IN Coarse(c[2], D) + Coarse(c[4], D)
      den == FoldSet(LAMBDA i, s : s + w(i), 0, idx)
      nx == FoldSet(LAMBDA i, s : s + w(i) * cx2(i), 0, idx)
      ny == FoldSet(LAMBDA i, s : s + w(i) * cy2(i), 0, idx)
      m == ModOf(d, nm)
  IN /\ den > 0 /\ MHas(m) = 1
     /\ Abs(nx - 2 * Coarse(MX(m), D) * den) <= COMTOL * den + 2 * den
     /\ Abs(ny - 2 * Coarse(MY(m), D) * den) <= COMTOL * den + 2 * den

\* glbfloor's own model defines the centre as  sum(cell area * ratio * cell centre) / MODULE area  over all cells,
\* requires  sum(cell area * ratio) >= module area,  and then drops the ratios <= 1 - threshold from the allocation
\* it writes.  The centre is therefore the centre of mass of the written shares only when these shares account for
\* the module's area: allocated area within 2 % of the module's area (areas are in 1/1000 of a square die unit; D[3] is
\* the larger die side in 1/1000 die units, which converts them to the length units of the instance).
AreaAccounted(d, a, D, nm) ==
  LET idx == { i \in DOMAIN a.shares : a.shares[i][2] = nm }
      w(i) == LET c == a.cells[a.shares[i][1]] IN
              ((Coarse(c[3], D) - Coarse(c[1], D)) * (Coarse(c[4], D) - Coarse(c[2], D)) * a.shares[i][3]) \div 1000
      got == FoldSet(LAMBDA i, s : s + w(i), 0, idx)                       \* in (1/500 of the larger side)^2
      \* the module's area in the same unit: area/1000 die units^2 * (500 / larger side in die units)^2
      q == 5000000 \div D[3]                                               \* 10 * coarse units per die unit
      want == MulDiv(q * q, MArea(ModOf(d, nm)), 100000)
  IN 50 * Abs(got - want) <= want

\* glbfloor: same design, fixed parts untouched, every module has a centre in the die; the allocation lists exactly
\* the modules that have an area (pins have none), its cells lie in the die and are pairwise disjoint, ratios are in
\* [0, 1], and every movable module's centre is the centre of mass of its shares
GlbfloorPost(rd, wr, a, D, bs) ==
  [ same_modules |-> SameModules(bs, wr), same_kinds |-> SameKinds(bs, wr), same_areas |-> SameAreas(bs, wr),
    same_nets |-> SameNets(bs, wr), fixed_unmoved |-> FixedUnmoved(bs, wr),
    movable_placed_in_die |-> MovablePlaced(wr, D),
    alloc_compatible |-> AllocNames(a) = WithArea(wr),
    cells_in_die |-> \A i \in DOMAIN a.cells : CellInDie(a.cells[i], D),
    cells_disjoint |-> \A i, j \in DOMAIN a.cells : i < j => Disjoint(a.cells[i], a.cells[j]),
    ratios_in_range |-> \A i \in DOMAIN a.shares : /\ a.shares[i][1] \in DOMAIN a.cells
                                                    /\ 0 <= a.shares[i][3] /\ a.shares[i][3] <= 1001,
    \* judged for the modules whose written shares account for their area (see AreaAccounted)
    centre_is_centre_of_mass |-> \A nm \in AllocNames(a) \cap Names(wr) :
                                    (MKind(ModOf(wr, nm)) = "soft" /\ AreaAccounted(wr, a, D, nm)) => ComOK(wr, a, D, nm) ]

Failing(rec) == { c \in DOMAIN rec : ~rec[c] }

(***************************************************************************)
(* 5. The state machine                                                    *)
(***************************************************************************)
DIES == { <<8 * (c \div 100), 8 * (c % 100), 1000 * Mx(c \div 100, c % 100)>> : c \in DIESEL }    \* model length unit = 1/8 die unit
POS == { <<c \div 100, c % 100>> : c \in POSSEL }

\* netgen invocations <<type, size1, size2>> (size2 = 0 unless type = "grid")
FLOWS == { <<t, n, 0>> : t \in TYPES, n \in SIZES } \cup { <<"grid", g \div 100, g % 100>> : g \in GRIDS }
         \cup { <<"htree", l, 0>> : l \in HLEVELS }

Init == stage = "start" /\ flow = <<"", 0, 0>> /\ edit = "" /\ die = <<0, 0, 1>> /\ base = NoNet /\ net = NoNet /\ alloc = NoAlloc

\* netgen invoked as f for a flow on die D writes doc
NetgenWrites(f, D, doc) == /\ stage = "start" /\ flow' = f /\ die' = D /\ net' = doc
                           /\ stage' = "netgen" /\ UNCHANGED <<edit, base, alloc>>
RunNetgen == \E f \in FLOWS, D \in DIES : NetgenWrites(f, D, NetgenDoc(f))

\* the user completes the netlist with his fixed parts: this is the design handed to the flow
UserWrites(e, doc) == /\ stage = "netgen" /\ edit' = e /\ net' = doc /\ base' = doc
                      /\ stage' = "user" /\ UNCHANGED <<flow, die, alloc>>
BlockArea(D, perunit) == (1000 * D[1] * D[2]) \div (16 * perunit * perunit)      \* W/4 x H/4 in 1/1000 area units
UserEdit == \E e \in EDITS : UserWrites(e, Edited(net, e, die, BlockArea(die, 8)))

\* the documents a placement stage may write: the movable modules anywhere in the die, everything else as read
Placed(d, D) ==
  LET mov == { i \in DOMAIN d.mods : IsMovable(d.mods[i]) }
      choices == [ mov -> { p \in POS : p[1] <= D[1] /\ p[2] <= D[2] } ]
  IN { [mods |-> [ i \in DOMAIN d.mods |-> IF i \in mov THEN <<MName(d.mods[i]), MKind(d.mods[i]), MArea(d.mods[i]), 1, ch[i][1], ch[i][2]>>
                                                           ELSE d.mods[i] ],
        nets |-> d.nets] : ch \in choices }

StageTo(s, doc) == stage' = s /\ net' = doc /\ UNCHANGED <<flow, edit, die, base, alloc>>
RunSpectral == /\ ~EMIT /\ stage = "user" /\ SpectralPre(net)
               /\ \E doc \in Placed(net, die) : StageTo("spectral", doc)
RunForce == /\ ~EMIT /\ stage = "spectral" /\ ForcePre(net)
            /\ \E doc \in Placed(net, die) : StageTo("force", doc)

\* glbfloor in the model: the die is cut into three quadrants and the four quarters of the upper-right quadrant;
\* the last quarter (the upper-right corner, W/4 x H/4) is the rectangle of the user's block, which owns it entirely
\* and keeps its centre; every soft module is given to one of the other cells with the share of the cell it needs,
\* and its centre becomes the centre of that cell
GlbCells(D) == LET w == D[1] \div 2  h == D[2] \div 2  q == D[1] \div 4  r == D[2] \div 4 IN
               << <<0, 0, w, h>>, <<w, 0, D[1], h>>, <<0, h, w, D[2]>>,
                  <<w, h, w + q, h + r>>, <<w + q, h, D[1], h + r>>, <<w, h + r, w + q, D[2]>>, <<w + q, h + r, D[1], D[2]>> >>
CArea(c) == (c[3] - c[1]) * (c[4] - c[2])
GlbTo(doc, a) == stage' = "glbfloor" /\ net' = doc /\ alloc' = a /\ UNCHANGED <<flow, edit, die, base>>
RunGlbfloor ==
  /\ ~EMIT /\ stage = "force" /\ GlbfloorPre(net)
  /\ LET soft == { i \in DOMAIN net.mods : MKind(net.mods[i]) = "soft" }
         blocks == { i \in DOMAIN net.mods : MKind(net.mods[i]) = "block" }
         cells == GlbCells(die)
     IN \E asg \in [ soft -> GCELLS ] :
          /\ \A c \in 1..6 : Cardinality({ i \in soft : asg[i] = c }) * 64 <= CArea(cells[c])   \* no cell over-occupied (area 1 = 64 units^2)
          /\ LET doc == [mods |-> [ i \in DOMAIN net.mods |->
                                      IF i \in soft THEN LET c == cells[asg[i]] IN
                                         <<MName(net.mods[i]), "soft", MArea(net.mods[i]), 1, (c[1] + c[3]) \div 2, (c[2] + c[4]) \div 2>>
                                      ELSE net.mods[i] ],
                         nets |-> net.nets]
                 a == [cells |-> cells,
                       shares |-> SetToSeq({ <<asg[i], MName(net.mods[i]), (64 * 1000) \div CArea(cells[asg[i]])>> : i \in soft }
                                           \cup { <<7, MName(net.mods[i]), 1000>> : i \in blocks })]
             IN GlbTo(doc, a)

\* GEKKO (force's Kamada-Kawai step, glbfloor's optimisation) may report that it found no solution: the stage
\* writes nothing and the flow stops
Stops == stage' = "stopped" /\ UNCHANGED <<flow, edit, die, base, net, alloc>>
NoSolution == ~EMIT /\ stage \in {"spectral", "force"} /\ Stops

Emit == /\ EMIT /\ stage = "user"
        /\ stage' = "emitted" /\ UNCHANGED <<flow, edit, die, base, net, alloc>>
        /\ PrintT(ToJson([ flow |-> flow, edit |-> edit, die |-> <<die[1] \div 8, die[2] \div 8>>,
                           modules |-> Len(net.mods), nets |-> Len(net.nets) ]))

Next == RunNetgen \/ UserEdit \/ RunSpectral \/ RunForce \/ RunGlbfloor \/ NoSolution \/ Emit
Spec == Init /\ [][Next]_vars

(***************************************************************************)
(* 6. Invariants: the hand-off contract                                    *)
(***************************************************************************)
InFlow == stage \in {"user", "spectral", "force", "glbfloor", "stopped"}
TypeOK == stage \in {"start", "netgen", "user", "spectral", "force", "glbfloor", "stopped", "emitted"}
\* the producer writes a document every reader accepts, and so does the user's edit
ProducerWellFormed == stage \in {"netgen", "user"} => WellFormed(net)
\* every document a stage writes is accepted by the stage that reads it next
HandOff == /\ (stage = "user" => SpectralPre(net))
           /\ (stage = "spectral" => ForcePre(net))
           /\ (stage = "force" => GlbfloorPre(net))
           /\ (stage = "glbfloor" => RectPre(net, alloc))
\* the design never changes along the flow
DesignPreserved == InFlow => /\ SameModules(base, net) /\ SameKinds(base, net) /\ SameAreas(base, net) /\ SameNets(base, net)
\* fixed blocks and fixed pins never move
FixedStay == InFlow => FixedUnmoved(base, net)
\* after spectral and after force every movable module has a centre inside the die
PlacedAfterPlacement == stage \in {"spectral", "force", "glbfloor"} => MovablePlaced(net, die)
\* what glbfloor writes satisfies its whole contract
GlbfloorContract == stage = "glbfloor" => Failing(GlbfloorPost(net, net, alloc, die, base)) = {}
\* no allocation before glbfloor
AllocOnlyAfterGlbfloor == stage # "glbfloor" => alloc = NoAlloc
\* each placement step obeys its contract (ties Placed to PlacePost, which PipelineTrace uses)
PlacementSteps == [][(stage' \in {"spectral", "force"} /\ stage' # stage) => Failing(PlacePost(net, net', die, base)) = {}]_vars
=============================================================================
