------------------------------ MODULE GlbFloor ------------------------------
(***************************************************************************)
(* C10 -- Global floorplanning returns a feasible allocation and rigid     *)
(* hard modules.                                                           *)
(*                                                                         *)
(* tools/glbfloor/optimization.py:glbfloor is a refine-and-optimise loop   *)
(* around a non-linear solver (GEKKO).  What the solver returns is NOT     *)
(* predicted; the specification is the contract of every step, in the      *)
(* shape of the implementation:                                            *)
(*                                                                         *)
(*   InitAlloc   create_initial_allocation(die): the cells are the die's   *)
(*               refinable rectangles + the rectangles of the fixed        *)
(*               modules; a fixed module owns its cells (ratio 1)          *)
(*   Optimize    optimize_allocation builds the model and GEKKO returns    *)
(*               SOME solution of it: ratios a[m][c] in [0,1] with         *)
(*               sum_m a[m][c] <= 1 in every cell (l.313), the ratios of a *)
(*               fixed module are constants (l.300), every centre is       *)
(*               inside the die's bounding box (l.285), the rectangles of  *)
(*               a movable hard module keep their offsets, or the mirrored *)
(*               offsets when it is flippable (l.343-367)                  *)
(*   Extract     extract_solution: ratios <= 1 - threshold are dropped,    *)
(*               cells left empty are dropped, centres := solution, hard   *)
(*               modules are re-centred and mirrored (l.105-159)           *)
(*   Refine      Allocation.refine(threshold): a cell in which no module   *)
(*               exceeds the threshold is halved, both halves inherit the  *)
(*               ratios                                                    *)
(*   Stop        max_iter reached or nothing left to refine: the state     *)
(*               after the last Extract is returned                        *)
(*                                                                         *)
(* Every state after an Extract is a possible return value (max_iter is    *)
(* any positive number), so the clauses of C10 are invariants of those     *)
(* states: CellsDisjoint, CellsInDie, RatioIn01, Capacity, CentresInDie,   *)
(* FixedKeep, HardCongruent.  TLC checks them on a small lattice with      *)
(* ratio quanta k/Den where Optimize returns ANY solution of the modelled  *)
(* constraints; GlbFloorTrace judges snapshots of real runs with the same  *)
(* value-level operators.                                                  *)
(*                                                                         *)
(* Not modelled (irrelevant to the clauses; they only restrict which       *)
(* solution is returned or make the model infeasible = "does not return"): *)
(* the area and centroid equations, the dispersion, the objective, and     *)
(* the ratios frozen by the threshold test of l.301-302.  The initial      *)
(* ratios are C03's subject and are overwritten by the first Optimize.     *)
(*                                                                         *)
(* Values are JSON-shaped.  A cell is <<x1,y1,x2,y2>>; ratio[c][m] is the  *)
(* numerator over Den of module m in cell c (0 = not in the cell's map);   *)
(* an instance is [die, cells, owner, mods, thr, maxiter, ...] with        *)
(* mods[m] = [kind, flip, rects, c0], kind in {"soft","hard","fixed"},     *)
(* owner[c] = the fixed module whose rectangle cell c is, or 0, thr in     *)
(* the unit of Den (threshold * Den).                                      *)
(***************************************************************************)
EXTENDS Geometry, TLC, Json

CONSTANTS Instances,   \* set of instances (GlbFloorMC)
          Den,         \* ratio denominator
          TOLR,        \* ratio tolerance in 1/Den (0 in the model, solver tolerance in trace validation)
          TOLP,        \* position tolerance in lattice quanta (0 in the model)
          EMIT,        \* TRUE: print the instances (behaviour generation), explore nothing
          EMITSOL      \* TRUE: print every solution Optimize may return for the initial allocation (replayed into the
                       \*       real extract_solution), instead of extracting it

VARIABLES phase,   \* "init" | "ready" | "solved" | "extracted" | "returned" | "emitted"
          inst,    \* the instance (never changes)
          iter,    \* optimisations done
          cells,   \* sequence of cells of the current allocation
          ratio,   \* ratio[c][m]
          centre,  \* centre[m] = <<x, y>>
          mrects,  \* mrects[m] = current rectangles of module m (<<>> for a soft module)
          sol      \* the solution GEKKO returned, consumed by Extract
vars == <<phase, inst, iter, cells, ratio, centre, mrects, sol>>

SumSeq(s) == FoldSeq(LAMBDA v, acc : acc + v, 0, s)
ModsOf(in) == 1..Len(in.mods)
FixedMods(in) == { m \in ModsOf(in) : in.mods[m].kind = "fixed" }
HardMov(in) == { m \in ModsOf(in) : in.mods[m].kind = "hard" }
DieRect(in) == Rect(0, 0, in.die[1], in.die[2])
\* overlap without multiplying (trace coordinates are large)
Ovl(a, b) == OvW(a, b) > 0 /\ OvH(a, b) > 0

(***************************************************************************)
(* The clauses of C10 on a returned state (value-level, shared with the    *)
(* trace specification)                                                    *)
(***************************************************************************)
CellsDisjoint(cs) == \A i \in DOMAIN cs : \A j \in DOMAIN cs : i < j => ~Ovl(RectOf(cs[i]), RectOf(cs[j]))
CellsInDie(in, cs) == \A i \in DOMAIN cs : IsRect(RectOf(cs[i])) /\ Inside(RectOf(cs[i]), DieRect(in))
RatioIn01(rt) == \A c \in DOMAIN rt : \A m \in DOMAIN rt[c] : 0 <= rt[c][m] /\ rt[c][m] <= Den
Capacity(rt, tol) == \A c \in DOMAIN rt : SumSeq(rt[c]) <= Den + tol
CentresInDie(in, ctr, tol) == \A m \in DOMAIN ctr : /\ -tol <= ctr[m][1] /\ ctr[m][1] <= in.die[1] + tol
                                                    /\ -tol <= ctr[m][2] /\ ctr[m][2] <= in.die[2] + tol
\* a fixed module keeps its rectangles; wherever it is allocated it has the whole cell and nobody else has any of
\* it; and its cells are exactly the region of its rectangles
CellsOf(cs, rt, f) == { RectOf(cs[c]) : c \in { cc \in DOMAIN cs : rt[cc][f] > 0 } }
FixedKeep(in, cs, rt, mr, tol) ==
  \A f \in FixedMods(in) :
    /\ mr[f] = in.mods[f].rects
    /\ \A c \in DOMAIN cs : rt[c][f] > 0 => rt[c][f] >= Den - tol /\ SumSeq(rt[c]) - rt[c][f] <= tol
    /\ SameRegion(CellsOf(cs, rt, f), { RectOf(in.mods[f].rects[k]) : k \in DOMAIN in.mods[f].rects })
\* the rectangles of a movable hard module: same shapes, offsets to the first rectangle kept or mirrored (sx, sy = -1)
CongruentBy(rs0, rs1, sx, sy, tol) ==
  /\ Len(rs0) = Len(rs1)
  /\ \A k \in DOMAIN rs0 :
       LET a == RectOf(rs0[k])  b == RectOf(rs1[k])  a1 == RectOf(rs0[1])  b1 == RectOf(rs1[1]) IN
       /\ Abs(W(b) - W(a)) <= tol /\ Abs(H(b) - H(a)) <= tol
       /\ Abs((Cx2(b) - Cx2(b1)) - sx * (Cx2(a) - Cx2(a1))) <= 2 * tol
       /\ Abs((Cy2(b) - Cy2(b1)) - sy * (Cy2(a) - Cy2(a1))) <= 2 * tol
HardCongruent(in, mr, tol) ==
  \A m \in HardMov(in) : \E sx \in {1, -1}, sy \in {1, -1} : CongruentBy(in.mods[m].rects, mr[m], sx, sy, tol)
\* conformance only: a module that is not flippable is never mirrored
NoUnwantedMirror(in, mr, tol) ==
  \A m \in HardMov(in) : in.mods[m].flip = 0 => CongruentBy(in.mods[m].rects, mr[m], 1, 1, tol)

Clauses(in, cs, rt, ctr, mr, tolr, tolp) ==
  [ cells_disjoint  |-> CellsDisjoint(cs),
    cells_in_die    |-> CellsInDie(in, cs),
    ratio_in_01     |-> RatioIn01(rt),
    capacity        |-> Capacity(rt, tolr),
    centres_in_die  |-> CentresInDie(in, ctr, tolp),
    fixed_keep      |-> FixedKeep(in, cs, rt, mr, tolr),
    hard_congruent  |-> HardCongruent(in, mr, tolp),
    d_no_unwanted_mirror |-> NoUnwantedMirror(in, mr, tolp) ]
AllTrue(cl) == \A k \in DOMAIN cl : cl[k]

(***************************************************************************)
(* Extract and Refine as values                                            *)
(***************************************************************************)
\* extract_solution keeps a ratio iff a > 1 - threshold
Kept(a, thr) == a > Den - thr
FilterCell(av, thr) == [ m \in DOMAIN av |-> IF Kept(av[m], thr) THEN av[m] ELSE 0 ]
NonEmpty(rv) == \E m \in DOMAIN rv : rv[m] > 0
\* indices of the cells that survive, in order
Survivors(a, thr) == SelectSeq([ c \in DOMAIN a |-> c ], LAMBDA c : NonEmpty(FilterCell(a[c], thr)))
ExtractCells(cs, a, thr) == [ k \in DOMAIN Survivors(a, thr) |-> cs[Survivors(a, thr)[k]] ]
ExtractRatio(a, thr) == [ k \in DOMAIN Survivors(a, thr) |-> FilterCell(a[Survivors(a, thr)[k]], thr) ]

\* Allocation.refine / must_be_refined: a cell that is not the rectangle of a fixed module, has a non-empty map, and
\* in which no ratio exceeds the threshold.  (Before the fixes of C02/C12 in allocation.py the two functions differed
\* on empty maps and on fixed rectangles; inside glbfloor that only mattered for threshold 1.0.)
IsFixedCell(in, c) == \E f \in FixedMods(in) : \E k \in DOMAIN in.mods[f].rects : in.mods[f].rects[k] = c
Splits(in, c, rv, thr) == ~IsFixedCell(in, c) /\ NonEmpty(rv) /\ \A m \in DOMAIN rv : rv[m] <= thr
MustBeRefined(in, cs, rt, thr) == \E c \in DOMAIN cs : Splits(in, cs[c], rt[c], thr)
HalvesOf(c) == LET p == Halve(RectOf(c)) IN << <<p[1].x1, p[1].y1, p[1].x2, p[1].y2>>, <<p[2].x1, p[2].y1, p[2].x2, p[2].y2>> >>
RECURSIVE RefineCells(_, _, _, _), RefineRatio(_, _, _, _)
RefineCells(in, cs, rt, thr) ==
  IF cs = <<>> THEN <<>>
  ELSE (IF Splits(in, Head(cs), Head(rt), thr) THEN HalvesOf(Head(cs)) ELSE <<Head(cs)>>) \o RefineCells(in, Tail(cs), Tail(rt), thr)
RefineRatio(in, cs, rt, thr) ==
  IF rt = <<>> THEN <<>>
  ELSE (IF Splits(in, Head(cs), Head(rt), thr) THEN <<Head(rt), Head(rt)>> ELSE <<Head(rt)>>) \o RefineRatio(in, Tail(cs), Tail(rt), thr)
CanRefine(in, cs, rt, thr) == \A c \in DOMAIN cs : Splits(in, cs[c], rt[c], thr) => CanHalve(RectOf(cs[c]))

\* conformance of an observed refinement (order-free, tolerant of a ratio within tol of the threshold): every new
\* cell is an old cell that did not have to split, or a half of an old cell that was allowed to split, with its ratios
\* (a square cell may be cut either way: under an inexact embedding width and height differ in the last bit)
Rect4(r) == <<r.x1, r.y1, r.x2, r.y2>>
HalfSet(c) == LET r == RectOf(c)
                  hx == IF CanHalveX(r) THEN { Rect4(HalveX(r)[1]), Rect4(HalveX(r)[2]) } ELSE {}
                  hy == IF CanHalveY(r) THEN { Rect4(HalveY(r)[1]), Rect4(HalveY(r)[2]) } ELSE {}
              IN IF W(r) = H(r) THEN hx \cup hy ELSE IF SplitsY(r) THEN hy ELSE hx
RefineConforms(in, cs0, rt0, cs1, rt1, thr, tol) ==
  /\ Len(cs1) = Len(rt1)
  /\ \A k \in DOMAIN cs1 : \E c \in DOMAIN cs0 :
        /\ rt1[k] = rt0[c]
        /\ \/ cs1[k] = cs0[c] /\ ~Splits(in, cs0[c], rt0[c], thr - tol)
           \/ cs1[k] \in HalfSet(cs0[c]) /\ Splits(in, cs0[c], rt0[c], thr + tol)
  /\ SameRegion({ RectOf(cs0[c]) : c \in DOMAIN cs0 }, { RectOf(cs1[k]) : k \in DOMAIN cs1 })
\* conformance of an observed optimisation result: cells are old cells, none is empty, no ratio at or below 1 - thr
ExtractConforms(cs0, cs1, rt1, thr, tol) ==
  /\ Len(cs1) = Len(rt1)
  /\ \A k \in DOMAIN cs1 : (\E c \in DOMAIN cs0 : cs1[k] = cs0[c]) /\ NonEmpty(rt1[k])
  /\ \A k \in DOMAIN rt1 : \A m \in DOMAIN rt1[k] : rt1[k][m] > 0 => rt1[k][m] > Den - thr - tol

(***************************************************************************)
(* Re-centring and mirroring of a hard module (Module.recenter_rectangles  *)
(* and the flip code of extract_solution)                                  *)
(***************************************************************************)
RArea(t) == (t[3] - t[1]) * (t[4] - t[2])
RectsArea(rs) == SumSeq([ k \in DOMAIN rs |-> RArea(rs[k]) ])
Centroid2(rs) == << SumSeq([ k \in DOMAIN rs |-> RArea(rs[k]) * (rs[k][1] + rs[k][3]) ]) \div RectsArea(rs),
                    SumSeq([ k \in DOMAIN rs |-> RArea(rs[k]) * (rs[k][2] + rs[k][4]) ]) \div RectsArea(rs) >>
ShiftRects(rs, dx, dy) == [ k \in DOMAIN rs |-> <<rs[k][1] + dx, rs[k][2] + dy, rs[k][3] + dx, rs[k][4] + dy>> ]
MirrorX(rs, cx) == [ k \in DOMAIN rs |-> <<2 * cx - rs[k][3], rs[k][2], 2 * cx - rs[k][1], rs[k][4]>> ]
MirrorY(rs, cy) == [ k \in DOMAIN rs |-> <<rs[k][1], 2 * cy - rs[k][4], rs[k][3], 2 * cy - rs[k][2]>> ]
Placed(rs, c, mx, my) ==
  LET moved == ShiftRects(rs, c[1] - Centroid2(rs)[1] \div 2, c[2] - Centroid2(rs)[2] \div 2)
      fx == IF mx = 1 THEN MirrorX(moved, c[1]) ELSE moved
  IN IF my = 1 THEN MirrorY(fx, c[2]) ELSE fx

(***************************************************************************)
(* The machine                                                             *)
(***************************************************************************)
Init == /\ inst \in Instances
        /\ phase = "init" /\ iter = 0 /\ cells = <<>> /\ ratio = <<>> /\ sol = <<>>
        /\ centre = [ m \in ModsOf(inst) |-> inst.mods[m].c0 ]
        /\ mrects = [ m \in ModsOf(inst) |-> inst.mods[m].rects ]

\* create_initial_allocation: the die's rectangles; a fixed module owns the cells that are its rectangles
InitAlloc == /\ ~EMIT /\ phase = "init"
             /\ cells' = inst.cells
             /\ ratio' = [ c \in DOMAIN inst.cells |-> [ m \in ModsOf(inst) |-> IF inst.owner[c] = m THEN Den ELSE 0 ] ]
             /\ phase' = "ready"
             /\ UNCHANGED <<inst, iter, centre, mrects, sol>>

\* all vectors v with v[i] \in R[i]
RECURSIVE Prod(_, _)
Prod(R, n) == IF n = 0 THEN {<<>>} ELSE { Append(s, v) : s \in Prod(R, n - 1), v \in R[n] }
\* the ratios GEKKO may return for one cell: constants for the fixed modules, anything in [0,1] for the others,
\* the cell not over-occupied
CellSolutions(in, rv) ==
  { av \in Prod([ m \in ModsOf(in) |-> IF m \in FixedMods(in) THEN {rv[m]} ELSE 0..Den ], Len(in.mods)) : SumSeq(av) <= Den }
\* the centres: a fixed module stays (constant of the model), the others anywhere in the bounding box of the die
\* (TLC: a few points of it, corners included)
CentreChoices(in) == { <<0, 0>>, <<in.die[1], in.die[2]>>, <<in.die[1] \div 2, in.die[2] \div 2>> }
Solutions(in, rt, ctr) ==
  [ a : Prod([ c \in DOMAIN rt |-> CellSolutions(in, rt[c]) ], Len(rt)),
    centre : Prod([ m \in ModsOf(in) |-> IF m \in FixedMods(in) THEN {ctr[m]} ELSE CentreChoices(in) ], Len(in.mods)),
    mx : Prod([ m \in ModsOf(in) |-> IF m \in HardMov(in) /\ in.mods[m].flip = 1 THEN {0, 1} ELSE {0} ], Len(in.mods)),
    my : Prod([ m \in ModsOf(in) |-> IF m \in HardMov(in) /\ in.mods[m].flip = 1 THEN {0, 1} ELSE {0} ], Len(in.mods)) ]

Optimize == /\ phase = "ready"
            /\ sol' \in Solutions(inst, ratio, centre)
            /\ phase' = "solved"
            /\ UNCHANGED <<inst, iter, cells, ratio, centre, mrects>>

\* a solution in which every cell is left empty cannot be rebuilt into an Allocation: the code raises (outside the
\* quantifier "for which the optimiser returns")
Extract == /\ phase = "solved" /\ ~EMITSOL
           /\ Survivors(sol.a, inst.thr) # <<>>
           /\ cells' = ExtractCells(cells, sol.a, inst.thr)
           /\ ratio' = ExtractRatio(sol.a, inst.thr)
           /\ centre' = sol.centre
           /\ mrects' = [ m \in ModsOf(inst) |-> IF m \in HardMov(inst) THEN Placed(mrects[m], sol.centre[m], sol.mx[m], sol.my[m])
                                                  ELSE mrects[m] ]
           /\ iter' = iter + 1 /\ phase' = "extracted" /\ sol' = <<>>
           /\ UNCHANGED inst

Refine == /\ phase = "extracted" /\ iter < inst.maxiter
          /\ MustBeRefined(inst, cells, ratio, inst.thr) /\ CanRefine(inst, cells, ratio, inst.thr)
          /\ cells' = RefineCells(inst, cells, ratio, inst.thr)
          /\ ratio' = RefineRatio(inst, cells, ratio, inst.thr)
          /\ phase' = "ready"
          /\ UNCHANGED <<inst, iter, centre, mrects, sol>>

Stop == /\ phase = "extracted" /\ (iter >= inst.maxiter \/ ~MustBeRefined(inst, cells, ratio, inst.thr))
        /\ phase' = "returned"
        /\ UNCHANGED <<inst, iter, cells, ratio, centre, mrects, sol>>

EmitCase == /\ EMIT /\ phase = "init"
            /\ PrintT(ToJson(inst))
            /\ phase' = "emitted"
            /\ UNCHANGED <<inst, iter, cells, ratio, centre, mrects, sol>>

\* behaviour generation for Extract: the state before, and the solution (ratios, centres, mirror flags)
EmitSolved == /\ EMITSOL /\ phase = "solved"
              /\ PrintT(ToJson([ inst |-> inst, cells |-> cells, ratio |-> ratio, sol |-> sol,
                                  \* where the solution puts the rectangles of the hard modules (the harness gives
                                  \* their centres to the "fake" modules of the solver model)
                                  placed |-> [ m \in ModsOf(inst) |-> IF m \in HardMov(inst)
                                                 THEN Placed(mrects[m], sol.centre[m], sol.mx[m], sol.my[m]) ELSE <<>> ] ]))
              /\ phase' = "emitted"
              /\ UNCHANGED <<inst, iter, cells, ratio, centre, mrects, sol>>

Next == EmitCase \/ EmitSolved \/ InitAlloc \/ Optimize \/ Extract \/ Refine \/ Stop
Spec == Init /\ [][Next]_vars

\* TLC view: between a Refine and the next Extract the centres and rectangles of the previous round are dead values
\* (Extract overwrites them, nothing reads them), so states that differ only there are explored once
View == <<phase, inst, iter, cells, ratio, sol,
          IF phase \in {"ready", "solved"} /\ iter > 0 THEN <<>> ELSE <<centre, mrects>> >>

(***************************************************************************)
(* Invariants = the clauses of C10 on every state that can be returned     *)
(***************************************************************************)
Returnable == phase \in {"extracted", "returned"}
ClauseInv == Returnable => AllTrue(Clauses(inst, cells, ratio, centre, mrects, TOLR, TOLP))
\* one line per clause, so that a violated clause is named by TLC
InvCellsDisjoint == Returnable => CellsDisjoint(cells)
InvCellsInDie == Returnable => CellsInDie(inst, cells)
InvRatioIn01 == Returnable => RatioIn01(ratio)
InvCapacity == Returnable => Capacity(ratio, TOLR)
InvCentresInDie == Returnable => CentresInDie(inst, centre, TOLP)
InvFixedKeep == Returnable => FixedKeep(inst, cells, ratio, mrects, TOLR)
InvHardCongruent == Returnable => HardCongruent(inst, mrects, TOLP) /\ NoUnwantedMirror(inst, mrects, TOLP)
\* the cells always tile what the initial cells tiled minus what was dropped: refinement never creates or loses area
InvRefineConforms == (phase = "ready" /\ iter > 0) => CellsDisjoint(cells) /\ CellsInDie(inst, cells)
\* the concrete Extract / Refine operators meet the conformance predicates the trace specification uses
ActRefineConforms == [][phase = "extracted" /\ phase' = "ready" => RefineConforms(inst, cells, ratio, cells', ratio', inst.thr, 0)]_vars
ActExtractConforms == [][phase = "solved" /\ phase' = "extracted" => ExtractConforms(cells, cells', ratio', inst.thr, 0)]_vars
\* the centroid of a re-centred hard module is the centre the solver chose
InvHardAtCentre == Returnable => \A m \in HardMov(inst) : Centroid2(mrects[m]) = <<2 * centre[m][1], 2 * centre[m][2]>>
=============================================================================
