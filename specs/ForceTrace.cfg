SPECIFICATION TraceSpec
CONSTANTS
  NM = 2
  DW = 10
  DH = 10
  PTC = {}
  KINDS = {}
  NITS = {}
  NK = 12
  COSTS = {}
  EMIT = FALSE
CHECK_DEADLOCK FALSE
