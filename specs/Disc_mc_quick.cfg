SPECIFICATION Spec
CONSTANTS
  RMAX = 6
  NC = 12
  JUMP = 60
  EMIT = FALSE
INVARIANT TypeOK
INVARIANT CasePartition
INVARIANT SpecSymmetric
INVARIANT BranchAgrees
INVARIANT AcosDomain
INVARIANT Bounded
INVARIANT ClosedInsideLipschitz
INVARIANT ModelMeetsProperty
PROPERTY SweepRankMonotone
PROPERTY SweepEnclosureMonotone
PROPERTY SweepEnclosureLipschitz
CHECK_DEADLOCK FALSE
