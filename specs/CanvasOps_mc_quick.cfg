\* coordinate map on 3 windows x 2 image sizes x (0..4)^2 + half points; rgb on all 256 channel values; 250 mixes; 9 hex strings
SPECIFICATION CSpec
CONSTANTS
  CN = 4
  CWINDOWS <- CQuickWindows
  SIZES <- QuickSizes
  DEEP = FALSE
  CEMIT = FALSE
INVARIANT LawInterp
INVARIANT LawRgb
INVARIANT LawMix
INVARIANT LawHex
INVARIANT LawRoundTrip
CHECK_DEADLOCK FALSE
