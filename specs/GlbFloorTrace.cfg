\* trace validation: ratios in 1/10000 with the solver tolerance 1e-3; positions in quanta, tolerance 2
SPECIFICATION TraceSpec
CONSTANTS
  Instances = {}
  Den = 10000
  TOLR = 10
  TOLP = 2
  EMIT = FALSE
  EMITSOL = FALSE
CHECK_DEADLOCK FALSE
