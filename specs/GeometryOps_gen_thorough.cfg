SPECIFICATION Spec
CONSTANTS
  N = 4
  K = 24
  EMIT = TRUE
CHECK_DEADLOCK FALSE
