SPECIFICATION Spec
CONSTANTS
  DW = 3
  DH = 3
  OUT = 0
  MAXR = 3
  TAGS <- Tags3
  XS <- XSu0
  YS <- XSu0
  SPLITS = {}
  GRIDS = {}
  EMIT = FALSE
INVARIANT VerdictIffValid
INVARIANT AllInside
INVARIANT NoOverlap
INVARIANT AreaSum
INVARIANT CoverExact
INVARIANT GroundFree
INVARIANT SplitMeetsPost
INVARIANT GridMeetsPost
INVARIANT SplitLoopInv
CHECK_DEADLOCK FALSE
