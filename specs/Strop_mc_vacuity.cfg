SPECIFICATION Spec
CONSTANTS
  MAXROWS = 3
  MAXCOLS = 3
  MAXCELLS = 6
  DECLCELLS = 12
  EMIT = FALSE
INVARIANT TypeOK
INVARIANT InvExists
INVARIANT InvPartition
INVARIANT InvAbut
INVARIANT InvShadowIsDecl
INVARIANT InvTrunksSuffice
INVARIANT InvTrunksFull
INVARIANT LemmaTrunksValid
CHECK_DEADLOCK FALSE
