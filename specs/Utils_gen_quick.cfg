SPECIFICATION Spec
CONSTANTS
  NEWLINE_TEXT = FALSE
  Alpha = {"a", "n", "N", "i", "f", "e", "0", "7", "udig", "_", ".", "+", "-", "sp", "tab", "nl", "uni", "q", ":", "br"}
  MaxLen = 4
  EMIT = TRUE
CHECK_DEADLOCK FALSE
