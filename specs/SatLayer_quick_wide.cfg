SPECIFICATION SSpec
CONSTANTS
  Vars = {"a", "b"}
  Fams = {"clause", "imply", "amo", "pb"}
  ClauseMax = 2
  AmoSeq = 2
  AmoMax = 2
  AmoPols = {0, 1}
  HeuleKs = {2, 3}
  PbShape = "raw"
  PbTerms = 2
  PbPols = {0, 1}
  PbNeg = 1
  PbPos = 2
  PbBound = 2
  PbOps = {">=", "<=", ">", "<", "="}
  MaxMgrs = 1
  MaxPosts = 1
  EMIT = TRUE
  PROBE = FALSE
  ACKinds = {}
  RDecs = {TRUE, FALSE}
  RTerms = 0
  RCoef = 0
  RBound = 0
  RBuilds = 0
  CoefNeg = 0
  CoefPos = 0
  ConstMax = 0
  MulNeg = 0
  MulPos = 0
  CMax = 0
  KMax = 0
  CMax2 = 0
  KMax2 = 0
CHECK_DEADLOCK FALSE
INVARIANT AllowedIsConjunction
INVARIANT Exact
INVARIANT NeverDropped
INVARIANT StoreCanonical
INVARIANT LastDiagram
