-------------------------------- MODULE Uscs --------------------------------
(***************************************************************************)
(* USCS -- the USCS/GSRC benchmark parser (tools/uscs_parser) produces an  *)
(* FPEF netlist that frame.netlist.Netlist accepts and that says the same  *)
(* thing as the .blocks / .nets / .pl source.                              *)
(*                                                                         *)
(* Three layers of JSON-shaped values:                                     *)
(*                                                                         *)
(*   bench   the abstract benchmark, built by the construction actions     *)
(*           AddSoftBlock, AddHardBlock(vertices), AddTerminal, AddNet,    *)
(*           AddPlacement (canonical order, so that TLC's breadth-first    *)
(*           search enumerates every benchmark of the bound exactly once): *)
(*           blocks <<name, kind, area, a1, a2, verts>>, terminals, nets   *)
(*           (sequences of pin names), placement lines <<name, x, y>>;     *)
(*   docs    Render(bench, style): the three text documents as sequences   *)
(*           of LINES, a line being a sequence of WORDS [s, n] (s = the    *)
(*           text of a keyword / name / punctuation, or n = a number);     *)
(*   fpef    Parse(docs): the abstract FPEF netlist (ordered modules with  *)
(*           area, aspect-ratio interval, rectangles, terminal / fixed     *)
(*           flags, centre; nets) or an error.                             *)
(*                                                                         *)
(* Parse is written in the shape of the implementation (blocks_parser:     *)
(* header phase, block phase, terminal phase; nets_parser: header phase,   *)
(* NetDegree + that many pin lines; pl_parser: name x y; uscs_parser.fuse: *)
(* the .pl entries update or append modules).  The contract, as            *)
(* invariants over every benchmark and every style of the bound:           *)
(*                                                                         *)
(*   RoundTrip      Parse(Render(bench, style)) = Expected(bench): same    *)
(*                  modules in the same order, kind, area, aspect-ratio    *)
(*                  interval (sorted), one rectangle = the quad with the   *)
(*                  quad's area for a hard block (which the parser makes a *)
(*                  fixed module), terminal / fixed flags and centres from *)
(*                  the .pl file, nets with the same members;              *)
(*   AllConsumed    every line of every document is consumed (nothing is   *)
(*                  dropped);                                              *)
(*   AcceptedIff    the reader (ReadFpef = the acceptance rules of         *)
(*                  frame.netlist.Netlist that matter here) accepts the    *)
(*                  result exactly when the benchmark is expressible in    *)
(*                  FPEF (WellFormed), and the netlist it builds           *)
(*                  (Loaded) says the same thing.                          *)
(*                                                                         *)
(* THE INPUT LANGUAGE (= what the code accepts; all of it is generated):   *)
(*   * the first line of every file is skipped, whatever it says;          *)
(*   * a line of length 0 and a line whose FIRST character is # are blank; *)
(*     they may appear anywhere after the first line (in .nets also        *)
(*     between the pin lines of a net);                                    *)
(*   * words are separated by any run of blanks or tabs;                   *)
(*   * header lines are exactly  Key : value  (three words, the colon a    *)
(*     word of its own), in any order, known or unknown keys, present or   *)
(*     not; the counts they announce are never compared with the contents; *)
(*   * .blocks: headers, then soft / hard block lines in any mixture, then *)
(*     terminal lines; a soft line is  name softrectangular area a1 a2     *)
(*     followed by anything (a1, a2 in either order); a hard line has      *)
(*     exactly 11 words:  name hardrectilinear 4 (x, y) (x, y) (x, y)      *)
(*     (x, y)  -- one blank inside every vertex -- the vertices of an      *)
(*     axis-parallel quad in any order;                                    *)
(*   * .nets:  NetDegree : k  then k non-blank lines whose first word is   *)
(*     the pin's module (the rest of the line is ignored);                 *)
(*   * .pl:  name x y  (three words); every name listed becomes a fixed    *)
(*     terminal with that centre (the repository's examples list the       *)
(*     terminals only);                                                    *)
(*   * areas, aspect ratios and coordinates are whatever Python's float()  *)
(*     reads; counts (header values, NetDegree, the 4 of a quad) are read  *)
(*     with int(): plain integers; keywords and names are case-sensitive.  *)
(* OUTSIDE the language (the harness sends these too, as probes, and the   *)
(* only thing required is that they are not SILENTLY mis-parsed: the       *)
(* parser raises, or its result is still Expected(bench)): trailing or     *)
(* leading blanks on a line, lines made of blanks only, CR LF line ends,   *)
(* Key: value  without a blank before the colon, vertices written (x,y)    *)
(* without a blank, an indented pin line.  In Parse an unconsumed line is   *)
(* an error.                                                               *)
(*                                                                         *)
(* Numbers: areas and coordinates are integers, aspect ratios thousandths; *)
(* centres are kept doubled (c2 = 2 * centre) so that they stay integral.  *)
(* Largest intermediate value: a quad's area, below 2^31 for coordinates   *)
(* up to 40 000.                                                           *)
(***************************************************************************)
EXTENDS Integers, Sequences, FiniteSets, FiniteSetsExt, SequencesExt, TLC, Json

CONSTANTS MaxBlocks, MaxTerms, MaxNets,
          SoftChoices,   \* set of <<area, a1, a2>>
          HardChoices,   \* set of vertex sequences <<<<x, y>>, ...>> (4 vertices of an axis-parallel quad)
          PlChoices,     \* set of <<x, y>>
          Styles,        \* set of rendering styles [sep, cmt, hdr, extra, pinx, num, ws]
          EMIT           \* TRUE: print every rendered benchmark (behaviour generation)

VARIABLES pc,      \* "build" | "rendered" | "parsed" | "emitted"
          ph,      \* construction phase 1 blocks, 2 terminals, 3 nets, 4 placements
          bench, style, docs, fpef
vars == <<pc, ph, bench, style, docs, fpef>>

Mn(a, b) == IF a <= b THEN a ELSE b
Mx(a, b) == IF a >= b THEN a ELSE b

(***************************************************************************)
(* Benchmarks                                                              *)
(***************************************************************************)
BlockNames == <<"b1", "b2", "b3", "b4">>
TermNames == <<"t1", "t2", "t3", "t4">>
PlOnlyName == "p1"           \* a name that appears in the .pl file only
EmptyBench == [ blocks |-> <<>>, terms |-> <<>>, nets |-> <<>>, pl |-> <<>> ]
NamesOf(b) == [ k \in DOMAIN b.blocks |-> b.blocks[k][1] ] \o b.terms
\* the nets TLC builds over the current names, as an ordered catalogue: every pair, the net of all names, and (not
\* expressible in FPEF) a net with a single pin
NetList(b) == LET nm == NamesOf(b)  n == Len(nm)
                  pairs == SelectSeq([ k \in 1..(n * n) |-> << ((k - 1) \div n) + 1, ((k - 1) % n) + 1 >> ], LAMBDA q : q[1] < q[2])
              IN [ k \in DOMAIN pairs |-> << nm[pairs[k][1]], nm[pairs[k][2]] >> ]
                 \o (IF n >= 3 THEN << nm >> ELSE <<>>)
                 \o (IF n >= 1 THEN << << nm[1] >> >> ELSE <<>>)
IndexOf(s, v) == CHOOSE i \in DOMAIN s : s[i] = v

\* what FPEF can express (and Netlist accepts): an aspect interval around 1, nets of two pins or more
SoftOK(blk) == Mn(blk[4], blk[5]) <= 1000 /\ 1000 <= Mx(blk[4], blk[5]) /\ blk[3] > 0
WellFormed(b) == /\ \A k \in DOMAIN b.blocks : b.blocks[k][2] = "soft" => SoftOK(b.blocks[k])
                 /\ \A k \in DOMAIN b.nets : Len(b.nets[k]) >= 2

(***************************************************************************)
(* Documents: lines of words                                               *)
(***************************************************************************)
W(s) == [ s |-> s, n |-> 0 ]          \* a keyword, a name, a colon
N(n) == [ s |-> "", n |-> n ]         \* a number (its spelling -- 7, 7.0, 7.000e+00 -- is style.num)
M(n) == [ s |-> "m", n |-> n ]        \* a number given in thousandths (aspect ratio 0.580 = M(580))
K(n) == [ s |-> "k", n |-> n ]        \* a count (header value, NetDegree, number of vertices): read with int(), so
                                      \* always spelled as a plain integer
P1(x) == [ s |-> "(,", n |-> x ]      \* "(x,"  first half of a vertex
P2(y) == [ s |-> ")", n |-> y ]       \* "y)"   second half
Blank == <<>>
Comment == << W("#"), W("comment") >>
IsBlank(l) == l = <<>> \/ l[1].s = "#"

\* comment / blank lines in every place where they are legal, according to style.cmt:
\*   0 none, 1 as in the GSRC files (comments after the first line, an empty line between sections),
\*   2 a comment and an empty line before every line, 3 empty lines only (between sections and at the end)
Pad(st, section) == CASE st.cmt = 0 -> <<>>
                      [] st.cmt = 1 -> IF section = "top" THEN <<Comment, Comment, Blank>> ELSE <<Blank>>
                      [] st.cmt = 2 -> <<Comment, Blank>>
                      [] OTHER -> <<Blank>>
Each(st, ls) == IF st.cmt = 2 THEN FoldLeft(LAMBDA acc, l : acc \o <<Comment, Blank, l>>, <<>>, ls) ELSE ls

Hdr(k, v) == << W(k), W(":"), K(v) >>
BlockHeaders(b, st) ==
  LET ns == Cardinality({ k \in DOMAIN b.blocks : b.blocks[k][2] = "soft" })
      nh == Len(b.blocks) - ns
      std == << Hdr("NumSoftRectangularBlocks", ns), Hdr("NumHardRectilinearBlocks", nh), Hdr("NumTerminals", Len(b.terms)) >>
  IN CASE st.hdr = "std" -> std
       [] st.hdr = "none" -> <<>>
       \* any order, an unknown key, counts that do not match: all accepted
       [] OTHER -> << Hdr("NumTerminals", 99), << W("Foo"), W(":"), W("bar") >>, std[2], std[1] >>
BlockLine(blk, st) ==
  IF blk[2] = "soft"
  THEN << W(blk[1]), W("softrectangular"), N(blk[3]), M(blk[4]), M(blk[5]) >> \o (IF st.extra = 1 THEN << W("x"), N(1) >> ELSE <<>>)
  ELSE << W(blk[1]), W("hardrectilinear"), K(Len(blk[6])) >>
       \o FoldLeft(LAMBDA acc, v : acc \o << P1(v[1]), P2(v[2]) >>, <<>>, blk[6])
RenderBlocks(b, st) ==
  << << W("UCSC"), W("blocks"), W("1.0") >> >> \o Pad(st, "top")
  \o Each(st, BlockHeaders(b, st)) \o Pad(st, "mid")
  \o Each(st, [ k \in DOMAIN b.blocks |-> BlockLine(b.blocks[k], st) ]) \o Pad(st, "mid")
  \o Each(st, [ k \in DOMAIN b.terms |-> << W(b.terms[k]), W("terminal") >> ]) \o Pad(st, "end")

PinLine(name, st) == IF st.pinx = 0 THEN << W(name), W("B") >>
                     ELSE << W(name), W("B"), W(":"), W("%48.4"), W("%-50.0") >>
NetLines(net, st) == << << W("NetDegree"), W(":"), K(Len(net)) >> >>
                     \o (IF st.cmt \in {1, 2} THEN <<Comment>> ELSE <<>>)         \* a comment inside the net
                     \o [ k \in DOMAIN net |-> PinLine(net[k], st) ]
RenderNets(b, st) ==
  << << W("UCLA"), W("nets"), W("1.0") >> >> \o Pad(st, "top")
  \o (IF st.hdr = "none" THEN <<>>
      ELSE Each(st, << Hdr("NumNets", Len(b.nets)), Hdr("NumPins", FoldLeft(LAMBDA a, nt : a + Len(nt), 0, b.nets)) >>))
  \o Pad(st, "mid")
  \o FoldLeft(LAMBDA acc, nt : acc \o Each(st, NetLines(nt, st)), <<>>, b.nets) \o Pad(st, "end")
RenderPl(b, st) ==
  << << W("UCLA"), W("pl"), W("1.0") >> >> \o Pad(st, "top")
  \o Each(st, [ k \in DOMAIN b.pl |-> << W(b.pl[k][1]), N(b.pl[k][2]), N(b.pl[k][3]) >> ]) \o Pad(st, "end")
Render(b, st) == [ blocks |-> RenderBlocks(b, st), nets |-> RenderNets(b, st), pl |-> RenderPl(b, st) ]

(***************************************************************************)
(* The abstract FPEF netlist                                               *)
(***************************************************************************)
Mod(name, area, lo, hi, rects, term, fixed, hasc, c2) ==
  [ name |-> name, area |-> area, lo |-> lo, hi |-> hi, rects |-> rects, term |-> term, fixed |-> fixed, hasc |-> hasc, c2 |-> c2 ]
SoftMod(name, area, a1, a2) == Mod(name, area, Mn(a1, a2), Mx(a1, a2), <<>>, 0, 0, 0, <<0, 0>>)
\* a hard block: one rectangle <<2cx, 2cy, w, h>> = the quad (its bounding box), fixed
QuadRect(vs) == LET xs == { vs[k][1] : k \in DOMAIN vs }  ys == { vs[k][2] : k \in DOMAIN vs }
                IN << Min(xs) + Max(xs), Min(ys) + Max(ys), Max(xs) - Min(xs), Max(ys) - Min(ys) >>
HardMod(name, vs) == Mod(name, 0, 0, 0, << QuadRect(vs) >>, 0, 1, 0, <<0, 0>>)
TermMod(name) == Mod(name, 0, 0, 0, <<>>, 1, 0, 0, <<0, 0>>)
\* uscs_parser.fuse: a .pl entry makes the module a fixed terminal with a centre; an unknown name is appended
Place(mods, e) ==
  LET upd(m) == [ m EXCEPT !.term = 1, !.fixed = 1, !.hasc = 1, !.c2 = <<2 * e[2], 2 * e[3]>> ] IN
  IF \E k \in DOMAIN mods : mods[k].name = e[1]
  THEN [ k \in DOMAIN mods |-> IF mods[k].name = e[1] THEN upd(mods[k]) ELSE mods[k] ]
  ELSE Append(mods, upd(TermMod(e[1])))
Fuse(mods, pls) == FoldLeft(Place, mods, pls)

\* what the source says, directly
Expected(b) ==
  [ err |-> FALSE,
    mods |-> Fuse([ k \in DOMAIN b.blocks |-> IF b.blocks[k][2] = "soft"
                                              THEN SoftMod(b.blocks[k][1], b.blocks[k][3], b.blocks[k][4], b.blocks[k][5])
                                              ELSE HardMod(b.blocks[k][1], b.blocks[k][6]) ]
                  \o [ k \in DOMAIN b.terms |-> TermMod(b.terms[k]) ], b.pl),
    nets |-> b.nets ]

(***************************************************************************)
(* Parse, in the shape of the implementation                               *)
(***************************************************************************)
IsHdr(l) == Len(l) >= 2 /\ l[2].s = ":"
SoftLine(l) == Len(l) >= 5 /\ l[2].s = "softrectangular"
HardLine(l) == Len(l) = 11 /\ l[2].s = "hardrectilinear"
TermLine(l) == Len(l) = 2 /\ l[2].s = "terminal"
\* first index >= i that the phase does not consume
RECURSIVE EndHdr(_, _), EndRect(_, _), EndTerm(_, _), EndNetHdr(_, _)
EndHdr(d, i) == IF i <= Len(d) /\ (IsBlank(d[i]) \/ IsHdr(d[i])) THEN EndHdr(d, i + 1) ELSE i
EndRect(d, i) == IF i <= Len(d) /\ (IsBlank(d[i]) \/ SoftLine(d[i]) \/ HardLine(d[i])) THEN EndRect(d, i + 1) ELSE i
EndTerm(d, i) == IF i <= Len(d) /\ (IsBlank(d[i]) \/ TermLine(d[i])) THEN EndTerm(d, i + 1) ELSE i
EndNetHdr(d, i) == IF i <= Len(d) /\ (IsBlank(d[i]) \/ (IsHdr(d[i]) /\ d[i][1].s # "NetDegree")) THEN EndNetHdr(d, i + 1) ELSE i
Content(d, lo, hi) == SelectSeq([ k \in 1..(hi - lo + 1) |-> d[lo + k - 1] ], LAMBDA l : ~IsBlank(l))

ParseBlockLine(l) ==
  IF SoftLine(l) THEN SoftMod(l[1].s, l[3].n, l[4].n, l[5].n)
  ELSE IF HardLine(l) THEN HardMod(l[1].s, << <<l[4].n, l[5].n>>, <<l[6].n, l[7].n>>, <<l[8].n, l[9].n>>, <<l[10].n, l[11].n>> >>)
  ELSE TermMod(l[1].s)
ParseBlocks(d) ==
  LET h == EndHdr(d, 2)  r == EndRect(d, h)  t == EndTerm(d, r)
      body == Content(d, h, t - 1)
  IN [ err |-> \/ \E k \in 2..(h - 1) : ~IsBlank(d[k]) /\ Len(d[k]) # 3            \* "Unknown Header"
               \/ \E k \in DOMAIN body : HardLine(body[k]) /\ body[k][3].n # 4       \* "Only quads allowed"
               \/ t <= Len(d),                                                       \* a line nobody understands
       used |-> t - 1,
       mods |-> [ k \in DOMAIN body |-> ParseBlockLine(body[k]) ] ]

IsDegree(l) == Len(l) = 3 /\ l[1].s = "NetDegree" /\ l[2].s = ":"
\* the k first non-blank lines from i on: <<pins, next index>>; next = 0 when the file ends too early
RECURSIVE Pins(_, _, _)
Pins(d, i, k) == IF k = 0 THEN <<<<>>, i>>
                 ELSE IF i > Len(d) THEN <<<<>>, 0>>
                 ELSE IF IsBlank(d[i]) THEN Pins(d, i + 1, k)
                 ELSE LET rest == Pins(d, i + 1, k - 1) IN << <<d[i][1].s>> \o rest[1], rest[2] >>
RECURSIVE NetsFrom(_, _)
NetsFrom(d, i) == IF i > Len(d) THEN [ err |-> FALSE, nets |-> <<>> ]
                  ELSE IF IsBlank(d[i]) THEN NetsFrom(d, i + 1)
                  ELSE IF ~IsDegree(d[i]) THEN [ err |-> TRUE, nets |-> <<>> ]                 \* "Unknown format"
                  ELSE LET p == Pins(d, i + 1, d[i][3].n) IN
                       IF p[2] = 0 THEN [ err |-> TRUE, nets |-> <<>> ]
                       ELSE LET rest == NetsFrom(d, p[2]) IN [ err |-> rest.err, nets |-> <<p[1]>> \o rest.nets ]
ParseNets(d) ==
  LET h == EndNetHdr(d, 2)  r == NetsFrom(d, h) IN
  [ err |-> r.err \/ \E k \in 2..(h - 1) : ~IsBlank(d[k]) /\ Len(d[k]) # 3, nets |-> r.nets ]

ParsePl(d) ==
  LET body == Content(d, 2, Len(d)) IN
  [ err |-> \E k \in DOMAIN body : Len(body[k]) # 3,
    pls |-> [ k \in DOMAIN body |-> << body[k][1].s, body[k][2].n, body[k][3].n >> ] ]

Parse(ds) ==
  LET b == ParseBlocks(ds.blocks)  n == ParseNets(ds.nets)  p == ParsePl(ds.pl) IN
  IF b.err \/ n.err \/ p.err THEN [ err |-> TRUE, mods |-> <<>>, nets |-> <<>> ]
  ELSE [ err |-> FALSE, mods |-> Fuse(b.mods, p.pls), nets |-> n.nets ]

(***************************************************************************)
(* The reader: what frame.netlist.Netlist accepts and what it builds       *)
(***************************************************************************)
ModuleOK(m) == /\ m.term = 1 => m.area = 0 /\ m.lo = 0                    \* "terminal cannot have area / aspect ratio"
               /\ (m.area > 0 /\ m.rects = <<>>) => (m.lo <= 1000 /\ 1000 <= m.hi /\ m.lo >= 0)  \* aspect interval around 1
               /\ (m.term = 1 /\ m.fixed = 1) => m.hasc = 1                \* "a fixed terminal must have coordinates"
               /\ (m.term = 0 /\ m.area = 0) => m.rects # <<>>             \* hard: at least one rectangle
               /\ (m.hasc = 1) => (m.term = 1 \/ m.rects = <<>>)           \* hard non-terminal: "cannot specify center"
ReadAccepts(f) == /\ ~f.err
                  /\ \A k \in DOMAIN f.mods : ModuleOK(f.mods[k])
                  /\ \A i \in DOMAIN f.mods : \A j \in DOMAIN f.mods : i # j => f.mods[i].name # f.mods[j].name
                  /\ \A k \in DOMAIN f.nets : /\ Len(f.nets[k]) >= 2
                                             /\ \A p \in DOMAIN f.nets[k] : \E m \in DOMAIN f.mods : f.mods[m].name = f.nets[k][p]
\* the netlist object: kind flags, total area (the quad's area for a hard block), centre (from the rectangle for a
\* hard block)
RectArea(r) == r[3] * r[4]
LoadedMod(m) ==
  [ name |-> m.name, term |-> m.term, fixed |-> m.fixed, hard |-> IF m.term = 1 \/ m.rects # <<>> \/ m.fixed = 1 THEN 1 ELSE 0,
    area |-> IF m.rects # <<>> /\ m.area = 0 THEN FoldLeft(LAMBDA a, r : a + RectArea(r), 0, m.rects) ELSE m.area,
    lo |-> m.lo, hi |-> m.hi, rects |-> m.rects,
    hasc |-> IF m.rects # <<>> THEN 1 ELSE m.hasc,
    c2 |-> IF m.rects # <<>> /\ m.hasc = 0 THEN << m.rects[1][1], m.rects[1][2] >> ELSE m.c2 ]
Loaded(f) == [ mods |-> [ k \in DOMAIN f.mods |-> LoadedMod(f.mods[k]) ], nets |-> f.nets ]

(***************************************************************************)
(* Judging an observation (shared with UscsTrace): obs = what the real     *)
(* parser wrote (mods, nets in the same abstract shape) and what Netlist   *)
(* made of it                                                              *)
(***************************************************************************)
Field(ms, f(_)) == [ k \in DOMAIN ms |-> f(ms[k]) ]
ParsedClauses(exp, mods, nets) ==
  [ modules_same |-> Field(mods, LAMBDA m : m.name) = Field(exp.mods, LAMBDA m : m.name),
    area         |-> Field(mods, LAMBDA m : <<m.name, m.area>>) = Field(exp.mods, LAMBDA m : <<m.name, m.area>>),
    aspect_ratio |-> Field(mods, LAMBDA m : <<m.name, m.lo, m.hi>>) = Field(exp.mods, LAMBDA m : <<m.name, m.lo, m.hi>>),
    rectangles   |-> Field(mods, LAMBDA m : <<m.name, m.rects>>) = Field(exp.mods, LAMBDA m : <<m.name, m.rects>>),
    flags_centres |-> Field(mods, LAMBDA m : <<m.name, m.term, m.fixed, m.hasc, m.c2>>)
                      = Field(exp.mods, LAMBDA m : <<m.name, m.term, m.fixed, m.hasc, m.c2>>),
    nets_same    |-> nets = exp.nets ]
AllTrue(cl) == \A k \in DOMAIN cl : cl[k]

(***************************************************************************)
(* The machine                                                             *)
(***************************************************************************)
Init == pc = "build" /\ ph = 1 /\ bench = EmptyBench /\ style = <<>> /\ docs = <<>> /\ fpef = <<>>

AddSoftBlock == /\ pc = "build" /\ ph = 1 /\ Len(bench.blocks) < MaxBlocks
                /\ \E c \in SoftChoices :
                     bench' = [bench EXCEPT !.blocks = Append(@, << BlockNames[Len(@) + 1], "soft", c[1], c[2], c[3], <<>> >>)]
                /\ UNCHANGED <<pc, ph, style, docs, fpef>>
AddHardBlock == /\ pc = "build" /\ ph = 1 /\ Len(bench.blocks) < MaxBlocks
                /\ \E vs \in HardChoices :
                     bench' = [bench EXCEPT !.blocks = Append(@, << BlockNames[Len(@) + 1], "hard", 0, 0, 0, vs >>)]
                /\ UNCHANGED <<pc, ph, style, docs, fpef>>
AddTerminal == /\ pc = "build" /\ ph <= 2 /\ Len(bench.terms) < MaxTerms
               /\ bench' = [bench EXCEPT !.terms = Append(@, TermNames[Len(@) + 1])]
               /\ ph' = 2 /\ UNCHANGED <<pc, style, docs, fpef>>
\* nets in increasing order of the catalogue (each set of nets once)
AddNet == /\ pc = "build" /\ ph <= 3 /\ Len(bench.nets) < MaxNets
          /\ \E k \in DOMAIN NetList(bench) :
               /\ bench.nets # <<>> => k > IndexOf(NetList(bench), bench.nets[Len(bench.nets)])
               /\ bench' = [bench EXCEPT !.nets = Append(@, NetList(bench)[k])]
          /\ ph' = 3 /\ UNCHANGED <<pc, style, docs, fpef>>
\* placement lines: terminals in order, each at most once, then possibly a name the .blocks file does not know
PlCandidates(b) == b.terms \o <<PlOnlyName>>
AddPlacement == /\ pc = "build"
                /\ \E k \in DOMAIN PlCandidates(bench), xy \in PlChoices :
                     /\ bench.pl # <<>> => k > IndexOf(PlCandidates(bench), bench.pl[Len(bench.pl)][1])
                     /\ bench' = [bench EXCEPT !.pl = Append(@, << PlCandidates(bench)[k], xy[1], xy[2] >>)]
                /\ ph' = 4 /\ UNCHANGED <<pc, style, docs, fpef>>

\* every benchmark with at least one module is rendered in every style of the configuration
DoRender == /\ pc = "build" /\ Len(bench.blocks) + Len(bench.terms) > 0
            /\ \E st \in Styles : style' = st /\ docs' = Render(bench, st)
            /\ pc' = "rendered" /\ UNCHANGED <<ph, bench, fpef>>
DoParse == /\ ~EMIT /\ pc = "rendered"
           /\ fpef' = Parse(docs)
           /\ pc' = "parsed" /\ UNCHANGED <<ph, bench, style, docs>>
EmitCase == /\ EMIT /\ pc = "rendered"
            /\ PrintT(ToJson([ bench |-> bench, style |-> style, docs |-> docs ]))
            /\ pc' = "emitted" /\ UNCHANGED <<ph, bench, style, docs, fpef>>

Next == AddSoftBlock \/ AddHardBlock \/ AddTerminal \/ AddNet \/ AddPlacement \/ DoRender \/ DoParse \/ EmitCase
Spec == Init /\ [][Next]_vars

(***************************************************************************)
(* Invariants                                                              *)
(***************************************************************************)
RoundTrip == pc = "parsed" => fpef = Expected(bench)
RoundTripByClause == pc = "parsed" => ~fpef.err /\ AllTrue(ParsedClauses(Expected(bench), fpef.mods, fpef.nets))
AllConsumed == pc = "rendered" => /\ ParseBlocks(docs.blocks).used = Len(docs.blocks)
                                  /\ ~ParseBlocks(docs.blocks).err /\ ~ParseNets(docs.nets).err /\ ~ParsePl(docs.pl).err
AcceptedIff == pc = "parsed" => (ReadAccepts(fpef) <=> WellFormed(bench))
\* a hard block is one rectangle with the quad's area, a fixed module located by that rectangle
HardIsItsQuad == pc = "parsed" => \A k \in DOMAIN bench.blocks : bench.blocks[k][2] = "hard" =>
                    LET m == Loaded(fpef).mods[k]  r == QuadRect(bench.blocks[k][6]) IN
                    m.rects = <<r>> /\ m.area = r[3] * r[4] /\ m.fixed = 1 /\ m.c2 = <<r[1], r[2]>>
=============================================================================
