SPECIFICATION SSpec
CONSTANTS
  Vars = {"a", "b", "c", "d", "e"}
  Fams = {"amo"}
  ClauseMax = 0
  AmoSeq = 0
  AmoMax = 5
  AmoPols = {0, 1}
  HeuleKs = {3, 4}
  PbShape = "raw"
  PbTerms = 0
  PbPols = {0, 1}
  PbNeg = 0
  PbPos = 0
  PbBound = 0
  PbOps = {">="}
  MaxMgrs = 1
  MaxPosts = 1
  EMIT = TRUE
  PROBE = TRUE
  ACKinds = {"clause", "imply", "amo_quadratic", "amo_heule", "pb_clause"}
  RDecs = {TRUE, FALSE}
  RTerms = 0
  RCoef = 0
  RBound = 0
  RBuilds = 0
  CoefNeg = 0
  CoefPos = 0
  ConstMax = 0
  MulNeg = 0
  MulPos = 0
  CMax = 0
  KMax = 0
  CMax2 = 0
  KMax2 = 0
CHECK_DEADLOCK FALSE
INVARIANT ProbeSound
INVARIANT ProbeDetectsInconsistency
INVARIANT ProbeArcConsistent
