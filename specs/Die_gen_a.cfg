SPECIFICATION Spec
CONSTANTS
  DW = 3
  DH = 3
  OUT = 1
  MAXR = 2
  TAGS <- Tags3
  XS <- XSu
  YS <- XSu
  SPLITS <- SplitsQ
  GRIDS <- GridsQ
  EMIT = TRUE
CHECK_DEADLOCK FALSE
