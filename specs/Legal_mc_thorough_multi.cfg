\* Universe M (thorough): up to THREE modules on the quadrants of a 9x8 die (trunks 4x4 / 4x2 at x, y in {0, 4}: neighbours touch), at most one 2x1 branch in all, all kinds at every position, ratio limit 2; WILD.
SPECIFICATION Spec
CONSTANTS
  DW = 9
  DH = 8
  RP = 2
  RQ = 1
  TXS = {0, 4}
  TYS = {0, 4}
  TrunkSizes <- TrunkSizesS
  BranchSizes <- BranchSizes1
  BranchOffs = {0, 99}
  Kinds = {"soft", "hard", "fixed"}
  Slacks = {0}
  MaxMods = 3
  MaxBr = 1
  MaxRects = 3
  Deltas <- DeltasA
  Slides <- SlidesA
  EdgeDs <- EdgeDsA
  CHAIN = FALSE
  WILD = TRUE
  FIXMODEL = "intended"
  ANYRATIO = FALSE
  BASEMOD = 2
  EMIT = FALSE
INVARIANT InvShape
INVARIANT InvBuiltLegal
INVARIANT InvSystemExact
INVARIANT InvGroups
INVARIANT InvPerturbOne
INVARIANT InvWild
CHECK_DEADLOCK FALSE
