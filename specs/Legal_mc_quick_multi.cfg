\* Universe M (quick): TWO modules side by side on a 9x8 die (all four borders can be crossed; width # height) (trunks 4x4 / 4x2 at x = 0 and x = 4: they touch),
\* at most one 2x1 branch in all, all kinds at both positions, soft with slack 0, ratio limit 2.
SPECIFICATION Spec
CONSTANTS
  DW = 9
  DH = 8
  RP = 2
  RQ = 1
  TXS = {0, 4}
  TYS = {2}
  TrunkSizes <- TrunkSizesS
  BranchSizes <- BranchSizes1
  BranchOffs = {0, 99}
  Kinds = {"soft", "hard", "fixed"}
  Slacks = {0}
  MaxMods = 2
  MaxBr = 1
  MaxRects = 3
  Deltas <- DeltasA
  Slides <- SlidesA
  EdgeDs <- EdgeDsA
  CHAIN = FALSE
  WILD = FALSE
  FIXMODEL = "intended"
  ANYRATIO = FALSE
  BASEMOD = 2
  EMIT = FALSE
INVARIANT InvShape
INVARIANT InvBuiltLegal
INVARIANT InvSystemExact
INVARIANT InvGroups
INVARIANT InvPerturbOne
INVARIANT InvWild
CHECK_DEADLOCK FALSE
