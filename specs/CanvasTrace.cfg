\* batch trace validation; every event carries its own arguments, the constants below are unused
SPECIFICATION TraceSpec
CONSTANTS
  N = 1
  WINDOWS <- QuickWindows
  DEFECTS = {}
  EMIT = FALSE
  CN = 1
  CWINDOWS <- CQuickWindows
  SIZES <- QuickSizes
  DEEP = FALSE
  CEMIT = FALSE
CHECK_DEADLOCK FALSE
