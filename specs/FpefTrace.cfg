SPECIFICATION TraceSpec
CONSTANTS
  UNIVERSE = "quick"
  EMIT = FALSE
  DEFECTS = FALSE
CHECK_DEADLOCK FALSE
