\* batch trace validation of observed loads / saves / defects (TRACE_FILE in the environment); UNIVERSE is unused here
SPECIFICATION TraceSpec
CONSTANTS
  UNIVERSE = "quick"
  EMIT = FALSE
  DEFECTS = FALSE
CHECK_DEADLOCK FALSE
