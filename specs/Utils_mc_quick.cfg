SPECIFICATION Spec
CONSTANTS
  NEWLINE_TEXT = FALSE
  Alpha = {"a", "n", "N", "i", "f", "e", "0", "7", "udig", "_", ".", "+", "-", "sp", "tab", "nl", "uni", "q", ":", "br"}
  MaxLen = 4
  EMIT = FALSE
CHECK_DEADLOCK FALSE
INVARIANT IdMachineIsGrammar
INVARIANT NumMachineIsGrammar
INVARIANT CsMachineIsRule
INVARIANT RunAgrees
INVARIANT BothLanguages
INVARIANT PlainIsNumber
INVARIANT OddNumberShape
INVARIANT TextNeverFile
INVARIANT IdentifierIsFileName
