----------------------------- MODULE RectSearch -----------------------------
(***************************************************************************)
(* C08 -- The rectilinear shape search of tools/rect admits exactly the    *)
(* k-box single-trunk orthogons (k-STOGs) of the grid it is given, returns *)
(* a shape meeting the requested cost bound iff one exists, and the        *)
(* rectangles it returns are the boxes of such a shape.                    *)
(*                                                                         *)
(* What is modelled (tools/rect/rect.py):                                  *)
(*   cells        carrier.input_problem: the list of grid cells            *)
(*                <<x1,y1,x2,y2,p>> (lattice corner coordinates, occupancy *)
(*                numerator p over par.den).  Any origin, any spacing.     *)
(*   DefineCoords definecoords(): sorted coordinate lists xs, ys, the       *)
(*                next/prev dictionaries nbr; and the integer area weights *)
(*                area(carrier, b, True/False) of every cell.              *)
(*   three descriptions of the set of admitted shapes                      *)
(*     Decl  IsKStogSel: the sentence of the property statement, on tuples *)
(*           of cell sets (what a model of the CNF projects to);           *)
(*     Gen   ChooseTrunk ; AddBranch^(k-1) ; Close: a construction whose   *)
(*           reachable closed states are exactly KStog(k) -- TLC's search  *)
(*           IS the enumeration of the k-STOGs of the grid;                *)
(*     Enc   EncBox^k ; Close: the constraint system enforce_bb posts      *)
(*           (interval literals lil/big per grid line, the implications to *)
(*           and from the cell literals, the N/S/E/W selector with the     *)
(*           die-border exclusions and the neighbour implications towards  *)
(*           the trunk, the per-cell at-most-one of solve());              *)
(*     invariants GenIsDecl, EncSound, EncComplete say the three coincide. *)
(*   solve()      Call: sat iff some k-STOG has Obj >= bound, the result   *)
(*                is any such shape and the next bound Obj+1; Iterate/Stop *)
(*                are the improvement loop of main() (dif = last).         *)
(*                Invariants: SolveMeetsProperty (every specified result   *)
(*                satisfies the clauses of the statement), LoopOptimal     *)
(*                (the loop ends on an optimal shape, unsat at Best+1),    *)
(*                BoundGrows / StrictlyGrows (termination).                *)
(*   FromAllocation  the front end of the rect stage (rect_io.get_alloc,   *)
(*                select_box): an allocation (cells with per-module ratios *)
(*                as AllocOps.tla represents them) and a module name give  *)
(*                the InputProblem the search receives; LoadAllocation     *)
(*                feeds it to DefineCoords / the improvement loop.         *)
(*                Invariants FrontEndOK (same cell set, occupancy = ratio, *)
(*                cells pairwise disjoint) and EndToEndExact (a module     *)
(*                allocated with ratio 1 exactly on a k-STOG gets exactly  *)
(*                that shape back, with zero error).                       *)
(*   Table / FastTable  the cost of every k-STOG, tabulated; FastTable is  *)
(*                the integer (bit mask) form the trace specification      *)
(*                evaluates on observed grids; TableIsObj and FastIsTable  *)
(*                tie both to Obj.                                         *)
(*                                                                         *)
(* Sides follow the names used in rect.py, where y grows downwards:        *)
(* "north" of a cell is the neighbour with the smaller y.                  *)
(*                                                                         *)
(* BORDER = "grid" is the specified behaviour (a branch may not look for   *)
(* the trunk across the border of the grid).  BORDER = "literal" is what   *)
(* enforce_bb does today: it compares with the literal 0 and with          *)
(* int(Width), int(Height); RectSearch_mc_defect.cfg shows with TLC that   *)
(* this breaks EncSound as soon as the origin is not 0 or the size is      *)
(* fractional (UNIT lattice units = 1.0).                                  *)
(*                                                                         *)
(* Values are JSON-shaped (tuples, integers, strings) because the same     *)
(* operators judge observations of the real code in RectSearchTrace.tla.   *)
(***************************************************************************)
EXTENDS Geometry, AllocOps, TLC, Json

CONSTANTS GRIDS,    \* set of <<xs, ys>>: strictly increasing sequences of lattice coordinates (grid lines)
          SGRIDS,   \* the same, for "solve" mode (all occupancies are enumerated there, so these are smaller)
          AGRIDS,   \* the same, for "alloc" mode (allocations with every 0/1 occupancy of the chosen module)
          KMAX,     \* numbers of boxes 1..KMAX
          DEN,      \* occupancy of a cell = p / DEN
          OCCVALS,  \* occupancy numerators enumerated in "solve" mode
          FNUM,     \* carrier.factor * (lattice unit)^2 = FNUM / FDEN
          FDEN,
          RATIO,    \* the f hyper-parameter; minimum-error mode: 2
          MODES,    \* subset of {"gen", "enc", "solve", "alloc"}
          BORDER,   \* "grid" (specified) | "literal" (as implemented, see above)
          UNIT,     \* lattice units per 1.0; only used by BORDER = "literal"
          EMIT      \* TRUE: behaviour generation (print the cases, do not explore them)

VARIABLES mode,   \* which description is being explored
          src,    \* "alloc" mode: [alloc, mod] = the allocation (sequence of AllocOps cells, file order) and the
                  \* number of the module being normalised; <<>> otherwise
          pc,     \* "input" -> "start" -> "build" -> "closed"   |   "call" <-> "ret" -> "end"
          par,    \* [den, fnum, fden, ratio]: configuration of the call
          cells,  \* input_problem
          k,      \* nboxes
          xs, ys, \* carrier.xcoords / ycoords
          nbr,    \* carrier.next_x / prev_x / next_y / prev_y: [nx, px, ny, py], coordinate -> coordinate
          wsel,   \* area(carrier, b, True)  per cell
          wreal,  \* area(carrier, b, False) per cell
          boxes,  \* Gen: sequence of rectangles chosen so far (trunk first)
          sel,    \* Enc: sequence of cell sets chosen so far (the b<i>_<cell> literals that are true)
          bound,  \* dif[0], the requested cost bound
          res,    \* result of the last solve(): [sat, boxes, ret]
          last    \* boxes of the last satisfiable call (main's `boxes`)
vars == <<mode, src, pc, par, cells, k, xs, ys, nbr, wsel, wreal, boxes, sel, bound, res, last>>

Sides == {"north", "south", "east", "west"}
SeqRange(s) == { s[i] : i \in DOMAIN s }

(***************************************************************************)
(* The grid                                                                *)
(***************************************************************************)
CellIds == DOMAIN cells
CellRect(c) == RectOf(cells[c])
Occ(c) == cells[c][5]

\* definecoords(): the sorted distinct coordinates of all cell corners
XsOf(cs) == SetToSortSeq({ cs[c][1] : c \in DOMAIN cs } \cup { cs[c][3] : c \in DOMAIN cs }, <)
YsOf(cs) == SetToSortSeq({ cs[c][2] : c \in DOMAIN cs } \cup { cs[c][4] : c \in DOMAIN cs }, <)

\* the cells of the full grid on lines gx, gy in row-major order (y outer), occupancy o[c]
GridCells(gx, gy, o) ==
  LET nx == Len(gx) - 1  ny == Len(gy) - 1 IN
  [ c \in 1..(nx * ny) |->
      LET i == ((c - 1) % nx) + 1  j == ((c - 1) \div nx) + 1 IN <<gx[i], gy[j], gx[i + 1], gy[j + 1], o[c]>> ]

\* the quantifier of C08: `cs` is a rectangular grid of cells (every cell of the grid exactly once)
IsGrid(cs) ==
  LET gx == XsOf(cs)  gy == YsOf(cs) IN
  /\ Len(cs) = (Len(gx) - 1) * (Len(gy) - 1)
  /\ { RectOf(cs[c]) : c \in DOMAIN cs } =
       { Rect(gx[i], gy[j], gx[i + 1], gy[j + 1]) : i \in 1..(Len(gx) - 1), j \in 1..(Len(gy) - 1) }

\* area(): int(factor * p * w * h) and int(factor * w * h), in lattice terms
AreaSel(c) == (par.fnum * Occ(c) * Area(CellRect(c))) \div (par.den * par.fden)
AreaReal(c) == (par.fnum * Area(CellRect(c))) \div par.fden

\* all non-empty full rectangles of cells
Boxes == { Rect(xs[q[1]], ys[q[2]], xs[q[3]], ys[q[4]]) :
             q \in { p \in (DOMAIN xs) \X (DOMAIN ys) \X (DOMAIN xs) \X (DOMAIN ys) : p[1] < p[3] /\ p[2] < p[4] } }
CellsIn(b) == { c \in CellIds : Inside(CellRect(c), b) }
BBoxOfCells(S) == BBox({ CellRect(c) : c \in S })

(***************************************************************************)
(* Decl: the property statement, on a tuple ss of cell sets                *)
(***************************************************************************)
\* "each box a non-empty full rectangle of cells"
FullRect(S) == S # {} /\ S \subseteq CellIds /\ S = CellsIn(BBoxOfCells(S))
\* "boxes pairwise disjoint"
DisjointSel(ss) == \A i \in DOMAIN ss : \A j \in DOMAIN ss : i # j => ss[i] \cap ss[j] = {}
\* "abutting the trunk along one side within the trunk's extent".  OnSide(t, b, d): box b finds the trunk t on
\* its side d (rect.py: a box with selector `west` has the trunk to its west: t.x2 = b.x1) and the shared side
\* of b lies within the extent of t.
OnSide(t, b, d) ==
  CASE d = "west"  -> b.x1 = t.x2 /\ t.y1 <= b.y1 /\ b.y2 <= t.y2
    [] d = "east"  -> b.x2 = t.x1 /\ t.y1 <= b.y1 /\ b.y2 <= t.y2
    [] d = "north" -> b.y1 = t.y2 /\ t.x1 <= b.x1 /\ b.x2 <= t.x2
    [] d = "south" -> b.y2 = t.y1 /\ t.x1 <= b.x1 /\ b.x2 <= t.x2
Abuts(t, b) == \E d \in Sides : OnSide(t, b, d)
AbutSel(ss) == \A i \in DOMAIN ss : i > 1 => Abuts(BBoxOfCells(ss[1]), BBoxOfCells(ss[i]))
FullSel(ss) == \A i \in DOMAIN ss : FullRect(ss[i])
IsKStogSel(ss) == FullSel(ss) /\ DisjointSel(ss) /\ AbutSel(ss)

\* the same on tuples of rectangles (what solve() returns)
OnGrid(s) == LET B == Boxes IN \A i \in DOMAIN s : s[i] \in B
DisjointBoxes(s) == \A i \in DOMAIN s : \A j \in DOMAIN s : i # j => ~Overlaps(s[i], s[j])
AbutBoxes(s) == \A i \in DOMAIN s : i > 1 => Abuts(s[1], s[i])
IsKStog(s) == OnGrid(s) /\ DisjointBoxes(s) /\ AbutBoxes(s)

SelOf(s) == [ i \in DOMAIN s |-> CellsIn(s[i]) ]
ShapeOf(ss) == [ i \in DOMAIN ss |-> BBoxOfCells(ss[i]) ]

\* Decl as a set (used once, in the invariant GenIsDecl)
KStogDecl(n) == { s \in [1..n -> Boxes] : DisjointBoxes(s) /\ AbutBoxes(s) }

(***************************************************************************)
(* Gen: the constructive definition.  KStog(n) is computed by the same     *)
(* operators the actions ChooseTrunk / AddBranch use.                      *)
(***************************************************************************)
\* (B is the set Boxes, passed along so that TLC computes it once per evaluation)
TrunksOf(B) == { <<t>> : t \in B }
BranchesOf(B, s) == { b \in B : Abuts(s[1], b) /\ \A i \in 2..Len(s) : ~Overlaps(s[i], b) }
\* all n-box shapes on trunk t whose branches come from br = the boxes abutting t
RECURSIVE StogsOn(_, _, _)
StogsOn(t, br, n) == IF n = 1 THEN { <<t>> }
                     ELSE UNION { { Append(s, b) : b \in BranchesOf(br, s) } : s \in StogsOn(t, br, n - 1) }
KStogOf(B, n) == UNION { StogsOn(t, { b \in B : Abuts(t, b) }, n) : t \in B }
Trunks == TrunksOf(Boxes)
BranchesFor(s) == BranchesOf(Boxes, s)
KStog(n) == KStogOf(Boxes, n)

(***************************************************************************)
(* Cost.  Obj = ratio * (occupied area selected) - (area selected), with   *)
(* the integer cell weights solve() uses; the boxes of a k-STOG are        *)
(* disjoint so every selected cell counts once.                            *)
(***************************************************************************)
SumOver(S, w) == FoldSet(LAMBDA c, acc : acc + w[c], 0, S)
ObjSel(ss) == LET U == UNION SeqRange(ss) IN par.ratio * SumOver(U, wsel) - SumOver(U, wreal)
Obj(s) == ObjSel(SelOf(s))
\* The cost of every k-STOG, as a set of pairs <<shape, cost>>.  The boxes of a k-STOG are disjoint, so its cost is
\* the sum of the costs of its boxes; these are tabulated once (TLCEval forces the table, otherwise TLC would
\* re-evaluate the function body at every application).  The invariant TableIsObj ties Table to Obj.
CellsTable == TLCEval([ b \in Boxes |-> CellsIn(b) ])
BoxCost(S) == par.ratio * SumOver(S, wsel) - SumOver(S, wreal)
Table(n) == LET ct == CellsTable
                bc == TLCEval([ b \in DOMAIN ct |-> BoxCost(ct[b]) ])
            IN { <<s, FoldSeq(LAMBDA b, acc : acc + bc[b], 0, s)>> : s \in KStog(n) }
AdmitT(T, b) == { e[1] : e \in { f \in T : f[2] >= b } }
FeasibleT(T, b) == \E e \in T : e[2] >= b
BestT(T) == Max({ e[2] : e \in T })                    \* only when T # {}
Admit(n, b) == AdmitT(Table(n), b)
Feasible(n, b) == FeasibleT(Table(n), b)
Best(n) == BestT(Table(n))

\* ---- The same table on integers, for the trace specification (RectSearchTrace), which evaluates it on every
\* observed grid: boxes are numbered, "abuts" and "overlaps" are tabulated once, a shape is the tuple of the bit
\* masks of its boxes (bit c-1 <=> cell c) -- the form in which the harness transmits the models of the CNF.
\* The invariant FastIsTable (model-checked on every grid of the universe) ties it to Table.
RECURSIVE Pow2(_)
Pow2(n) == IF n = 0 THEN 1 ELSE 2 * Pow2(n - 1)
MaskOf(S) == FoldSet(LAMBDA c, acc : acc + Pow2(c - 1), 0, S)
Bits(m) == { c \in CellIds : (m \div Pow2(c - 1)) % 2 = 1 }
MapSeq(f(_), q) == FoldSeq(LAMBDA x, acc : Append(acc, f(x)), <<>>, q)
MaskShape(s) == MapSeq(LAMBDA b : MaskOf(CellsIn(b)), s)
FastTable(n) ==
  LET bs  == SetToSeq(Boxes)
      ids == DOMAIN bs
      ab  == TLCEval([ t \in ids |-> { b \in ids : Abuts(bs[t], bs[b]) } ])
      ov  == TLCEval([ a \in ids |-> { b \in ids : Overlaps(bs[a], bs[b]) } ])
      mk  == TLCEval([ i \in ids |-> MaskOf(CellsIn(bs[i])) ])
      bc  == TLCEval([ i \in ids |-> BoxCost(CellsIn(bs[i])) ])
      Ext(S) == UNION { { Append(s, b) : b \in { c \in ab[s[1]] : \A i \in 2..Len(s) : c \notin ov[s[i]] } } : s \in S }
      RECURSIVE Gen(_)
      Gen(m) == IF m = 1 THEN { <<t>> : t \in ids } ELSE Ext(Gen(m - 1))
  IN { << MapSeq(LAMBDA i : mk[i], s), FoldSeq(LAMBDA i, acc : acc + bc[i], 0, s) >> : s \in Gen(n) }

\* every result solve(k, bound) may return
NoResult == [sat |-> 0, boxes |-> <<>>, ret |-> 0]
SolveResults(n, b) ==
  LET A == { f \in Table(n) : f[2] >= b } IN
  IF A = {} THEN {NoResult} ELSE { [sat |-> 1, boxes |-> e[1], ret |-> e[2] + 1] : e \in A }

\* Property clauses on an OBSERVED result r = [sat, boxes, ret] of solve(n, b) (the last two sentences
\* of the statement).  A record of booleans, so that the trace specification can give total verdicts.
SolveClauses(n, b, r) ==
  [ sat_iff_feasible |-> (r.sat = 1) <=> Feasible(n, b),
    ret_boxes        |-> r.sat = 1 => Len(r.boxes) = n /\ OnGrid(r.boxes),
    ret_disjoint     |-> r.sat = 1 => DisjointBoxes(r.boxes),
    ret_abut         |-> r.sat = 1 => AbutBoxes(r.boxes),
    ret_cost         |-> (r.sat = 1 /\ Len(r.boxes) = n /\ OnGrid(r.boxes)) => Obj(r.boxes) >= b,
    unsat_empty      |-> r.sat = 0 => r.boxes = <<>> ]
AllTrue(cl) == \A f \in DOMAIN cl : cl[f]

(***************************************************************************)
(* Enc: the constraint system of enforce_bb, for one box.                  *)
(*   lil[x] (x <= right edge) is downward closed, big[x] (x >= left edge)  *)
(*   upward closed along the coordinate list: an assignment is a prefix    *)
(*   lilx / a suffix bigx of xs (and lily / bigy of ys).                   *)
(*   var_b[c] => lil[c.x2], big[c.x1], lily[c.y2], bigy[c.y1]   (Implied)  *)
(*   lil[next(c.x1)] /\ big[prev(c.x2)] /\ ... => var_b[c]      (Forcing)  *)
(*   at least one var_b                                                    *)
(*   branch boxes: exactly one selector d of north/south/east/west;        *)
(*     d => no selected cell on the border of side d                       *)
(*     var_b[c1] /\ d /\ ~var_b[c2] => trunk_b[c2]   for the neighbour c2  *)
(*     of c1 on side d                                                     *)
(*   solve(): a cell belongs to at most one box                            *)
(***************************************************************************)
LilSets(q) == { { q[i] : i \in 1..n } : n \in 0..Len(q) }                  \* downward closed sets of lines
BigSets(q) == { { q[i] : i \in n..Len(q) } : n \in 1..(Len(q) + 1) }          \* upward closed sets of lines
\* definecoords(): the successor / predecessor dictionaries of a coordinate list
NextMap(q) == [ v \in { q[i] : i \in 1..(Len(q) - 1) } |-> q[(CHOOSE i \in DOMAIN q : q[i] = v) + 1] ]
PrevMap(q) == [ v \in { q[i] : i \in 2..Len(q) } |-> q[(CHOOSE i \in DOMAIN q : q[i] = v) - 1] ]

ImpliedX(c, lilx, bigx) == cells[c][3] \in lilx /\ cells[c][1] \in bigx
ImpliedY(c, lily, bigy) == cells[c][4] \in lily /\ cells[c][2] \in bigy
Implied(c, lilx, bigx, lily, bigy) == ImpliedX(c, lilx, bigx) /\ ImpliedY(c, lily, bigy)
Forcing(c, lilx, bigx, lily, bigy) ==
  /\ nbr.nx[cells[c][1]] \in lilx /\ nbr.px[cells[c][3]] \in bigx
  /\ nbr.ny[cells[c][2]] \in lily /\ nbr.py[cells[c][4]] \in bigy
\* S is an assignment of the cell literals of one box consistent with the interval literals
Assigns(S, lilx, bigx, lily, bigy) ==
  /\ \A c \in S : Implied(c, lilx, bigx, lily, bigy)
  /\ \A c \in CellIds : Forcing(c, lilx, bigx, lily, bigy) => c \in S
\* the only sets that can satisfy Assigns (everything forced, nothing that is not allowed)
Candidates(lilx, bigx, lily, bigy) ==
  LET allowed == { c \in CellIds : Implied(c, lilx, bigx, lily, bigy) }
      forced  == { c \in CellIds : Forcing(c, lilx, bigx, lily, bigy) } IN
  IF forced \subseteq allowed THEN { forced \cup X : X \in SUBSET (allowed \ forced) } ELSE {}
\* pruning only (implied by "at least one cell literal"): some cell fits between the interval literals of an axis
\* (written as set comparisons, not \E, so that TLC does not enumerate the witnesses inside an action)
SomeColumn(lilx, bigx) == { c \in CellIds : ImpliedX(c, lilx, bigx) } # {}
SomeRow(lily, bigy) == { c \in CellIds : ImpliedY(c, lily, bigy) } # {}

IntPart(w) == (w \div UNIT) * UNIT                     \* int(Width) in lattice units
Width == xs[Len(xs)] - xs[1]                           \* ifile['Width'] = bounding box of the allocation
Height == ys[Len(ys)] - ys[1]
BorderLine(d) ==
  IF BORDER = "grid"
  THEN CASE d = "west" -> xs[1] [] d = "north" -> ys[1] [] d = "east" -> xs[Len(xs)] [] d = "south" -> ys[Len(ys)]
  ELSE CASE d = "west" -> 0 [] d = "north" -> 0 [] d = "east" -> IntPart(Width) [] d = "south" -> IntPart(Height)
OnBorder(c, d) ==
  CASE d = "west" -> cells[c][1] = BorderLine(d) [] d = "north" -> cells[c][2] = BorderLine(d)
    [] d = "east" -> cells[c][3] = BorderLine(d) [] d = "south" -> cells[c][4] = BorderLine(d)
\* c2 is the neighbour of c1 on side d (the four tests of enforce_bb)
Neighbour(c1, c2, d) ==
  LET a == cells[c1]  b == cells[c2] IN
  CASE d = "west"  -> a[1] = b[3] /\ a[4] > b[2] /\ a[2] < b[4]
    [] d = "east"  -> a[3] = b[1] /\ a[4] > b[2] /\ a[2] < b[4]
    [] d = "north" -> a[2] = b[4] /\ a[3] > b[1] /\ a[1] < b[3]
    [] d = "south" -> a[4] = b[2] /\ a[3] > b[1] /\ a[1] < b[3]
SideOK(S, S0, d) ==
  \A c1 \in S : /\ ~OnBorder(c1, d)
                /\ \A c2 \in CellIds : (Neighbour(c1, c2, d) /\ c2 \notin S) => c2 \in S0
\* the constraints that do not mention the interval literals: at least one cell, at most one box per cell,
\* and for a branch one selector whose implications hold (ss = the boxes chosen before, ss[1] = trunk)
BoxFits(ss, S) ==
  /\ S # {}
  /\ \A j \in DOMAIN ss : S \cap ss[j] = {}
  /\ (ss # <<>> => { d \in Sides : SideOK(S, ss[1], d) } # {})
\* S is an admissible assignment of box number Len(ss)+1
EncBoxOK(ss, S) ==
  /\ BoxFits(ss, S)
  /\ \E lilx \in LilSets(xs), bigx \in BigSets(xs) :
        /\ SomeColumn(lilx, bigx)
        /\ \E lily \in LilSets(ys), bigy \in BigSets(ys) : SomeRow(lily, bigy) /\ Assigns(S, lilx, bigx, lily, bigy)
\* the whole tuple is a model of the formula (the order of choice does not matter: the constraints of box i
\* mention only box i and the trunk)
EncAdmits(ss) == \A i \in DOMAIN ss : EncBoxOK(SubSeq(ss, 1, i - 1), ss[i])

(***************************************************************************)
(* Front end: from an allocation to the InputProblem (rect_io.get_alloc +  *)
(* select_box).  An allocation is a sequence of AllocOps cells             *)
(* <<x1,y1,x2,y2,depth,fixed,ratios>> in file order, ratios[m] = -1 when   *)
(* module m is not in the cell's map, else its numerator over par.den.     *)
(* The search receives one cell per rectangle of the allocation, with the  *)
(* module's ratio as occupancy (0 when the module is absent).              *)
(***************************************************************************)
FromAllocation(a, m) == [ i \in DOMAIN a |-> <<a[i][1], a[i][2], a[i][3], a[i][4], Num(a[i], m)>> ]
\* Property-level clauses on an OBSERVED input problem `inp` for allocation a and module m
FrontEndClauses(a, m, inp) ==
  [ alloc_same_cells |-> /\ Len(inp) = Len(a)
                         /\ { RectOf(inp[i]) : i \in DOMAIN inp } = Rects(SeqRange(a)),
    alloc_occupancy  |-> \A i \in DOMAIN inp : \A j \in DOMAIN a :
                            RectOf(inp[i]) = CRect(a[j]) => inp[i][5] = Num(a[j], m),
    alloc_disjoint   |-> \A i \in DOMAIN inp : \A j \in DOMAIN inp :
                            i # j => ~Overlaps(RectOf(inp[i]), RectOf(inp[j])) ]
\* the module is allocated with ratio 1 on the cells Hot and 0 (or not at all) elsewhere
Hot(a, m) == { i \in DOMAIN a : Num(a[i], m) = par.den }
Exact01(a, m) == \A i \in DOMAIN a : Num(a[i], m) \in {0, par.den}
\* ... and Hot is exactly the cell set of some n-STOG (evaluated on the tabulated shapes T = FastTable(n))
MaskSum(mm) == FoldSeq(LAMBDA x, acc : acc + x, 0, mm)
IsStogRegion(T, S) == \E e \in T : MaskSum(e[1]) = MaskOf(S)
\* End-to-end contract on the boxes `fin` the improvement loop ends with: exactly that region, as an n-STOG,
\* with zero error (occupied area selected = area selected = area of the module)
EndToEndClauses(a, m, n, T, fin) ==
  LET hot == Hot(a, m) IN
  [ e2e_exact_shape |-> (Exact01(a, m) /\ hot # {} /\ IsStogRegion(T, hot)) =>
                           /\ Len(fin) = n /\ IsKStog(fin)
                           /\ UNION SeqRange(SelOf(fin)) = hot,
    e2e_zero_error  |-> (Exact01(a, m) /\ hot # {} /\ IsStogRegion(T, hot) /\ Len(fin) = n /\ OnGrid(fin)) =>
                           LET U == UNION SeqRange(SelOf(fin)) IN
                           /\ SumOver(U, wsel) = SumOver(U, wreal)          \* nothing selected that is not occupied
                           /\ SumOver(U, wsel) = SumOver(CellIds, wsel) ]  \* nothing occupied that is not selected

(***************************************************************************)
(* Grids used by the configuration files (GRIDS <- ...).  Coordinates are  *)
(* lattice units; the harness embeds them into Python numbers (steps 1,    *)
(* 1/2, 1/10, 1/3, 1e3, 1e-3, offset 37.3), which supplies integer and     *)
(* fractional total sizes and further origins.                             *)
(***************************************************************************)
Line(a, n) == [ i \in 1..(n + 1) |-> a + i - 1 ]           \* n unit cells starting at a
U(nx, ny) == <<Line(0, nx), Line(0, ny)>>                   \* uniform, origin 0
NonUniform33 == << <<0, 1, 3, 4>>, <<0, 2, 3, 5>> >>
Shifted33 == <<Line(5, 3), Line(2, 3)>>                      \* origin (5, 2)
Negative33 == <<Line(-1, 3), Line(-2, 3)>>                   \* origin (-1, -2): the lines x = 0, y = 0 are interior
NonUniform24 == << <<3, 4, 6, 7, 9>>, <<-1, 1, 2>> >>
TinyGrids == { U(1, 1), U(2, 1), U(1, 3), U(2, 2) }
Straddle32 == << <<-3, 0, 3, 4>>, <<-3, 0, 3>> >>            \* the origin INSIDE the grid: interior lines x = 0 and y = 0
QuickMcGrids == TinyGrids \cup { U(3, 2), U(3, 3), NonUniform24 }
QuickGrids == TinyGrids \cup { Straddle32, U(3, 2), U(3, 3), NonUniform33, Shifted33, Negative33, U(4, 2), NonUniform24 }
ThoroughGrids == QuickGrids \cup { U(4, 3), U(3, 4), << <<2, 3, 5, 6, 8>>, <<0, 1, 2, 4>> >>, U(5, 2) }
BigGrids == { U(4, 4) }
ThoroughAllGrids == ThoroughGrids \cup BigGrids
NonUniform23 == << <<1, 2, 4>>, <<-1, 0, 2, 3>> >>
McSolveGrids == { U(1, 1), U(2, 1), U(2, 2) }                \* solve mode, explored exhaustively (results branch)
QuickSolveGrids == { U(1, 1), U(2, 1), U(2, 2), U(3, 2) }    \* solve mode, case generation only
ThoroughSolveGrids == QuickSolveGrids \cup { NonUniform23, U(3, 3) }
ThoroughMcSolveGrids == McSolveGrids \cup { U(3, 1), << <<1, 2, 4>>, <<-1, 0, 2>> >> }
DefectGrids == { Shifted33 }
QuickAllocGrids == { U(2, 1), U(2, 2) }                      \* alloc mode, explored exhaustively in the quick tier
QuickGenAllocGrids == { U(2, 2), U(3, 2) }                   \* alloc mode, case generation in the quick tier
NonUniformPos23 == << <<1, 2, 4>>, <<0, 1, 3, 4>> >>          \* allocation documents cannot hold negative centres
ThoroughAllocGrids == { U(2, 1), U(2, 2), U(3, 1), << <<1, 2, 4>>, <<0, 1, 3>> >> }         \* alloc mode, explored exhaustively
GenAllocGrids == { U(2, 2), U(3, 2), NonUniformPos23, U(3, 3), Shifted33 }   \* alloc mode, case generation only

(***************************************************************************)
(* State machine                                                           *)
(***************************************************************************)
Blank == <<>>
AllOcc(g) == LET n == (Len(g[1]) - 1) * (Len(g[2]) - 1) IN
             [1..n -> OCCVALS] \ { [c \in 1..n |-> 0] }       \* a module to normalise occupies something
\* "alloc" mode: three modules; module 1 has ratio 0 or 1 in every cell (every pattern but the empty one); module 2
\* is absent / 0 / one half and module 3 is absent / 1 depending on the position of the cell.  Cells are therefore
\* OVER-OCCUPIED (1 + 1/2, 1 + 1, 1 + 1/2 + 1: the sum of the ratios exceeds 1) wherever module 1 meets them -- legal
\* in an allocation document (Allocation deliberately does not assert sum <= 1) and without influence on module 1:
\* the search works with the ratio AS WRITTEN for the module it normalises.
AllocsFor(g) ==
  LET n  == (Len(g[1]) - 1) * (Len(g[2]) - 1)
      gc == GridCells(g[1], g[2], [c \in 1..n |-> 0]) IN
  { [ c \in 1..n |-> <<gc[c][1], gc[c][2], gc[c][3], gc[c][4], 0, 0, <<o[c], ((gc[c][1] + 2 * gc[c][2]) % 3) - 1, IF (gc[c][1] + gc[c][2]) % 2 = 0 THEN DEN ELSE -1>> >> ] :
      o \in [1..n -> {0, DEN}] \ { [c \in 1..n |-> 0] } }
InputsFor(g, m) ==
  IF m = "solve" THEN { GridCells(g[1], g[2], o) : o \in AllOcc(g) }
  ELSE { GridCells(g[1], g[2], [c \in 1..((Len(g[1]) - 1) * (Len(g[2]) - 1)) |-> DEN]) }

Init == /\ mode \in MODES /\ pc = (IF mode = "alloc" THEN "alloc" ELSE "input")
        /\ par = [den |-> DEN, fnum |-> FNUM, fden |-> FDEN, ratio |-> RATIO]
        /\ IF mode = "alloc"
           THEN /\ \E g \in AGRIDS : \E a \in AllocsFor(g) : src = [alloc |-> a, mod |-> 1]
                /\ cells = <<>>
           ELSE /\ src = <<>>
                /\ \E g \in (IF mode = "solve" THEN SGRIDS ELSE GRIDS) : cells \in InputsFor(g, mode)
        /\ k \in 1..KMAX
        /\ xs = Blank /\ ys = Blank /\ nbr = Blank /\ wsel = Blank /\ wreal = Blank
        /\ boxes = <<>> /\ sel = <<>> /\ bound = 0 /\ res = NoResult /\ last = <<>>

\* get_alloc() + select_box(): the search receives the allocation's rectangles with the module's ratio
LoadAllocation == /\ pc = "alloc" /\ pc' = "input"
                  /\ cells' = FromAllocation(src.alloc, src.mod)
                  /\ UNCHANGED <<mode, src, par, k, xs, ys, nbr, wsel, wreal, boxes, sel, bound, res, last>>

\* definecoords() and the area weights
DefineCoords == /\ pc = "input" /\ pc' = "start"
                /\ xs' = XsOf(cells) /\ ys' = YsOf(cells)
                /\ nbr' = [nx |-> NextMap(XsOf(cells)), px |-> PrevMap(XsOf(cells)),
                           ny |-> NextMap(YsOf(cells)), py |-> PrevMap(YsOf(cells))]
                /\ wsel' = [ c \in CellIds |-> AreaSel(c) ] /\ wreal' = [ c \in CellIds |-> AreaReal(c) ]
                /\ UNCHANGED <<mode, src, par, cells, k, boxes, sel, bound, res, last>>

\* ---- Gen
ChooseTrunk == /\ ~EMIT /\ mode = "gen" /\ pc = "start" /\ pc' = "build"
               /\ boxes' \in Trunks
               /\ UNCHANGED <<mode, src, par, cells, k, xs, ys, nbr, wsel, wreal, sel, bound, res, last>>
AddBranch == /\ ~EMIT /\ mode = "gen" /\ pc = "build" /\ Len(boxes) < k
             /\ \E b \in BranchesFor(boxes) : \E d \in Sides : OnSide(boxes[1], b, d) /\ boxes' = Append(boxes, b)
             /\ UNCHANGED <<mode, src, pc, par, cells, k, xs, ys, nbr, wsel, wreal, sel, bound, res, last>>
\* ---- Enc
EncBox == /\ ~EMIT /\ mode = "enc" /\ pc \in {"start", "build"} /\ Len(sel) < k /\ pc' = "build"
          /\ \E lilx \in LilSets(xs), bigx \in BigSets(xs) :
               /\ SomeColumn(lilx, bigx)
               /\ \E lily \in LilSets(ys), bigy \in BigSets(ys) :
                    /\ SomeRow(lily, bigy)
                    /\ \E S \in Candidates(lilx, bigx, lily, bigy) :
                       /\ Assigns(S, lilx, bigx, lily, bigy)
                       /\ BoxFits(sel, S)
                       /\ sel' = Append(sel, S)
          /\ UNCHANGED <<mode, src, par, cells, k, xs, ys, nbr, wsel, wreal, boxes, bound, res, last>>
Close == /\ ~EMIT /\ mode \in {"gen", "enc"} /\ pc = "build" /\ pc' = "closed"
         /\ (mode = "gen" => Len(boxes) = k) /\ (mode = "enc" => Len(sel) = k)
         /\ UNCHANGED <<mode, src, par, cells, k, xs, ys, nbr, wsel, wreal, boxes, sel, bound, res, last>>
\* ---- solve() and the improvement loop of main()
HasShapes == KStog(k) # {}
\* ("solve" mode starts just below the optimum; "alloc" mode starts as the harness re-implementation of main()
\* does, at bound 1 = any shape with a positive objective)
Start == /\ ~EMIT /\ mode \in {"solve", "alloc"} /\ pc = "start" /\ pc' = "call"
         /\ bound' = IF mode = "alloc" THEN 1
                      ELSE LET T == FastTable(k) IN IF T # {} THEN BestT(T) - 1 ELSE 0
         /\ UNCHANGED <<mode, src, par, cells, k, xs, ys, nbr, wsel, wreal, boxes, sel, res, last>>
Call == /\ ~EMIT /\ pc = "call" /\ pc' = "ret"
        /\ res' \in SolveResults(k, bound)
        /\ UNCHANGED <<mode, src, par, cells, k, xs, ys, nbr, wsel, wreal, boxes, sel, bound, last>>
Iterate == /\ ~EMIT /\ pc = "ret" /\ res.sat = 1 /\ pc' = "call"
           /\ bound' = res.ret /\ last' = res.boxes
           /\ UNCHANGED <<mode, src, par, cells, k, xs, ys, nbr, wsel, wreal, boxes, sel, res>>
Stop == /\ ~EMIT /\ pc = "ret" /\ res.sat = 0 /\ pc' = "end"
        /\ UNCHANGED <<mode, src, par, cells, k, xs, ys, nbr, wsel, wreal, boxes, sel, bound, res, last>>

\* ---- behaviour generation: one case per (grid, k) and per (grid, occupancy, k)
EmitGrid == /\ EMIT /\ mode = "gen" /\ pc = "start" /\ pc' = "emitted" /\ UNCHANGED <<mode, src, par, cells, k, xs, ys, nbr, wsel, wreal, boxes, sel, bound, res, last>>
            /\ PrintT(ToJson([kind |-> "models", cells |-> cells, k |-> k, den |-> par.den, ratio |-> par.ratio,
                             fnum |-> par.fnum, fden |-> par.fden,
                             nshapes |-> Cardinality(KStog(k)), best |-> 0]))
EmitSolve == /\ EMIT /\ mode = "solve" /\ pc = "start" /\ pc' = "emitted" /\ UNCHANGED <<mode, src, par, cells, k, xs, ys, nbr, wsel, wreal, boxes, sel, bound, res, last>>
             /\ PrintT(ToJson([kind |-> "solve", cells |-> cells, k |-> k, den |-> par.den, ratio |-> par.ratio,
                              fnum |-> par.fnum, fden |-> par.fden,
                              nshapes |-> Cardinality(FastTable(k)),
                              best |-> LET T == FastTable(k) IN IF T # {} THEN BestT(T) ELSE 0]))

EmitAlloc == /\ EMIT /\ mode = "alloc" /\ pc = "start" /\ pc' = "emitted" /\ UNCHANGED <<mode, src, par, cells, k, xs, ys, nbr, wsel, wreal, boxes, sel, bound, res, last>>
             /\ PrintT(ToJson([kind |-> "alloc", alloc |-> src.alloc, mod |-> src.mod, cells |-> cells, k |-> k,
                              den |-> par.den, ratio |-> par.ratio, fnum |-> par.fnum, fden |-> par.fden,
                              stog |-> IF IsStogRegion(FastTable(k), Hot(src.alloc, src.mod)) THEN 1 ELSE 0]))

Next == \/ LoadAllocation \/ DefineCoords
        \/ ChooseTrunk \/ AddBranch \/ EncBox \/ Close
        \/ Start \/ Call \/ Iterate \/ Stop
        \/ EmitGrid \/ EmitSolve \/ EmitAlloc
Spec == Init /\ [][Next]_vars

(***************************************************************************)
(* Invariants                                                              *)
(***************************************************************************)
TypeOK == /\ mode \in {"gen", "enc", "solve", "alloc"} /\ k \in 1..KMAX
          /\ pc \in {"alloc", "input", "start", "build", "closed", "call", "ret", "end", "emitted"}
InputIsGrid == pc # "alloc" => IsGrid(cells)
\* Gen = Decl: the construction generates exactly the tuples the statement describes (checked once per grid)
GenIsDecl == (pc = "start" /\ mode = "gen") => KStog(k) = KStogDecl(k)
\* every closed state of Gen is a k-STOG, as a tuple of rectangles and as a tuple of cell sets
GenClosed == (mode = "gen" /\ pc = "closed") => /\ Len(boxes) = k /\ IsKStog(boxes)
                                                 /\ IsKStogSel(SelOf(boxes)) /\ ShapeOf(SelOf(boxes)) = boxes
\* Enc admits only k-STOGs (no spurious model) ...
EncSound == (mode = "enc" /\ pc = "closed") => Len(sel) = k /\ IsKStogSel(sel) /\ IsKStog(ShapeOf(sel))
\* ... and every k-STOG (no missing model)
EncComplete == (mode = "gen" /\ pc = "closed") => EncAdmits(SelOf(boxes))
\* solve(): the specified results satisfy the property clauses; the loop ends on an optimal shape
SolveMeetsProperty == pc = "ret" => AllTrue(SolveClauses(k, bound, res))
\* front end: the specified InputProblem satisfies the front-end clauses, and the loop's final boxes the contract
FrontEndOK == (mode = "alloc" /\ pc # "alloc") => AllTrue(FrontEndClauses(src.alloc, src.mod, cells))
EndToEndExact == (mode = "alloc" /\ pc = "end") => AllTrue(EndToEndClauses(src.alloc, src.mod, k, FastTable(k), last))
LoopOptimal == (pc = "end" /\ HasShapes /\ (mode = "alloc" => Feasible(k, 1))) => LET T == Table(k) IN
                                              /\ last # <<>> /\ Obj(last) = BestT(T)
                                              /\ bound = BestT(T) + 1 /\ ~FeasibleT(T, bound)
TableIsObj == (mode \in {"solve", "alloc"} /\ pc = "call") => \A e \in Table(k) : e[2] = Obj(e[1])
FastIsTable == pc = "start" => FastTable(k) = { <<MaskShape(e[1]), e[2]>> : e \in Table(k) }
LoopNoShapes == (pc = "end" /\ ~HasShapes) => last = <<>>
\* the bound only grows (termination of main's loop)
BoundGrows == [][pc = "ret" => bound' >= bound]_vars
StrictlyGrows == [][(pc = "ret" /\ pc' = "call") => bound' > bound]_vars
=============================================================================
