\* behaviour generation (spec -> code): parameter combinations of the conformance runs
SPECIFICATION Spec
CONSTANTS
  Instances <- GenThorough
  Den = 3
  TOLR = 0
  TOLP = 0
  EMIT = TRUE
  EMITSOL = FALSE
CHECK_DEADLOCK FALSE
