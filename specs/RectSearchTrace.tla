-------------------------- MODULE RectSearchTrace --------------------------
(***************************************************************************)
(* C08, code -> spec: batch validation of observations of tools/rect.      *)
(*                                                                         *)
(* One TLC initial state per recorded trace.  A trace is one grid (the     *)
(* cells handed to rect.solve, pulled back to the lattice), one number of  *)
(* boxes k, the integer cell weights rect.area() produced, and a sequence  *)
(* of solve() calls (each in a fresh process) with, per call,              *)
(*   bound   dif[0]                                                        *)
(*   sat, rects, ret   what solve() returned (rects pulled back)           *)
(*   models  EVERY model of the CNF solve() built (SATManager.clauses),    *)
(*           projected on the literals b<i>_<cell>: k bit masks over the   *)
(*           cell numbers (full = 1: the enumeration is complete)          *)
(* The spec's variables are bound to the observed values (cells, k, par,   *)
(* weights, bound, res, last follow the calls as Call/Iterate would) and   *)
(* the spec's own value-level operators judge them:                        *)
(*   property clauses (fails): exactly the sentences of C08                *)
(*     weights            the cost uses the cell areas (int truncation)    *)
(*     model_full_rectangle / model_disjoint / model_abut                  *)
(*                        every admitted model is a k-STOG: "each box a    *)
(*                        non-empty full rectangle of cells", "pairwise    *)
(*                        disjoint", "abutting the trunk ... within the    *)
(*                        trunk's extent"                                  *)
(*     model_cost         every admitted model meets the requested bound   *)
(*     model_missing      every k-STOG meeting the bound is admitted       *)
(*     sat_iff_feasible   a shape is returned iff one exists               *)
(*     ret_boxes / ret_disjoint / ret_abut / ret_cost / unsat_empty        *)
(*                        the rectangles returned are the boxes of such a  *)
(*                        shape                                            *)
(*   front end (traces of kind "alloc": an Allocation YAML + a netlist     *)
(*   YAML went through rect_io.get_alloc / get_netlist / select_box and    *)
(*   the improvement loop of rect.main() around rect.solve):               *)
(*     alloc_same_cells / alloc_occupancy / alloc_disjoint                 *)
(*                        the InputProblem select_box produced has the     *)
(*                        allocation's rectangles, the module's ratio as   *)
(*                        occupancy, pairwise disjoint cells               *)
(*     e2e_exact_shape / e2e_zero_error                                    *)
(*                        a module allocated with ratio 1 exactly on a     *)
(*                        k-STOG gets exactly that shape, with zero error  *)
(*   model conformance (drift): definecoords' lists, the returned next     *)
(*     bound Obj+1, the returned shape being one of the enumerated models. *)
(* Verdicts are total: a step never blocks, Done prints one record.        *)
(***************************************************************************)
EXTENDS RectSearch, IOUtils

Batch == JsonDeserialize(IOEnv.TRACE_FILE)

VARIABLES tid, l, fails, drift, info,
          tab    \* FastTable(k) = the pairs <<shape as bit masks, cost>>, computed once per trace (step 0)
tvars == <<vars, tid, l, fails, drift, info, tab>>

T == Batch[tid]

TraceInit == /\ tid \in 1..Len(Batch) /\ l = 0 /\ fails = {} /\ drift = {} /\ info = <<>> /\ tab = {}
             /\ mode = (IF Batch[tid].kind = "alloc" THEN "alloc" ELSE "solve") /\ pc = "call"
             /\ src = (IF Batch[tid].kind = "alloc" THEN [alloc |-> Batch[tid].alloc, mod |-> Batch[tid].mod] ELSE <<>>)
             /\ par = [den |-> Batch[tid].den, fnum |-> Batch[tid].fnum, fden |-> Batch[tid].fden, ratio |-> Batch[tid].ratio]
             \* the cells the search must receive: given directly, or the specified front end applied to the allocation
             /\ cells = (IF Batch[tid].kind = "alloc" THEN FromAllocation(Batch[tid].alloc, Batch[tid].mod) ELSE Batch[tid].cells)
             /\ k = Batch[tid].k
             /\ xs = XsOf(cells) /\ ys = YsOf(cells) /\ nbr = Blank
             /\ wsel = Batch[tid].wsel /\ wreal = Batch[tid].wreal
             /\ boxes = <<>> /\ sel = <<>> /\ bound = 0 /\ res = NoResult /\ last = <<>>

Failed(cl) == { <<l, f>> : f \in { g \in DOMAIN cl : ~cl[g] } }

\* ---- step 0: the input and the weights
Near(a, b) == a - b \in {-1, 0, 1}
WeightClauses ==
  [ weights |-> /\ Len(wsel) = Len(cells) /\ Len(wreal) = Len(cells)
                /\ \A c \in CellIds :
                     IF T.exact = 1 THEN wsel[c] = AreaSel(c) /\ wreal[c] = AreaReal(c)
                     ELSE Near(wsel[c], AreaSel(c)) /\ Near(wreal[c], AreaReal(c)) ]
InputDrift ==
  [ input_is_grid |-> IsGrid(cells),               \* the harness only submits grids (quantifier of C08)
    definecoords  |-> T.xs = xs /\ T.ys = ys,
    \* front end, beyond the clauses: select_box keeps the order of the document; main() would have picked the module
    alloc_order   |-> T.kind = "alloc" => T.inp = cells,
    module_picked |-> T.found = 1 ]
FrontEnd == IF T.kind = "alloc" THEN FrontEndClauses(src.alloc, src.mod, T.inp) ELSE [ alloc_same_cells |-> TRUE ]
Prep == /\ l = 0 /\ l' = 1
        /\ fails' = fails \cup Failed(WeightClauses) \cup Failed(FrontEnd)
        /\ drift' = drift \cup Failed(InputDrift)
        /\ tab' = FastTable(k)
        /\ UNCHANGED <<vars, tid, info>>

\* ---- one solve() call
ObsResult(e) == [sat |-> e.sat, boxes |-> [ i \in DOMAIN e.rects |-> RectOf(e.rects[i]) ], ret |-> e.ret]
\* A model is transmitted as k bit masks (bit c-1 set <=> literal b<i>_<c> true): sets of tuples of integers are
\* cheap for TLC to compare; only the spurious / missing ones are decoded into cell sets to name the clause they break.
Decode(mm) == [ i \in DOMAIN mm |-> Bits(mm[i]) ]

CallClauses(e) ==
  LET Tab == tab
      r   == ObsResult(e)
      M   == SeqRange(e.models)
      E   == AdmitT(Tab, e.bound)                                  \* what the statement admits
      Sp  == { Decode(mm) : mm \in M \ E }                       \* spurious models (as tuples of cell sets)
      Mi  == IF e.full = 1 THEN { Decode(mm) : mm \in E \ M } ELSE {}   \* missing models
      wf  == { m \in Sp : Len(m) = k /\ FullSel(m) }
  IN [ cl |->
        [ sat_iff_feasible     |-> (r.sat = 1) <=> FeasibleT(Tab, e.bound),
          ret_boxes            |-> r.sat = 1 => Len(r.boxes) = k /\ OnGrid(r.boxes),
          ret_disjoint         |-> r.sat = 1 => DisjointBoxes(r.boxes),
          ret_abut             |-> r.sat = 1 => AbutBoxes(r.boxes),
          ret_cost             |-> (r.sat = 1 /\ Len(r.boxes) = k /\ OnGrid(r.boxes)) => Obj(r.boxes) >= e.bound,
          unsat_empty          |-> r.sat = 0 => r.boxes = <<>>,
          model_full_rectangle |-> wf = Sp,
          model_disjoint       |-> \A m \in Sp : DisjointSel(m),
          model_abut           |-> \A m \in wf : AbutSel(m),
          model_cost           |-> \A m \in wf : ObjSel(m) >= e.bound,
          model_missing        |-> Mi = {} ],
       dr |->
        [ ret_value       |-> (r.sat = 1 /\ Len(r.boxes) = k /\ OnGrid(r.boxes)) => r.ret = Obj(r.boxes) + 1,
          unsat_ret       |-> r.sat = 0 => r.ret = 0,
          result_is_model |-> (r.sat = 1 /\ Len(r.boxes) = k /\ OnGrid(r.boxes)) => MaskShape(r.boxes) \in M,
          \* a spurious model violates one of the four model clauses (Gen = Decl, model-checked in RectSearch)
          spurious_classified |-> Sp # {} => \E m \in Sp : ~(Len(m) = k /\ FullSel(m) /\ DisjointSel(m) /\ AbutSel(m) /\ ObjSel(m) >= e.bound) ],
       nf |-> [ l |-> l, models |-> Cardinality(M), expected |-> Cardinality(E),
                spurious |-> Cardinality(Sp), missing |-> Cardinality(Mi),
                ex_spurious |-> IF Sp = {} THEN <<>> ELSE CHOOSE m \in Sp : TRUE,
                ex_missing |-> IF Mi = {} THEN <<>> ELSE CHOOSE m \in Mi : TRUE ] ]

Step == /\ l >= 1 /\ l <= Len(T.events)
        /\ LET e == T.events[l]  v == CallClauses(e) IN
             /\ bound' = e.bound
             /\ res' = ObsResult(e)
             /\ last' = IF e.sat = 1 THEN ObsResult(e).boxes ELSE last
             /\ fails' = fails \cup Failed(v.cl)
             /\ drift' = drift \cup Failed(v.dr)
             /\ info' = IF v.nf.spurious + v.nf.missing > 0 THEN Append(info, v.nf) ELSE info
        /\ l' = l + 1
        /\ UNCHANGED <<mode, src, pc, par, cells, k, xs, ys, nbr, wsel, wreal, boxes, sel, tid, tab>>

\* the end-to-end contract, once the improvement loop has run to its end (last call unsat)
Final == IF T.kind = "alloc" /\ T.complete = 1 THEN EndToEndClauses(src.alloc, src.mod, k, tab, last)
         ELSE [ e2e_exact_shape |-> TRUE ]
Done == /\ l = Len(T.events) + 1
        /\ l' = l + 1
        /\ PrintT(ToJson([tag |-> "VERDICT", id |-> T.id, fails |-> fails \cup Failed(Final), drift |-> drift, info |-> info]))
        /\ UNCHANGED <<vars, tid, fails, drift, info, tab>>

TraceNext == Prep \/ Step \/ Done
TraceSpec == TraceInit /\ [][TraceNext]_tvars
=============================================================================
