----------------------------- MODULE StogTrace -----------------------------
(***************************************************************************)
(* C06, code -> spec: batch validation of observed calls of create_stog.   *)
(*                                                                         *)
(* One TLC initial state per recorded trace.  A trace is a list of events, *)
(* each one observed call of the real code:                                *)
(*    in  : the list handed to the call, <<x1,y1,x2,y2>> per rectangle     *)
(*    pre : the role every object carried just before the call             *)
(*    ok  : what the code reported (create_stog's return value, or         *)
(*          Module.has_stog after Netlist loaded the module)               *)
(*    out : the list after the call, <<x1,y1,x2,y2,role,src>> per object   *)
(* Every event is consumed by the specification's own action RecogniseOn   *)
(* applied to the observed pre-state, so rects', roles', result' are what  *)
(* the specification computes.  The observation is judged by               *)
(*   - Clauses (module Stog): the sentences of the property statement --   *)
(*     a false clause goes to `fails` (VIOLATION);                         *)
(*   - equality with the specification's own outcome (which of two         *)
(*     possible trunks, exact order) -- a difference goes to `drift`       *)
(*     (MODEL-DRIFT, never an accusation).                                 *)
(* A trace of kind "net" is one history on a LIVE netlist (section 4 of      *)
(* module Stog): load, then moves / mirrors / assignments made in place     *)
(* through the public objects, then Module.create_stog() or                 *)
(* Netlist.create_stogs().  The operations are consumed by MoveOn, MirrorOn,*)
(* AssignOn, RecModOn, RecAllOn; after the load and after every recognition *)
(* `obs` holds, per module, has_stog and the rectangles with their roles,   *)
(* judged with the same clauses against the module's CURRENT geometry.      *)
(* The verdict is total: Step never blocks, Done prints one VERDICT line.  *)
(***************************************************************************)
EXTENDS Stog, IOUtils

Batch == JsonDeserialize(IOEnv.TRACE_FILE)

VARIABLES tid, l, fails, drift
tvars == <<vars, tid, l, fails, drift>>

T == Batch[tid]

IsNet == T.kind = "net"
TraceInit == /\ tid \in 1..Len(Batch) /\ l = 1 /\ fails = {} /\ drift = {}
             /\ rects = <<>> /\ roles = <<>> /\ given = NoCall /\ result = -1 /\ ops = <<>>
             /\ IF Batch[tid].kind = "net"
                THEN pc = "net" /\ net = [m \in DOMAIN Batch[tid].events[1].mods |-> Loaded(Batch[tid].events[1].mods[m])]
                ELSE pc = "build" /\ net = <<>>

\* does the observation coincide with what the specification computed (primed variables)?
SameAsModel(e) == /\ e.ok = result'
                  /\ OutRects(e.out) = rects'
                  /\ OutRole(e.out) = roles'
                  /\ (\A k \in DOMAIN e.out : e.out[k][6] # 0) => OutSrc(e.out) = given'.src

\* the observation o = [ok, out] of one module judged against its current geometry `geo` (the rectangles the model
\* holds for it when the recognition is called)
ModuleFails(geo, o) == LET cl == Clauses(geo, o.ok, o.out) IN { c \in ClauseNames : ~cl[c] }
Judged(e, covered) == UNION { { <<l, c>> : c \in ModuleFails(net[m].rects, e.obs[m]) } : m \in covered }
NetOp == LET e == T.events[l] IN
  CASE e.op = "load"   -> UNCHANGED <<net, pc, rects, roles, given, result>> /\ fails' = fails \cup Judged(e, DOMAIN net)
    [] e.op = "move"   -> MoveOn(e.m, e.k, <<e.dx, e.dy>>) /\ UNCHANGED fails
    [] e.op = "mirror" -> MirrorOn(e.m) /\ UNCHANGED fails
    [] e.op = "assign" -> AssignOn(e.m, e.rects) /\ UNCHANGED fails
    [] e.op = "rec"    -> RecModOn(e.m) /\ fails' = fails \cup Judged(e, {e.m})
    [] OTHER           -> RecAllOn /\ fails' = fails \cup Judged(e, DOMAIN net)

Step == /\ l <= Len(T.events)
        /\ IF IsNet
           THEN NetOp /\ UNCHANGED <<drift, ops>>
           ELSE LET e == T.events[l]
                    cl == Clauses(e.in, e.ok, e.out)
                IN /\ RecogniseOn(e.in, e.pre)
                   /\ fails' = fails \cup { <<l, c>> : c \in { c \in ClauseNames : ~cl[c] } }
                   /\ drift' = IF SameAsModel(e) THEN drift ELSE drift \cup { <<l, "trunk_choice">> }
                   /\ pc' = "done" /\ UNCHANGED nvars
        /\ l' = l + 1 /\ UNCHANGED tid

Done == /\ l = Len(T.events) + 1
        /\ l' = l + 1
        /\ PrintT(ToJson([tag |-> "VERDICT", id |-> T.id, fails |-> fails, drift |-> drift]))
        /\ UNCHANGED <<vars, tid, fails, drift>>

TraceNext == Step \/ Done
TraceSpec == TraceInit /\ [][TraceNext]_tvars
=============================================================================
