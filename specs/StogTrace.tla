----------------------------- MODULE StogTrace -----------------------------
(***************************************************************************)
(* C06, code -> spec: batch validation of observed calls of create_stog.   *)
(*                                                                         *)
(* One TLC initial state per recorded trace.  A trace is a list of events, *)
(* each one observed call of the real code:                                *)
(*    in  : the list handed to the call, <<x1,y1,x2,y2>> per rectangle     *)
(*    pre : the role every object carried just before the call             *)
(*    ok  : what the code reported (create_stog's return value, or         *)
(*          Module.has_stog after Netlist loaded the module)               *)
(*    out : the list after the call, <<x1,y1,x2,y2,role,src>> per object   *)
(* Every event is consumed by the specification's own action RecogniseOn   *)
(* applied to the observed pre-state, so rects', roles', result' are what  *)
(* the specification computes.  The observation is judged by               *)
(*   - Clauses (module Stog): the sentences of the property statement --   *)
(*     a false clause goes to `fails` (VIOLATION);                         *)
(*   - equality with the specification's own outcome (which of two         *)
(*     possible trunks, exact order) -- a difference goes to `drift`       *)
(*     (MODEL-DRIFT, never an accusation).                                 *)
(* The verdict is total: Step never blocks, Done prints one VERDICT line.  *)
(***************************************************************************)
EXTENDS Stog, IOUtils

Batch == JsonDeserialize(IOEnv.TRACE_FILE)

VARIABLES tid, l, fails, drift
tvars == <<vars, tid, l, fails, drift>>

T == Batch[tid]

TraceInit == /\ tid \in 1..Len(Batch) /\ l = 1 /\ fails = {} /\ drift = {}
             /\ pc = "build" /\ rects = <<>> /\ roles = <<>> /\ given = NoCall /\ result = -1

\* does the observation coincide with what the specification computed (primed variables)?
SameAsModel(e) == /\ e.ok = result'
                  /\ OutRects(e.out) = rects'
                  /\ OutRole(e.out) = roles'
                  /\ (\A k \in DOMAIN e.out : e.out[k][6] # 0) => OutSrc(e.out) = given'.src

Step == /\ l <= Len(T.events)
        /\ LET e == T.events[l]
               cl == Clauses(e.in, e.ok, e.out)
           IN /\ RecogniseOn(e.in, e.pre)
              /\ fails' = fails \cup { <<l, c>> : c \in { c \in ClauseNames : ~cl[c] } }
              /\ drift' = IF SameAsModel(e) THEN drift ELSE drift \cup { <<l, "trunk_choice">> }
        /\ pc' = "done" /\ l' = l + 1 /\ UNCHANGED tid

Done == /\ l = Len(T.events) + 1
        /\ l' = l + 1
        /\ PrintT(ToJson([tag |-> "VERDICT", id |-> T.id, fails |-> fails, drift |-> drift]))
        /\ UNCHANGED <<vars, tid, fails, drift>>

TraceNext == Step \/ Done
TraceSpec == TraceInit /\ [][TraceNext]_tvars
=============================================================================
