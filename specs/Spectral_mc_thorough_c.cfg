\* C14 design-level check, universe C (thorough): variations of A -- 8x8 die, cycle and star around the
\* fixed module, two places of the fixed module (one beyond the spans of the movable ones), one step per dimension;
\* the fixed module is the square or a fixed terminal (a pin without area);
\* one profile has a module whose disc fits exactly (span 0).
SPECIFICATION Spec
CONSTANTS
  HalfSet <- HalfA
  Profiles <- ProfAR
  AreaProfiles <- AreaAX
  Graphs = {"cycle", "starL"}
  FixSet <- FixAT
  TrialSet = {1}
  MaxIter = 1
  GS = 4
  G = 2
  Rounds = 1
  TOL = 0
  EMIT = FALSE
INVARIANT TemplatesOnLattice
INVARIANT NormalizeMeetsContract
INVARIANT InSpanInv
INVARIANT SeedInv
INVARIANT TrialInv
INVARIANT BestInv
INVARIANT AreasNetsUnchanged
INVARIANT FixedRectsUntouched
INVARIANT CommitInv
INVARIANT HardCentroid
CHECK_DEADLOCK FALSE
