SPECIFICATION Spec
CONSTANTS
  DW = 2
  DH = 2
  KU = 32
  OUT = 1
  MAXR = 1
  MAXM = 1
  SIDES = {32, 64}
  EMIT = TRUE
CHECK_DEADLOCK FALSE
