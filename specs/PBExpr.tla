------------------------------- MODULE PBExpr -------------------------------
(***************************************************************************)
(* C16 -- Pseudo-Boolean expression algebra preserves integer semantics.   *)
(* (front end of C07: SatLayer.tla builds its inequalities with MkIneq.)   *)
(*                                                                         *)
(* Subject: tools/rect/pseudobool.py, classes Literal, Term, Expr, Ineq.   *)
(*                                                                         *)
(* An expression is an affine combination of literals over 0/1 variables.  *)
(* The library keeps it in a NORMAL FORM                                   *)
(*        c + k1*l1 + ... + kn*ln,   ki > 0, one literal per variable,     *)
(* (a negative coefficient -k*l is rewritten -k + k*(not l)), in an        *)
(* insertion-ordered dictionary.  Here:                                    *)
(*        nf  = [c |-> Int, t |-> << <<var, sign, coef>>, ... >>]          *)
(* with sign 1 = the variable, 0 = its negation (JSON-shaped on purpose).  *)
(*                                                                         *)
(* Two registers e1, e2 are built by API-shaped actions (one action per    *)
(* public operator overload).  Next to each register lives its TRUTH TABLE *)
(* sem1 / sem2 : [assignment -> Int], computed *directly from how the      *)
(* register was built* (pointwise integer arithmetic, no normalisation).   *)
(* The property is then three invariants:                                  *)
(*    SemOK          Eval(nf, a) = sem[a] for every assignment a           *)
(*    CoefPositive   every coefficient of the normal form is > 0           *)
(*    OnePerVar      no variable occurs twice                              *)
(* and, for a comparison e1 (op) e2 turned into an inequality,             *)
(*    IneqOK         Holds(ineq, a) <=> sem1[a] (op) sem2[a].              *)
(*                                                                         *)
(* The universe is not bounded by a step counter but by a BOX on the       *)
(* normal form (state constraint InBox): TLC visits every normal form with *)
(* |c| <= CMax and coefficients <= KMax, in every term order, and applies  *)
(* every operation of the alphabets to it; results that leave the box are  *)
(* still checked, only not extended.  After Push the two registers range   *)
(* over the (smaller) box CMax2/KMax2 independently, so every ordered pair *)
(* of small normal forms is added, subtracted and compared with all five   *)
(* operators.                                                              *)
(*                                                                         *)
(* All value-level operators (AddTermNF, MulNF, AddExprNF, MkIneq, Do ...) *)
(* are shared with PBExprTrace.tla, which replays observed executions of   *)
(* the real classes through Do and judges what the code returned.          *)
(***************************************************************************)
EXTENDS Integers, Sequences, FiniteSets, SequencesExt, TLC, Json

CONSTANTS Vars,      \* variable names (strings)
          CoefNeg, CoefPos,   \* AddTerm / SubTerm offer the coefficients -CoefNeg..CoefPos (zero included)
          ConstMax,           \* AddConst / SubConst offer the constants -ConstMax..ConstMax
          MulNeg, MulPos,     \* Mul offers the multipliers -MulNeg..MulPos (0, 1, -1 included)
          CMax, KMax,    \* box of the single-register phase
          CMax2, KMax2,  \* box of the two-register phase (after Push)
          EMIT       \* TRUE: behaviour generation (print every state with its enabled operations)

VARIABLES pc,        \* "build" | "combined" | "compared" | "emitted"
          second,    \* Push has happened: e2 holds the first expression, e1 is being rebuilt
          e1, e2,    \* normal forms
          sem1, sem2,\* truth tables, computed directly from the build history
          ineq       \* result of Compare, [lhs |-> nf, rhs |-> Int, op |-> ">=" | ">" | "="]
vars == <<pc, second, e1, e2, sem1, sem2, ineq>>

\* (TLC configuration files cannot spell negative numbers inside set literals, hence the bounds)
Coefs == (-CoefNeg)..CoefPos
Consts == (-ConstMax)..ConstMax
Muls == (-MulNeg)..MulPos

(***************************************************************************)
(* Assignments and direct semantics                                        *)
(***************************************************************************)
\* An assignment is a number 0..2^|Vars|-1 whose bits are the values of the variables (variable v has
\* the bit of weight Weight[v]); a truth table is then a function on an integer interval, which TLC
\* indexes directly (cheaper to build, hash and look up than tables over function-valued assignments).
NV == Cardinality(Vars)
VarList == SetToSeq(Vars)
Weight == [v \in Vars |-> 2 ^ ((CHOOSE i \in 1..NV : VarList[i] = v) - 1)]
Assigns == 0..(2 ^ NV - 1)
BitOf(v, a) == (a \div Weight[v]) % 2
LitVal(v, s, a) == IF s = 1 THEN BitOf(v, a) ELSE 1 - BitOf(v, a)

RECURSIVE SumSeq(_)
SumSeq(q) == IF q = <<>> THEN 0 ELSE Head(q) + SumSeq(Tail(q))

\* value of a normal form under an assignment
Eval(e, a) == e.c + SumSeq([i \in DOMAIN e.t |-> e.t[i][3] * LitVal(e.t[i][1], e.t[i][2], a)])

Empty == [c |-> 0, t |-> <<>>]
Zero == [a \in Assigns |-> 0]

\* truth tables of the results, "computed directly from how it was built"
SemTerm(sem, v, s, k) == [a \in Assigns |-> sem[a] + k * LitVal(v, s, a)]
SemConst(sem, k) == [a \in Assigns |-> sem[a] + k]
SemMul(sem, m) == [a \in Assigns |-> sem[a] * m]
SemAdd(f, g) == [a \in Assigns |-> f[a] + g[a]]
SemSub(f, g) == [a \in Assigns |-> f[a] - g[a]]

CmpOps == {">=", "<=", ">", "<", "="}
Direct(x, op, y) == CASE op = ">=" -> x >= y
                      [] op = "<=" -> x <= y
                      [] op = ">" -> x > y
                      [] op = "<" -> x < y
                      [] op = "=" -> x = y
                      [] OTHER -> FALSE

(***************************************************************************)
(* Normal-form arithmetic, shaped like the code                            *)
(***************************************************************************)
IdxOf(t, v) == IF \E i \in DOMAIN t : t[i][1] = v THEN CHOOSE i \in DOMAIN t : t[i][1] = v ELSE 0
DropAt(t, i) == SubSeq(t, 1, i - 1) \o SubSeq(t, i + 1, Len(t))

\* Expr.__add__(Term(Literal(v, s), k)):  three cases -- new variable, same polarity, opposite
\* polarity (k*l = k - k*(not l)) -- then cancellation to zero (entry deleted) and sign repair
\* (negative coefficient: flip the literal, move the coefficient into the constant).
AddTermNF(e, v, s, k) ==
  IF k = 0 THEN e
  ELSE LET i == IdxOf(e.t, v) IN
    IF i = 0
    THEN IF k > 0 THEN [c |-> e.c, t |-> Append(e.t, <<v, s, k>>)]
                  ELSE [c |-> e.c + k, t |-> Append(e.t, <<v, 1 - s, -k>>)]
    ELSE LET s0 == e.t[i][2]
             k0 == e.t[i][3]
             k1 == IF s = s0 THEN k0 + k ELSE k0 - k
             c1 == IF s = s0 THEN e.c ELSE e.c + k
         IN IF k1 = 0 THEN [c |-> c1, t |-> DropAt(e.t, i)]
            ELSE IF k1 > 0 THEN [c |-> c1, t |-> [e.t EXCEPT ![i] = <<v, s0, k1>>]]
            ELSE [c |-> c1 + k1, t |-> [e.t EXCEPT ![i] = <<v, 1 - s0, -k1>>]]

\* Expr.__mul__(m): constant and every coefficient times m; zero products vanish, negative ones are
\* repaired in place (the dictionary position is kept).
MulNF(e, m) ==
  LET sc == [i \in DOMAIN e.t |-> e.t[i][3] * m]
      neg == SumSeq([i \in DOMAIN e.t |-> IF sc[i] < 0 THEN sc[i] ELSE 0])
      fl == [i \in DOMAIN e.t |-> IF sc[i] < 0 THEN <<e.t[i][1], 1 - e.t[i][2], -sc[i]>>
                                                 ELSE <<e.t[i][1], e.t[i][2], sc[i]>>]
  IN [c |-> e.c * m + neg, t |-> SelectSeq(fl, LAMBDA x : x[3] # 0)]

\* Expr + Expr / Expr - Expr: constants first, then the terms of the operand one by one, in order
RECURSIVE FoldTerms(_, _, _)
FoldTerms(e, ts, sg) ==
  IF ts = <<>> THEN e
  ELSE FoldTerms(AddTermNF(e, Head(ts)[1], Head(ts)[2], sg * Head(ts)[3]), Tail(ts), sg)
AddExprNF(e, f) == FoldTerms([c |-> e.c + f.c, t |-> e.t], f.t, 1)
SubExprNF(e, f) == FoldTerms([c |-> e.c - f.c, t |-> e.t], f.t, -1)

\* Ineq(e, f, op): "<=" and "<" swap the sides; the difference is normalised, its constant moves
\* to the right-hand side:  terms(l - r)  (>=|>|=)  -(const(l - r))
MkIneq(e, f, op) ==
  LET swap == op \in {"<=", "<"}
      d == IF swap THEN SubExprNF(f, e) ELSE SubExprNF(e, f)
      nop == IF op \in {">=", "<="} THEN ">=" ELSE IF op \in {">", "<"} THEN ">" ELSE "="
  IN [lhs |-> [c |-> 0, t |-> d.t], rhs |-> -d.c, op |-> nop]
NoIneq == [lhs |-> Empty, rhs |-> 0, op |-> ">="]
Holds(q, a) == Direct(Eval(q.lhs, a), q.op, q.rhs)

(***************************************************************************)
(* One public operation on the pair of registers (shared with the trace    *)
(* spec).  st = [e1, s1, e2, s2]; the result also carries `out`, what the  *)
(* Python call returns (a normal form, or an inequality for "cmp").        *)
(***************************************************************************)
St(a1, b1, a2, b2) == [e1 |-> a1, s1 |-> b1, e2 |-> a2, s2 |-> b2]
ExprOps == {"add_lit", "sub_lit", "add_term", "sub_term", "add_const", "sub_const", "mul",
            "push", "add_expr", "sub_expr"}
AllOps == ExprOps \cup {"cmp"}

Do(st, op, v, s, k, cmp) ==
  LET R(n1, t1) == [st EXCEPT !.e1 = n1, !.s1 = t1] IN
  CASE op = "add_lit"   -> R(AddTermNF(st.e1, v, s, 1), SemTerm(st.s1, v, s, 1))
    [] op = "sub_lit"   -> R(AddTermNF(st.e1, v, s, -1), SemTerm(st.s1, v, s, -1))
    [] op = "add_term"  -> R(AddTermNF(st.e1, v, s, k), SemTerm(st.s1, v, s, k))
    [] op = "sub_term"  -> R(AddTermNF(st.e1, v, s, -k), SemTerm(st.s1, v, s, -k))
    [] op = "add_const" -> R([st.e1 EXCEPT !.c = @ + k], SemConst(st.s1, k))
    [] op = "sub_const" -> R([st.e1 EXCEPT !.c = @ - k], SemConst(st.s1, -k))
    [] op = "mul"       -> R(MulNF(st.e1, k), SemMul(st.s1, k))
    [] op = "push"      -> St(Empty, Zero, st.e1, st.s1)
    [] op = "add_expr"  -> R(AddExprNF(st.e1, st.e2), SemAdd(st.s1, st.s2))
    [] op = "sub_expr"  -> R(SubExprNF(st.e1, st.e2), SemSub(st.s1, st.s2))
    [] OTHER            -> st       \* "cmp" leaves both registers alone
OutIneq(st, cmp) == MkIneq(st.e1, st.e2, cmp)

(***************************************************************************)
(* Property clauses, as predicates on values (used as invariants here and  *)
(* on OBSERVED values in PBExprTrace)                                      *)
(***************************************************************************)
SemAgrees(e, sem) == \A a \in Assigns : Eval(e, a) = sem[a]
CoefsPositive(e) == \A i \in DOMAIN e.t : e.t[i][3] > 0
VarsOnce(e) == \A i, j \in DOMAIN e.t : e.t[i][1] = e.t[j][1] => i = j
IneqAgrees(q, f, op, g) == \A a \in Assigns : Holds(q, a) <=> Direct(f[a], op, g[a])

(***************************************************************************)
(* State machine                                                           *)
(***************************************************************************)
Cur == St(e1, sem1, e2, sem2)
Set(R) == /\ e1' = R.e1 /\ sem1' = R.s1 /\ e2' = R.e2 /\ sem2' = R.s2

Init == /\ pc = "build" /\ second = FALSE
        /\ e1 = Empty /\ e2 = Empty /\ sem1 = Zero /\ sem2 = Zero /\ ineq = NoIneq

Building == pc = "build"
Keep == UNCHANGED <<pc, second, ineq>>

\* After Push only unit steps are offered (AddLit, SubLit, AddConst +-1): they reach every normal form
\* of the second box, which is all that phase is for (ranging over ordered PAIRS of expressions);
\* the full alphabets have already been applied to every normal form of the first box.
First == Building /\ ~second
AddLit   == Building /\ Keep /\ \E v \in Vars, s \in {0, 1} : Set(Do(Cur, "add_lit", v, s, 1, ""))
SubLit   == Building /\ Keep /\ \E v \in Vars, s \in {0, 1} : Set(Do(Cur, "sub_lit", v, s, 1, ""))
AddTerm  == First /\ Keep /\ \E v \in Vars, s \in {0, 1}, k \in Coefs : Set(Do(Cur, "add_term", v, s, k, ""))
SubTerm  == First /\ Keep /\ \E v \in Vars, s \in {0, 1}, k \in Coefs : Set(Do(Cur, "sub_term", v, s, k, ""))
AddConst == Building /\ Keep /\ \E k \in (IF second THEN {-1, 1} ELSE Consts) : Set(Do(Cur, "add_const", "", 1, k, ""))
SubConst == First /\ Keep /\ \E k \in Consts : Set(Do(Cur, "sub_const", "", 1, k, ""))
Mul      == First /\ Keep /\ \E m \in Muls : Set(Do(Cur, "mul", "", 1, m, ""))

BoxOf(e, cm, km) == e.c >= -cm /\ e.c <= cm /\ \A i \in DOMAIN e.t : e.t[i][3] <= km
Push == /\ Building /\ ~second /\ BoxOf(e1, CMax2, KMax2)
        /\ Set(Do(Cur, "push", "", 1, 0, "")) /\ second' = TRUE /\ UNCHANGED <<pc, ineq>>
AddExpr == /\ Building /\ second /\ Set(Do(Cur, "add_expr", "", 1, 0, ""))
           /\ pc' = "combined" /\ UNCHANGED <<second, ineq>>
SubExpr == /\ Building /\ second /\ Set(Do(Cur, "sub_expr", "", 1, 0, ""))
           /\ pc' = "combined" /\ UNCHANGED <<second, ineq>>
Compare == /\ Building /\ second /\ \E op \in CmpOps : ineq' = OutIneq(Cur, op)
           /\ pc' = "compared" /\ UNCHANGED <<second, e1, e2, sem1, sem2>>

\* behaviour generation: one line per reachable state; the driver realises the state on the real
\* classes and applies every listed operation to it (a "fan" of one-step conformance tests)
Arg(o, v, s, k, c) == [op |-> o, v |-> v, s |-> s, k |-> k, cmp |-> c]
SingleOps ==
  { Arg(o, v, s, 1, "") : o \in {"add_lit", "sub_lit"}, v \in Vars, s \in {0, 1} }
  \cup { Arg(o, v, s, k, "") : o \in {"add_term", "sub_term"}, v \in Vars, s \in {0, 1}, k \in Coefs }
  \cup { Arg(o, "", 1, k, "") : o \in {"add_const", "sub_const"}, k \in Consts }
  \cup { Arg("mul", "", 1, m, "") : m \in Muls }
PairOps == { Arg(o, "", 1, 0, "") : o \in {"add_expr", "sub_expr"} } \cup { Arg("cmp", "", 1, 0, c) : c \in CmpOps }
Emit == /\ EMIT /\ Building
        /\ PrintT(ToJson([e1 |-> e1, e2 |-> e2, second |-> IF second THEN 1 ELSE 0]))
        /\ pc' = "emitted" /\ UNCHANGED <<second, e1, e2, sem1, sem2, ineq>>
\* the operation alphabets, printed once (from the initial state) for the driver
EmitOps == /\ EMIT /\ Building /\ ~second /\ e1 = Empty
           /\ PrintT(ToJson([single |-> SingleOps, pair |-> PairOps]))
           /\ pc' = "emitted_ops" /\ UNCHANGED <<second, e1, e2, sem1, sem2, ineq>>

Next == AddLit \/ SubLit \/ AddTerm \/ SubTerm \/ AddConst \/ SubConst \/ Mul
        \/ Push \/ AddExpr \/ SubExpr \/ Compare \/ Emit \/ EmitOps
Spec == Init /\ [][Next]_vars

\* the box: states outside are checked but not extended
InBox == IF second THEN BoxOf(e1, CMax2, KMax2) /\ BoxOf(e2, CMax2, KMax2)
                   ELSE BoxOf(e1, CMax, KMax)

(***************************************************************************)
(* Invariants = the clauses of C16                                         *)
(***************************************************************************)
SemOK == SemAgrees(e1, sem1) /\ SemAgrees(e2, sem2)
CoefPositive == CoefsPositive(e1) /\ CoefsPositive(e2) /\ CoefsPositive(ineq.lhs)
OnePerVar == VarsOnce(e1) /\ VarsOnce(e2) /\ VarsOnce(ineq.lhs)
IneqOK == pc = "compared" => \E op \in CmpOps : ineq = OutIneq(Cur, op) /\ IneqAgrees(ineq, sem1, op, sem2)
\* every comparison operator, not just one, yields an exact inequality in every two-register state
IneqAllOps == (second /\ Building) => \A op \in CmpOps : IneqAgrees(OutIneq(Cur, op), sem1, op, sem2)
IneqShape == ineq.lhs.c = 0 /\ ineq.op \in {">=", ">", "="}
\* lemma behind "the normal form is unique": equal truth tables => same constant, same set of terms
NormalFormUnique == (sem1 = sem2) => (e1.c = e2.c /\ {e1.t[i] : i \in DOMAIN e1.t} = {e2.t[i] : i \in DOMAIN e2.t})
=============================================================================
