\* C04: model checking of the round trip on every document of the universe
SPECIFICATION Spec
CONSTANTS
  UNIVERSE = "thorough"
  EMIT = FALSE
  DEFECTS = FALSE
INVARIANT InvLanguage
INVARIANT InvBuildWellFormed
INVARIANT InvReadIffWellFormed
INVARIANT InvWriteWellFormed
INVARIANT InvRoundTrip
INVARIANT InvRepeatable
INVARIANT InvReadKeeps
INVARIANT InvStog
CHECK_DEADLOCK FALSE
