\* C04: model checking of the round trip on every document of the universe
\* measured: thorough universe: 42 580 documents (wide: <= 2 modules from 58 variants, <= 1 net of 6; deep: 3 modules with <= 2 nets, 4 modules with <= 1 net of arity 2..4); 212 902 states; largest intermediate value < 2^31 by CMAX = 64, RES = 128 (see Fpef.tla, Derive)
SPECIFICATION Spec
CONSTANTS
  UNIVERSE = "thorough"
  EMIT = FALSE
  DEFECTS = FALSE
INVARIANT InvLanguage
INVARIANT InvBuildWellFormed
INVARIANT InvReadIffWellFormed
INVARIANT InvWriteWellFormed
INVARIANT InvRoundTrip
INVARIANT InvRepeatable
INVARIANT InvReadKeeps
INVARIANT InvStog
CHECK_DEADLOCK FALSE
