\* C05: model checking of the derived quantities and of every defect injection on every document of the universe
\* measured: quick universe: 2 379 documents and every injection of each (about 45 per document); 109 263 states; largest intermediate value < 2^31 by CMAX = 64, RES = 128 (see Fpef.tla, Derive)
SPECIFICATION Spec
CONSTANTS
  UNIVERSE = "quick"
  EMIT = FALSE
  DEFECTS = TRUE
INVARIANT InvLanguage
INVARIANT InvPointTerminals
INVARIANT InvBuildWellFormed
INVARIANT InvReadIffWellFormed
INVARIANT InvReadKeeps
INVARIANT InvDerived
INVARIANT InvCentroid
INVARIANT InvWireLength
INVARIANT InvDefectRejected
INVARIANT InvStog
CHECK_DEADLOCK FALSE
