----------------------------- MODULE ForceTrace -----------------------------
(***************************************************************************)
(* C13, code -> spec: batch validation of observed executions of           *)
(* fruchterman_reingold_layout / force_algorithm.                          *)
(*                                                                         *)
(* Two kinds of trace (field `kind`):                                      *)
(*  "run"  one layout call.  `snaps` holds the centres seen by the         *)
(*         harness-side stub of get_floorplan_plot on the `visualize`      *)
(*         path: before the first iteration and after every iteration      *)
(*         (empty if that name no longer exists).  Every snapshot is       *)
(*         consumed by the spec's own action IterateTo; a step that is not *)
(*         allowed by the contract (StepOK) is MODEL DRIFT -- the property *)
(*         statement speaks about the returned netlist only.  The final    *)
(*         Done step judges the returned netlist with Force!JudgeRun       *)
(*         (property clauses; total verdict).                              *)
(*  "sel"  one force_algorithm call seen through a wrapper of the layout   *)
(*         function: judged by Force!JudgeSel, conformance by SelDrift.    *)
(*                                                                         *)
(* Coordinates arrive in units of 1e-9 * max(W, H) ("fine"); the step      *)
(* contract is evaluated in units of 1e-4 * max(W, H) ("coarse", so that   *)
(* squared distances fit in 32 bits) with 2 coarse units of allowance.     *)
(***************************************************************************)
EXTENDS Force, IOUtils

Batch == JsonDeserialize(IOEnv.TRACE_FILE)

VARIABLES tid, l, fails, drift
tvars == <<vars, tid, l, fails, drift>>

T == Batch[tid]
IsRun == T.kind = "run"
Coarse(p) == <<p[1] \div 100000, p[2] \div 100000>>
CoarseAll(ps) == [ j \in DOMAIN ps |-> Coarse(ps[j]) ]
NSnaps == IF IsRun THEN Len(T.snaps) ELSE 0
SLK == 2

TraceInit ==
  /\ tid \in 1..Len(Batch) /\ l = 1 /\ fails = {} /\ drift = {}
  /\ costs = <<>> /\ bestc = INF /\ bestk = 0 /\ sig0 = "S" /\ sig = "S" /\ it = 0
  /\ IF Batch[tid].kind = "run"
     THEN LET o == Batch[tid] IN
          /\ pc = "run" /\ W = o.W \div 100000 /\ H = o.H \div 100000 /\ n = o.n
          /\ kind = [ j \in DOMAIN o.fx |-> IF o.fx[j] = 1 THEN "fixed" ELSE "soft" ]
          /\ pos0 = CoarseAll(o.p0) /\ pos = CoarseAll(o.p0)
     ELSE pc = "scan" /\ W = 0 /\ H = 0 /\ n = 0 /\ kind = <<>> /\ pos0 = <<>> /\ pos = <<>>

\* snapshot 1 is taken before the first iteration, snapshot i + 1 after iteration i
Step ==
  /\ l <= NSnaps
  /\ LET q == T.snaps[l]  cq == CoarseAll(q) IN
       IF l = 1
       THEN /\ drift' = IF \A j \in DOMAIN q : Abs(q[j][1] - T.p0[j][1]) <= TOLFIX /\ Abs(q[j][2] - T.p0[j][2]) <= TOLFIX
                         THEN drift ELSE drift \cup {<<l, "initial_snapshot">>}
            /\ UNCHANGED vars
       ELSE IF it < n
       THEN /\ IterateTo(cq)
            /\ drift' = drift
                 \cup (IF \A j \in DOMAIN cq : StepOK(kind[j], pos[j], cq[j], W, H, n, it, SLK) \/ IsFixed(kind[j])
                       THEN {} ELSE {<<l, "step_exceeds_temperature_or_leaves_die">>})
                 \cup (IF \A j \in DOMAIN q : T.fx[j] = 1 =>
                             Abs(q[j][1] - T.p0[j][1]) <= TOLFIX /\ Abs(q[j][2] - T.p0[j][2]) <= TOLFIX
                       THEN {} ELSE {<<l, "fixed_moved_during_iteration">>})
       ELSE /\ drift' = drift \cup {<<l, "more_snapshots_than_iterations">>}
            /\ UNCHANGED vars
  /\ fails' = fails /\ l' = l + 1 /\ UNCHANGED tid

Done ==
  /\ l = NSnaps + 1
  /\ l' = l + 1
  /\ LET f == IF IsRun THEN Failing(JudgeRun(T)) ELSE Failing(JudgeSel(T))
         d == IF IsRun
              THEN (IF NSnaps > 0 /\ it # n THEN {"fewer_snapshots_than_iterations"} ELSE {})
              ELSE SelDrift(T)
     IN PrintT(ToJson([tag |-> "VERDICT", id |-> T.id,
                       fails |-> fails \cup { <<l, c>> : c \in f },
                       drift |-> drift \cup { <<l, c>> : c \in d }]))
  /\ UNCHANGED <<vars, tid, fails, drift>>

TraceNext == Step \/ Done
TraceSpec == TraceInit /\ [][TraceNext]_tvars
=============================================================================
