SPECIFICATION TraceSpec
CONSTANTS
  Vars = {"a", "b", "c", "d", "e"}
  CoefNeg = 0
  CoefPos = 0
  ConstMax = 0
  MulNeg = 0
  MulPos = 0
  CMax = 0
  KMax = 0
  CMax2 = 0
  KMax2 = 0
  EMIT = FALSE
CHECK_DEADLOCK FALSE
