\* behaviour generation
SPECIFICATION CSpec
CONSTANTS
  CN = 4
  CWINDOWS <- CQuickWindows
  SIZES <- QuickSizes
  DEEP = FALSE
  CEMIT = TRUE
CHECK_DEADLOCK FALSE
