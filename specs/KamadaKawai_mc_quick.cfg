SPECIFICATION Spec
CONSTANTS
  NMAX = 4
  MAXNETS = 2
  NM = 2
  DW = 10
  DH = 10
  PTC = {0, 505, 1005, 304}
  KINDS = {"soft", "hard", "term", "fixed", "fterm"}
  EMIT = FALSE
INVARIANT TypeOK
INVARIANT GraphSymmetric
INVARIANT GraphEdges
INVARIANT DistIsShortestPath
INVARIANT DistSymmetric
INVARIANT DistZeroDiagonal
INVARIANT DistFiniteIffConnected
INVARIANT DistTriangle
INVARIANT LemmaCodedDiagonal
INVARIANT FixedUnmoved
INVARIANT CentresInDie
INVARIANT OnlyCentresChange
INVARIANT DeclaredBounds
CHECK_DEADLOCK FALSE
