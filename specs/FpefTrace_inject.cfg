SPECIFICATION InjectSpec
CONSTANTS
  UNIVERSE = "quick"
  EMIT = FALSE
  DEFECTS = FALSE
CHECK_DEADLOCK FALSE
