\* prints Inject(doc) for every document of the batch (TRACE_FILE in the environment); UNIVERSE is unused here
SPECIFICATION InjectSpec
CONSTANTS
  UNIVERSE = "quick"
  EMIT = FALSE
  DEFECTS = FALSE
CHECK_DEADLOCK FALSE
