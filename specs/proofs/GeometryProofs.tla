-------------------------- MODULE GeometryProofs --------------------------
(***************************************************************************)
(* Unbounded complements (TLAPS) of lemmas that TLC checks on bounded      *)
(* lattices in GeometryOps.tla: cutting a rectangle at an interior         *)
(* coordinate yields two proper rectangles inside it whose areas add up,   *)
(* and whose overlap is empty.  Self-contained copy of the definitions of  *)
(* Geometry.tla that are involved (no CommunityModules, which tlapm does   *)
(* not need to load).                                                      *)
(***************************************************************************)
EXTENDS Integers, TLAPS

Rect(x1, y1, x2, y2) == [x1 |-> x1, y1 |-> y1, x2 |-> x2, y2 |-> y2]
IsRectRec(r) == r = Rect(r.x1, r.y1, r.x2, r.y2) /\ r.x1 \in Int /\ r.y1 \in Int /\ r.x2 \in Int /\ r.y2 \in Int
IsRect(r) == r.x1 < r.x2 /\ r.y1 < r.y2
W(r) == r.x2 - r.x1
H(r) == r.y2 - r.y1
Area(r) == W(r) * H(r)
Inside(a, b) == a.x1 >= b.x1 /\ a.y1 >= b.y1 /\ a.x2 <= b.x2 /\ a.y2 <= b.y2
Mx(a, b) == IF a >= b THEN a ELSE b
Mn(a, b) == IF a <= b THEN a ELSE b
OvW(a, b) == Mn(a.x2, b.x2) - Mx(a.x1, b.x1)
StrictlyInX(r, c) == r.x1 < c /\ c < r.x2
Left(r, c) == Rect(r.x1, r.y1, c, r.y2)
Right(r, c) == Rect(c, r.y1, r.x2, r.y2)

THEOREM CutXPieces ==
  ASSUME NEW r, IsRectRec(r), IsRect(r), NEW c \in Int, StrictlyInX(r, c)
  PROVE  /\ IsRect(Left(r, c)) /\ IsRect(Right(r, c))
         /\ Inside(Left(r, c), r) /\ Inside(Right(r, c), r)
         /\ OvW(Left(r, c), Right(r, c)) = 0
  BY DEF IsRectRec, IsRect, StrictlyInX, Left, Right, Rect, Inside, OvW, Mx, Mn

THEOREM CutXArea ==
  ASSUME NEW r, IsRectRec(r), IsRect(r), NEW c \in Int, StrictlyInX(r, c)
  PROVE  Area(Left(r, c)) + Area(Right(r, c)) = Area(r)
  <1> DEFINE a == c - r.x1  b == r.x2 - c  h == r.y2 - r.y1
  <1>1. a \in Int /\ b \in Int /\ h \in Int  BY DEF IsRectRec
  <1>2. Area(Left(r, c)) = a * h /\ Area(Right(r, c)) = b * h /\ Area(r) = (a + b) * h
        BY DEF IsRectRec, Area, W, H, Left, Right, Rect
  <1>3. a * h + b * h = (a + b) * h  BY <1>1
  <1> QED BY <1>2, <1>3

StrictlyInY(r, c) == r.y1 < c /\ c < r.y2
OvH(a, b) == Mn(a.y2, b.y2) - Mx(a.y1, b.y1)
Lower(r, c) == Rect(r.x1, r.y1, r.x2, c)
Upper(r, c) == Rect(r.x1, c, r.x2, r.y2)

THEOREM CutYPieces ==
  ASSUME NEW r, IsRectRec(r), IsRect(r), NEW c \in Int, StrictlyInY(r, c)
  PROVE  /\ IsRect(Lower(r, c)) /\ IsRect(Upper(r, c))
         /\ Inside(Lower(r, c), r) /\ Inside(Upper(r, c), r)
         /\ OvH(Lower(r, c), Upper(r, c)) = 0
  BY DEF IsRectRec, IsRect, StrictlyInY, Lower, Upper, Rect, Inside, OvH, Mx, Mn

THEOREM CutYArea ==
  ASSUME NEW r, IsRectRec(r), IsRect(r), NEW c \in Int, StrictlyInY(r, c)
  PROVE  Area(Lower(r, c)) + Area(Upper(r, c)) = Area(r)
  <1> DEFINE a == c - r.y1  b == r.y2 - c  w == r.x2 - r.x1
  <1>1. a \in Int /\ b \in Int /\ w \in Int  BY DEF IsRectRec
  <1>2. Area(Lower(r, c)) = w * a /\ Area(Upper(r, c)) = w * b /\ Area(r) = w * (a + b)
        BY DEF IsRectRec, Area, W, H, Lower, Upper, Rect
  <1>3. w * a + w * b = w * (a + b)  BY <1>1
  <1> QED BY <1>2, <1>3

\* halving at the (integral) middle gives two pieces of equal area: the step refine / split_rectangles repeat
THEOREM HalveXEqual ==
  ASSUME NEW r, IsRectRec(r), IsRect(r), NEW c \in Int, 2 * c = r.x1 + r.x2
  PROVE  StrictlyInX(r, c) /\ Area(Left(r, c)) = Area(Right(r, c))
  <1>1. c - r.x1 = r.x2 - c  BY DEF IsRectRec
  <1>2. StrictlyInX(r, c)  BY DEF IsRectRec, IsRect, StrictlyInX
  <1>3. Area(Left(r, c)) = (c - r.x1) * (r.y2 - r.y1) /\ Area(Right(r, c)) = (r.x2 - c) * (r.y2 - r.y1)
        BY DEF IsRectRec, Area, W, H, Left, Right, Rect
  <1> QED BY <1>1, <1>2, <1>3
=============================================================================
