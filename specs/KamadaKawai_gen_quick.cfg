SPECIFICATION Spec
CONSTANTS
  NMAX = 4
  MAXNETS = 2
  NM = 3
  DW = 10
  DH = 10
  PTC = {0, 505, 1005, 304, 510}
  KINDS = {"soft", "hard", "term", "fixed", "fterm"}
  EMIT = TRUE

CHECK_DEADLOCK FALSE
