SPECIFICATION Spec
CONSTANTS
  NX = 4
  NY = 4
  MAXR = 2
  HISTLEN = 2
  EMIT = TRUE

CHECK_DEADLOCK FALSE
