SPECIFICATION Spec
CONSTANTS
  U = 2
  KU = 16
  MAXC = 2
  RV <- RV6
  OWNER <- Owner
  DEN = 4
  DEPTHS = {0, 1}
  THR <- ThrAll
  LEVELS = {1, 2}
  MAXOPS = 2
  EMIT = TRUE
CHECK_DEADLOCK FALSE
