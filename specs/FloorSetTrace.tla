--------------------------- MODULE FloorSetTrace ---------------------------
(***************************************************************************)
(* FLOORSET, code -> spec: batch validation of observed conversions.       *)
(*                                                                         *)
(* Event kind "convert": one FloorSetInstance(data, density,               *)
(* terminals_as_modules) built from the numpy dictionary the harness made  *)
(* of an abstract instance, its FPEF written twice and read by Netlist,    *)
(* its DIEF written twice and read by Die:                                 *)
(*   inst    the abstract instance (module FloorSet; tam as 0 / 1)         *)
(*   eps     1e-3 in 1/1000 lattice units under the embedding used         *)
(*   unit    the embedding step <<n, d>> (length of one lattice unit)      *)
(*   ret     1 the constructor returned, 0 it raised (exc = its class)     *)
(*   shape   FloorSetInstance.shape, <<w, h>>;  densp  density_percentage  *)
(*           (-1 = None), both in 1/1000                                   *)
(*   fpef, net   1 / 0 Netlist accepted the FPEF; the netlist it built     *)
(*   dief, dieo  1 / 0 Die accepted the DIEF; the die it built             *)
(*   r1, r2, d1, d2   tokens of the two FPEF / DIEF documents              *)
(* The event is consumed by the specification's own ConvertStep on the     *)
(* instance (design', die' = the expectation) and judged clause by clause. *)
(*                                                                         *)
(* Event kind "collate": floorplan_collate on a batch of instances given   *)
(* as integer tensors: `items` (per instance, per tensor, rows) and `out`  *)
(* (per tensor, per instance, rows): every tensor is padded with -1 to the *)
(* largest of the batch, the data staying in place (polygons: to 14 rows). *)
(* Verdicts are total.                                                     *)
(***************************************************************************)
EXTENDS FloorSet, IOUtils

Batch == JsonDeserialize(IOEnv.TRACE_FILE)

VARIABLES tid, l, fails, drift
tvars == <<vars, tid, l, fails, drift>>

T == Batch[tid]

TraceInit == /\ tid \in 1..Len(Batch) /\ l = 1 /\ fails = {} /\ drift = {}
             /\ pc = "configured" /\ mode = "blocks" /\ inst = Empty /\ design = <<>> /\ die = <<>>

InstOf(e) == [blocks |-> e.inst.blocks, form |-> e.inst.form, pins |-> e.inst.pins, b2b |-> e.inst.b2b, p2b |-> e.inst.p2b,
              dens |-> e.inst.dens, tam |-> (e.inst.tam = 1), unit |-> e.unit]
Block1(d, i) == d.mods[i]

\* clauses of one conversion; d, dd = the expectation (design', die' after ConvertStep)
ConvertClauses(e, d, dd) ==
  LET ins == InstOf(e)
      nb == Len(ins.blocks)
      got == e.ret = 1
      net == got /\ e.fpef = 1
  IN [ \* the documented inputs are converted: README (either vertex form, pins, connections, density in [0, 1]),
       \* constructor docstring (terminals_as_modules)
       constructs    |-> got,
       \* usage (floorset_handler): the FPEF is read by Netlist, the DIEF by Die
       fpef_accepted |-> got => e.fpef = 1,
       dief_accepted |-> got => e.dief = 1,
       \* README: the identifier of a block derives from its position; one module per block and per pin
       module_set    |-> net => /\ Len(e.net.mods) = Len(d.mods)
                                /\ \A i \in DOMAIN d.mods : Cardinality(ByName(e.net, d.mods[i].name)) = 1,
       \* README / manager.py table: kinds, areas; the rectangles cover the polygon
       blocks        |-> net => \A i \in 1..nb : \A j \in ByName(e.net, d.mods[i].name) : BlockMatches(d.mods[i], e.net.mods[j]),
       \* pins: terminals at their positions, or (docstring) modules with a 1e-3 rectangle
       terminals     |-> net => \A i \in (nb + 1)..Len(d.mods) : \A j \in ByName(e.net, d.mods[i].name) :
                                   PinMatches(d.mods[i], e.net.mods[j], ins.tam, e.eps, dd.w, dd.h),
       \* README: one edge per connection row ...
       nets          |-> net => NetMembersMatch(d, e.net),
       \* ... with its weight, scaled by alpha = d * P_k / W_k when a density is given
       weights       |-> (net /\ NetMembersMatch(d, e.net)) => NetsMatchAsBag(d, e.net),
       \* manager.py "# For the die of the current floorplan": the DIEF and .shape are the extent of the floorplan
       die           |-> (got /\ e.dief = 1) => /\ Near(e.dieo.w, dd.w * K, 1) /\ Near(e.dieo.h, dd.h * K, 1) /\ e.dieo.regs = <<>>,
       properties    |-> got => /\ Near(e.shape[1], dd.w * K, 1) /\ Near(e.shape[2], dd.h * K, 1)
                                /\ e.densp = IF ins.dens = <<>> THEN -1 ELSE (ins.dens[1] * K) \div ins.dens[2],
       \* C19's clause, kept here for the converter's own writers
       repeat        |-> got => e.r1 = e.r2 /\ e.d1 = e.d2 ]
ConvertNames == {"constructs", "fpef_accepted", "dief_accepted", "module_set", "blocks", "terminals", "nets", "weights", "die", "properties", "repeat"}
ConvertDrift(e, d) ==
  IF e.ret = 1 /\ e.fpef = 1 /\ Len(e.net.nets) = Len(d.nets) /\ Len(e.net.mods) = Len(d.mods)
  THEN (IF NetsMatch(d, e.net) THEN {} ELSE {"net_order"})
       \cup (IF [i \in DOMAIN d.mods |-> d.mods[i].name] = [i \in DOMAIN e.net.mods |-> e.net.mods[i].name] THEN {} ELSE {"module_order"})
  ELSE {}

\* collate: tensor t of item i, padded to `rows` rows and `cols` columns with -1, data first
PadOK(item, out, rows) ==
  /\ Len(out) = rows
  /\ \A r \in 1..rows : IF r <= Len(item) THEN /\ Len(out[r]) >= Len(item[r])
                                               /\ \A c \in DOMAIN out[r] : out[r][c] = IF c <= Len(item[r]) THEN item[r][c] ELSE -1
                        ELSE \A c \in DOMAIN out[r] : out[r][c] = -1
CollateClauses(e) ==
  [ collate_pads |-> \A t \in DOMAIN e.out : \A i \in DOMAIN e.items :
                        PadOK(e.items[i][t], e.out[t][i], Max({ Len(e.items[j][t]) : j \in DOMAIN e.items })),
    collate_polygons |-> \A i \in DOMAIN e.items :
                        LET maxp == Max({ Len(e.polys[j]) : j \in DOMAIN e.polys }) IN
                        /\ Len(e.pout[i]) = maxp
                        /\ \A b \in 1..maxp : IF b <= Len(e.polys[i]) THEN PadOK(e.polys[i][b], e.pout[i][b], 14)
                                              ELSE PadOK(<<>>, e.pout[i][b], 14) ]

Step == /\ l <= Len(T.events)
        /\ LET e == T.events[l] IN
             IF e.kind = "convert"
             THEN /\ inst' = InstOf(e) /\ design' = Convert(InstOf(e)) /\ die' = ConvertDie(InstOf(e))
                  /\ LET cl == ConvertClauses(e, design', die') IN
                       fails' = fails \cup { <<l, c>> : c \in { c \in ConvertNames : ~cl[c] } }
                  /\ drift' = drift \cup { <<l, x>> : x \in ConvertDrift(e, design') }
             ELSE /\ UNCHANGED <<inst, design, die>>
                  /\ LET cl == CollateClauses(e) IN
                       fails' = fails \cup { <<l, c>> : c \in { c \in {"collate_pads", "collate_polygons"} : ~cl[c] } }
                  /\ drift' = drift
        /\ pc' = "converted" /\ l' = l + 1 /\ UNCHANGED <<tid, mode>>

Done == /\ l = Len(T.events) + 1
        /\ l' = l + 1
        /\ PrintT(ToJson([tag |-> "VERDICT", id |-> T.id, fails |-> fails, drift |-> drift]))
        /\ UNCHANGED <<vars, tid, fails, drift>>

TraceNext == Step \/ Done
TraceSpec == TraceInit /\ [][TraceNext]_tvars
=============================================================================
