SPECIFICATION Spec
CONSTANTS
  UNIVERSE = "thorough"
  EMIT = TRUE
CHECK_DEADLOCK FALSE
