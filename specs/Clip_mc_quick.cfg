\* exhaustive: every segment with end points on 0..5 x 0..5 (1296, degenerate ones included) in 3 windows
SPECIFICATION Spec
CONSTANTS
  N = 5
  WINDOWS <- QuickWindows
  DEFECTS = {}
  EMIT = FALSE
INVARIANT TypeOK
INVARIANT MachineIsFunction
INVARIANT ClipIsIntersection
INVARIANT RejectedIffMisses
INVARIANT OrderIndependent
INVARIANT Within4
INVARIANT StaysOnLine
CHECK_DEADLOCK FALSE
