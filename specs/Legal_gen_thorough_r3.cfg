\* Universe R (thorough): ratio limit 3 on a 10x10 die: ONE module, trunks 4x4 4x2 2x4 3x3 6x3 3x5 at (2,2), at most one branch (1x1 2x1 1x2 2x2 3x2), all kinds, slack 0 and 2; WILD.
SPECIFICATION Spec
CONSTANTS
  DW = 10
  DH = 10
  RP = 3
  RQ = 1
  TXS = {2}
  TYS = {2}
  TrunkSizes <- TrunkSizesB
  BranchSizes <- BranchSizesB
  BranchOffs = {0, 99}
  Kinds = {"soft", "hard", "fixed"}
  Slacks = {0, 2}
  MaxMods = 1
  MaxBr = 1
  MaxRects = 2
  Deltas <- DeltasA
  Slides <- SlidesA
  EdgeDs <- EdgeDsA
  CHAIN = FALSE
  WILD = TRUE
  FIXMODEL = "intended"
  ANYRATIO = FALSE
  BASEMOD = 2
  EMIT = TRUE
CHECK_DEADLOCK FALSE
