------------------------------ MODULE DieOps ------------------------------
(***************************************************************************)
(* Value-level operators of the die model, free of constants, shared by    *)
(* the model (Die.tla) and the trace specification (DieTrace.tla).         *)
(* A tagged rectangle is the tuple <<x1,y1,x2,y2,tag>>.                    *)
(***************************************************************************)
EXTENDS Geometry

TRect(t) == RectOf(t)
(***************************************************************************)
(* Validity of a description (a set of DISTINCT tagged rectangles), defined *)
(* independently of the decomposition algorithm: every region inside the   *)
(* die, no two regions overlapping (the same rectangle under two tags      *)
(* overlaps itself).                                                       *)
(***************************************************************************)
ValidIn(d, die) == /\ \A t \in d : Inside(TRect(t), die)
                   /\ \A t \in d : \A u \in d : t # u => ~Overlaps(TRect(t), TRect(u))

(***************************************************************************)
(* C11: split_rectangles(rects, p/q, n) as a value-level operator.         *)
(* Phase 1: halve (longer side) while the aspect ratio exceeds p/q.        *)
(* Phase 2: halve the largest region until n are available; a halved       *)
(* region whose pieces exceed the limit is halved once more (this is what  *)
(* the statement requires: every region ends within the limit).            *)
(***************************************************************************)
TPieces(t, ps) == { <<p.x1, p.y1, p.x2, p.y2, t[5]>> : p \in ps }
RECURSIVE FixAR(_, _, _)
FixAR(t, p, q) == IF ARLeq(TRect(t), p, q) THEN {t}
                  ELSE LET h == Halve(TRect(t)) IN
                       UNION { FixAR(u, p, q) : u \in TPieces(t, {h[1], h[2]}) }
Phase1(S, p, q) == UNION { FixAR(t, p, q) : t \in S }
\* halve t once, then restore the aspect-ratio limit on the pieces
FixAR2(t, p, q) == LET h == Halve(TRect(t)) IN UNION { FixAR(u, p, q) : u \in TPieces(t, {h[1], h[2]}) }
Largest(S) == { t \in S : \A u \in S : Area(TRect(u)) <= Area(TRect(t)) }
RECURSIVE Phase2(_, _, _, _)
Phase2(S, p, q, n) == IF Cardinality(S) >= n THEN {S}
                      ELSE UNION { Phase2((S \ {t}) \cup FixAR2(t, p, q), p, q, n) : t \in Largest(S) }
\* all results the (tie-nondeterministic) algorithm may produce
SplitResults(S, p, q, n) == Phase2(Phase1(S, p, q), p, q, n)

\* post-condition of C11 on (before, after), independent of the algorithm
SplitPost(before, after, p, q, n) ==
  /\ Cardinality(after) >= n
  /\ \A u \in after : IsRect(TRect(u)) /\ ARLeq(TRect(u), p, q)
  /\ \A u \in after : Cardinality({ t \in before : Inside(TRect(u), TRect(t)) /\ t[5] = u[5] }) >= 1
  /\ \A t \in before : Tiles({ TRect(u) : u \in { v \in after : Inside(TRect(v), TRect(t)) /\ v[5] = t[5] } }, TRect(t))
  /\ PairwiseDisjoint({ TRect(u) : u \in after })
  /\ Cardinality({ TRect(u) : u \in after }) = Cardinality(after)
GridPost(die, after, nr, nc) ==
  /\ Cardinality(after) = nr * nc
  /\ \A u \in after : u[5] = "_"
  /\ { TRect(u) : u \in after } = GridSet(die, nr, nc)

=============================================================================
