\* Universe H (quick): one + application (a constant that lives in GEKKO model 2 included), then every history of 3 operations among assign / undo / undo on the term / set_gekko towards a new model or towards model 2; both variables with distinct or equal requested names.
SPECIFICATION Spec
CONSTANTS
  Consts <- ConstsH
  Scals <- ScalsH
  Vals <- ValsH
  Inits <- InitsA
  BinOps <- OneBin
  WithSqrt = FALSE
  WithRaw = FALSE
  SameNames = {0, 1}
  MaxBuild = 1
  MaxOps = 3
  OpKinds = {"assign", "undo", "undot", "rehome"}
  RehomeTargets = {0, 2}
  EqCmps = {}
  EqEps <- EpsA
  STACKUNDO = FALSE
  EMIT = FALSE
INVARIANT InvShape
INVARIANT InvVarList
INVARIANT InvUndo
INVARIANT InvUndoTerm
INVARIANT InvRehome
INVARIANT InvCheckpoint
INVARIANT InvEquation
CHECK_DEADLOCK FALSE
