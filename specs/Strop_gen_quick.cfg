SPECIFICATION Spec
CONSTANTS
  MAXROWS = 4
  MAXCOLS = 4
  MAXCELLS = 12
  DECLCELLS = 12
  EMIT = TRUE

CHECK_DEADLOCK FALSE
