SPECIFICATION FSpec
CONSTANTS
  TYPES = {}
  SIZES = {}
  GRIDS = {}
  HLEVELS = {}
  EDITS = {}
  GCELLS = {}
  DIESEL = {404, 603, 305}
  POSSEL = {0, 2424}
  TOL = 0
  COMTOL = 0
  NOISE = 1
  VISFOR = {"two", "mixed", "allfixed"}
  DESIGNS = {"mixed", "allfixed", "one", "nonets", "pinnets", "two", "coincident", "border", "hardmov", "movpin", "nocentre"}
  EMIT = TRUE
CHECK_DEADLOCK FALSE
