\* behaviour generation (thorough)
SPECIFICATION Spec
CONSTANTS
  Dies <- DiesT
  Widths = {0, 7, 100, 333}
  Heights = {0, 5, 64}
  Frames = {0, 1, 20}
  Default = 1000
  ModuleCat <- CatQ
  MaxMods = 3
  MaxNets = 2
  Scenes <- ScenesAll
  NameAlphabet = {"a", ".", "/"}
  MaxName = 6
  EMIT = TRUE
CHECK_DEADLOCK FALSE
