\* NETAPI: every action sequence of length <= 4 on the three netlists of NetApi!Docs, coherent cache discipline
\* (contract, coherence, purity and typing; the view / write-read / wire-length invariants are checked to length 3 by
\* NetApi_mc_quick.cfg, which the thorough tier runs as well)
SPECIFICATION Spec
CONSTANTS
  MAXLEN = 4
  EMIT = FALSE
  ASIS = FALSE
INVARIANT InvDocumented
INVARIANT InvCacheCoherent
INVARIANT InvPure
INVARIANT InvTypes
CHECK_DEADLOCK FALSE
