--------------------------- MODULE ForceToolTrace ---------------------------
(***************************************************************************)
(* FORCETOOL, code -> spec: batch validation of real executions.           *)
(*                                                                         *)
(* kind "flow": one call of tools.force.force.main(prog, args) on files,   *)
(* seen through harness-side wrappers of the module-level names it         *)
(* resolves at call time (add_noise, kamada_kawai_layout, force_algorithm  *)
(* in tools.force.force; Model, solve_and_extract_solution in              *)
(* tools.force.kamada_kawai).  Events, in order:                           *)
(*   args    status "ok" | "usage" (SystemExit 2 + usage text) | "raised"  *)
(*   load    the netlist as loaded (Netlist + Die built)                   *)
(*   noise   the netlist after add_noise                                   *)
(*   model   the rows of the GEKKO model Kamada-Kawai built                *)
(*   solved  the rows after the solve ("nosolution" if GEKKO gave up)      *)
(*   kk      the netlist after extract_solution                            *)
(*   fr      the netlist after force_algorithm                             *)
(*   end     how main ended, the files found in the working directory,     *)
(*           the output file read back with the next stage's reader, the   *)
(*           input file read again, repeatability                          *)
(* Every event is consumed by the ForceTool action of its step (AcceptArgs,*)
(* Reject, LoadTo, StepTo, BuildModelTo, SolveTo, RelocTo, WriteTo, Fail)  *)
(* with the observed documents as the new state and judged by the step's   *)
(* contract.  Verdicts are total.                                          *)
(* kind "gk": gekko_common called directly: Model(die), extract_solution   *)
(* on the model that was NOT solved, get_value on a family of arguments.   *)
(* Lengths in 1e-6 of the larger die side; TOL = 2; NOISE = 25000 (add_    *)
(* noise draws from a gaussian of sd 0.01 die units: 6 sd on a die side    *)
(* >= 3 is 2 %).                                                           *)
(***************************************************************************)
EXTENDS ForceTool, IOUtils

Batch == JsonDeserialize(IOEnv.TRACE_FILE)

VARIABLES tid, l, fails, drift
tvars == <<fvars, tid, l, fails, drift>>
T == Batch[tid]

TraceInit == /\ tid \in 1..Len(Batch) /\ l = 1 /\ fails = {} /\ drift = {}
             /\ stage = "start" /\ flow = <<"", 0, 0>> /\ edit = "" /\ alloc = NoAlloc /\ base = NoNet /\ net = NoNet
             /\ die = Batch[tid].die
             /\ pc = "args" /\ opts = Batch[tid].opts /\ design = Batch[tid].design
             /\ infile = Batch[tid].infile /\ model = <<>> /\ files = {} /\ outdoc = NoNet
Servable == OptsOK(opts) /\ FilesOK(opts) /\ LoadPre(infile)
Stay == UNCHANGED fvars

\* clauses of one event of a flow
Clauses(e) ==
  CASE e.ev = "args" ->
         [ unservable_invocation_rejected |-> e.status = "ok" => OptsOK(opts),
           servable_invocation_accepted |-> e.status # "ok" => ~OptsOK(opts),
           rejected_with_usage_message |-> e.status # "ok" => (e.status = "usage" /\ e.msg = 1) ]
    [] e.ev = "load" ->
         [ unservable_invocation_rejected |-> e.status = "ok" => (FilesOK(opts) /\ LoadPre(infile)),
           servable_invocation_accepted |-> e.status # "ok" => ~(FilesOK(opts) /\ LoadPre(infile)),
           rejected_with_a_message |-> e.status # "ok" => e.msg = 1 ]
    [] e.ev = "noise" -> IF e.status = "ok" THEN NoisePost(net, e.net) ELSE [ step_completes |-> FALSE ]
    [] e.ev = "model" -> IF e.status = "ok" THEN ModelShape(e.model, net, die) ELSE [ step_completes |-> FALSE ]
    [] e.ev = "solved" ->
         IF e.status = "nosolution" THEN [ ok |-> TRUE ]
         ELSE IF e.status # "ok" THEN [ step_completes |-> FALSE ]
         ELSE [ solved_values_inside_bounds |-> \A i \in DOMAIN e.model : e.model[i][1] = 1 =>
                    /\ e.model[i][2] - TOL <= e.model[i][6] /\ e.model[i][6] <= e.model[i][3] + TOL
                    /\ e.model[i][4] - TOL <= e.model[i][7] /\ e.model[i][7] <= e.model[i][5] + TOL,
                solve_keeps_model_shape |-> Len(e.model) = Len(model) /\ \A i \in DOMAIN e.model \cap DOMAIN model :
                    e.model[i][1] = model[i][1] /\ (model[i][1] = 0 => e.model[i] = model[i]) ]
    [] e.ev = "kk" ->
         IF e.status # "ok" THEN [ step_completes |-> FALSE ]
         ELSE [ extract_writes_the_model_values |-> Len(model) = Len(net.mods) => SameCentres(ExtractOf(model, net), e.net) ]
              @@ RelocPost(net, e.net, die, base)
    [] e.ev = "fr" -> IF e.status = "ok" THEN RelocPost(net, e.net, die, base) ELSE [ step_completes |-> FALSE ]
    [] e.ev = "end" ->
         [ input_file_unchanged |-> e.infile = infile,
           no_other_files_written |-> e.extra = 0,
           repeatable_with_the_same_seed |-> e.same # 0 /\ e.fresh # 0 ]
         @@ (IF pc \in {"gif", "write"} /\ e.status = "ok"
             THEN WritePost(opts, net, e.outdoc, {e.files[i] : i \in DOMAIN e.files}, base, die)
             ELSE [ failed_run_writes_nothing |-> e.files = <<>>,
                    run_ends_normally_iff_every_step_did |-> e.status # "ok" /\ pc \notin {"gif", "write"} ])

Step ==
  /\ l <= Len(T.events)
  /\ LET e == T.events[l] IN
       /\ CASE e.ev = "args" -> IF e.status = "ok" THEN AcceptArgs ELSE Reject
            [] e.ev = "load" -> IF e.status = "ok" THEN LoadTo(e.net) ELSE Reject
            [] e.ev = "noise" -> IF e.status = "ok" THEN StepTo("model", e.net) ELSE Fail
            [] e.ev = "model" -> IF e.status = "ok" THEN BuildModelTo(e.model) ELSE Fail
            [] e.ev = "solved" -> IF e.status = "ok" THEN SolveTo(e.model) ELSE Fail
            [] e.ev = "kk" -> IF e.status = "ok" THEN StepTo("fr", e.net) ELSE Fail
            [] e.ev = "fr" -> IF e.status = "ok" THEN RelocTo(e.net) ELSE Fail
            [] e.ev = "end" -> IF pc \in {"gif", "write"} /\ e.status = "ok"
                               THEN /\ files' = {e.files[i] : i \in DOMAIN e.files} /\ outdoc' = e.outdoc /\ pc' = "done"
                                    /\ UNCHANGED <<opts, design, infile, die, base, net, model>> /\ Frozen
                               ELSE Stay
       /\ fails' = fails \cup { <<l, c>> : c \in Failing(Clauses(e)) }
       /\ drift' = drift
            \cup (IF e.ev = "load" /\ e.status = "ok" /\ e.net # infile THEN {<<l, "loaded_netlist_differs_from_input_document">>} ELSE {})
            \cup (IF e.ev = "end" /\ e.vis_same = 0 THEN {<<l, "visualize_changes_the_result">>} ELSE {})
  /\ l' = l + 1 /\ UNCHANGED tid

\* gekko_common called directly (one verdict, no steps)
GkClauses(g) ==
  ModelShape(g.model, g.net, g.die)
  @@ [ extract_of_unsolved_model_is_identity |-> g.extract_status = 0 /\ SameCentres(g.net, g.extracted) /\ g.net.nets = g.extracted.nets
                                                  /\ SameModules(g.net, g.extracted) /\ SameKinds(g.net, g.extracted) /\ SameAreas(g.net, g.extracted),
       extract_keeps_every_other_attribute |-> g.sig_after = g.sig_before,
       get_value_returns_the_value |-> \A i \in DOMAIN g.getvals : g.getvals[i][3] = 0 /\ Abs(g.getvals[i][4] - g.getvals[i][2]) <= 1 ]

Done == /\ l = (IF T.kind = "flow" THEN Len(T.events) + 1 ELSE 1)
        /\ l' = l + 1000000
        /\ LET f == IF T.kind = "gk" THEN { <<1, c>> : c \in Failing(GkClauses(T)) } ELSE fails
               d == IF T.kind = "gk" /\ T.same_object = 0 THEN {<<1, "extract_solution_returns_another_die_object">>} ELSE drift
           IN PrintT(ToJson([tag |-> "VERDICT", id |-> T.id, fails |-> f, drift |-> d]))
        /\ UNCHANGED <<fvars, tid, fails, drift>>

TraceNext == (T.kind = "flow" /\ Step) \/ Done
TraceSpec == TraceInit /\ [][TraceNext]_tvars
=============================================================================
