SPECIFICATION TraceSpec
CONSTANTS
  TYPES = {}
  SIZES = {}
  GRIDS = {}
  HLEVELS = {}
  EDITS = {}
  GCELLS = {}
  DIESEL = {}
  POSSEL = {}
  TOL = 2
  COMTOL = 30
  NOISE = 25000
  VISFOR = {}
  DESIGNS = {}
  EMIT = FALSE
CHECK_DEADLOCK FALSE
