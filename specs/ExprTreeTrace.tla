--------------------------- MODULE ExprTreeTrace ---------------------------
(***************************************************************************)
(* EXPRTREE, code -> spec: batch validation of what the real               *)
(* tools/legalfloor/expression_tree.py did.                                *)
(*                                                                         *)
(* One trace = one pool of nodes built on the real classes (two GEKKO      *)
(* models, two named variables, optionally a raw GEKKO variable), the      *)
(* probes taken after the construction and after every operation of the    *)
(* history.  A float is reported as <<status, num, den>>: status 1 = a     *)
(* value that is within 1e-9 (relative) of the rational num/den with       *)
(* den <= 10^6, 0 = the call raised, 2 = no such rational, 3 = not probed  *)
(* (an operand could not be built), 4 = skipped by the harness.            *)
(* Each step replays the operation with the specification's `ApplyOp` and  *)
(* judges the clauses of ExprTree.tla: build, eval, gekko, varlist,        *)
(* string (after construction); assign, undo, rehome, eval (after each     *)
(* operation); eq_surplus, eq_slack, eq_met, eq_gekko, eq_apply (for an    *)
(* Equation).  A failed clause is reported as <<l, clause, node, why>>     *)
(* (l = 0: construction); `why` names the feature of the case the harness  *)
(* passes on for known-finding matching.  Once an operation has failed the *)
(* rest of the history is not judged (the objects may be corrupted).       *)
(* Model conformance (drift): the module's undo is checkpoint-based where  *)
(* a stack discipline would give another value.  Verdicts are total.       *)
(***************************************************************************)
EXTENDS ExprTree, IOUtils

Batch == JsonDeserialize(IOEnv.TRACE_FILE)

VARIABLES tid, l, fails, drift, taint
tvars == <<vars, tid, l, fails, drift, taint>>

T == Batch[tid]
ObsVal(o, q) == o[1] = 1 /\ o[2] = q[1] /\ o[3] = q[2]
Built(k) == T.b[k] = 1
\* why a construction / listing can fail (features for the known findings)
WhyBuild(k) == IF ~IsTree(T.pool[T.pool[k].l]) THEN "left_number" ELSE "other"
WhyVars(k) == IF 3 \in VarSet(T.pool, k) THEN "raw_operand"
              ELSE IF T.same = 1 /\ {1, 2} \subseteq VarSet(T.pool, k) THEN "same_name" ELSE "other"
OperandsBuilt(k) == LET nd == T.pool[k] IN Built(nd.l) /\ (nd.r = 0 \/ Built(nd.r))

\* clauses on the probes taken right after the construction
BuildFails ==
  { <<0, "build", k, WhyBuild(k)>> : k \in { kk \in (T.nl + 1)..Len(T.pool) :
                                                  OperandsBuilt(kk) /\ ~Built(kk) /\ Defined(T.pool, T.init, kk) } }
  \cup UNION { LET k == pr.k  dfd == Defined(T.pool, T.init, k) IN
               (IF dfd /\ ~ObsVal(pr.ev, Value(T.pool, T.init, k)) THEN {<<0, "eval", k, "none">>} ELSE {})
               \cup (IF dfd /\ pr.gk[1] # 4 /\ ~ObsVal(pr.gk, Value(T.pool, T.init, k)) THEN {<<0, "gekko", k, "none">>} ELSE {})
               \cup (IF pr.vst # 1 \/ pr.vs # VarSeq(T.pool, k) THEN {<<0, "varlist", k, WhyVars(k)>>} ELSE {})
               \cup (IF pr.str # 1 THEN {<<0, "string", k, "none">>} ELSE {})
               : pr \in { T.p0[j] : j \in DOMAIN T.p0 } }

TraceInit == /\ tid \in 1..Len(Batch) /\ l = 1 /\ drift = {} /\ taint = FALSE
             /\ fails = BuildFails
             /\ pool = Batch[tid].pool /\ ini = Batch[tid].init /\ val = Batch[tid].init /\ chk = Batch[tid].init
             /\ stk = <<<<>>, <<>>>> /\ home = <<1, 1>> /\ ngk = 2 /\ same = Batch[tid].same
             /\ nb = 0 /\ ops = <<>> /\ phase = "trace"

OpClause(o) == CASE o.op = "assign" -> "assign" [] o.op \in {"undo", "undot"} -> "undo"
                 [] o.op = "rehome" -> "rehome" [] o.op = "eq" -> "eq_apply"
\* an earlier operation of the history was an undo that touched variable x
UndoneBefore(x) == \E j \in 1..Len(ops) : \/ (ops[j].op = "undo" /\ ops[j].a = x)
                                           \/ (ops[j].op = "undot" /\ x \in Named(pool, ops[j].a))
WhyOp(o) == CASE o.op = "undo" -> IF home[o.a] = 1 THEN "never_rehomed"
                                  ELSE IF UndoneBefore(o.a) THEN "undone_before" ELSE "other"
              [] o.op = "undot" -> IF \E x \in Named(pool, o.a) : home[x] = 1 THEN "never_rehomed"
                                   ELSE IF \E x \in Named(pool, o.a) : UndoneBefore(x) THEN "undone_before" ELSE "other"
              [] o.op = "rehome" -> IF o.b # 0 /\ GekkoOf(pool, home, o.a) = o.b THEN "own_model" ELSE "other"
              [] OTHER -> "none"

Step == /\ l <= Len(T.ops)
        /\ LET o == T.ops[l]  ob == T.po[l]  s == ApplyOp(pool, Cur, o)
               \* the variables: values and GEKKO models after the operation
               valsOK == ObsVal(ob.v1, s.val[1]) /\ ObsVal(ob.v2, s.val[2])
               homesOK == o.op \notin {"rehome", "eq"} \/ (ob.h1 = s.home[1] /\ ob.h2 = s.home[2])
               \* an operation on a node that could not be built, or an Equation outside the universe, is not judged (nor what follows)
               refsBuilt == (o.op \in {"undot", "rehome"} => Built(o.a)) /\ (o.op = "eq" => Built(o.a) /\ Built(o.b) /\ Defined(pool, val, o.a) /\ Defined(pool, val, o.b))
               opFail == IF refsBuilt /\ (~valsOK \/ ~homesOK) THEN {<<l, OpClause(o), o.a, WhyOp(o)>>} ELSE {}
               \* the built composite terms still evaluate to the arithmetic value
               evFail == { <<l, "eval", e[1], "none">> : e \in { ob.ev[j] : j \in DOMAIN ob.ev } \cap
                              { x \in { ob.ev[j] : j \in DOMAIN ob.ev } :
                                   Defined(pool, s.val, x[1]) /\ ~ObsVal(<<x[2], x[3], x[4]>>, Value(pool, s.val, x[1])) } }
               \* the Equation, judged on the valuation BEFORE apply_equation (which must not change it)
               L == Value(pool, val, o.a)  R == Value(pool, val, o.b)  e == EpsEff(o)  m == Met(o.c, L, R, e)
               B2I(x) == IF x THEN 1 ELSE 0
               eqFail == IF o.op # "eq" THEN {} ELSE IF ~(Defined(pool, val, o.a) /\ Defined(pool, val, o.b)) THEN {} ELSE
                    (IF ~ObsVal(ob.su, Surplus(o.c, L, R)) THEN {<<l, "eq_surplus", o.a, "none">>} ELSE {})
                 \cup (IF ~ObsVal(ob.sl, Slack(o.c, L, R)) THEN {<<l, "eq_slack", o.a, "none">>} ELSE {})
                 \cup (IF ob.met # B2I(m) THEN {<<l, "eq_met", o.a, "none">>} ELSE {})
                 \cup (IF ob.neq # NumGekkoEqs(o) \/ ob.gt # B2I(m) \/ ob.addn # NumGekkoEqs(o) \/ ob.addt # B2I(m)
                       THEN {<<l, "eq_gekko", o.a, "none">>} ELSE {})
                 \cup (IF ob.met2 # ob.met \/ ob.neq2 # ob.neq THEN {<<l, "eq_apply", o.a, "none">>} ELSE {})
               \* a stack discipline would give the value before the last assign
               stackDiff == IF o.op # "undo" THEN FALSE
                            ELSE IF Len(stk[o.a]) = 0 THEN FALSE ELSE stk[o.a][Len(stk[o.a])] # chk[o.a]
           IN /\ val' = s.val /\ chk' = s.chk /\ stk' = s.stk /\ home' = s.home /\ ngk' = s.ngk
              /\ ops' = Append(ops, o)
              /\ fails' = IF taint \/ ~refsBuilt THEN fails ELSE fails \cup opFail \cup (IF opFail = {} THEN evFail \cup eqFail ELSE {})
              /\ taint' = (taint \/ opFail # {} \/ ~refsBuilt)
              /\ drift' = IF ~taint /\ opFail = {} /\ stackDiff
                          THEN drift \cup {<<l, "undo_is_checkpoint_not_stack">>} ELSE drift
        /\ l' = l + 1 /\ UNCHANGED <<pool, ini, same, nb, phase, tid>>

Done == /\ l = Len(T.ops) + 1
        /\ l' = l + 1
        /\ PrintT(ToJson([tag |-> "VERDICT", id |-> T.id, fails |-> fails, drift |-> drift]))
        /\ UNCHANGED <<vars, tid, fails, drift, taint>>

TraceNext == Step \/ Done
TraceSpec == TraceInit /\ [][TraceNext]_tvars
=============================================================================
