\* C04: model checking of the round trip on every document of the universe
\* measured: quick universe: 2 379 documents (wide: <= 2 modules from 22 variants, <= 1 net; deep: 3 centre carriers from 5, <= 1 net of arity 2..3); 11 897 states; largest intermediate value < 2^31 by CMAX = 64, RES = 128 (see Fpef.tla, Derive)
SPECIFICATION Spec
CONSTANTS
  UNIVERSE = "quick"
  EMIT = FALSE
  DEFECTS = FALSE
INVARIANT InvLanguage
INVARIANT InvBuildWellFormed
INVARIANT InvReadIffWellFormed
INVARIANT InvWriteWellFormed
INVARIANT InvRoundTrip
INVARIANT InvRepeatable
INVARIANT InvReadKeeps
INVARIANT InvStog
CHECK_DEADLOCK FALSE
