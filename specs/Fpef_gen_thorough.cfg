\* C04 and C05: behaviour generation -- print every document of the universe
SPECIFICATION Spec
CONSTANTS
  UNIVERSE = "thorough"
  EMIT = TRUE
  DEFECTS = FALSE
CHECK_DEADLOCK FALSE
