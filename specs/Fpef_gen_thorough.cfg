\* C04 and C05: behaviour generation -- print every document of the universe
\* measured: 42 580 documents; largest intermediate value < 2^31 by CMAX = 64, RES = 128 (see Fpef.tla, Derive)
SPECIFICATION Spec
CONSTANTS
  UNIVERSE = "thorough"
  EMIT = TRUE
  DEFECTS = FALSE
CHECK_DEADLOCK FALSE
