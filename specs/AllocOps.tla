----------------------------- MODULE AllocOps -----------------------------
(***************************************************************************)
(* Value-level model of frame/allocation/allocation.py, free of constants, *)
(* shared by the model (Alloc.tla) and the trace specification             *)
(* (AllocTrace.tla).  Serves C02, C12 and (InitialRatio) C03.              *)
(*                                                                         *)
(* A cell is the tuple <<x1, y1, x2, y2, depth, fixed, ratios>>:           *)
(*   fixed  = 1 for the cell of a fixed module, else 0                     *)
(*   ratios = tuple indexed by module number; ratios[m] = -1 when module m *)
(*            is not in the cell's occupancy map, else the numerator of    *)
(*            its occupancy ratio over the common denominator `den`        *)
(* An allocation is a set of cells with pairwise disjoint rectangles.      *)
(***************************************************************************)
EXTENDS Geometry

CRect(c) == RectOf(c)
CDepth(c) == c[5]
CFixed(c) == c[6] = 1
CRat(c) == c[7]
Cell(r, d, f, rat) == <<r.x1, r.y1, r.x2, r.y2, d, f, rat>>
Rects(S) == { CRect(c) : c \in S }

ValidAlloc(S) == /\ \A c \in S : IsRect(CRect(c)) /\ CDepth(c) >= 0
                 /\ \A c \in S : \A d \in S : c # d => ~Overlaps(CRect(c), CRect(d))

NonEmpty(c) == \E m \in DOMAIN CRat(c) : CRat(c)[m] >= 0
\* no module of the cell exceeds the threshold tn/td   (ratio = num/den)
NoneAbove(c, tn, td, den) == \A m \in DOMAIN CRat(c) : CRat(c)[m] * td <= tn * den
\* cells chosen by threshold refinement: refinable (not fixed), non-empty, no module above the threshold
Selected(c, tn, td, den) == ~CFixed(c) /\ NonEmpty(c) /\ NoneAbove(c, tn, td, den)

(***************************************************************************)
(* Halving the longer side n times.  For a square either side may be       *)
(* halved (the statement says "the longer side"): HalveChoices gives the   *)
(* admissible first cuts, SplitAll(r, n) every admissible set of 2^n       *)
(* pieces; HalveN (Geometry) is the choice FRAME makes (ties cut the width)*)
(***************************************************************************)
HalveChoices(r) == IF W(r) > H(r) THEN {HalveX(r)}
                   ELSE IF H(r) > W(r) THEN {HalveY(r)} ELSE {HalveX(r), HalveY(r)}
RECURSIVE SplitAll(_, _)
SplitAll(r, n) == IF n = 0 THEN {{r}}
                  ELSE UNION { { A \cup B : A \in SplitAll(p[1], n - 1), B \in SplitAll(p[2], n - 1) } : p \in HalveChoices(r) }
\* enough divisibility for n exact halvings whatever the tie choices
RECURSIVE Halvable(_, _)
Halvable(r, n) == IF n = 0 THEN TRUE
                  ELSE /\ (W(r) >= H(r) => CanHalveX(r)) /\ (H(r) >= W(r) => CanHalveY(r))
                       /\ \A p \in HalveChoices(r) : Halvable(p[1], n - 1) /\ Halvable(p[2], n - 1)

Pieces(c, ps, levels) == { Cell(p, CDepth(c) + levels, c[6], CRat(c)) : p \in ps }

(***************************************************************************)
(* refine(threshold, levels)                                               *)
(***************************************************************************)
RefineResult(S, tn, td, den, levels) ==
  UNION { IF Selected(c, tn, td, den) THEN Pieces(c, HalveN(CRect(c), levels), levels) ELSE {c} : c \in S }
MustBeRefined(S, tn, td, den) == \E c \in S : Selected(c, tn, td, den)
RefineEnabled(S, tn, td, den, levels) == \A c \in S : Selected(c, tn, td, den) => Halvable(CRect(c), levels)

(***************************************************************************)
(* uniform_refinement_depth()                                              *)
(***************************************************************************)
MaxDepth(S) == Max({ CDepth(c) : c \in S })
UniformResult(S) ==
  LET mx == MaxDepth(S) IN
  UNION { IF CFixed(c) THEN {c} ELSE Pieces(c, HalveN(CRect(c), mx - CDepth(c)), mx - CDepth(c)) : c \in S }
UniformEnabled(S) == \A c \in S : ~CFixed(c) => Halvable(CRect(c), MaxDepth(S) - CDepth(c))

(***************************************************************************)
(* griddify(): cut every refinable cell at every boundary coordinate of    *)
(* the allocation, x cuts first (ascending), then y cuts; a cut is skipped *)
(* when it would leave a piece thinner than 1% of the piece's other side.  *)
(***************************************************************************)
CutCellsX(S, X) ==
  UNION { IF ~CFixed(c) /\ XCuttableImpl(CRect(c), X, 1, 100)
          THEN LET p == CutX(CRect(c), X) IN Pieces(c, {p[1], p[2]}, 1) ELSE {c} : c \in S }
CutCellsY(S, Y) ==
  UNION { IF ~CFixed(c) /\ YCuttableImpl(CRect(c), Y, 1, 100)
          THEN LET p == CutY(CRect(c), Y) IN Pieces(c, {p[1], p[2]}, 1) ELSE {c} : c \in S }
Interior(s) == IF Len(s) <= 2 THEN <<>> ELSE SubSeq(s, 2, Len(s) - 1)
GriddifyResult(S) ==
  LET xs == Interior(XCuts(Rects(S)))
      ys == Interior(YCuts(Rects(S)))
      S1 == FoldLeft(LAMBDA acc, X : CutCellsX(acc, X), S, xs)
  IN FoldLeft(LAMBDA acc, Y : CutCellsY(acc, Y), S1, ys)

(***************************************************************************)
(* C02: what every refinement operation must preserve                      *)
(***************************************************************************)
Mods(S) == UNION { DOMAIN CRat(c) : c \in S }
Num(c, m) == IF m \in DOMAIN CRat(c) /\ CRat(c)[m] > 0 THEN CRat(c)[m] ELSE 0
\* area, and first moments (doubled), allocated to module m -- all times `den`
ModArea(S, m) == FoldSet(LAMBDA c, acc : acc + Area(CRect(c)) * Num(c, m), 0, S)
ModMx(S, m) == FoldSet(LAMBDA c, acc : acc + Area(CRect(c)) * Num(c, m) * Cx2(CRect(c)), 0, S)
ModMy(S, m) == FoldSet(LAMBDA c, acc : acc + Area(CRect(c)) * Num(c, m) * Cy2(CRect(c)), 0, S)

SameTiling(before, after) == PairwiseDisjoint(Rects(after)) /\ Cardinality(Rects(after)) = Cardinality(after)
                             /\ SameRegion(Rects(before), Rects(after))
SameAreas(before, after) == \A m \in Mods(before) \cup Mods(after) : ModArea(after, m) = ModArea(before, m)
SameCentroids(before, after) == \A m \in Mods(before) \cup Mods(after) :
                                   ModMx(after, m) = ModMx(before, m) /\ ModMy(after, m) = ModMy(before, m)
\* every new cell lies in exactly one old cell and carries its occupancy map (and its fixed flag)
Parents(c, before) == { p \in before : Inside(CRect(c), CRect(p)) }
Inherits(before, after) == \A c \in after : /\ Cardinality(Parents(c, before)) = 1
                                            /\ \A p \in Parents(c, before) : CRat(c) = CRat(p) /\ c[6] = p[6]
FixedUncut(before, after) == \A c \in before : CFixed(c) => c \in after
Conserves(before, after) == /\ SameTiling(before, after) /\ SameAreas(before, after)
                            /\ SameCentroids(before, after) /\ Inherits(before, after) /\ FixedUncut(before, after)

(***************************************************************************)
(* C12: exactness of each operation, stated on (before, after)             *)
(***************************************************************************)
Within(after, c) == { d \in after : Inside(CRect(d), CRect(c)) }
\* threshold refinement: precisely the selected cells are split into 2^levels equal cells by halving the longer
\* side, depth raised by `levels`; every other cell is left as it was
RefineExact(before, after, tn, td, den, levels) ==
  /\ \A c \in before : ~Selected(c, tn, td, den) => c \in after /\ Within(after, c) = {c}
  /\ \A c \in before : Selected(c, tn, td, den) =>
        /\ Rects(Within(after, c)) \in SplitAll(CRect(c), levels)
        /\ \A d \in Within(after, c) : CDepth(d) = CDepth(c) + levels
  /\ \A d \in after : \E c \in before : d \in Within(after, c)
\* uniform depth: every refinable cell ends at the former maximum depth
UniformExact(before, after) == \A d \in after : ~CFixed(d) => CDepth(d) = MaxDepth(before)
\* grid refinement: no refinable cell is crossed by a boundary line of another cell, unless the cut would leave
\* a piece thinner than 1% of the other side of the cell it was cut from
Crossings(d, before, after) ==
  LET r == CRect(d)
      p == CHOOSE q \in before : Inside(r, CRect(q))
      lines == Rects(after \ {d})
  IN [ x |-> { X \in {s.x1 : s \in lines} \cup {s.x2 : s \in lines} :
                 StrictlyInX(r, X) /\ Mn(X - r.x1, r.x2 - X) * 100 > H(CRect(p)) },
       y |-> { Y \in {s.y1 : s \in lines} \cup {s.y2 : s \in lines} :
                 StrictlyInY(r, Y) /\ Mn(Y - r.y1, r.y2 - Y) * 100 > W(CRect(p)) } ]
Aligned(before, after) == \A d \in after : ~CFixed(d) /\ Parents(d, before) # {} =>
                             Crossings(d, before, after).x = {} /\ Crossings(d, before, after).y = {}

(***************************************************************************)
(* C03: the occupancy ratio a refinable cell must get for a module whose   *)
(* shape is the set of (pairwise disjoint) rectangles R: covered area over *)
(* cell area, as the pair <<numerator, denominator>>.                      *)
(***************************************************************************)
InitialRatio(cell, R) == << CoveredArea(cell, R), Area(cell) >>
=============================================================================
