\* NETGEN: batch judgement of observed runs (TRACE_FILE in the environment); the size constants are unused here
SPECIFICATION TraceSpec
CONSTANTS
  NMAX = 1
  GMAX = 1
  LMAX = 1
  EMIT = FALSE
CHECK_DEADLOCK FALSE
