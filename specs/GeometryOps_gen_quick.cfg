SPECIFICATION Spec
CONSTANTS
  N = 3
  K = 24
  EMIT = TRUE
CHECK_DEADLOCK FALSE
