\* C05: model checking of the derived quantities and of every defect injection on every document of the universe
\* measured: thorough universe: 42 580 documents and every injection of each; 2 244 712 states; largest intermediate value < 2^31 by CMAX = 64, RES = 128 (see Fpef.tla, Derive)
SPECIFICATION Spec
CONSTANTS
  UNIVERSE = "thorough"
  EMIT = FALSE
  DEFECTS = TRUE
INVARIANT InvLanguage
INVARIANT InvPointTerminals
INVARIANT InvBuildWellFormed
INVARIANT InvReadIffWellFormed
INVARIANT InvReadKeeps
INVARIANT InvDerived
INVARIANT InvCentroid
INVARIANT InvWireLength
INVARIANT InvDefectRejected
INVARIANT InvStog
CHECK_DEADLOCK FALSE
