\* C05: model checking of the derived quantities and of every defect injection on every document of the universe
SPECIFICATION Spec
CONSTANTS
  UNIVERSE = "thorough"
  EMIT = FALSE
  DEFECTS = TRUE
INVARIANT InvLanguage
INVARIANT InvBuildWellFormed
INVARIANT InvReadIffWellFormed
INVARIANT InvReadKeeps
INVARIANT InvDerived
INVARIANT InvCentroid
INVARIANT InvWireLength
INVARIANT InvDefectRejected
INVARIANT InvStog
CHECK_DEADLOCK FALSE
