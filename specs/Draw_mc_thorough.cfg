\* DRAW design-level check (thorough): 5 dies x widths {0,7,100,333} x heights {0,5,64} x frames {0,1,20}, <= 3 modules, <= 2 nets, names to 6 characters
SPECIFICATION Spec
CONSTANTS
  Dies <- DiesT
  Widths = {0, 7, 100, 333}
  Heights = {0, 5, 64}
  Frames = {0, 1, 20}
  Default = 1000
  ModuleCat <- CatQ
  MaxMods = 3
  MaxNets = 2
  Scenes <- ScenesAll
  NameAlphabet = {"a", ".", "/"}
  MaxName = 6
  EMIT = FALSE
INVARIANT LemmaRequested
INVARIANT LemmaAspect
INVARIANT LemmaDefault
INVARIANT LemmaCorners
INVARIANT LemmaInside
INVARIANT LemmaMonotone
INVARIANT LemmaAffine
INVARIANT LemmaBBox
INVARIANT LemmaPlot
INVARIANT LemmaStar
INVARIANT LemmaName
CHECK_DEADLOCK FALSE
