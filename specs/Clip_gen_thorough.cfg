\* behaviour generation: one case per (window, segment)
SPECIFICATION Spec
CONSTANTS
  N = 7
  WINDOWS <- ThoroughWindows
  DEFECTS = {}
  EMIT = TRUE
CHECK_DEADLOCK FALSE
