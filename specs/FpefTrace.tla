------------------------------ MODULE FpefTrace ------------------------------
(***************************************************************************)
(* C04 / C05, code -> spec: batch validation of what the real reader and   *)
(* writer did.  One TLC initial state per recorded trace (tid); the trace  *)
(* is a source document T.doc (abstract YAML tree of Fpef.tla, lattice     *)
(* integers) and a list of events observed on frame.netlist.Netlist:       *)
(*                                                                         *)
(*   load    Netlist(T.doc)          acc = 1 + obs  |  acc = 0 (it raised) *)
(*   save    n.write_yaml()          ok, yd = digest of the text,          *)
(*                                   parsed, y = the text parsed back into *)
(*                                   an abstract tree                      *)
(*   reload  Netlist(that text)      acc, obs                              *)
(*   resave  write_yaml() again      ok, yd, yd1 = digest of the first text*)
(*   freload / fresave               the same through FILES:               *)
(*           write_yaml(path), Netlist(path), write_yaml(path2)            *)
(*   defect  Netlist(T.doc + patch)  patch, acc                            *)
(*                                                                         *)
(* obs = the netlist seen through its public accessors, pulled back to the *)
(* lattice:  [mods |-> <<[name, kind, areas, total, center, aspect,        *)
(* rects]>>, nets |-> <<[pins, w, wl]>>, allrects, fixedrects, wl]         *)
(* (wl = round(100 * wire length in lattice units), -1 if undefined).      *)
(*                                                                         *)
(* Every event is consumed by the step that the specification's own action *)
(* takes (n' = Read(doc).n, y' = Write(n), ...), and judged on two levels: *)
(*   fails : PROPERTY CLAUSES of C04 / C05 that are false on the observed  *)
(*           values -- exactly the sentences of the statements             *)
(*   drift : the observation differs from the detailed model although the  *)
(*           clauses hold (order of rectangles, spelling chosen by the     *)
(*           writer, ...) -- never an accusation of the code               *)
(* The step never blocks (total verdicts); Done prints one VERDICT record. *)
(*                                                                         *)
(* InjectSpec is a second, one-step behaviour: for each document of the    *)
(* batch print Inject(doc), so that defects of harness-made (random,       *)
(* larger) documents come from the same single definition.                 *)
(***************************************************************************)
EXTENDS Fpef, IOUtils

Batch == JsonDeserialize(IOEnv.TRACE_FILE)

VARIABLES tid, l, fails, drift
tvars == <<vars, tid, l, fails, drift>>

T == Batch[tid]

TraceInit == /\ tid \in 1..Len(Batch) /\ l = 1 /\ fails = {} /\ drift = {}
             /\ phase = "build" /\ lvl = "trace" /\ doc = Batch[tid].doc
             /\ n = NoNetlist /\ y = NoDoc /\ n2 = NoNetlist /\ y2 = NoDoc /\ inj = NoPatch

\* the structural part of an observation, in the shape of the model's netlist
StripObs(o) == [mods |-> [i \in DOMAIN o.mods |->
                            [name |-> o.mods[i].name, kind |-> o.mods[i].kind, areas |-> o.mods[i].areas,
                             center |-> o.mods[i].center, aspect |-> o.mods[i].aspect, rects |-> o.mods[i].rects]],
                nets |-> [k \in DOMAIN o.nets |-> [pins |-> o.nets[k].pins, w |-> o.nets[k].w]]]

\* names of the clauses (records of booleans) that are false
Failed(cl) == {k \in DOMAIN cl : ~cl[k]}

(***************************************************************************)
(* C05 clauses on a loaded, well-formed document                           *)
(***************************************************************************)
\* member centres as the DEFINITION gives them
DefMods(d) == [i \in DOMAIN d.mods |-> [name |-> d.mods[i].name, center |-> DefCenter(d.mods[i])]]
DefNets(d) == [k \in DOMAIN d.nets |-> [pins |-> d.nets[k].pins,
                                        w |-> IF d.nets[k].w = <<>> THEN <<1, 1>> ELSE Frac(d.nets[k].w[1], d.nets[k].w[2])]]
WLJudgeable(d) == WLBounded(DefNets(d)) /\ \A k \in DOMAIN d.nets : WeightOK(DefNets(d)[k].w)
WLDefined(d) == \A k \in DOMAIN d.nets : NetDefined(DefMods(d), DefNets(d)[k])
DerivedClauses(d, o) ==
  IF Len(o.mods) # Len(d.mods) \/ Len(o.nets) # Len(d.nets)
  THEN [shape |-> FALSE]
  ELSE
  [shape |-> TRUE,
   \* module areas: sum of region areas, of rectangle areas for hard modules, zero for terminals
   area |-> \A i \in DOMAIN d.mods : o.mods[i].total = DefArea(d.mods[i]),
   \* centres: the area-weighted centroid of the rectangles when there are any
   centre |-> \A i \in DOMAIN d.mods : d.mods[i].rects.rs # <<>> => o.mods[i].center = Centroid(d.mods[i].rects.rs),
   \* the lists of all and of fixed rectangles
   rectangles |-> SameBag(o.allrects, DefAllRects(d)),
   fixed_rectangles |-> SameBag(o.fixedrects, DefFixedRects(d)),
   \* wire length: per net weight * sum of distances to the mean; the total is their sum
   wire_length |-> (WLJudgeable(d) /\ WLDefined(d)) =>
        /\ o.wl >= 0
        /\ \A k \in DOMAIN d.nets : o.nets[k].wl >= 0 /\
              InBracket(o.nets[k].wl, DefNets(d)[k].w[1], DefNets(d)[k].w[2], NetWL(DefMods(d), DefNets(d)[k]))
        /\ InBracket(o.wl, 1, WD, TotalWL(DefMods(d), DefNets(d)))]

(***************************************************************************)
(* C04 clauses: the design read back (o2) against the design written (o1)  *)
(***************************************************************************)
NetEq(a, b) == SameBag(a.pins, b.pins) /\ a.w = b.w
NetCount(s, x) == Cardinality({j \in DOMAIN s : NetEq(s[j], x)})
SameNets(s, t) == Len(s) = Len(t) /\ \A k \in DOMAIN s : NetCount(s, s[k]) = NetCount(t, s[k])
RoundTripClauses(o1, o2) ==
  IF [i \in DOMAIN o1.mods |-> o1.mods[i].name] # [i \in DOMAIN o2.mods |-> o2.mods[i].name]
  THEN [modules |-> FALSE]                                 \* the same modules in the same order
  ELSE
  [modules |-> TRUE,
   kind |-> \A i \in DOMAIN o1.mods : o1.mods[i].kind = o2.mods[i].kind,                   \* soft / hard / fixed / terminal / flippable
   areas |-> \A i \in DOMAIN o1.mods : SameBag(o1.mods[i].areas, o2.mods[i].areas),        \* per-region areas
   centre |-> \A i \in DOMAIN o1.mods : o1.mods[i].center = o2.mods[i].center,
   aspect |-> \A i \in DOMAIN o1.mods : o1.mods[i].aspect = o2.mods[i].aspect,
   rects |-> \A i \in DOMAIN o1.mods : SameBag(o1.mods[i].rects, o2.mods[i].rects),        \* rectangles with their regions
   nets |-> SameNets(o1.nets, o2.nets)]                                                    \* members and weights

FirstObsOK == Len(T.events) >= 1 /\ T.events[1].op = "load" /\ T.events[1].acc = 1

(***************************************************************************)
(* Steps                                                                   *)
(***************************************************************************)
E == T.events[l]
Tag(names) == {<<l, k>> : k \in names}

StepLoad ==
  LET wf == WellFormed(doc)  rd == Read(doc) IN
  /\ E.op = "load"
  /\ n' = rd.n /\ phase' = "loaded" /\ UNCHANGED <<lvl, doc, y, n2, y2, inj>>
  /\ IF ~InLanguage(doc) THEN fails' = fails /\ drift' = drift \cup Tag({"document_outside_modelled_language"})
     \* a terminal with rectangles is outside C05's universe (a terminal is a point): the load is not judged
     ELSE IF ~PointTerminals(doc) THEN fails' = fails /\ drift' = drift \cup Tag({"terminal_with_rectangles_not_judged_by_C05"})
     ELSE IF E.acc = 0
       THEN fails' = fails \cup (IF wf THEN Tag({"loads"}) ELSE {}) /\ drift' = drift
     ELSE IF ~wf
       THEN fails' = fails \cup Tag({"rejects"}) /\ drift' = drift
     ELSE /\ fails' = fails \cup Tag(Failed(DerivedClauses(doc, E.obs)))
          /\ drift' = drift
                \cup (IF StripObs(E.obs) = rd.n THEN {} ELSE Tag({"loaded_netlist_differs_from_model"}))
                \cup (IF WLJudgeable(doc) THEN {} ELSE Tag({"wire_length_not_judged"}))
                \cup (IF ~WLDefined(doc) /\ E.obs.wl # -1 THEN Tag({"wire_length_of_centreless_member"}) ELSE {})

StepSave ==
  /\ E.op = "save"
  /\ y' = Write(n) /\ phase' = "saved" /\ UNCHANGED <<lvl, doc, n, n2, y2, inj>>
  /\ fails' = fails \cup (IF E.ok = 1 THEN {} ELSE Tag({"write_raises"}))
  /\ drift' = drift \cup (IF E.ok = 1 /\ (E.parsed = 0 \/ E.y # Write(n)) THEN Tag({"written_tree_differs_from_model"}) ELSE {})

StepReload ==
  /\ E.op \in {"reload", "freload"}      \* freload: Netlist(path) of the FILE written by write_yaml(path)
  /\ n2' = Read(y).n /\ phase' = "reloaded" /\ UNCHANGED <<lvl, doc, n, y, y2, inj>>
  /\ IF E.acc = 0 THEN fails' = fails \cup Tag({"reload_rejected"}) /\ drift' = drift
     ELSE IF ~FirstObsOK THEN fails' = fails /\ drift' = drift \cup Tag({"no_first_observation"})
     ELSE /\ fails' = fails \cup Tag(Failed(RoundTripClauses(T.events[1].obs, E.obs)))
          /\ drift' = drift \cup (IF StripObs(E.obs) = Read(y).n THEN {} ELSE Tag({"reloaded_netlist_differs_from_model"}))

StepResave ==
  /\ E.op \in {"resave", "fresave"}      \* fresave: the two files compared byte for byte
  /\ y2' = Write(n2) /\ phase' = "resaved" /\ UNCHANGED <<lvl, doc, n, y, n2, inj>>
  \* writing is repeatable: the identical document (text digests compared)
  /\ fails' = fails \cup (IF E.ok = 1 /\ E.yd = E.yd1 THEN {} ELSE Tag({"repeatable"}))
  /\ drift' = drift

StepDefect ==
  LET d == ApplyPatch(T.doc, E.patch) IN
  /\ E.op = "defect"
  /\ doc' = d /\ inj' = E.patch /\ phase' = "defect" /\ UNCHANGED <<lvl, n, y, n2, y2>>
  /\ IF ~InLanguage(d) THEN fails' = fails /\ drift' = drift \cup Tag({"document_outside_modelled_language"})
     ELSE IF ~PointTerminals(d) THEN fails' = fails /\ drift' = drift \cup Tag({"terminal_with_rectangles_not_judged_by_C05"})
     ELSE IF WellFormed(d) \/ Read(d).ok THEN fails' = fails /\ drift' = drift \cup Tag({"patch_is_not_a_defect"})
     ELSE /\ fails' = fails \cup (IF E.acc = 1 THEN Tag({"rejects"}) ELSE {})
          /\ drift' = drift \cup (IF E.patch \in Inject(T.doc) THEN {} ELSE Tag({"patch_not_from_Inject"}))

Step == /\ l <= Len(T.events)
        /\ (StepLoad \/ StepSave \/ StepReload \/ StepResave \/ StepDefect)
        /\ l' = l + 1 /\ UNCHANGED tid

Done == /\ l = Len(T.events) + 1
        /\ l' = l + 1
        /\ PrintT(ToJson([tag |-> "VERDICT", id |-> T.id, fails |-> fails, drift |-> drift]))
        /\ UNCHANGED <<vars, tid, fails, drift>>

TraceNext == Step \/ Done
TraceSpec == TraceInit /\ [][TraceNext]_tvars

(***************************************************************************)
(* Injection service: print Inject(doc) for every document of the batch    *)
(***************************************************************************)
InjectNext == /\ l = 1 /\ l' = 2
              /\ PrintT(ToJson([tag |-> "PATCHES", id |-> T.id,
                                lang |-> B(InLanguage(T.doc) /\ PointTerminals(T.doc)), wf |-> B(WellFormed(T.doc)), ok |-> B(Read(T.doc).ok),
                                patches |-> SetToSeq(Inject(T.doc))]))
              /\ UNCHANGED <<vars, tid, fails, drift>>
InjectSpec == TraceInit /\ [][InjectNext]_tvars
=============================================================================
