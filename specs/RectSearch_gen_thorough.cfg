\* behaviour generation: one case per (grid, k) and per (grid, occupancy, k); includes all 3^9 occupancies of the 3x3 grid
SPECIFICATION Spec
CONSTANTS
  GRIDS <- ThoroughAllGrids
  SGRIDS <- ThoroughSolveGrids
  AGRIDS <- GenAllocGrids
  KMAX = 3
  DEN = 2
  OCCVALS = {0, 1, 2}
  FNUM = 100
  FDEN = 1
  RATIO = 2
  MODES = {"gen", "solve", "alloc"}
  BORDER = "grid"
  UNIT = 1
  EMIT = TRUE
CHECK_DEADLOCK FALSE
