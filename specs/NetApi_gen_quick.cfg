\* NETAPI: behaviour generation -- print every action sequence of length 3
SPECIFICATION Spec
CONSTANTS
  MAXLEN = 3
  EMIT = TRUE
  ASIS = FALSE
CHECK_DEADLOCK FALSE
