----------------------------- MODULE StropTrace -----------------------------
(***************************************************************************)
(* C15, code -> spec: batch validation of observations of                  *)
(*   Strop(matrix)                       (events of kind "grid")           *)
(*   strop_decomposition(vertices)       (events of kind "poly")           *)
(*                                                                         *)
(* grid event:  grid  = the 0/1 matrix handed in (list of rows, top first) *)
(*              insts2, insts3 = the same instances looked at again (after *)
(*                      str(instance); rectangles() a third time)          *)
(*              is    = Strop.is_strop                                     *)
(*              insts = every instance of instances(), each the list of    *)
(*                      its rectangles() as <<r1, r2, c1, c2>>             *)
(* poly event:  grid, xs, ys = the drawing the polygons were traced from    *)
(*                      (cells, x of the column lines left to right, y of  *)
(*                      the row lines TOP to bottom), lattice coordinates  *)
(*              calls = the distinct observations of                       *)
(*                      strop_decomposition on outlines of that drawing:   *)
(*                verts = the vertex list handed in, <<x, y>>              *)
(*                got   = 1 if rectangles were returned, 0 if the function *)
(*                        refused ("Polygon is not a STROP")               *)
(*                rects = the rectangles returned, <<x1, y1, x2, y2>>      *)
(*                ok, loaded = Module.has_stog and the module's rectangles *)
(*                        <<x1, y1, x2, y2, role>> after a Netlist loaded  *)
(*                        them as one module                               *)
(* Every event is consumed by the specification's own action AnalyseOn on  *)
(* the observed grid (trunks', inst' = what the specification computes);   *)
(* the clauses of the statement go to `fails`, differences from the        *)
(* specification's own outcome to `drift`.  Verdicts are total.            *)
(***************************************************************************)
EXTENDS Strop, IOUtils

Batch == JsonDeserialize(IOEnv.TRACE_FILE)

VARIABLES tid, l, fails, drift
tvars == <<svars, tid, l, fails, drift>>

T == Batch[tid]

TraceInit == /\ tid \in 1..Len(Batch) /\ l = 1 /\ fails = {} /\ drift = {}
             /\ pc = "draw" /\ nr = 1 /\ nc = 1 /\ pos = 0 /\ g = {} /\ trunks = {} /\ inst = {}

CellsOf(m) == { x \in (0..(Len(m) - 1)) \X (0..(Len(m[1]) - 1)) : m[x[1] + 1][x[2] + 1] = 1 }
\* a grid rectangle of the drawing in lattice coordinates
ToXY(q, xs, ys) == <<xs[q[3] + 1], ys[q[2] + 2], xs[q[4] + 2], ys[q[1] + 1]>>
CellArea2(x, xs, ys) == 2 * (xs[x[2] + 2] - xs[x[2] + 1]) * (ys[x[1] + 1] - ys[x[1] + 2])


\* fails / drift hold triples <<event, clause, call>> (call = 0 for grid events)
GridStep(e) ==
  LET cells == CellsOf(e.grid)  rows == Len(e.grid)  cols == Len(e.grid[1])
      cl == GridClauses(cells, rows, cols, e.is, e.insts)
  IN /\ AnalyseOn(cells, rows, cols)
     /\ g' = cells /\ nr' = rows /\ nc' = cols
     \* every instance looked at again (after str(instance); rectangles() once more) must show the same rectangles
     /\ fails' = fails \cup { <<l, c, 0>> : c \in { c \in GridClauseNames : ~cl[c] } }
                       \cup (IF e.insts2 = e.insts /\ e.insts3 = e.insts THEN {} ELSE { <<l, "second_look", 0>> })
     /\ drift' = IF Range(e.insts) = inst' /\ Len(e.insts) = Cardinality(inst') THEN drift
                 ELSE drift \cup { <<l, "instances", 0>> }

PolyClauseNames == {"exists", "area", "recognised"}
PolyStep(e) ==
  LET cells == CellsOf(e.grid)  rows == Len(e.grid)  cols == Len(e.grid[1])
      ex == B2I(Exists(cells, rows, cols))
      cl(o) == [ exists     |-> o.got = ex,
                 area       |-> o.got = 1 => ClPolyArea(o.verts, o.rects),
                 recognised |-> o.got = 1 => ClPolyRecognised(o.ok, o.loaded) ]
      area2 == FoldSet(LAMBDA x, acc : acc + CellArea2(x, e.xs, e.ys), 0, cells)
      \* machinery check: the vertex list really is an outline of the drawing
      traced(o) == Abs(Shoelace2(o.verts)) = area2
      \* model conformance: the rectangles are one of the specified instances, trunk first
      asModel(o) == \E I \in inst' : /\ Len(o.rects) >= 1
                                     /\ Range(o.rects) = { ToXY(I[k], e.xs, e.ys) : k \in DOMAIN I }
                                     /\ o.rects[1] = ToXY(I[1], e.xs, e.ys)
  IN /\ AnalyseOn(cells, rows, cols)
     /\ g' = cells /\ nr' = rows /\ nc' = cols
     /\ fails' = fails \cup UNION { { <<l, c, k>> : c \in { c \in PolyClauseNames : ~cl(e.calls[k])[c] } } : k \in DOMAIN e.calls }
     /\ drift' = drift \cup { <<l, "harness_tracing", k>> : k \in { k \in DOMAIN e.calls : ~traced(e.calls[k]) } }
                       \cup { <<l, "decomposition", k>> : k \in { k \in DOMAIN e.calls : e.calls[k].got = 1 /\ ~asModel(e.calls[k]) } }

Step == /\ l <= Len(T.events)
        /\ LET e == T.events[l] IN IF e.kind = "grid" THEN GridStep(e) ELSE PolyStep(e)
        /\ pc' = "analysed" /\ l' = l + 1 /\ UNCHANGED <<tid, pos>>

Done == /\ l = Len(T.events) + 1
        /\ l' = l + 1
        /\ PrintT(ToJson([tag |-> "VERDICT", id |-> T.id, fails |-> fails, drift |-> drift]))
        /\ UNCHANGED <<svars, tid, fails, drift>>

TraceNext == Step \/ Done
TraceSpec == TraceInit /\ [][TraceNext]_tvars
=============================================================================
