SPECIFICATION Spec
CONSTANTS
  DW = 3
  DH = 3
  OUT = 0
  MAXR = 1
  TAGS <- Tags2
  XS <- XSu0
  YS <- XSu0
  SPLITS <- SplitsQ
  GRIDS <- GridsQ
  EMIT = TRUE
CHECK_DEADLOCK FALSE
