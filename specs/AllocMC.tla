------------------------------ MODULE AllocMC ------------------------------
(* Constant values for the TLC configurations of Alloc.tla (cfg files cannot hold tuples). *)
EXTENDS Alloc
\* two modules, denominators of 4: empty map, full, half/half, quarter/three quarters, explicit zero entry
RV6 == { <<-1, -1>>, <<4, -1>>, <<2, 2>>, <<1, 3>>, <<0, 1>>, <<-1, 3>> }
RV4 == { <<-1, -1>>, <<2, 2>>, <<0, 1>>, <<4, -1>> }
RV3 == { <<-1, -1>>, <<2, 2>>, <<0, 1>> }
Thr2 == { <<1, 2>>, <<1, 1>> }
Owner == <<4, -1>>
ThrAll == { <<0, 1>>, <<1, 4>>, <<1, 2>>, <<3, 4>>, <<1, 1>> }
Thr3 == { <<1, 4>>, <<1, 2>>, <<1, 1>> }
=============================================================================
