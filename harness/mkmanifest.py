"""Regenerates /verif/MANIFEST.json from the registry below (run: /venv/bin/python -m harness.mkmanifest)."""
import json
import os

from .core import VERIF

TITLES = {}
for line in open(os.path.join(VERIF, "properties.jsonl")):
    p = json.loads(line)
    TITLES[p["id"]] = p["title"]

# id -> (technique, level text, level note, design ref, engine spec modules)
CLAIMED = {
    "C01": ("TLA+ spec Die (description universe + greedy cover state machine) model-checked by TLC; TLC-generated "
            "descriptions built as real Die objects under 10 float embeddings and 5 input forms; verdict and reported lists trace-validated by TLC (DieTrace)",
            "Every description (valid and invalid, incl. regions leaving the die) of the bounded universe is enumerated by TLC; "
            "accept <=> valid and exact tiling are TLC invariants of the model and TLC-evaluated clauses on every real observation; "
            "random larger guillotine dies with injected defects follow the same path.",
            "bounded universe (3x3 die, <=2 regions with margin, <=3 inside, sliver/1000:1 metrics in thorough; random to 12x12, 10 regions); "
            "floats sampled by 10 origin-0 embeddings (incl. 1e-6, 1e9 and the non-binary 1234567.8 step); the description is given as tree / numpy tree / YAML text / file / 'WxH' string; one netlist in four reaches its state through the API, one tree in five serves two dies; each fixed rectangle is its own fixed module",
            "DESIGN.md 4 (C01)", ["Geometry", "DieOps", "Die", "DieMC", "DieTrace"]),
    "C02": ("TLA+ spec Alloc/AllocOps (refine / uniform / griddify as actions, conservation as an ACTION property) model-checked by TLC; "
            "TLC-generated operation sequences replayed on real Allocation objects under 8 embeddings; every observed step trace-validated by TLC (AllocTrace)",
            "TLC proves on the bounded universe that every composition of the three refinement operations conserves tiling, per-module area and "
            "first moments, inheritance and leaves fixed cells uncut, and evaluates exactly these clauses (plus 'the call succeeded' and the "
            "area()/center() accessors) on every step observed on the real code.",
            "bounded universe (<=3 cells on 3x3, 4 occupancy maps, depths 0..1, sequences of 2 ops; random allocations to 8 cells / 3 modules / "
            "decimal ratios); 10 embeddings (incl. 1e-6 and the non-binary 1234567.8 step); recorded depths up to 17; allocations with a zero-area module are not constructible and skipped",
            "DESIGN.md 4 (C02)", ["Geometry", "AllocOps", "Alloc", "AllocMC", "AllocTrace"]),
    "C12": ("TLA+ spec Alloc/AllocOps (RefineExact / UniformExact / Aligned as ACTION properties, predicate/operation agreement as invariant) "
            "model-checked by TLC; behaviours replayed on real Allocation objects incl. the refine-while-needed loop; trace-validated by TLC (AllocTrace)",
            "TLC checks on the bounded universe that must_be_refined agrees with refine, that refine splits precisely the selected cells by longer-side "
            "halving with depth+levels, that uniform refinement reaches the former maximum depth on refinable cells and that griddify ends aligned, "
            "and evaluates the same clauses on every observed call and loop iteration of the real code.",
            "as C02; 'every cell at the former maximum depth' is stated over refinable cells (fixed cells are never cut, C02); the 1% sliver "
            "exception of griddify is taken relative to the cell the piece was cut from; tie of a square cell may be halved along either side",
            "DESIGN.md 4 (C12)", ["Geometry", "AllocOps", "Alloc", "AllocMC", "AllocTrace"]),
    "C03": ("TLA+ spec InitAlloc (die description x netlist x include-zero, Allocate = covered area / cell area) model-checked by TLC; "
            "TLC-generated cases built as real Die+Netlist under 7 embeddings; create_initial_allocation's result trace-validated by TLC "
            "(InitAllocTrace recomputes every ratio on the cells the real Die reported)",
            "Every ratio, listing and ownership of the returned allocation is recomputed by TLC from corner coordinates for every enumerated "
            "(die, netlist, option) and for random larger ones, on unrefined and split dies; the 'Hence' consequences are TLC invariants of the model.",
            "bounded universe (2x2 die, <=1 region, <=2 movable modules from all lattice rectangles / squares; random dies to 12x12, <=4 modules); "
            "9 embeddings; soft rectangles with region tags and with a declared area above what they cover, fixed modules of several rectangles, netlists reached through the API or built twice from one tree, hard modules moved in place and re-allocated; under inexact embeddings (and after an in-place move) a module sharing an edge with a cell may be listed with ratio 0 (last-bit overlap); "
            "completely blocked dies and dies/netlists rejected at load are outside",
            "DESIGN.md 4 (C03)", ["Geometry", "DieOps", "AllocOps", "InitAlloc", "InitAllocTrace"]),
    "C07": ("TLA+ specs SatLayer (allowed sets + specified CNF) and Robdd (isclause, constructrobdd with the shared store, Tseitin, "
            "quadratic/Heule, DPLL in TLA+) model-checked by TLC (Exact: Proj(cnf) = allowed over all histories of bounded universes); every "
            "history replayed as one freshly forked process on real SATManager objects; the real CNF projected onto the user variables with "
            "pysat under unit assumptions after every post; solve()/value()/evalexpr() read; all observations trace-validated by TLC (SatTrace)",
            "All clauses, implications, at-most-one groups (pairwise, Heule k=2..5, size 0..7, repeats/complements) and pseudo-Boolean "
            "inequalities (<=2 raw terms with zero/negative/repeated coefficients, ordered 3-term, 5 operators, both constructions) of the "
            "bounded universes, alone and after 1-3 earlier encodings in the same or other managers, are enumerated by TLC and judged by TLC "
            "against the real CNF's projection; random larger histories follow the same path.",
            "bounded universes (3 user variables, 7 for at-most-one; coefficients -2..3; <=3 posts); random to 7 variables / 7 terms / "
            "coefficients -9..12 / 3 interleaved managers; refusal = exception, permitted only for pb =,>,< and Heule k<3; store contents vs "
            "Robdd model are model conformance only; TLC coverage-based vacuity replaced by a check on the printed histories",
            "DESIGN.md 4 (C07)", ["PBExpr", "Robdd", "SatLayer", "SatTrace"]),
    "C08": ("TLA+ spec RectSearch model-checked by TLC (declarative k-STOG definition = constructive generation = model of enforce_bb's "
            "constraint system; solve loop sound, complete, ends on the optimum; negative run reproduces the border defect on the as-coded "
            "model); TLC-generated (grid,k) and (grid,occupancy,k,optimum) cases replayed on rect.solve in fresh processes under 8 float "
            "embeddings and through select_box; the complete projected model set of every generated CNF and every returned shape "
            "trace-validated by TLC (RectSearchTrace)",
            "Every k-STOG (k<=3, k<=4 on small grids) of every grid of a bounded universe (to 4x4; uniform, non-uniform, shifted and negative "
            "origins) is enumerated by TLC and the three characterisations are TLC invariants; for every occupancy in {0,1/2,1}^cells of grids "
            "up to 3x3 TLC computes the optimum, the real solver is driven across the sat/unsat boundary, and TLC judges the full model set "
            "(missing and spurious) and each returned shape; seeded random larger grids follow the same path.",
            "bounded grids (exhaustive to 4x4 shapes / 3x3 occupancies, random to 20 cells); floats sampled by 8 embeddings; minimum-error mode "
            "ratio 2, non-zero occupancy; carrier is a SimpleNamespace (Carrier() needs a Windows DLL), so main() and the greedy seed are not "
            "exercised; model enumeration capped at 40 000 per call (completeness skipped beyond)",
            "DESIGN.md 4 (C08)", ["RectSearch", "RectSearchTrace"]),
    "C09": ("TLA+ spec Legal (legality clauses from the statement + the legaliser's equation groups transcribed from legalfloor.py) "
            "model-checked by TLC: 'system met <=> legal' as an invariant over bounded universes, incl. an as-coded model that must fail; "
            "TLC-generated netlists with their legal / single-clause-violating configurations replayed on the real tools.legalfloor Model "
            "(no solve, slack annealed to 0, Equation.is_equation_met) under int + 5 float embeddings and two listing orders; answers "
            "trace-validated by TLC (LegalTrace); seeded random driver with larger dies and rational ratio limits",
            "Every netlist of the bounded universes (1-3 single-trunk-orthogon modules, trunk + <= 2 branches, soft/hard/fixed; dies 8x8, 9x8, "
            "10x10; ratio limits 2 and 3) and, per netlist, the input configuration and every single-edit neighbour that is legal or falsifies "
            "exactly one legality clause by >= 1 lattice unit is enumerated by TLC; 'all equations met <=> legal' is a TLC invariant of the "
            "transcribed system and is judged by TLC on every answer of the real equation objects; random larger cases follow the same path.",
            "bounded catalogues (exhaustive within them), random to 30x30 dies / 4 modules / 3 branches; floats sampled by 6 embeddings with unit "
            ">= 0.1 (the system's tolerances 1e-6, w,h >= 0.1 and tau are absolute: tiny dies outside the claim); observation = is_equation_met "
            "at epsilon 0 for all groups except radius / Exact Value (solver and GEKKO variable bounds not exercised); hard congruence = "
            "translation only; unambiguous STOGs only",
            "DESIGN.md 4 (C09)", ["Legal", "LegalTrace"]),
    "C10": ("TLA+ spec GlbFloor (InitAlloc/Optimize/Extract/Refine/Stop) model-checked by TLC with Optimize = any solution of the modelled "
            "constraints; TLC-generated parameter combinations expanded from the repository's glbfloor examples plus seeded random instances "
            "run through glbfloor under 7 embeddings, snapshots after every step trace-validated by TLC (GlbFloorTrace); TLC-enumerated "
            "solutions (mirrored ones included) replayed into the real extract_solution",
            "Every state glbfloor can return (after each optimisation, any max_iter) satisfies the clauses as TLC invariants of the "
            "step-contract model; every snapshot of real runs that return is judged by TLC (cells disjoint and in die, ratios in [0,1], "
            "capacity <= 1 within 1e-3, centres in die, fixed modules keep rectangles and fully own exactly their cells, hard modules "
            "congruent up to mirror); Extract is additionally bound exactly, spec to code, on every solution of small instances.",
            "runs where the optimiser does not return (GEKKO Solution Not Found, assertion while rebuilding; ~45-55 %) are outside the "
            "quantifier and counted in coverage.runs.no_result_by_cause; GEKKO never produced a mirrored solution, so the flip path is covered "
            "by the Extract replay only; thresholds 0.5-0.95, dies 2x3..4x4 grid squares; solver internals not modelled",
            "DESIGN.md 4 (C10), 6", ["Geometry", "AllocOps", "GlbFloor", "GlbFloorMC", "GlbFloorTrace"]),
    "C14": ("TLA+ spec Spectral (Seed/Normalize/Step/EndDim/EndTrial/Commit step contracts) model-checked by TLC; TLC-generated netlists plus "
            "seeded random ones run through Spectral.spectral_layout under 6 float scales; per-trial / per-normalize observations "
            "(harness-side wrappers) trace-validated by TLC (SpectralTrace)",
            "The contracts of every step of the spectral machine are TLC invariants on a quantised universe in which an iteration may return "
            "any vector; every observed normalize result, trial result and committed placement of real runs (connected netlists, >= 4 movable "
            "modules, discs that fit, trials 1-5, random seeds) is judged by TLC against them (disc in die, fixed unmoved, hard rigid, "
            "areas/nets equal to the input); an exception for an in-quantifier netlist is reported as clause `returns`.",
            "contract of a numeric optimiser, no prediction of convergence; observations quantised to 1e-6 die side (tolerance 2e-6); a sample "
            "of the normalize calls is judged; generated universe replayed as a seeded sample (260 quick / 3600 thorough) plus 90 / 1500 "
            "random netlists; terminals (zero area) excluded",
            "DESIGN.md 4 (C14), 6", ["Spectral", "SpectralMC", "SpectralTrace"]),
    "C11": ("TLA+ spec Die (split_refinable_regions as phase-1 step + one action per phase-2 iteration, initial_grid) model-checked by TLC; "
            "requests replayed on real Die objects under 7 embeddings; lists after every call trace-validated by TLC (DieTrace post-conditions)",
            "TLC checks count / parent+tag / per-parent tiling / aspect-ratio / untouched blockages+fixed as invariants of the modelled algorithm "
            "for every valid description of the bounded universe, and evaluates the same clauses on every observed call (single requests and "
            "two-step sequences, r in {1.42,1.5,1.75,2,3}, n <= 30).",
            "bounded universe (3x3 die, <=2 regions; random dies to 12x12); dies with no refinable region excluded; 10 embeddings; request histories on one die (no-op request, grid, refused request, then a request whose count is already met), one-cell grids",
            "DESIGN.md 4 (C11)", ["Geometry", "DieOps", "Die", "DieMC", "DieTrace"]),
    "C04": ("TLA+ spec Fpef (abstract FPEF document, assertion-shaped Read, intended Write) model-checked by TLC for Read(Write(n)) = n and "
            "repeatable Write; TLC-generated and seeded random documents loaded, written, reloaded and rewritten by frame.netlist.Netlist "
            "under 8 float embeddings; both netlists observed through the public accessors and judged clause by clause by TLC (FpefTrace)",
            "Every document of a bounded universe (every module kind x area form x centre x aspect ratio x rectangle lists with regions, nets "
            "of arity 2-4 and several weights) is enumerated by TLC, the round-trip and repeatability laws are TLC invariants of the model, and "
            "each real write/read/write is judged by TLC against the statement's clauses; random larger documents follow the same path.",
            "bounded universe (<= 2 modules from 22/58 variants, <= 4 centre carriers; random to 6 modules, 4 rectangles, 5 nets); floats sampled "
            "by 8 embeddings; rectangle/pin/net order is model conformance only; thorough replays a seeded sample of the enumerated documents",
            "DESIGN.md 4 (C04)", ["Geometry", "Fpef", "FpefTrace"]),
    "C05": ("TLA+ spec Fpef: declarative WellFormed vs assertion-shaped Read, Derive (exact fractions, integer-square-root wire-length interval), "
            "Inject (11 defect classes x positions x variants) model-checked by TLC; documents and every injection replayed on "
            "frame.netlist.Netlist under 8 float embeddings; observations and accept/reject verdicts judged by TLC (FpefTrace)",
            "TLC enumerates every well-formed document of a bounded universe and every single-defect injection of it, proves on the model that "
            "acceptance = well-formedness and that the derived quantities meet their definitions, and judges each real load (areas, centroids, "
            "all/fixed rectangle lists, wire length within an integer-square-root bracket) and each real rejection; random larger documents get "
            "their injections from the same Inject definition.",
            "bounded universe as C04 (2.2 M states thorough); wire length judged to about 0.03 lattice units per pin; identifier validity "
            "modelled by a fixed list of invalid spellings; a refused well-formed document is reported as clause `loads`; floats sampled by 8 embeddings",
            "DESIGN.md 4 (C05)", ["Geometry", "Fpef", "FpefTrace"]),
    "C06": ("TLA+ spec Stog (declarative STOG definition + transcription of create_stog/find_location + list-editing state machine) "
            "model-checked by TLC; every TLC-emitted multiset replayed in every order on create_stog, Netlist and Module.create_stog under 8 "
            "float embeddings, fresh and with stale roles; every observed call trace-validated by TLC (StogTrace)",
            "TLC enumerates every list (all orders, repetitions, histories) of rectangles of a bounded lattice and proves each clause for the "
            "specified algorithm; every multiset is run on the real code in every order and each observed call (report, order, roles, object "
            "identity) is judged by TLC against the statement's clauses; random larger orthogons and near misses follow the same path.",
            "bounded: 3x3 lattice <=3 rectangles, 3x2 <=4, 4x4 <=2 exhaustive; random to 8 rectangles on 40x40; floats sampled by 8 embeddings "
            "(lists of 4: 2 embeddings per order); 'every other rectangle' read position-wise; which of two valid trunks is chosen is model conformance only",
            "DESIGN.md 4 (C06)", ["Geometry", "Stog", "StogTrace"]),
    "C13": ("TLA+ contract spec Force (per-iteration move <= temperature then clamp, fixed skipped, nothing else written; first-minimum scan over "
            "12 spring constants) model-checked by TLC; TLC-generated inputs and seeded random netlists run through fruchterman_reingold_layout / "
            "force_algorithm with harness-side wrappers (plot stub, layout wrapper); observations trace-validated by TLC (ForceTrace)",
            "TLC proves that every behaviour of the iteration contract keeps fixed modules in place and all centres in the die, and that the scan "
            "returns a minimal-cost candidate; every observed execution (per-iteration centres, returned netlist, the 12 tried layouts with the "
            "library's own costs) is checked by TLC to be a behaviour of the contract and to satisfy fixed-unmoved, in-die, finite, "
            "only-centres-changed, determinism and best-of.",
            "contract model, the force computation itself is not predicted; per-iteration conformance is reported as model drift, property clauses "
            "apply to returned netlists; 'not moved' to 1e-9 of the die size; determinism checked on two executions in one process; each case under "
            "2 of 7 origin-0 embeddings; inputs restricted to netlists with at least one module with area and fixed rectangles inside the die",
            "DESIGN.md 4 (C13)", ["Force", "ForceTrace"]),
    "C15": ("TLA+ spec Strop (exact-cover declarative definition, shadow characterisation, pass-by-pass model of Strop/StropInstance) "
            "model-checked by TLC; every TLC-drawn grid run through Strop(matrix) and, as traced vertex lists, through strop_decomposition + "
            "Netlist under 8 float embeddings; observations trace-validated by TLC (StropTrace, recognition clauses from Stog)",
            "TLC draws every 0/1 grid up to the bound and proves declarative = shadow = specified algorithm and partition/abutment of every "
            "instance; the real is_strop and every offered instance, and the rectangles of strop_decomposition (area by shoelace, recognition "
            "after loading as a module), are judged by TLC for every enumerated grid / simple polygon and for random grids to 8x8.",
            "grids exhaustive to 16 cells (sides <=5; quick 12 cells, sides <=4), random to 8x8; polygons = outlines of enumerated grids <=12 "
            "cells and of random grids, both orientations, Point and numpy vertices, 8 embeddings; a refusal assertion counts as 'no "
            "decomposition'; 'trunk first' = any valid trunk first after loading",
            "DESIGN.md 4 (C15)", ["Geometry", "Stog", "Strop", "StropTrace"]),
    "C16": ("TLA+ spec PBExpr (normal-form arithmetic of Literal/Term/Expr/Ineq next to truth tables computed from the build history) "
            "model-checked by TLC over every normal form of a bounded box; every TLC state x every operation replayed on the real classes "
            "under 4 spellings; results and operands read back through Expr.c/.t and Ineq.lhs/rhs/op and trace-validated by TLC "
            "(PBExprTrace); seeded random long builds",
            "Every normal form of the box with every +, -, integer *, nested expression and all five comparisons is enumerated by TLC with the "
            "property as invariants; each real result is judged by TLC under every assignment (value, positive coefficients, one entry per "
            "variable, inequality <=> direct comparison, operands unchanged).",
            "bounded: 2 variables (quick) / 3 (thorough), |c|<=3, coefficients <=3; random to 5 variables, coefficients +-60, 36 steps; int "
            "operands only; operator forms Python itself rejects are not generated; dictionary order is model conformance only",
            "DESIGN.md 4 (C16)", ["PBExpr", "PBExprTrace"]),
    "C17": ("TLA+ spec Disc (integer case analysis on (r1,r2,D2), Heron margin of the acos domain, exact k*pi values, closed forms, Lipschitz "
            "enclosure, sweep properties) model-checked by TLC; TLC-generated lattice offsets evaluated on circle_circle_intersection_area in both "
            "argument orders under 8 float embeddings x +-3 ulp shifts; observed sweeps trace-validated by TLC (DiscTrace)",
            "Every pair of radii 1..12 with every centre offset of a 25x25 lattice is enumerated by TLC; case partition, branch conditions, "
            "acos-domain margin, exact values and enclosure consistency are TLC invariants; every real result (8 embeddings, -3..+3 ulp around "
            "each lattice point, both argument orders) is judged by TLC for totality, symmetry, both bounds, exact/closed-form values, "
            "monotonicity, chord bound and boundary continuity; random sweeps to radius 40 follow the same path.",
            "accuracy of the lens formula at generic interior points is NOT decided (no acos in TLC; only an integer Lipschitz enclosure, "
            "monotonicity and the drop bound there); floats sampled, not enumerated; tolerances 1e-5*rmax^2 (accuracy), 1e-6*rmax^2 (symmetry, bounds)",
            "DESIGN.md 4 (C17), 6", ["Disc", "DiscTrace"]),
    "C18": ("TLA+ spec GeometryOps model-checked by TLC; TLC-generated cases replayed on Rectangle under 8 float "
            "embeddings; observed results trace-validated by TLC (GeometryTrace)",
            "Every operand pair / single rectangle of a bounded lattice with every public operation and argument is "
            "enumerated by TLC, the geometric laws are TLC invariants, and each real result is judged by TLC against "
            "the specification; random larger cases follow the same path.",
            "bounded lattice (4x4 exhaustive, random to 60x60); floats sampled by 10 embeddings; touching also under a stated coarse tolerance, containment also against the objects' own corner coordinates, cuttable with fraction 0 / default on 100:1 rectangles, live objects moved in place; the open sliver band of "
            "x/y_cuttable and last-bit ties of exact comparisons under inexact embeddings are left free as the statement does",
            "DESIGN.md 4 (C18)", ["Geometry", "GeometryOps", "GeometryTrace"]),
    "C19": ("TLA+ spec Docs (abstract objects, documents and readers for DIEF / allocation / FPEF, generator topologies with Defined, FloorSet "
            "conversion, rect and legaliser netlists; one action per producer) model-checked by TLC; every TLC-emitted object produced twice by "
            "the real producer and read back by the real reader under float embeddings; observations trace-validated by TLC (DocsTrace)",
            "TLC enumerates every object of a bounded universe per producer and proves accepted / same design / repeat for the intended writers "
            "and acceptance = Defined for the generator; each object is written twice by the real die and allocation writers, netgen, the "
            "FloorSet converter, rect_io and the legaliser, read back by the real reader, and TLC judges acceptance, field-by-field equality, "
            "the object being unaltered and the two documents being identical; random larger objects follow the same path.",
            "bounded: dies 4x3 with <= 2 regions, allocations of <= 3 cells (before / after refine, griddify, uniform), generator sizes to 8 "
            "(grid 4x4, h-tree 3; random to 40 / 8x8 / 4), FloorSet instances of <= 2 blocks (random to 5), netlists of <= 3 modules (random to "
            "6); 2-3 float embeddings per object; numbers compared at 1/1000 lattice unit; legaliser models unsolved; region tags of module "
            "rectangles and listing order are model conformance only; known finding: the legaliser drops flip",
            "DESIGN.md 4 (C19)", ["Docs", "DocsTrace"]),
    "C20": ("TLA+ spec Process (process-wide registers: Rectangle tolerance, ROBDD store, legaliser globals; one action per library "
            "operation) model-checked by TLC; TLC-generated histories executed in forked interpreters; digests and register logs "
            "trace-validated by TLC (ProcessTrace)",
            "TLC proves NoLeak / EpsSetOnce / EpsOwnerIsFirstLoader on the register model for every history of length <= 3 over 7 operation "
            "kinds x 5 scales, and every executed history (TLC-enumerated sample + random longer ones) is compared with the probe run alone "
            "in a fresh fork: same canonical digest of the observable result for 7 probe kinds (netlist load incl. rejected ones, die "
            "decomposition+split, allocation refinement, STOG recognition, SAT encoding projection, legaliser equation vector, STROP).",
            "conservative reading of the factor-1000 band (every dimension pair); the result digest covers verdicts, numbers (exact repr), "
            "region/cell sets, roles, CNF projection, equation-met vector; history kinds incl. undefine_epsilon, pads-only netlists, create_initial_allocation, refused operations and a whole tools/rect run; designs given as trees and as YAML texts (one history text in four with a %YAML 1.1 directive); the written documents are part of the digest; fresh interpreter = forked child of a parent that imported but never used FRAME",
            "DESIGN.md 4 (C20)", ["Process", "ProcessTrace"]),
}

EXTRA = [
    ("PIPELINE", ["C19", "C13", "C14", "C10"], "TLA+ spec Pipeline: documents in flight between netgen -> spectral -> force -> glbfloor, stage "
     "contracts model-checked by TLC; TLC-generated flows executed with the real stage entry points and trace-validated (PipelineTrace)"),
    ("USCS", ["C19", "C05"], "TLA+ spec Uscs: bookshelf benchmark parser tools/uscs_parser (render -> parse -> FPEF round trip) model-checked "
     "by TLC and bound to the real parser + Netlist (UscsTrace)"),
    ("VERIFIER", ["C09"], "TLA+ spec Verifier: the stand-alone floorplan verifier tools/verifier judged against Legal!Clauses"),
    ("LEGALPOST", ["C09"], "TLA+ spec LegalPost: legaliser post-processing turn_off_rects / fuse_rects contracts"),
    ("KK", ["C13"], "TLA+ spec KamadaKawai: step contract of the Kamada-Kawai relocation stage (graph distances exact)"),
    ("NETGEN", ["C19"], "TLA+ spec Netgen: the expected design of every generator command line (names, unit areas, net graph, grid centres; "
     "classes nonsense / degenerate / defined) model-checked for structural lemmas; netgen.main run twice per command line and judged by TLC"),
    ("FORCETOOL", ["C13", "C19"], "TLA+ spec ForceTool (EXTENDS Pipeline): the force stage as a state machine ParseArgs -> Load -> AddNoise -> "
     "BuildModel -> SolveKK -> Extract -> ForceAlgorithm -> Write with frame conditions and the gekko_common Model contract; force.main run on files"),
    ("CANVAS", ["C08"], "TLA+ specs Clip (the Cohen-Sutherland clipping loop of tools/rect/canvas.py transcribed action by action, exact rationals; "
     "clipped segment = segment /\\ window) and CanvasOps (coordinate map, colour helpers); Canvas.line / interpolate / rgb / color_mix judged by TLC"),
    ("DRAW", ["C19"], "TLA+ spec Draw: tools/draw scaling (aspect, default, frame fit), affine y-flipped pixel map with round-half-even, bounding "
     "box, pin/hub points, output name, drawing order; get_floorplan_plot observed through a recording ImageDraw stub and judged by TLC"),
    ("FLOORSET", ["C15", "C19"], "TLA+ spec FloorSet: a FloorSet instance (blocks, pins, b2b/p2b connections, density) and the FPEF/DIEF design "
     "its converter must produce (kinds, areas, terminals in both modes, nets, density-scaled weights, die); FloorSetInstance run and judged by TLC"),
    ("UTILS", ["C04", "C05", "C19"], "TLA+ spec Utils: strings as sequences of character classes; identifier grammar, Python float-literal grammar and "
     "read_yaml's text-vs-file rule as per-character state machines checked against declarative grammars; frame.utils functions judged by TLC"),
    ("EXPRTREE", ["C09"], "TLA+ spec ExprTree: the legaliser's expression trees and equations (exact rationals; Build / Assign / Undo / Rehome / "
     "MakeEquation; evaluate = get_gekko_expression; checkpoint semantics of undo; Cmp / epsilon semantics of surplus, slack, is_equation_met)"),
    ("NETAPI", ["C04", "C05", "C13"], "TLA+ spec NetApi: the loaded Netlist/Module as a mutable object: mutators, cached views, coherence"),
]

NOT_YET = "check not built yet in this round (planned, see DESIGN.md section 4); no claim is made"


def main():
    checks = []
    for pid in sorted(CLAIMED):
        tech, text, note, ref, _mods = CLAIMED[pid]
        checks.append({
            "property_id": pid,
            "quick_cmd": f"bin/check {pid} --tier quick",
            "thorough_cmd": f"bin/check {pid} --tier thorough",
            "evidence_file": f"evidence/{pid}.json",
            "replay_cmd_template": f"bin/check {pid} --replay {{path}}",
            "engine": "tlc",
            "level_claimed": {"category": "model_checking", "text": text, "design_ref": ref},
            "level_note": note,
            "technique": tech,
        })
    na = [{"property_id": pid, "reason": NOT_YET} for pid in sorted(TITLES) if pid not in CLAIMED]
    man = {
        "version": 1,
        "setup_cmd": "bin/setup",
        "hooks": {
            "guard": "FRAME_VERIF",
            "enable": "no source hooks: checks observe /repo's working tree through its public API with harness-side "
                      "wrappers; bin/check exports FRAME_VERIF=1 for future guarded hooks",
            "baseline_off_cmd": "cd /repo && env -u FRAME_VERIF /venv/bin/python -m pytest -ra -q -p no:cacheprovider "
                                "--timeout=900 --continue-on-collection-errors",
            "source_commits": [],
            "add_only": True,
        },
        "engines": [
            {"name": "tlc", "path": "/usr/local/bin/tlc",
             "serves_properties": sorted(CLAIMED),
             "kind_free_text": "TLC 1.8 model checker: exhaustive bounded model checking of the TLA+ specs in specs/, "
                               "behaviour generation, and batch trace validation of observations of the real code"},
        ] + [
            {"name": name, "path": f"harness/drivers/{name.lower()}.py", "serves_properties": serves,
             "kind_free_text": "extra engine beyond the 20 listed properties (run: bin/check " + name + "; evidence/" + name + ".json): " + text}
            for (name, serves, text) in EXTRA if os.path.exists(os.path.join(VERIF, "harness", "drivers", name.lower() + ".py"))
        ] + [
            {"name": "tlapm", "path": "/usr/local/bin/tlapm", "serves_properties": ["C18"],
             "kind_free_text": "TLAPS proofs of the cut/halving lemmas of Geometry.tla (specs/proofs/GeometryProofs.tla, 23 obligations), "
                               "run by the C18 thorough tier as an extra"},
        ],
        "checks": checks,
        "not_applicable": na,
        "notes": "Every check is `bin/check <ID>`; TLA+ specifications are in specs/, the conformance harness in harness/. "
                 "Known findings: known_findings.json. See DESIGN.md.",
    }
    with open(os.path.join(VERIF, "MANIFEST.json"), "w") as f:
        json.dump(man, f, indent=1)
    print(f"MANIFEST.json: {len(checks)} checks, {len(na)} not_applicable")


if __name__ == "__main__":
    main()
